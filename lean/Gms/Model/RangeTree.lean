/-
Impl model of sql/range_tree.go (`MySQLRangeColumnExprTree`): the augmented red-black interval
tree with parent pointers and nested per-column trees, transliterated statement by statement
over an explicit heap (`pointer mutation becomes state passing`; a node / tree pointer is an index
into `Heap.nodes` / `Heap.trees`, `none` is `nil`). A nil dereference (Go panic) is `failure`.
Go loops and the recursion of `insertBalance` / `removeBalance` take fuel.

The model keeps the code's defects: `MaxUpperbound` is not recomputed from the left subtree and
the node's own bound in `rotateLeft`, in `remove` (predecessor copy, upward propagation), so
`FindConnections` can prune a subtree that contains a connected range.

No theorem is proved about this file; it is tied to the real tree by exact correspondence (shape
dumps after every operation). The theorems of C46 are about `Gms.Range.removeOverlappingRanges`
for *every* `TreeOps` satisfying the set hypotheses (`Gms.C46.TreeSet`).
-/
import Gms.Model.Range

namespace Gms.RangeTree
open Gms.Range

structure Node where
  lo : Cut
  hi : Cut
  maxHi : Cut
  inner : Option Nat := none
  parent : Option Nat := none
  left : Option Nat := none
  right : Option Nat := none
  red : Bool := false
  deriving Repr, Inhabited

structure TreeH where
  root : Option Nat
  size : Int
  deriving Repr, Inhabited

structure Heap where
  nodes : Array Node := #[]
  trees : Array TreeH := #[]
  deriving Repr, Inhabited

abbrev M := StateT Heap Option

def getN (i : Nat) : M Node := do
  match (← get).nodes[i]? with
  | some n => pure n
  | none => failure

def modN (i : Nat) (f : Node → Node) : M Unit :=
  modify fun h => { h with nodes := h.nodes.modify i f }

def getT (i : Nat) : M TreeH := do
  match (← get).trees[i]? with
  | some t => pure t
  | none => failure

def modT (i : Nat) (f : TreeH → TreeH) : M Unit :=
  modify fun h => { h with trees := h.trees.modify i f }

def allocN (n : Node) : M Nat := do
  let h ← get
  set { h with nodes := h.nodes.push n }
  pure h.nodes.size

def allocT (t : TreeH) : M Nat := do
  let h ← get
  set { h with trees := h.trees.push t }
  pure h.trees.size

/-- Dereference of a possibly nil pointer (nil ⇒ Go panic). -/
def deref (p : Option Nat) : M Nat :=
  match p with
  | some i => pure i
  | none => failure

def andM (a b : M Bool) : M Bool := do if (← a) then b else pure false

/-- Go: `nodeColor()` (nil-safe): `true` = red. -/
def isRed (p : Option Nat) : M Bool :=
  match p with
  | none => pure false
  | some i => do pure (← getN i).red

def isBlack (p : Option Nat) : M Bool := do pure (!(← isRed p))

def setRed (i : Nat) (r : Bool) : M Unit := modN i fun n => { n with red := r }

/-- Go: `NewMySQLRangeColumnExprTree(cols, types)`; `none` for zero columns (the callers in
`insert` pass nil then). -/
def newTree : Range → M (Option Nat)
  | [] => pure none
  | c :: cs => do
    let inner ← newTree cs
    let n ← allocN { lo := c.lo, hi := c.hi, maxHi := c.hi, inner := inner }
    let t ← allocT { root := some n, size := 1 }
    pure (some t)

/-- Go: `replaceNode(old, new)`. -/
def replaceNode (tid old : Nat) (new : Option Nat) : M Unit := do
  let o ← getN old
  match o.parent with
  | none => modT tid fun t => { t with root := new }
  | some p =>
    let pn ← getN p
    if pn.left == some old then modN p fun n => { n with left := new }
    else modN p fun n => { n with right := new }
  match new with
  | some nw => modN nw fun n => { n with parent := o.parent }
  | none => pure ()

/-- Go: `rotateLeft(node)`. -/
def rotateLeft (tid node : Nat) : M Unit := do
  let right := (← getN node).right
  replaceNode tid node right
  let r ← deref right
  let rl := (← getN r).left
  modN node fun n => { n with right := rl }
  match rl with
  | some x => modN x fun n => { n with parent := some node }
  | none => pure ()
  modN r fun n => { n with left := some node }
  modN node fun n => { n with parent := some r }
  let nd ← getN node
  match nd.right with
  | none => modN node fun n => { n with maxHi := n.hi }
  | some x =>
    let m := (← getN x).maxHi
    modN node fun n => { n with maxHi := m }

/-- Go: `rotateRight(node)`. -/
def rotateRight (tid node : Nat) : M Unit := do
  let left := (← getN node).left
  replaceNode tid node left
  let l ← deref left
  let lr := (← getN l).right
  modN node fun n => { n with left := lr }
  match lr with
  | some x => modN x fun n => { n with parent := some node }
  | none => pure ()
  modN l fun n => { n with right := some node }
  modN node fun n => { n with parent := some l }
  let m := (← getN node).maxHi
  modN l fun n => { n with maxHi := m }

/-- Go: `sibling()`. -/
def sibling (node : Nat) : M (Option Nat) := do
  let n ← getN node
  match n.parent with
  | none => pure none
  | some p =>
    let pn ← getN p
    if pn.left == some node then pure pn.right else pure pn.left

/-- Go: `grandparent()`. -/
def grandparent (node : Nat) : M (Option Nat) := do
  match (← getN node).parent with
  | none => pure none
  | some p => pure (← getN p).parent

/-- Go: `uncle()`. -/
def uncle (node : Nat) : M (Option Nat) := do
  match (← getN node).parent with
  | none => pure none
  | some p =>
    match (← getN p).parent with
    | none => pure none
    | some _ => sibling p

/-- `node == node.Parent.Left` (parent known non-nil, else panic). -/
def isLeftChild (node : Nat) : M Bool := do
  let p ← deref (← getN node).parent
  pure ((← getN p).left == some node)

def isRightChild (node : Nat) : M Bool := do
  let p ← deref (← getN node).parent
  pure ((← getN p).right == some node)

/-- Go: `insertBalance(node)`. -/
def insertBalance : Nat → Nat → Nat → M Unit
  | 0, _, _ => failure
  | fuel + 1, tid, node => do
    let n ← getN node
    match n.parent with
    | none => setRed node false
    | some par =>
      if ← isBlack (some par) then pure ()
      else
        let unc ← uncle node
        if ← isRed unc then
          setRed par false
          setRed (← deref unc) false
          let gp ← deref (← grandparent node)
          setRed gp true
          insertBalance fuel tid gp
        else
          let gp ← grandparent node
          let mut node := node
          let p0 ← deref (← getN node).parent
          -- `node.Parent == grandparent.Left` dereferences grandparent (only when evaluated)
          let gpLeftIs : M Bool := do pure ((← getN (← deref gp)).left == some p0)
          let gpRightIs : M Bool := do pure ((← getN (← deref gp)).right == some p0)
          if ← andM (isRightChild node) gpLeftIs then
            rotateLeft tid p0
            node ← deref (← getN node).left
          else if ← andM (isLeftChild node) gpRightIs then
            rotateRight tid p0
            node ← deref (← getN node).right
          let p1 ← deref (← getN node).parent
          setRed p1 false
          let gp2 ← deref (← grandparent node)
          setRed gp2 true
          let p2 ← deref (← getN node).parent
          if (← getN p2).left == some node && (← getN gp2).left == some p2 then
            rotateRight tid gp2
          else if (← getN p2).right == some node && (← getN gp2).right == some p2 then
            rotateLeft tid gp2

/-- `sibling.Left.nodeColor()`: dereferences `sibling`. -/
def sibLeftRed (s : Option Nat) : M Bool := do isRed (← getN (← deref s)).left
def sibRightRed (s : Option Nat) : M Bool := do isRed (← getN (← deref s)).right
def notM (a : M Bool) : M Bool := do pure (!(← a))

/-- Go: `removeBalance(node)`. -/
def removeBalance : Nat → Nat → Nat → M Unit
  | 0, _, _ => failure
  | fuel + 1, tid, node => do
    match (← getN node).parent with
    | none => pure ()
    | some _ =>
      let sib ← sibling node
      if ← isRed sib then
        let p ← deref (← getN node).parent
        setRed p true
        setRed (← deref sib) false
        if ← isLeftChild node then rotateLeft tid p else rotateRight tid p
      let sib ← sibling node
      let p ← deref (← getN node).parent
      if ← andM (isBlack (some p)) (andM (isBlack sib) (andM (notM (sibLeftRed sib)) (notM (sibRightRed sib)))) then
        setRed (← deref sib) true
        removeBalance fuel tid p
      else
        let sib ← sibling node
        if ← andM (isRed (some p)) (andM (isBlack sib) (andM (notM (sibLeftRed sib)) (notM (sibRightRed sib)))) then
          setRed (← deref sib) true
          setRed p false
        else
          let sib ← sibling node
          if ← andM (isLeftChild node) (andM (isBlack sib) (andM (sibLeftRed sib) (notM (sibRightRed sib)))) then
            let s ← deref sib
            setRed s true
            setRed (← deref (← getN s).left) false
            rotateRight tid s
          else if ← andM (isRightChild node) (andM (isBlack sib) (andM (sibRightRed sib) (notM (sibLeftRed sib)))) then
            let s ← deref sib
            setRed s true
            setRed (← deref (← getN s).right) false
            rotateLeft tid s
          let sib ← sibling node
          let p ← deref (← getN node).parent
          let s ← deref sib
          setRed s (← isRed (some p))
          setRed p false
          if ← andM (isLeftChild node) (sibRightRed sib) then
            setRed (← deref (← getN s).right) false
            rotateLeft tid p
          else if ← sibLeftRed sib then
            setRed (← deref (← getN s).left) false
            rotateRight tid p

/-- Go: the `for loop` of `insert` below a non-nil root. Returns the inserted node (its `Parent`
already set), or `none` when the column expression was found (`cmp == 0`). -/
def insertDescend (c : ColRange) (mkInner : M (Option Nat)) (innerInsert : Nat → M Unit) :
    Nat → Nat → M (Option Nat)
  | 0, _ => failure
  | fuel + 1, node => do
    let n ← getN node
    let mut cmp := c.lo.compare n.lo
    if cmp == 0 then cmp := c.hi.compare n.hi
    if cmp < 0 then
      modN node fun x => { x with maxHi := cutMax x.maxHi c.hi }
      match n.left with
      | none =>
        let inner ← mkInner
        let nw ← allocN { lo := c.lo, hi := c.hi, maxHi := c.hi, inner := inner, red := true }
        modN node fun x => { x with left := some nw }
        modN nw fun x => { x with parent := some node }
        pure (some nw)
      | some l => insertDescend c mkInner innerInsert fuel l
    else if cmp > 0 then
      modN node fun x => { x with maxHi := cutMax x.maxHi c.hi }
      match n.right with
      | none =>
        let inner ← mkInner
        let nw ← allocN { lo := c.lo, hi := c.hi, maxHi := c.hi, inner := inner, red := true }
        modN node fun x => { x with right := some nw }
        modN nw fun x => { x with parent := some node }
        pure (some nw)
      | some r => insertDescend c mkInner innerInsert fuel r
    else
      match n.inner with
      | some it => do innerInsert it; pure none
      | none => pure none

/-- Go: `insert(ctx, rang, colExprIdx)`; `cols` is `rang[colExprIdx:]`. -/
def insertAt (fuel : Nat) : Range → Nat → M Unit
  | [], _ => failure
  | c :: cs, tid => do
    let t ← getT tid
    match t.root with
    | none =>
      let inner ← newTree cs
      let nw ← allocN { lo := c.lo, hi := c.hi, maxHi := c.hi, inner := inner }
      modT tid fun t => { t with root := some nw }
      insertBalance fuel tid nw
      modT tid fun t => { t with size := t.size + 1 }
    | some root =>
      match ← insertDescend c (newTree cs) (fun it => insertAt fuel cs it) fuel root with
      | none => pure ()
      | some nw =>
        insertBalance fuel tid nw
        modT tid fun t => { t with size := t.size + 1 }

/-- Go: `getNode`. -/
def getNode (c : ColRange) : Nat → Option Nat → M (Option Nat)
  | 0, _ => failure
  | _, none => pure none
  | fuel + 1, some node => do
    let n ← getN node
    let mut cmp := c.lo.compare n.lo
    if cmp == 0 then cmp := c.hi.compare n.hi
    if cmp < 0 then getNode c fuel n.left
    else if cmp > 0 then getNode c fuel n.right
    else pure (some node)

/-- Go: `maximumNode()`. -/
def maximumNode : Nat → Nat → M Nat
  | 0, _ => failure
  | fuel + 1, node => do
    match (← getN node).right with
    | none => pure node
    | some r => maximumNode fuel r

/-- Go: the `for parent != nil` loop at the end of `remove`. -/
def propagateMax : Nat → Option Nat → Option Nat → Bool → M Unit
  | 0, _, _, _ => failure
  | _, none, _, _ => pure ()
  | fuel + 1, some parent, child, fromLeft => do
    if fromLeft then pure ()
    else
      match child with
      | none => modN parent fun n => { n with maxHi := n.hi }
      | some ch =>
        let m := (← getN ch).maxHi
        modN parent fun n => { n with maxHi := m }
      let pp := (← getN parent).parent
      let fl ← match pp with
        | none => pure false
        | some g => do pure ((← getN g).left == some parent)
      propagateMax fuel pp (some parent) fl

/-- Go: `remove(ctx, rang, colExprIdx)`. -/
def removeAt (fuel : Nat) : Range → Nat → M Unit
  | [], _ => failure
  | c :: cs, tid => do
    let t ← getT tid
    match ← getNode c fuel t.root with
    | none => pure ()
    | some node0 =>
      let mut node := node0
      let n ← getN node
      let mut done := false
      match n.inner with
      | some it =>
        removeAt fuel cs it
        if (← getT it).size > 0 then done := true
        else modN node fun x => { x with inner := none }
      | none => pure ()
      if done then pure ()
      else
        let n ← getN node
        if n.left.isSome && n.right.isSome then
          let pred ← maximumNode fuel (← deref n.left)
          let pn ← getN pred
          let keepInner : Bool ← match pn.inner with
            | some it => do pure (decide ((← getT it).size > 0))
            | none => pure false
          modN node fun x => { x with lo := pn.lo, hi := pn.hi, inner := if keepInner then pn.inner else none }
          node := pred
        let n ← getN node
        if n.left.isNone || n.right.isNone then
          let child := if n.right.isNone then n.left else n.right
          if !n.red then
            setRed node (← isRed child)
            removeBalance fuel tid node
          let parent := (← getN node).parent
          let fromLeft ← match parent with
            | none => pure false
            | some p => do pure ((← getN p).left == some node)
          replaceNode tid node child
          match child, parent with
          | some ch, none => setRed ch false
          | _, _ => pure ()
          propagateMax fuel parent child fromLeft
        modT tid fun t => { t with size := t.size - 1 }

/-- Go: the `for len(stack) > 0` loop of `FindConnections`. `inner` is the recursive call on the
inner tree (`nil` result = `none`). -/
def findLoop (c : ColRange) (inner : Nat → M (List Range)) :
    Nat → List Nat → List Range → M (List Range)
  | 0, _, _ => failure
  | _, [], acc => pure acc
  | fuel + 1, node :: stack, acc => do
    let n ← getN node
    let cmp1 := c.lo.compare n.hi
    let cmp2 := n.lo.compare c.hi
    let mut acc := acc
    if cmp1 ≤ 0 && cmp2 ≤ 0 then
      let cc : ColRange := ⟨n.lo, n.hi⟩
      match n.inner with
      | none => acc := acc ++ [[cc]]
      | some it =>
        let rs ← inner it
        acc := acc ++ rs.map (cc :: ·)
    let mut stack := stack
    if cmp2 ≤ 0 then
      match n.right with
      | some r => stack := r :: stack
      | none => pure ()
    match n.left with
    | some l =>
      if c.lo.compare (← getN l).maxHi ≤ 0 then stack := l :: stack
    | none => pure ()
    findLoop c inner fuel stack acc

/-- Go: `FindConnections(ctx, rang, colExprIdx)`; `cols` is `rang[colExprIdx:]`. -/
def findConn (fuel : Nat) : Range → Nat → M (List Range)
  | [], _ => failure
  | c :: cs, tid => do
    match (← getT tid).root with
    | none => pure []
    | some root => findLoop c (fun it => findConn fuel cs it) fuel [root] []

/-- Go: `tree.left()`. -/
def leftmost : Nat → Option Nat → Option Nat → M (Option Nat)
  | 0, _, _ => failure
  | _, parent, none => pure parent
  | fuel + 1, _, some cur => do leftmost fuel (some cur) (← getN cur).left

/-- Go: the `for iterator.node.Parent != nil` ascent of `rangeTreeIter.Next`; `start` is the node
the iterator stood on. -/
def iterAscend (start : Node) : Nat → Nat → M (Option Nat)
  | 0, _ => failure
  | fuel + 1, cur => do
    match (← getN cur).parent with
    | none => pure none
    | some p =>
      let pn ← getN p
      let cmp := start.lo.compare pn.lo
      if cmp < 0 then pure (some p)
      else if cmp == 0 && start.hi.compare pn.hi ≤ 0 then pure (some p)
      else iterAscend start fuel p

/-- Go: `rangeTreeIter.Next` in position `between` on `node`. -/
def iterNext (fuel : Nat) (node : Nat) : M (Option Nat) := do
  let n ← getN node
  match n.right with
  | some r => leftmost fuel (some r) (← getN r).left
  | none => iterAscend n fuel node

/-- All nodes of one tree in iterator order. -/
def iterAll : Nat → Option Nat → List Nat → M (List Nat)
  | 0, _, _ => failure
  | _, none, acc => pure acc.reverse
  | fuel + 1, some node, acc => do iterAll fuel (← iterNext (fuel + 1) node) (node :: acc)

/-- The ranges `GetRangeCollection` walks over, before its empty filter and merge step. `depth`
bounds the nesting (number of index columns). -/
def stored (fuel : Nat) : Nat → Nat → M (List Range)
  | 0, _ => failure
  | depth + 1, tid => do
    let t ← getT tid
    let first ← leftmost fuel none t.root
    let nodes ← iterAll fuel first []
    let mut out : List Range := []
    for nd in nodes do
      let n ← getN nd
      let cc : ColRange := ⟨n.lo, n.hi⟩
      match n.inner with
      | none => out := out ++ [[cc]]
      | some it =>
        let rs ← stored fuel depth it
        out := out ++ rs.map (cc :: ·)
    pure out

/-! ### The tree as `TreeOps` -/

def loopFuel : Nat := 100000

structure Tree where
  heap : Heap
  root : Nat
  deriving Repr

def Tree.new (r : Range) : Tree :=
  match (newTree r).run {} with
  | some (some t, h) => { heap := h, root := t }
  | _ => { heap := {}, root := 0 }     -- zero columns: Go returns an error; callers never do this

def Tree.run {α : Type} (t : Tree) (m : Nat → M α) : Option (α × Tree) :=
  match (m t.root).run t.heap with
  | some (a, h) => some (a, { t with heap := h })
  | none => none

def heapTree : TreeOps Tree where
  new := Tree.new
  find := fun t r => (t.run (findConn loopFuel r)).map (·.1)
  insert := fun t r => (t.run (insertAt loopFuel r)).map (·.2)
  remove := fun t r => (t.run (removeAt loopFuel r)).map (·.2)
  toList := fun t => (t.run (stored loopFuel 16)).map (·.1)

/-! ### Shape dump (compared with the overlay accessor `VerifShape`) -/

def cutStr : Cut → String
  | .belowNull => "bn"
  | .aboveNull => "an"
  | .below k => "b" ++ toString k
  | .above k => "a" ++ toString k
  | .aboveAll => "aa"

/-- Pre-order walk of one tree: `(side color lo hi max inner)…`. -/
def shapeWalk (inner : Nat → M String) : Nat → Option Nat → String → M String
  | 0, _, _ => failure
  | _, none, _ => pure ""
  | f + 1, some i, side => do
    let n ← getN i
    let innerS ← match n.inner with
      | none => pure "-"
      | some it => inner it
    let me := "(" ++ side ++ (if n.red then "r" else "b") ++ " " ++ cutStr n.lo ++ " " ++ cutStr n.hi ++ " "
      ++ cutStr n.maxHi ++ " " ++ innerS ++ ")"
    pure (me ++ (← shapeWalk inner f n.left "L") ++ (← shapeWalk inner f n.right "R"))

/-- Shape dump `[size nodes…]`. -/
def shape (fuel : Nat) : Nat → Nat → M String
  | 0, _ => failure
  | depth + 1, tid => do
    let t ← getT tid
    let body ← shapeWalk (fun it => shape fuel depth it) fuel t.root "T"
    pure ("[" ++ toString t.size ++ body ++ "]")

def Tree.shape (t : Tree) : String :=
  match t.run (Gms.RangeTree.shape 1000 16) with
  | some (s, _) => s
  | none => "crash"

end Gms.RangeTree
