/-
C36 — snapshots of the process list (core-only).

`ProcessList` keeps, per running statement, `Progress : map[string]TableProgress`; a
`TableProgress` VALUE contains `PartitionsProgress`, a Go map, i.e. a reference: copying the struct
copies the address of the partition map, not the map. The registry methods
(`AddPartitionProgress`, `UpdatePartitionProgress`, `RemovePartitionProgress`) write into that map
in place. `Processes()` — the snapshot `SHOW PROCESSLIST` renders after the lock is released —
therefore has to make a new map per table.

The model keeps the maps on a heap (`cells : address → map`, `next` = first free address) and one
running statement's table list; `Op` are the registry writes; `snapDeep` is `Processes()` as
written (a fresh cell per table), `snapShareEmpty` the defect class "copy the map only when there
is something in it, otherwise keep the reference"; `view` reads a snapshot through the heap, as a
later reader does.
-/
namespace Gms.ProcSnap

/-- partition name ↦ rows done -/
abbrev PMap := List (String × Nat)

structure TProg where
  name : String
  done : Nat
  parts : Nat   -- address of the partition map
  deriving DecidableEq, Repr

structure Reg where
  cells : Nat → PMap
  next : Nat
  tables : List TProg

def upd (f : Nat → PMap) (a : Nat) (v : PMap) : Nat → PMap := fun b => if b = a then v else f b

def getKey (m : PMap) (k : String) : Option Nat := (m.find? fun p => p.1 == k).map (·.2)
def eraseKey (m : PMap) (k : String) : PMap := m.filter fun p => p.1 != k
def setKey (m : PMap) (k : String) (v : Nat) : PMap := (k, v) :: eraseKey m k

def findT (ts : List TProg) (n : String) : Option TProg := ts.find? fun t => t.name == n

/-- The registry writes of a running statement. -/
inductive Op where
  | addTable (name : String)                    -- AddTableProgress (NewTableProgress makes an empty map)
  | updTable (name : String) (d : Nat)          -- UpdateTableProgress
  | addPart (table part : String)               -- AddPartitionProgress
  | updPart (table part : String) (d : Nat)     -- UpdatePartitionProgress
  | removePart (table part : String)            -- RemovePartitionProgress
  | removeTable (name : String)                 -- RemoveTableProgress
  deriving DecidableEq, Repr

def apply (r : Reg) : Op → Reg
  | .addTable n =>
    match findT r.tables n with
    | some _ => r
    | none => { cells := upd r.cells r.next [], next := r.next + 1, tables := r.tables ++ [⟨n, 0, r.next⟩] }
  | .updTable n d =>
    match findT r.tables n with
    | some _ => { r with tables := r.tables.map fun t => if t.name == n then { t with done := t.done + d } else t }
    | none => { cells := upd r.cells r.next [], next := r.next + 1, tables := r.tables ++ [⟨n, d, r.next⟩] }
  | .addPart tn p =>
    match findT r.tables tn with
    | some t =>
      let m := r.cells t.parts
      { r with cells := upd r.cells t.parts (match getKey m p with | some _ => m | none => setKey m p 0) }
    | none => r
  | .updPart tn p d =>
    match findT r.tables tn with
    | some t =>
      let m := r.cells t.parts
      { r with cells := upd r.cells t.parts (setKey m p ((getKey m p).getD 0 + d)) }
    | none => r
  | .removePart tn p =>
    match findT r.tables tn with
    | some t => { r with cells := upd r.cells t.parts (eraseKey (r.cells t.parts) p) }
    | none => r
  | .removeTable n => { r with tables := r.tables.filter fun t => t.name != n }

def applyAll (r : Reg) (ops : List Op) : Reg := ops.foldl apply r

/-- A snapshot: table-progress values (their partition maps by address). -/
structure Snap where
  tables : List TProg
  deriving DecidableEq, Repr

/-- What a reader of the snapshot sees through the heap. -/
def view (cells : Nat → PMap) (s : Snap) : List (String × Nat × PMap) :=
  s.tables.map fun t => (t.name, t.done, cells t.parts)

/-- `Processes()`: every table's partition map is copied into a fresh cell. -/
def copyTables (cells : Nat → PMap) : Nat → List TProg → (Nat → PMap) × Nat × List TProg
  | next, [] => (cells, next, [])
  | next, t :: ts =>
    let r := copyTables (upd cells next (cells t.parts)) (next + 1) ts
    (r.1, r.2.1, { t with parts := next } :: r.2.2)

def snapDeep (r : Reg) : Reg × Snap :=
  let c := copyTables r.cells r.next r.tables
  ({ r with cells := c.1, next := c.2.1 }, ⟨c.2.2⟩)

/-- Defect class: a fresh cell only for a non-empty map; an empty one is shared with the registry. -/
def copyNonEmpty (cells : Nat → PMap) : Nat → List TProg → (Nat → PMap) × Nat × List TProg
  | next, [] => (cells, next, [])
  | next, t :: ts =>
    if (cells t.parts).isEmpty then
      let r := copyNonEmpty cells next ts
      (r.1, r.2.1, t :: r.2.2)
    else
      let r := copyNonEmpty (upd cells next (cells t.parts)) (next + 1) ts
      (r.1, r.2.1, { t with parts := next } :: r.2.2)

def snapShareEmpty (r : Reg) : Reg × Snap :=
  let c := copyNonEmpty r.cells r.next r.tables
  ({ r with cells := c.1, next := c.2.1 }, ⟨c.2.2⟩)

/-- Every live table's map is allocated. -/
def WF (r : Reg) : Prop := ∀ t ∈ r.tables, t.parts < r.next

def empty : Reg := { cells := fun _ => [], next := 0, tables := [] }

end Gms.ProcSnap
