/-
C48 — model of errguard/errguard.go (core-only).

A function run in a goroutine has an `Outcome`: it returns (nil or an error value) or it panics
with some value. `guard` is the closure `errguard.Go` hands to `errgroup.Group.Go`:

    func() (err error) {
        defer func() { if r := recover(); r != nil { err = fmt.Errorf("panic recovered: %v\n%s", r, stack) } }()
        return fn()
    }

`wait` is `errgroup.Group.Wait`: the error of the first goroutine (in completion order) whose
function returned non-nil, or nil. The facts that the source still has this shape are
regenerated on every run (Gms.Generated.C48).
-/
namespace Gms.Errguard

/-- `E` = error values (compared by identity), `P` = panic values as `recover()` reports them
(a `panic(nil)` is reported by the Go ≥ 1.21 runtime as a non-nil `*runtime.PanicNilError`). -/
inductive Outcome (E P : Type) where
  | ret (e : Option E)
  | panic (v : P)

/-- What the guarded closure returns to the errgroup. -/
inductive GErr (E P : Type) where
  | same (e : E)          -- the function's own error, unchanged
  | recovered (v : P)     -- "panic recovered: %v" built from the panic value
  deriving DecidableEq, Repr

/-- The guarded closure. It is a total function: there is no panicking result. -/
def guard {E P : Type} : Outcome E P → Option (GErr E P)
  | .ret none => none
  | .ret (some e) => some (.same e)
  | .panic v => some (.recovered v)

/-- `errgroup.Wait` for goroutines listed in completion order. -/
def wait {E P : Type} (order : List (Outcome E P)) : Option (GErr E P) :=
  order.findSome? guard

/-- A function whose body runs a nested guarded group and returns its `Wait()`; the inner
errors are *error values* of the outer function (type `GErr E P`). -/
def nested {E P : Type} (inner : List (Outcome E P)) : Outcome (GErr E P) P :=
  .ret (wait inner)

end Gms.Errguard
