/-
C49 — model of internal/similartext/similartext.go (core-only).

* `lev`     – Spec: the recursive edit distance (insert/delete cost 1, substitution cost `sub`)
* `distDP`  – Impl model: the two-row dynamic program of `distanceForStrings`
* `find`    – Impl model of `Find` (minDistance / matchMap loop)
-/
namespace Gms.Similar

variable {α : Type} [DecidableEq α]

def cost (sub : Nat) (a b : α) : Nat := if a ≠ b then sub else 0

/-- One row of the recursive definition: `levRow sub a f t = lev (a :: s) t` when `f = lev s`. -/
def levRow (sub : Nat) (a : α) (f : List α → Nat) : List α → Nat
  | [] => f [] + 1
  | b :: t => min (f (b :: t) + 1) (min (f t + cost sub a b) (levRow sub a f t + 1))

/-- Spec: edit distance by structural recursion (on the *last consumed* characters: the lists
are the reversed prefixes the Go loop has consumed so far). -/
def lev (sub : Nat) : List α → List α → Nat
  | [], t => t.length
  | a :: s, t => levRow sub a (lev sub s) t

/-- Go: inner `for j := 1; j < width; j++` loop. `prev` is aligned so that its head is
`prev[j-1]`; `left` is `cur[j-1]`. -/
def nextRowAux (sub : Nat) (a : α) : List α → List Nat → Nat → List Nat
  | b :: t, p0 :: p1 :: ps, left =>
    let v := min (p1 + 1) (min (p0 + cost sub a b) (left + 1))
    v :: nextRowAux sub a t (p1 :: ps) v
  | _, _, _ => []

/-- Go: one iteration of the outer loop: `cur[0] = i`, then the inner loop. -/
def nextRow (sub : Nat) (a : α) (t : List α) (prev : List Nat) (i : Nat) : List Nat :=
  i :: nextRowAux sub a t prev i

/-- Go: the outer loop over `source`, carrying (row, i). -/
def rows (sub : Nat) (t : List α) : List α → List Nat → Nat → List Nat
  | [], row, _ => row
  | a :: s, row, i => rows sub t s (nextRow sub a t row (i + 1)) (i + 1)

/-- Go: `distanceForStrings(source, target)`. -/
def distDP (sub : Nat) (s t : List α) : Nat :=
  ((rows sub t s (List.range (t.length + 1)) 0).getLast?).getD 0

/-! ### `Find` -/

/-- Go: `matchMap[dist] = append(matchMap[dist], name)` on an association list. -/
def mapAppend {β : Type} (m : List (Nat × List β)) (d : Nat) (x : β) : List (Nat × List β) :=
  match m with
  | [] => [(d, [x])]
  | (d', xs) :: rest => if d' = d then (d', xs ++ [x]) :: rest else (d', xs) :: mapAppend rest d x

def mapGet {β : Type} (m : List (Nat × List β)) (d : Nat) : List β :=
  match m with
  | [] => []
  | (d', xs) :: rest => if d' = d then xs else mapGet rest d

structure FindState (β : Type) where
  minD : Option Nat
  m : List (Nat × List β)

/-- Go: body of `for _, name := range names`. -/
def findStep {β : Type} (dist : β → Nat) (skip : Nat) (st : FindState β) (name : β) : FindState β :=
  let d := dist name
  if d ≥ skip then st
  else
    let minD := match st.minD with
      | none => some d
      | some m => if d < m then some d else some m
    { minD := minD, m := mapAppend st.m d name }

/-- Go: `Find` up to the final string formatting: `none` ↦ `""`, `some l` ↦ joined with " or ".
`srcEmpty` is the `len(src) == 0` early return. -/
def find {β : Type} (dist : β → Nat) (skip : Nat) (srcEmpty : Bool) (names : List β) : Option (List β) :=
  if srcEmpty then none
  else
    let st := names.foldl (findStep dist skip) { minD := none, m := [] }
    match st.minD with
    | none => none
    | some d => some (mapGet st.m d)

end Gms.Similar
