/-
C34/C33 — Go's UTF-8 handling (core-only).

Byte strings are `List Nat` (every element `< 256`; the drivers convert from `List UInt8`), code
points are `Nat`. The definitions follow `unicode/utf8`:

* `decodeRune1 b0 rest`  – `utf8.DecodeRune`: first byte + following bytes ↦ (rune, width); every
                            ill-formed prefix yields `(0xFFFD, 1)` (`RuneError`, width 1)
* `decodeRunes`          – `[]rune(s)`: walk with the width of each step
* `encodeRune`           – `utf8.AppendRune`: surrogates and values above U+10FFFF become U+FFFD
* `encodeRunes`          – `string(runes)`
* `validUtf8`            – `utf8.Valid`
-/
namespace Gms.Utf8

abbrev Bytes := List Nat

def runeError : Nat := 0xFFFD

/-- A Unicode scalar value (what a Go `rune` obtained from valid UTF-8 can be). -/
def isScalar (r : Nat) : Bool := r < 0xD800 || (0xE000 ≤ r && r < 0x110000)

def isCont (b : Nat) : Bool := 0x80 ≤ b && b ≤ 0xBF

/-- Go: `first[b0]` / `acceptRanges`: number of bytes announced by the lead byte (0 = invalid
lead byte) and the accepted range of the *second* byte. -/
def leadInfo (b0 : Nat) : Nat × Nat × Nat :=
  if 0xC2 ≤ b0 && b0 ≤ 0xDF then (2, 0x80, 0xBF)
  else if b0 = 0xE0 then (3, 0xA0, 0xBF)
  else if b0 = 0xED then (3, 0x80, 0x9F)
  else if 0xE1 ≤ b0 && b0 ≤ 0xEF then (3, 0x80, 0xBF)
  else if b0 = 0xF0 then (4, 0x90, 0xBF)
  else if b0 = 0xF4 then (4, 0x80, 0x8F)
  else if 0xF1 ≤ b0 && b0 ≤ 0xF3 then (4, 0x80, 0xBF)
  else (0, 0, 0)

/-- Go: `utf8.DecodeRune(b0 :: rest)` ↦ (rune, width). -/
def decodeRune1 (b0 : Nat) (rest : Bytes) : Nat × Nat :=
  if b0 < 0x80 then (b0, 1)
  else
    match leadInfo b0, rest with
    | (2, lo, hi), b1 :: _ =>
      if lo ≤ b1 && b1 ≤ hi then ((b0 - 0xC0) * 64 + (b1 - 0x80), 2) else (runeError, 1)
    | (3, lo, hi), b1 :: b2 :: _ =>
      if lo ≤ b1 && b1 ≤ hi && isCont b2 then
        ((b0 - 0xE0) * 4096 + (b1 - 0x80) * 64 + (b2 - 0x80), 3)
      else (runeError, 1)
    | (4, lo, hi), b1 :: b2 :: b3 :: _ =>
      if lo ≤ b1 && b1 ≤ hi && isCont b2 && isCont b3 then
        ((b0 - 0xF0) * 262144 + (b1 - 0x80) * 4096 + (b2 - 0x80) * 64 + (b3 - 0x80), 4)
      else (runeError, 1)
    | _, _ => (runeError, 1)

/-- `[]rune(s)` with a skip counter: `k` bytes of an already decoded sequence are still to be
passed over. -/
def decodeAux : Nat → Bytes → List Nat
  | _, [] => []
  | k + 1, _ :: rest => decodeAux k rest
  | 0, b0 :: rest =>
    let rw := decodeRune1 b0 rest
    rw.1 :: decodeAux (rw.2 - 1) rest

/-- Go: `[]rune(s)`. -/
def decodeRunes (s : Bytes) : List Nat := decodeAux 0 s

/-- Go: `utf8.Valid` (no step decodes to `RuneError` with width 1). -/
def validAux : Nat → Bytes → Bool
  | _, [] => true
  | k + 1, _ :: rest => validAux k rest
  | 0, b0 :: rest =>
    let rw := decodeRune1 b0 rest
    if rw.1 = runeError ∧ rw.2 = 1 then false else validAux (rw.2 - 1) rest

def validUtf8 (s : Bytes) : Bool := validAux 0 s

/-- Go: `utf8.AppendRune`. -/
def encodeRune (r : Nat) : Bytes :=
  if r < 0x80 then [r]
  else if r < 0x800 then [0xC0 + r / 64, 0x80 + r % 64]
  else if (0xD800 ≤ r && r < 0xE000) || 0x110000 ≤ r then [0xEF, 0xBF, 0xBD]
  else if r < 0x10000 then [0xE0 + r / 4096, 0x80 + r / 64 % 64, 0x80 + r % 64]
  else [0xF0 + r / 262144, 0x80 + r / 4096 % 64, 0x80 + r / 64 % 64, 0x80 + r % 64]

/-- Go: `string(runes)`. -/
def encodeRunes : List Nat → Bytes
  | [] => []
  | r :: rs => encodeRune r ++ encodeRunes rs

/-- Go: `utf8.RuneCountInString`. -/
def runeCount (s : Bytes) : Nat := (decodeRunes s).length

def isAscii (s : Bytes) : Bool := s.all (· < 0x80)

end Gms.Utf8
