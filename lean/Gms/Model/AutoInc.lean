/-
C20 — model of the AUTO_INCREMENT machinery of the in-memory backend (core-only).

Impl model (transliteration, defects included) of
  * sql/expression/auto_increment.go   `AutoIncrement.Eval`                → `evalAuto`
  * memory/table.go                    `GetNextAutoIncrementValue`         → inside `evalAuto`
                                       `updateAutoIncrementSafe`           → `bump`
                                       `PeekNextAutoIncrementValue`        → `peek`
                                       `Truncate` / `TableData.truncate`   → `.trunc` (and sql/rowexec/dml.go
                                       `buildTruncate`: SetAutoIncrementValue(1) — the counter is reset twice)
  * memory/table_editor.go             `tableEditor.Insert` (PK/UNIQUE check, counter bump)
                                                                           → `insRow` / `afterInsert`
                                       `StatementBegin/DiscardChanges`     → `stmtInsert` restoring `tbl`
                                       `SetAutoIncrementValue`             → `.alter`
  * sql/rowexec/ddl_iters.go           table rewrites (`RewriteInserter` users: ALTER TABLE … DROP COLUMN,
                                       ADD COLUMN … NOT NULL / DEFAULT, ADD|DROP PRIMARY KEY): the table
                                       data is truncated (counter := 1) and the old rows are re-inserted
                                       straight through `tableEditor.Insert` — they never pass through
                                       `AutoIncrement.Eval`, so the editor alone re-derives the counter
                                                                           → `reinsertCtr` / `.rewrite`
                                       `Update` / `Delete`                 → `.upd` / `.del`
  * sql/rowexec/insert.go              `insertIter.Next`, `updateLastInsertId` (countdown
                                       `firstGeneratedAutoIncRowIdx`)      → `insLoop`
  * sql/analyzer/inserts.go            `wrapRowSource` (index of the first NULL/DEFAULT/0 tuple)
                                                                           → `firstGenIdx`
  * sql/rowexec/dml_iters.go           `insertRowHandler` (OK packet InsertID = auto column of
                                       the *first row*)                    → `InsAcc.first`

Spec layer: the ghost `log` of successfully inserted auto-column values (with a flag
"generated") and the predicates `goodLog`, plus the per-statement demands on
LAST_INSERT_ID() / InsertID (`stmtSpecOk`). Region flags classify the steps on which the
unchanged code is known to leave the Spec.

Numbers: the counter is a uint64 in Go; here a `Nat` (the model never lets it exceed 2^64-1
as long as ALTER values are < 2^64). The column type is given by its value range [lo, hi].
Assumption recorded in props/C20.json: for signed column types the counter stays ≤ 2^63-1
(the Go code compares `row[idx]` with the counter after converting the counter to int64).
-/
namespace Gms.AutoInc

/-- uint64 view of an int64 (`uint64(int64(v))`), as printed by LAST_INSERT_ID() / InsertID. -/
def toU64 (v : Int) : Nat := (v % (2 ^ 64 : Int)).toNat

structure Cfg where
  lo : Int
  hi : Int
  /-- the auto column is PRIMARY KEY or UNIQUE (otherwise it only has a plain KEY) -/
  uniq : Bool
  deriving Repr

structure Row where
  id : Int
  tag : Nat
  deriving Repr, DecidableEq

structure Tbl where
  ctr : Nat
  rows : List Row
  deriving Repr

def Tbl.has (t : Tbl) (v : Int) : Bool := t.rows.any (fun r => r.id == v)

/-- Go: `updateAutoIncrementSafe`: `+1` unless the next value is out of the column's range
(this also covers `currentVal == math.MaxUint64` because `hi < 2^64`). -/
def bump (c : Cfg) (ctr : Nat) : Nat :=
  if ((ctr : Int) + 1) ≤ c.hi then ctr + 1 else ctr

/-- Go: `PeekNextAutoIncrementValue`. -/
def peek (c : Cfg) (ctr : Nat) : Nat :=
  if c.lo ≤ (ctr : Int) ∧ (ctr : Int) ≤ c.hi then ctr else ctr - 1

inductive Err where
  | dup | range
  deriving Repr, DecidableEq

/-- Result of `AutoIncrement.Eval` on one row: the value for the column, the counter after
`GetNextAutoIncrementValue`, and whether the value was generated. -/
inductive EvalRes where
  | ok (v : Int) (ctr : Nat) (gen : Bool)
  | err
  deriving Repr

/-- Go: `AutoIncrement.Eval` + `Table.GetNextAutoIncrementValue`.
`none` = NULL / DEFAULT / column omitted; `some 0` is treated like NULL. -/
def evalAuto (c : Cfg) (ctr : Nat) (g : Option Int) : EvalRes :=
  match g with
  | some v =>
    if v < 0 then
      -- "if given is negative, don't do any auto_increment logic" (in-range negatives only:
      -- out-of-range ones are clamped by Convert, which is C27's business; unsigned columns
      -- reject a negative value as out of range)
      if c.lo ≤ v then .ok v ctr false else .err
    else if v = 0 then
      if c.lo ≤ (ctr : Int) ∧ (ctr : Int) ≤ c.hi then .ok ctr ctr true else .err
    else
      -- GetNextAutoIncrementValue(given): `if cmp > 0 { data.autoIncVal = given }`
      let ctr' := if (ctr : Int) < v then v.toNat else ctr
      if v ≤ c.hi then .ok v ctr' false else .err
  | none =>
    if c.lo ≤ (ctr : Int) ∧ (ctr : Int) ≤ c.hi then .ok ctr ctr true else .err

/-- Go: the counter part of `tableEditor.Insert` (`cmp > 0` ⇒ set, then bump; `cmp == 0` ⇒ bump). -/
def afterInsert (c : Cfg) (ctr : Nat) (v : Int) : Nat :=
  if (ctr : Int) < v then bump c v.toNat
  else if v = (ctr : Int) then bump c ctr
  else ctr

/-- Go: the counter after rows reach `tableEditor.Insert` directly (no `AutoIncrement.Eval`):
the editor's `cmp > 0 ⇒ set, bump` / `cmp == 0 ⇒ bump` chain is the only code that moves it. -/
def reinsertCtr (c : Cfg) (ctr : Nat) (rows : List Row) : Nat :=
  rows.foldl (fun k r => afterInsert c k r.id) ctr

/-- Ghost log entry: a successfully inserted auto-column value, and whether it was generated. -/
structure Ev where
  v : Int
  gen : Bool
  deriving Repr, DecidableEq

/-- Working state of one INSERT statement (`insertIter` + the table editor). -/
structure InsAcc where
  tbl : Tbl
  /-- countdown `firstGeneratedAutoIncRowIdx` (`none` = negative) -/
  fgi : Option Nat
  /-- session LAST_INSERT_ID (uint64 view) -/
  last : Nat
  /-- auto-column value of the first row handled (what `insertRowHandler` puts in InsertID) -/
  first : Option Int
  /-- events of this statement, in row order -/
  evs : List Ev
  /-- marker for the next row -/
  tag : Nat
  deriving Repr

/-- Go: `updateLastInsertId`. -/
def tickLast (fgi : Option Nat) (last : Nat) (v : Int) : Option Nat × Nat :=
  match fgi with
  | none => (none, last)
  | some 0 => (none, toU64 v)
  | some (k + 1) => (some k, last)

/-- Go: one iteration of `insertIter.Next` for a plain INSERT (Project evaluates
`AutoIncrement.Eval`, then `tableEditor.Insert`, then `updateLastInsertId`). -/
def insRow (c : Cfg) (a : InsAcc) (g : Option Int) : InsAcc × Option Err :=
  match evalAuto c a.tbl.ctr g with
  | .err => (a, some .range)
  | .ok v ctr' gen =>
    if c.uniq && a.tbl.has v then (a, some .dup)
    else
      let t := tickLast a.fgi a.last v
      ({ tbl := { ctr := afterInsert c ctr' v, rows := a.tbl.rows ++ [⟨v, a.tag⟩] },
         fgi := t.1, last := t.2,
         first := match a.first with | none => some v | some f => some f,
         evs := a.evs ++ [⟨v, gen⟩], tag := a.tag + 1 }, none)

/-- Go: the row loop; stops at the first error (the accumulated state is returned because the
session-level LAST_INSERT_ID is *not* restored by `DiscardChanges`). -/
def insLoop (c : Cfg) : List (Option Int) → InsAcc → InsAcc × Option Err
  | [], a => (a, none)
  | g :: gs, a =>
    match insRow c a g with
    | (a', some e) => (a', some e)
    | (a', none) => insLoop c gs a'

def isGenGiven : Option Int → Bool
  | none => true
  | some v => v == 0

/-- Go: `wrapRowSource`: index of the first tuple whose auto-column expression is NULL /
DEFAULT / literal 0 (or 0 when the column is not listed: then every row is `none`). -/
def firstGenIdx (gs : List (Option Int)) : Option Nat :=
  let i := gs.findIdx isGenGiven
  if i < gs.length then some i else none

/-- Whole state: one table, LAST_INSERT_ID per session, ghost log, statement counter. -/
structure St where
  tbl : Tbl
  last : Nat → Nat
  log : List Ev
  opn : Nat

def St.init : St := { tbl := ⟨1, []⟩, last := fun _ => 0, log := [], opn := 0 }

def setLast (f : Nat → Nat) (s v : Nat) : Nat → Nat := fun x => if x = s then v else f x

inductive Op where
  | ins (sess : Nat) (gs : List (Option Int))
  | del (lo hi : Int)
  | upd (a b : Int)
  | alter (n : Nat)
  | trunc
  /-- a table rewrite (ALTER TABLE … DROP COLUMN / ADD COLUMN … NOT NULL DEFAULT …) -/
  | rewrite
  deriving Repr

/-- Known-defect classes (names are the region names used in known_findings/C20.jsonl). -/
inductive Region where
  | alter_below_existing        -- ALTER … AUTO_INCREMENT = n with n ≤ a stored value
  | alter_below_counter         -- … n below the counter but above every stored value
  | saturated_reuse             -- a value is generated although it was handed out before (counter stuck at the type maximum)
  | failed_insert_sets_last_insert_id
  | okpacket_first_row_explicit
  | rewrite_lowers_counter      -- a table rewrite re-derives the counter from the stored rows only (max+1): a higher counter is forgotten
  deriving Repr, DecidableEq

def Region.name : Region → String
  | .alter_below_existing => "alter_below_existing"
  | .alter_below_counter => "alter_below_counter"
  | .saturated_reuse => "saturated_reuse"
  | .failed_insert_sets_last_insert_id => "failed_insert_sets_last_insert_id"
  | .okpacket_first_row_explicit => "okpacket_first_row_explicit"
  | .rewrite_lowers_counter => "rewrite_lowers_counter"

/-- Outcome of one statement as the client sees it. -/
inductive Res where
  | ok (affected : Nat) (insertId : Nat)
  | err (e : Err)
  | done                       -- DDL
  deriving Repr, DecidableEq

/-- Does the log already contain value `v`? -/
def logHas (l : List Ev) (v : Int) : Bool := l.any (fun e => e.v == v)

/-- A statement's events re-generate the type maximum although it is already in the log (or
earlier in the same statement): the counter is stuck at the maximum. -/
def reuses (hi : Int) : List Ev → List Ev → Bool
  | _, [] => false
  | l, e :: es => (e.gen && (logHas l e.v && e.v == hi)) || reuses hi (l ++ [e]) es

/-- Impl model of one statement. Returns the new state, the client-visible result and the
region flags raised by this step. -/
def step (c : Cfg) (s : St) : Op → St × Res × List Region
  | .ins sess gs =>
    let a0 : InsAcc := { tbl := s.tbl, fgi := firstGenIdx gs, last := s.last sess, first := none,
                         evs := [], tag := s.opn * 100 }
    match insLoop c gs a0 with
    | (a, none) =>
      let flags :=
        (if reuses c.hi s.log a.evs then [Region.saturated_reuse] else []) ++
        (match gs with
         | g :: _ => if !isGenGiven g && a.evs.any (·.gen) then [Region.okpacket_first_row_explicit] else []
         | [] => [])
      ({ tbl := a.tbl, last := setLast s.last sess a.last, log := s.log ++ a.evs, opn := s.opn + 1 },
       .ok gs.length (toU64 (a.first.getD 0)), flags)
    | (a, some e) =>
      -- DiscardChanges: the table (rows and counter) is restored; LAST_INSERT_ID is not
      -- (`a.evs.length` rows were inserted before the failing one)
      let flags := match firstGenIdx gs with
        | some i => if i < a.evs.length then [Region.failed_insert_sets_last_insert_id] else []
        | none => []
      ({ tbl := s.tbl, last := setLast s.last sess a.last, log := s.log, opn := s.opn + 1 }, .err e, flags)
  | .del lo hi =>
    let keep := s.tbl.rows.filter (fun (r : Row) => !(decide (lo ≤ r.id) && decide (r.id ≤ hi)))
    ({ s with tbl := { s.tbl with rows := keep }, opn := s.opn + 1 },
     .ok (s.tbl.rows.length - keep.length) 0, [])
  | .upd a b =>
    let n := (s.tbl.rows.filter (fun (r : Row) => r.id == a)).length
    if n = 0 then ({ s with opn := s.opn + 1 }, .ok 0 0, [])
    else if a = b then ({ s with opn := s.opn + 1 }, .ok 0 0, [])
    else if c.uniq && s.tbl.has b then ({ s with opn := s.opn + 1 }, .err .dup, [])
    else
      ({ s with tbl := { s.tbl with rows := s.tbl.rows.map (fun (r : Row) => if r.id == a then (⟨b, r.tag⟩ : Row) else r) },
                opn := s.opn + 1 }, .ok n 0, [])
  | .alter n =>
    let flags :=
      if n < s.tbl.ctr then
        (if s.tbl.rows.any (fun (r : Row) => decide ((n : Int) ≤ r.id)) then [Region.alter_below_existing]
         else [Region.alter_below_counter])
      else []
    ({ s with tbl := { s.tbl with ctr := n }, opn := s.opn + 1 }, .done, flags)
  | .trunc =>
    ({ s with tbl := ⟨1, []⟩, log := [], opn := s.opn + 1 }, .ok s.tbl.rows.length 0, [])
  | .rewrite =>
    -- truncate (counter 1), then every old row through `tableEditor.Insert`; the ghost log is kept
    -- (the table's lifetime goes on)
    let n := reinsertCtr c 1 s.tbl.rows
    ({ s with tbl := { s.tbl with ctr := n }, opn := s.opn + 1 }, .ok 0 0,
     if n < s.tbl.ctr then [Region.rewrite_lowers_counter] else [])

/-- Run a history; collect the flags. -/
def run (c : Cfg) : St → List Op → St × List Region
  | s, [] => (s, [])
  | s, o :: os =>
    let r := step c s o
    let r' := run c r.1 os
    (r'.1, r.2.2 ++ r'.2)

/-! ### Spec predicates -/

/-- Every generated value exceeds every value inserted (generated or explicitly) before it.
(Implies: generated values are strictly increasing, hence unique, and exceed every earlier
explicit value.) `pre` is the part of the log before `l`. -/
def goodFrom : List Ev → List Ev → Bool
  | _, [] => true
  | pre, e :: es => (!e.gen || pre.all (fun w => decide (w.v < e.v))) && goodFrom (pre ++ [e]) es

def goodLog (l : List Ev) : Bool := goodFrom [] l

/-- What the property demands of LAST_INSERT_ID() and the OK packet for one INSERT statement:
`evs` = events of the statement if it succeeded. -/
def firstGen (evs : List Ev) : Option Int := (evs.find? (·.gen)).map (·.v)

/-- Spec for the session value after a statement: a successful INSERT that generated a value
sets it to the first generated value; anything else leaves it alone. -/
def specLast (old : Nat) (succeeded : Bool) (evs : List Ev) : Nat :=
  if succeeded then
    match firstGen evs with
    | some v => toU64 v
    | none => old
  else old

/-- Spec for InsertID of a successful INSERT: the first generated value when there is one;
not determined by the property otherwise. -/
def specInsertId (evs : List Ev) : Option Nat := (firstGen evs).map toU64

end Gms.AutoInc
