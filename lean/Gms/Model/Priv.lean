/-
C39 / C41 / C40 — model of the access-control core of sql/mysql_db (core-only).

Layers
* `Priv.Map`      – a Go `map` as an association list that is only ever read through `mget`
* `PrivSet`       – Impl model of `mysql_db.PrivilegeSet` (privilege_set.go), operation by operation,
                    defects included (`RemoveDatabase`/`ClearDatabase` delete the whole database entry)
* `Grant`/`GSet`  – Spec: a privilege set is a set of grants `(level, object, privilege)`
* `PS σ`          – the privilege-set algebra both of them implement; `View` = everything the
                    authorization code ever asks a privilege set
* `Machine`       – accounts, role edges, `GetUser` host matching, `UserActivePrivilegeSet`,
                    `UserHasPrivileges`, `HandleAuth` (planbuilder/auth_default.go), the `CheckAuth`
                    methods of plan/grant.go and plan/revoke.go and the executors in rowexec/priv.go,
                    written once over `PS σ` and instantiated with Impl and Spec.
-/
namespace Gms.Priv

abbrev Priv := Nat

/-! ## sql.PrivilegeType (sql/privileges.go) — numbering checked against the regenerated facts -/
def P_Select := 0
def P_Insert := 1
def P_Update := 2
def P_Delete := 3
def P_Create := 4
def P_Drop := 5
def P_Reload := 6
def P_Shutdown := 7
def P_Process := 8
def P_File := 9
def P_GrantOption := 10
def P_References := 11
def P_Index := 12
def P_Alter := 13
def P_ShowDB := 14
def P_Super := 15
def P_CreateTempTable := 16
def P_LockTables := 17
def P_Execute := 18
def P_ReplicationSlave := 19
def P_ReplicationClient := 20
def P_CreateView := 21
def P_ShowView := 22
def P_CreateRoutine := 23
def P_AlterRoutine := 24
def P_CreateUser := 25
def P_Event := 26
def P_Trigger := 27
def P_CreateTablespace := 28
def P_CreateRole := 29
def P_DropRole := 30

/-- Go: `strings.ToLower` on identifiers (ASCII names only — recorded assumption). -/
def lower (s : String) : String := s.map Char.toLower

/-! ## Go maps -/
section Map
variable {κ α : Type} [DecidableEq κ]

def mget : List (κ × α) → κ → Option α
  | [], _ => none
  | (k', v) :: r, k => if k' = k then some v else mget r k

def merase (m : List (κ × α)) (k : κ) : List (κ × α) := m.filter (fun e => decide (e.1 ≠ k))

def mset (m : List (κ × α)) (k : κ) (v : α) : List (κ × α) := (k, v) :: merase m k

/-- `for _, v := range m { if P v {return true} }` — entries are read through `mget`, so that the
list behaves as a map whatever its internal shape. -/
def manyVal (m : List (κ × α)) (P : α → Bool) : Bool :=
  m.any (fun e => match mget m e.1 with | some v => P v | none => false)

/-- `for k, v := range o { acc = f acc k v }` over the map denoted by `o`. -/
def mfold {β : Type} (o : List (κ × α)) (f : β → κ → α → β) (init : β) : β :=
  o.foldl (fun acc e => match mget o e.1 with | some v => f acc e.1 v | none => acc) init
end Map

/-! ## sets of privileges (`map[sql.PrivilegeType]struct{}`) -/
def pins (l : List Priv) (p : Priv) : List Priv := if p ∈ l then l else l ++ [p]
def pinsAll (l : List Priv) (ps : List Priv) : List Priv := ps.foldl pins l
def prem (l : List Priv) (p : Priv) : List Priv := l.filter (fun q => decide (q ≠ p))
def premAll (l : List Priv) (ps : List Priv) : List Priv := ps.foldl prem l

/-! ## Impl model of privilege_set.go -/

structure DbSet where
  privs : List Priv := []
  tables : List (String × List Priv) := []              -- key: lower table name; columns are never populated
  routines : List ((String × Bool) × List Priv) := []   -- key: (lower routine name, isProc)
  deriving Repr, Inhabited

structure PrivSet where
  global : List Priv := []
  dynamic : List (String × Bool) := []                   -- lower name ↦ WITH GRANT OPTION
  dbs : List (String × DbSet) := []                      -- key: lower database name
  deriving Repr, Inhabited

namespace PrivSet

/-- Go: `getUseableDb` (the created entry becomes visible when it is stored back with `setDb`). -/
def dbOrNew (ps : PrivSet) (d : String) : DbSet := (mget ps.dbs (lower d)).getD {}
def setDb (ps : PrivSet) (d : String) (s : DbSet) : PrivSet := { ps with dbs := mset ps.dbs (lower d) s }

def addGlobal (ps : PrivSet) (privs : List Priv) : PrivSet := { ps with global := pinsAll ps.global privs }
def addDynamic (ps : PrivSet) (wgo : Bool) (names : List String) : PrivSet :=
  { ps with dynamic := names.foldl (fun m n => mset m (lower n) wgo) ps.dynamic }
def addDb (ps : PrivSet) (d : String) (privs : List Priv) : PrivSet :=
  let s := ps.dbOrNew d
  ps.setDb d { s with privs := pinsAll s.privs privs }
def addTbl (ps : PrivSet) (d t : String) (privs : List Priv) : PrivSet :=
  let s := ps.dbOrNew d
  let tp := (mget s.tables (lower t)).getD []
  ps.setDb d { s with tables := mset s.tables (lower t) (pinsAll tp privs) }
def addRtn (ps : PrivSet) (d r : String) (isProc : Bool) (privs : List Priv) : PrivSet :=
  let s := ps.dbOrNew d
  let rp := (mget s.routines (lower r, isProc)).getD []
  ps.setDb d { s with routines := mset s.routines (lower r, isProc) (pinsAll rp privs) }

def remGlobal (ps : PrivSet) (privs : List Priv) : PrivSet := { ps with global := premAll ps.global privs }
/-- Go: `RemoveGlobalDynamic` — deletes the key *as given* (no lower-casing). -/
def remDynamic (ps : PrivSet) (names : List String) : PrivSet :=
  { ps with dynamic := names.foldl merase ps.dynamic }
/-- Go: `RemoveDatabase`: delete the privileges, then `if len(dbSet.privs) == 0 { delete(ps.databases, db) }` —
the whole database entry goes, with its table and routine sets. -/
def remDb (ps : PrivSet) (d : String) (privs : List Priv) : PrivSet :=
  match mget ps.dbs (lower d) with
  | none => ps
  | some s =>
    let pr := premAll s.privs privs
    if pr.isEmpty then { ps with dbs := merase ps.dbs (lower d) } else ps.setDb d { s with privs := pr }
def remTbl (ps : PrivSet) (d t : String) (privs : List Priv) : PrivSet :=
  match mget ps.dbs (lower d) with
  | none => ps
  | some s =>
    match mget s.tables (lower t) with
    | none => ps
    | some tp => ps.setDb d { s with tables := mset s.tables (lower t) (premAll tp privs) }
/-- Go: `RemoveRoutine` (uses `getUseableDb`/`getUseableRoutine`, so entries are created); the final
`delete(routines, routineKey{procName, isProc})` uses the name as given: every key of the map is
lower-cased, so it removes something only when the given name is already lower-case. -/
def remRtn (ps : PrivSet) (d r : String) (isProc : Bool) (privs : List Priv) : PrivSet :=
  let s := ps.dbOrNew d
  let rp := premAll ((mget s.routines (lower r, isProc)).getD []) privs
  let rs := mset s.routines (lower r, isProc) rp
  let rs := if rp.isEmpty ∧ r = lower r then merase rs (r, isProc) else rs
  ps.setDb d { s with routines := rs }

def clearGlobal (ps : PrivSet) : PrivSet := { ps with global := [], dynamic := [] }
/-- Go: `ClearDatabase`: `dbSet.clear(); delete(ps.databases, db)` — again the whole entry. -/
def clearDb (ps : PrivSet) (d : String) : PrivSet := { ps with dbs := merase ps.dbs (lower d) }
def clearTbl (ps : PrivSet) (d t : String) : PrivSet :=
  let s := ps.dbOrNew d
  ps.setDb d { s with tables := mset s.tables (lower t) [] }

def unionDb (s o : DbSet) : DbSet :=
  { privs := pinsAll s.privs o.privs
    tables := mfold o.tables (fun acc k v => mset acc k (pinsAll ((mget acc k).getD []) v)) s.tables
    routines := mfold o.routines (fun acc k v => mset acc k (pinsAll ((mget acc k).getD []) v)) s.routines }

/-- Go: `UnionWith`. -/
def union (ps o : PrivSet) : PrivSet :=
  { global := pinsAll ps.global o.global
    dynamic := mfold o.dynamic (fun acc k w => mset acc k (((mget acc k).getD false) || w)) ps.dynamic
    dbs := mfold o.dbs (fun acc k s => mset acc k (unionDb ((mget acc k).getD {}) s)) ps.dbs }

end PrivSet

/-! ## Spec: a privilege set is a set of grants -/

inductive Grant where
  | glob (p : Priv)
  | dyn (n : String)
  | db (d : String) (p : Priv)
  | tbl (d t : String) (p : Priv)
  | rtn (d r : String) (isProc : Bool) (p : Priv)
  deriving DecidableEq, Repr, Inhabited

/-- The grant lives inside database `d` (database, table or routine level). -/
def Grant.atDb (d : String) : Grant → Bool
  | .db d' _ => d' = d
  | .tbl d' _ _ => d' = d
  | .rtn d' _ _ _ => d' = d
  | _ => false

def Grant.isDbLevel (d : String) : Grant → Bool
  | .db d' _ => d' = d
  | _ => false

/-- The grant lives strictly below database `d` (table or routine level). -/
def Grant.belowDb (d : String) : Grant → Bool
  | .tbl d' _ _ => d' = d
  | .rtn d' _ _ _ => d' = d
  | _ => false

def Grant.isTbl (d t : String) : Grant → Bool
  | .tbl d' t' _ => d' = d ∧ t' = t
  | _ => false

def Grant.isGlobalLevel : Grant → Bool
  | .glob _ => true
  | .dyn _ => true
  | _ => false

def Grant.isGlob : Grant → Bool
  | .glob _ => true
  | _ => false

abbrev GSet := List Grant

/-- What the Impl privilege set says about one grant (the abstraction function). -/
def PrivSet.holds (ps : PrivSet) : Grant → Bool
  | .glob p => p ∈ ps.global
  | .dyn n => (mget ps.dynamic n).isSome
  | .db d p => match mget ps.dbs d with | some s => p ∈ s.privs | none => false
  | .tbl d t p => match mget ps.dbs d with
    | some s => (match mget s.tables t with | some tp => p ∈ tp | none => false)
    | none => false
  | .rtn d r b p => match mget ps.dbs d with
    | some s => (match mget s.routines (r, b) with | some rp => p ∈ rp | none => false)
    | none => false

/-! ## What the authorization code asks a privilege set -/
structure View where
  hasGlobal : Priv → Bool                          -- ps.Has(p)
  hasDyn : String → Bool                           -- ps.HasDynamic(n)
  hasDb : String → Priv → Bool                     -- ps.Database(d).Has(p)
  hasTbl : String → String → Priv → Bool           -- ps.Database(d).Table(t).Has(p)
  hasRtn : String → String → Bool → Priv → Bool    -- ps.Database(d).Routine(r,isProc).Has(p)
  globalNone : Bool                                -- ps.Count() == 0
  dbNone : String → Bool                           -- ps.Database(d).Count() == 0
  dbAny : String → Bool                            -- ps.Database(d).HasPrivileges()
  tblAny : String → String → Bool                  -- ps.Database(d).Table(t).HasPrivileges()

def PrivSet.view (ps : PrivSet) : View where
  hasGlobal p := p ∈ ps.global
  hasDyn n := (mget ps.dynamic (lower n)).isSome
  hasDb d p := match mget ps.dbs (lower d) with | some s => p ∈ s.privs | none => false
  hasTbl d t p := match mget ps.dbs (lower d) with
    | some s => (match mget s.tables (lower t) with | some tp => p ∈ tp | none => false)
    | none => false
  hasRtn d r b p := match mget ps.dbs (lower d) with
    | some s => (match mget s.routines (lower r, b) with | some rp => p ∈ rp | none => false)
    | none => false
  globalNone := ps.global.isEmpty
  dbNone d := match mget ps.dbs (lower d) with | some s => s.privs.isEmpty | none => true
  dbAny d := match mget ps.dbs (lower d) with
    | some s => !s.privs.isEmpty || manyVal s.tables (fun tp => !tp.isEmpty) || manyVal s.routines (fun rp => !rp.isEmpty)
    | none => false
  tblAny d t := match mget ps.dbs (lower d) with
    | some s => (match mget s.tables (lower t) with | some tp => !tp.isEmpty | none => false)
    | none => false

def GSet.view (gs : GSet) : View where
  hasGlobal p := decide (Grant.glob p ∈ gs)
  hasDyn n := decide (Grant.dyn (lower n) ∈ gs)
  hasDb d p := decide (Grant.db (lower d) p ∈ gs)
  hasTbl d t p := decide (Grant.tbl (lower d) (lower t) p ∈ gs)
  hasRtn d r b p := decide (Grant.rtn (lower d) (lower r) b p ∈ gs)
  globalNone := gs.all (fun g => !g.isGlob)
  dbNone d := gs.all (fun g => !g.isDbLevel (lower d))
  dbAny d := gs.any (fun g => g.atDb (lower d))
  tblAny d t := gs.any (fun g => g.isTbl (lower d) (lower t))

/-! ## The privilege-set algebra -/
structure PS (σ : Type) where
  empty : σ
  addGlobal : σ → List Priv → σ
  addDynamic : σ → Bool → List String → σ
  addDb : σ → String → List Priv → σ
  addTbl : σ → String → String → List Priv → σ
  addRtn : σ → String → String → Bool → List Priv → σ
  remGlobal : σ → List Priv → σ
  remDynamic : σ → List String → σ
  remDb : σ → String → List Priv → σ
  remTbl : σ → String → String → List Priv → σ
  remRtn : σ → String → String → Bool → List Priv → σ
  clearGlobal : σ → σ
  clearDb : σ → String → σ
  clearTbl : σ → String → String → σ
  union : σ → σ → σ
  view : σ → View

def implPS : PS PrivSet where
  empty := {}
  addGlobal := PrivSet.addGlobal
  addDynamic := PrivSet.addDynamic
  addDb := PrivSet.addDb
  addTbl := PrivSet.addTbl
  addRtn := PrivSet.addRtn
  remGlobal := PrivSet.remGlobal
  remDynamic := PrivSet.remDynamic
  remDb := PrivSet.remDb
  remTbl := PrivSet.remTbl
  remRtn := PrivSet.remRtn
  clearGlobal := PrivSet.clearGlobal
  clearDb := PrivSet.clearDb
  clearTbl := PrivSet.clearTbl
  union := PrivSet.union
  view := PrivSet.view

/-- Spec: GRANT adds exactly the named grants, REVOKE removes exactly the named grants at the named
level and nothing else. (`remDynamic` keeps the implementation's convention that the name is
compared as given; SQL statements always deliver it lower-cased.) -/
def specPS : PS GSet where
  empty := []
  addGlobal gs privs := gs ++ privs.map Grant.glob
  addDynamic gs _ names := gs ++ names.map (fun n => Grant.dyn (lower n))
  addDb gs d privs := gs ++ privs.map (Grant.db (lower d))
  addTbl gs d t privs := gs ++ privs.map (Grant.tbl (lower d) (lower t))
  addRtn gs d r b privs := gs ++ privs.map (Grant.rtn (lower d) (lower r) b)
  remGlobal gs privs := gs.filter (fun g => !(privs.any fun p => decide (g = Grant.glob p)))
  remDynamic gs names := gs.filter (fun g => !(names.any fun n => decide (g = Grant.dyn n)))
  remDb gs d privs := gs.filter (fun g => !(privs.any fun p => decide (g = Grant.db (lower d) p)))
  remTbl gs d t privs := gs.filter (fun g => !(privs.any fun p => decide (g = Grant.tbl (lower d) (lower t) p)))
  remRtn gs d r b privs := gs.filter (fun g => !(privs.any fun p => decide (g = Grant.rtn (lower d) (lower r) b p)))
  clearGlobal gs := gs.filter (fun g => !g.isGlobalLevel)
  clearDb gs d := gs.filter (fun g => !g.isDbLevel (lower d))
  clearTbl gs d t := gs.filter (fun g => !g.isTbl (lower d) (lower t))
  union a b := a ++ b
  view := GSet.view

/-! ## `UserHasPrivileges` / `RoutineAdminCheck` (mysql_db.go) -/

structure Op where
  db : String := ""
  tbl : String := ""
  rtn : String := ""
  isProc : Bool := false
  statics : List Priv := []
  dynamics : List String := []
  deriving Repr, Inhabited

def opDb (cur : String) (op : Op) : String := if op.db = "" then cur else op.db

def opAllowed (v : View) (cur : String) (op : Op) : Bool :=
  op.statics.all (fun p =>
    v.hasGlobal p || v.hasDb (opDb cur op) p || v.hasTbl (opDb cur op) op.tbl p ||
      v.hasRtn (opDb cur op) op.rtn op.isProc p)
  && op.dynamics.all v.hasDyn

/-- Go: `MySQLDb.UserHasPrivileges` (accounts enabled). -/
def userHasPrivileges (v : View) (cur : String) (ops : List Op) : Bool :=
  v.hasGlobal P_Super || ops.all (opAllowed v cur)

/-- Go: `MySQLDb.RoutineAdminCheck`. -/
def routineAdminCheck (v : View) (cur : String) (ops : List Op) : Bool :=
  v.hasGlobal P_Super ||
    ops.all (fun op => op.statics.all (fun p => v.hasRtn (opDb cur op) op.rtn op.isProc p))

/-! ## Accounts, role edges, `GetUser` -/

structure User (σ : Type) where
  name : String
  host : String
  privs : σ
  isRole : Bool := false
  locked : Bool := false

structure Edge where
  fromHost : String
  fromUser : String
  toHost : String
  toUser : String
  admin : Bool
  deriving DecidableEq, Repr

structure St (σ : Type) where
  users : List (User σ) := []     -- in insertion order (the secondary index is a slice per user name)
  edges : List Edge := []

/-- Go: `matchesHostPattern`'s regular expression: `%` ↦ `.*` (which does not cross a newline),
everything else literal. -/
def globMatch : List Char → List Char → Bool
  | [], [] => true
  | [], _ :: _ => false
  | p :: ps, [] => if p = '%' then globMatch ps [] else false
  | p :: ps, c :: hs =>
    if p = '%' then globMatch ps (c :: hs) || (c ≠ '\n' && globMatch (p :: ps) hs)
    else p = c && globMatch ps hs
termination_by p h => p.length + h.length

def matchesHostPattern (host pattern : String) : Bool :=
  pattern.toList.contains '%' && globMatch pattern.toList host.toList

def normHost (host : String) : String := if host = "127.0.0.1" ∨ host = "::1" then "localhost" else host

/-- Go: the disjunction inside the loop of `MySQLDb.GetUser`. -/
def hostMatches (host orig uHost : String) (roleSearch : Bool) : Bool :=
  host = uHost || (host = "localhost" && uHost = "::1") || (host = "localhost" && uHost = "127.0.0.1") ||
  (uHost = "%" && (!roleSearch || host = "")) || matchesHostPattern host uHost ||
  (orig ≠ host && matchesHostPattern orig uHost)

/-- Index of the first key satisfying `P`. -/
def findIdx (P : String × String → Bool) : List (String × String) → Option Nat
  | [] => none
  | k :: r => if P k then some 0 else (findIdx P r).map (· + 1)

/-- Go: `MySQLDb.GetUser`, on the list of `(name, host)` keys in insertion order; returns the
position of the account. -/
def getUserIdx (keys : List (String × String)) (user host : String) (roleSearch : Bool) : Option Nat :=
  let h := normHost host
  match findIdx (fun k => k.2 = h ∧ k.1 = user) keys with
  | some i => some i
  | none =>
    match findIdx (fun k => k.1 = user && hostMatches h host k.2 roleSearch) keys with
    | some i => some i
    | none => findIdx (fun k => k.1 = "" && hostMatches h host k.2 roleSearch) keys

def St.keys {σ : Type} (st : St σ) : List (String × String) := st.users.map (fun u => (u.name, u.host))

def modifyAt {α : Type} (f : α → α) : List α → Nat → List α
  | [], _ => []
  | a :: r, 0 => f a :: r
  | a :: r, n + 1 => a :: modifyAt f r n

/-! ## The machine, written once over the algebra -/
section Machine
variable {σ : Type} (A : PS σ)

/-- Go: `UserActivePrivilegeSet`: the account's own set, united with the set of *every* role granted
to it directly (there is no SET ROLE; role-to-role edges are not followed). -/
def activePrivs (st : St σ) (u : User σ) : σ :=
  (st.edges.filter (fun e => e.toHost = u.host ∧ e.toUser = u.name)).foldl
    (fun acc e =>
      match getUserIdx st.keys e.fromUser e.fromHost true with
      | some i => (match st.users[i]? with | some r => A.union acc r.privs | none => acc)
      | none => acc)
    (A.union A.empty u.privs)

/-! ### plan.Privilege and the GRANT/REVOKE tables (plan/grant_data.go, grant.go, revoke.go) -/

/-- plan.PrivilegeType (plan/grant_data.go). -/
def PT_All := 0
def PT_Usage := 32
def PT_Dynamic := 33

/-- plan.PrivilegeType ↦ sql.PrivilegeType for the 31 static privileges (`none` for ALL, USAGE,
DYNAMIC): the `switch` of `convertToSqlPrivilegeType` and of every `Handle*Privileges`. -/
def planToSql : Nat → Option Priv
  | 1 => some P_Alter | 2 => some P_AlterRoutine | 3 => some P_Create | 4 => some P_CreateRole
  | 5 => some P_CreateRoutine | 6 => some P_CreateTablespace | 7 => some P_CreateTempTable
  | 8 => some P_CreateUser | 9 => some P_CreateView | 10 => some P_Delete | 11 => some P_Drop
  | 12 => some P_DropRole | 13 => some P_Event | 14 => some P_Execute | 15 => some P_File
  | 16 => some P_GrantOption | 17 => some P_Index | 18 => some P_Insert | 19 => some P_LockTables
  | 20 => some P_Process | 21 => some P_References | 22 => some P_Reload | 23 => some P_ReplicationClient
  | 24 => some P_ReplicationSlave | 25 => some P_Select | 26 => some P_ShowDB | 27 => some P_ShowView
  | 28 => some P_Shutdown | 29 => some P_Super | 30 => some P_Trigger | 31 => some P_Update
  | _ => none

/-- plan privilege types accepted at each level by `Handle{Global,Database,Table,Routine}Privileges`
(besides ALL / USAGE / DYNAMIC, which have their own branches). -/
def globalTypes : List Nat := [1, 2, 3, 4, 5, 6, 7, 8, 9, 10, 11, 12, 13, 14, 15, 16, 17, 18, 19, 20, 21, 22, 23, 24, 25, 26, 27, 28, 29, 30, 31]
def dbTypes : List Nat := [1, 2, 3, 5, 7, 9, 10, 11, 13, 14, 16, 17, 18, 19, 21, 25, 27, 30, 31]
def tblTypes : List Nat := [1, 3, 9, 10, 11, 16, 17, 18, 21, 25, 27, 30, 31]
def rtnTypes : List Nat := [14, 2, 16]

/-- `grantAllGlobalPrivileges` (everything but GRANT OPTION). -/
def allGlobal : List Priv :=
  [P_Select, P_Insert, P_Update, P_Delete, P_Create, P_Drop, P_Reload, P_Shutdown, P_Process, P_File,
   P_References, P_Index, P_Alter, P_ShowDB, P_Super, P_CreateTempTable, P_LockTables, P_Execute,
   P_ReplicationSlave, P_ReplicationClient, P_CreateView, P_ShowView, P_CreateRoutine, P_AlterRoutine,
   P_CreateUser, P_Event, P_Trigger, P_CreateTablespace, P_CreateRole, P_DropRole]
/-- `grantAllDatabasePrivileges`. -/
def allDb : List Priv :=
  [P_Alter, P_AlterRoutine, P_Create, P_CreateRoutine, P_CreateTempTable, P_CreateView, P_Delete, P_Drop,
   P_Event, P_Execute, P_Index, P_Insert, P_LockTables, P_References, P_Select, P_ShowView, P_Trigger, P_Update]
/-- `grantAllTablePrivileges`. -/
def allTbl : List Priv :=
  [P_Alter, P_Create, P_CreateView, P_Delete, P_Drop, P_Index, P_Insert, P_References, P_Select, P_ShowView,
   P_Trigger, P_Update]

structure PPriv where
  type : Nat            -- plan.PrivilegeType
  dyn : String := ""    -- Privilege.Dynamic
  cols : Bool := false  -- len(Privilege.Columns) > 0
  deriving Repr, Inhabited

def validDynamic (n : String) : Bool := n = "replication_slave_admin" || n = "clone_admin"

/-- Go: `convertToSqlPrivilegeType(true, privs...)`. -/
def convertPrivs (privs : List PPriv) : List Priv :=
  privs.filterMap (fun p => planToSql p.type) ++ [P_GrantOption]

inductive ExecErr where
  | illegal | other | noUser | noRole | exists_ | noSuchGrant | noDb
  deriving DecidableEq, Repr

def ExecErr.str : ExecErr → String
  | .illegal => "err:illegal" | .other => "err:other" | .noUser => "err:nouser" | .noRole => "err:norole"
  | .exists_ => "err:exists" | .noSuchGrant => "err:nogrant" | .noDb => "err:nodb"

/-- Fold with early exit that keeps the state reached so far (the Go executors mutate the
accounts in place and return at the first error). -/
def foldE {α β : Type} (f : β → α → β × Option ExecErr) : List α → β → β × Option ExecErr
  | [], b => (b, none)
  | a :: r, b =>
    match f b a with
    | (b', none) => foldE f r b'
    | (b', some e) => (b', some e)

/-- Go: `Grant.HandleGlobalPrivileges` on one account's set. -/
def grantGlobalOne (wgo : Bool) (n : Nat) (ps : σ) (ip : Nat × PPriv) : σ × Option ExecErr :=
  let (i, p) := ip
  if p.cols then (ps, some .illegal)
  else if p.type = PT_All then
    if i = 0 ∧ n = 1 then (A.addGlobal ps allGlobal, none) else (ps, some .illegal)
  else if p.type = PT_Usage then (ps, none)
  else if p.type = PT_Dynamic then
    if validDynamic p.dyn then (A.addDynamic ps wgo [p.dyn], none) else (ps, some .other)
  else if p.type ∈ globalTypes then
    match planToSql p.type with
    | some q => (A.addGlobal ps [q], none)
    | none => (ps, some .illegal)
  else (ps, some .illegal)

def grantDbOne (d : String) (n : Nat) (ps : σ) (ip : Nat × PPriv) : σ × Option ExecErr :=
  let (i, p) := ip
  if p.cols then (ps, some .illegal)
  else if p.type = PT_All then
    if i = 0 ∧ n = 1 then (A.addDb ps d allDb, none) else (ps, some .illegal)
  else if p.type = PT_Usage then (ps, none)
  else if p.type = PT_Dynamic then (ps, some .illegal)
  else if p.type ∈ dbTypes then
    match planToSql p.type with
    | some q => (A.addDb ps d [q], none)
    | none => (ps, some .illegal)
  else (ps, some .illegal)

def grantTblOne (d t : String) (n : Nat) (ps : σ) (ip : Nat × PPriv) : σ × Option ExecErr :=
  let (i, p) := ip
  if p.cols then (ps, some .other)
  else if p.type = PT_All then
    if i = 0 ∧ n = 1 then (A.addTbl ps d t allTbl, none) else (ps, some .illegal)
  else if p.type = PT_Usage then (ps, none)
  else if p.type = PT_Dynamic then (ps, some .illegal)
  else if p.type ∈ tblTypes then
    match planToSql p.type with
    | some q => (A.addTbl ps d t [q], none)
    | none => (ps, some .illegal)
  else (ps, some .illegal)

def grantRtnOne (d r : String) (isProc : Bool) (ps : σ) (p : PPriv) : σ × Option ExecErr :=
  if p.type ∈ rtnTypes then
    match planToSql p.type with
    | some q => (A.addRtn ps d r isProc [q], none)
    | none => (ps, some .illegal)
  else (ps, some .illegal)

def revokeGlobalOne (n : Nat) (ps : σ) (ip : Nat × PPriv) : σ × Option ExecErr :=
  let (i, p) := ip
  if p.cols then (ps, some .illegal)
  else if p.type = PT_All then
    if i = 0 ∧ n = 1 then (A.clearGlobal ps, none) else (ps, some .illegal)
  else if p.type = PT_Usage then (ps, none)
  else if p.type = PT_Dynamic then
    if validDynamic p.dyn then (A.remDynamic ps [p.dyn], none) else (ps, some .other)
  else if p.type ∈ globalTypes then
    match planToSql p.type with
    | some q => (A.remGlobal ps [q], none)
    | none => (ps, some .illegal)
  else (ps, some .illegal)

def revokeDbOne (d : String) (n : Nat) (ps : σ) (ip : Nat × PPriv) : σ × Option ExecErr :=
  let (i, p) := ip
  if p.cols then (ps, some .illegal)
  else if p.type = PT_All then
    if i = 0 ∧ n = 1 then (A.clearDb ps d, none) else (ps, some .illegal)
  else if p.type = PT_Usage then (ps, none)
  else if p.type = PT_Dynamic then (ps, some .illegal)
  else if p.type ∈ dbTypes then
    match planToSql p.type with
    | some q => (A.remDb ps d [q], none)
    | none => (ps, some .illegal)
  else (ps, some .illegal)

def revokeTblOne (d t : String) (n : Nat) (ps : σ) (ip : Nat × PPriv) : σ × Option ExecErr :=
  let (i, p) := ip
  if p.cols then (ps, some .other)
  else if p.type = PT_All then
    if i = 0 ∧ n = 1 then (A.clearTbl ps d t, none) else (ps, some .illegal)
  else if p.type = PT_Usage then (ps, none)
  else if p.type = PT_Dynamic then (ps, some .illegal)
  else if p.type ∈ tblTypes then
    match planToSql p.type with
    | some q => (A.remTbl ps d t [q], none)
    | none => (ps, some .illegal)
  else (ps, some .illegal)

def revokeRtnOne (d r : String) (isProc : Bool) (ps : σ) (p : PPriv) : σ × Option ExecErr :=
  if p.type ∈ rtnTypes then
    match planToSql p.type with
    | some q => (A.remRtn ps d r isProc [q], none)
    | none => (ps, some .illegal)
  else (ps, some .illegal)

/-! ### statements -/

inductive Stmt where
  | none
  | createUser (ifNotExists : Bool) (users : List (String × String))
  | createRole (ifNotExists : Bool) (roles : List (String × String))   -- host already "%" when AnyHost
  | dropUser (ifExists : Bool) (users : List (String × String))
  | dropRole (ifExists : Bool) (roles : List (String × String))
  | grant (lvDb lvTbl : String) (objType : Nat) (privs : List PPriv) (users : List (String × String))
      (wgo : Bool) (as_ : Bool)
  | revoke (lvDb lvTbl : String) (objType : Nat) (privs : List PPriv) (users : List (String × String))
      (ignoreUnknown : Bool)
  | grantRole (roles users : List (String × String)) (admin : Bool)
  | revokeRole (roles users : List (String × String)) (ifExists ignoreUnknown : Bool)
  deriving Repr, Inhabited

/-- plan.ObjectType -/
def OT_Any := 0
def OT_Table := 1
def OT_Function := 2
def OT_Procedure := 3

def enum {α : Type} (l : List α) : List (Nat × α) := (List.range l.length).zip l

/-- Apply a privilege-set transformer to the account at position `i` (in place). -/
def St.modUser (st : St σ) (i : Nat) (f : σ → σ × Option ExecErr) : St σ × Option ExecErr :=
  match st.users[i]? with
  | none => (st, some .other)
  | some u =>
    let (ps, e) := f u.privs
    ({ st with users := modifyAt (fun u => { u with privs := ps }) st.users i }, e)

/-- Go: `buildGrant` (rowexec/priv.go). -/
def execGrant (st : St σ) (cur : String) (lvDb lvTbl : String) (objType : Nat) (privs : List PPriv)
    (users : List (String × String)) (wgo as_ : Bool) : St σ × Option ExecErr :=
  let n := privs.length
  let eachUser (f : σ → σ × Option ExecErr) : St σ × Option ExecErr :=
    foldE (fun st (u : String × String) =>
      match getUserIdx st.keys u.1 u.2 false with
      | none => (st, some ExecErr.noUser)
      | some i => st.modUser i f) users st
  if lvDb = "*" ∧ lvTbl = "*" then
    if objType ≠ OT_Any then (st, some .illegal)
    else if as_ then (st, some .other)
    else eachUser (fun ps =>
      match foldE (grantGlobalOne A wgo n) (enum privs) ps with
      | (ps, some e) => (ps, some e)
      | (ps, none) => (if wgo then A.addGlobal ps [P_GrantOption] else ps, none))
  else if lvDb ≠ "*" ∧ lvTbl = "*" then
    let d := if lvDb = "" then cur else lvDb
    if d = "" then (st, some .noDb)
    else if objType ≠ OT_Any then (st, some .illegal)
    else if as_ then (st, some .other)
    else eachUser (fun ps =>
      match foldE (grantDbOne A d n) (enum privs) ps with
      | (ps, some e) => (ps, some e)
      | (ps, none) => (if wgo then A.addDb ps d [P_GrantOption] else ps, none))
  else
    let d := if lvDb = "" then cur else lvDb
    if d = "" then (st, some .noDb)
    else if objType ≠ OT_Any then
      if objType = OT_Procedure then
        eachUser (fun ps => foldE (grantRtnOne A d lvTbl true) privs ps)
      else (st, some .other)
    else if as_ then (st, some .other)
    else eachUser (fun ps =>
      match foldE (grantTblOne A d lvTbl n) (enum privs) ps with
      | (ps, some e) => (ps, some e)
      | (ps, none) => (if wgo then A.addTbl ps d lvTbl [P_GrantOption] else ps, none))

/-- Go: `buildRevoke`: first every account is resolved, then the level is handled. -/
def execRevoke (st : St σ) (cur : String) (lvDb lvTbl : String) (objType : Nat) (privs : List PPriv)
    (users : List (String × String)) (ignoreUnknown : Bool) : St σ × Option ExecErr :=
  let n := privs.length
  let resolved : List Nat × Option ExecErr :=
    foldE (fun (acc : List Nat) (u : String × String) =>
      match getUserIdx st.keys u.1 u.2 false with
      | none => if ignoreUnknown then (acc, none) else (acc, some ExecErr.noSuchGrant)
      | some i => (acc ++ [i], none)) users []
  match resolved with
  | (_, some e) => (st, some e)
  | (idxs, none) =>
    let eachUser (f : σ → σ × Option ExecErr) : St σ × Option ExecErr :=
      foldE (fun st i => st.modUser i f) idxs st
    if lvDb = "*" then
      if lvTbl ≠ "*" then (st, some .illegal)
      else if objType ≠ OT_Any then (st, some .illegal)
      else eachUser (fun ps => foldE (revokeGlobalOne A n) (enum privs) ps)
    else
      let d := if lvDb = "" then cur else lvDb
      if d = "" then (st, some .noDb)
      else if lvTbl = "*" then
        if objType ≠ OT_Any then (st, some .illegal)
        else eachUser (fun ps => foldE (revokeDbOne A d n) (enum privs) ps)
      else if objType ≠ OT_Any then
        if objType = OT_Procedure ∨ objType = OT_Function then
          eachUser (fun ps => foldE (revokeRtnOne A d lvTbl (objType = OT_Procedure)) privs ps)
        else (st, some .other)
      else eachUser (fun ps => foldE (revokeTblOne A d lvTbl n) (enum privs) ps)

def Edge.isFrom (h u : String) (e : Edge) : Bool := e.fromHost = h ∧ e.fromUser = u
def Edge.isTo (h u : String) (e : Edge) : Bool := e.toHost = h ∧ e.toUser = u

def eraseIdx' {α : Type} : List α → Nat → List α
  | [], _ => []
  | _ :: r, 0 => r
  | a :: r, n + 1 => a :: eraseIdx' r n

/-- Remove account `i` and every role edge from or to it (`buildDropUser`, `buildDropRole`). -/
def St.dropAt (st : St σ) (i : Nat) : St σ :=
  match st.users[i]? with
  | none => st
  | some u =>
    { users := eraseIdx' st.users i
      edges := st.edges.filter (fun e => !(e.isFrom u.host u.name) && !(e.isTo u.host u.name)) }

def St.pkIdx (st : St σ) (name host : String) : Option Nat :=
  findIdx (fun k => k.2 = host ∧ k.1 = name) st.keys

/-- Go: `Editor.PutRoleEdge`: an edge with the same four names and the same admin flag is replaced
(`RoleEdgeEquals` compares the whole struct, so an edge that differs only in the admin flag is *added
beside* the old one). -/
def putEdge (edges : List Edge) (e : Edge) : List Edge := edges.filter (fun x => decide (x ≠ e)) ++ [e]

/-- Execute the privilege-state effect of a statement. -/
def exec (st : St σ) (cur : String) : Stmt → St σ × Option ExecErr
  | .none => (st, none)
  | .createUser ine users =>
    foldE (fun st (u : String × String) =>
      let host := if u.2 = "" then "%" else u.2
      match st.pkIdx u.1 host with
      | some _ => if ine then (st, none) else (st, some ExecErr.exists_)
      | none =>
        if u.1.length > 32 ∨ host.length > 255 then (st, some ExecErr.other)
        else ({ st with users := st.users ++ [{ name := u.1, host := host, privs := A.empty }] }, none)) users st
  | .createRole ine roles =>
    foldE (fun st (r : String × String) =>
      match st.pkIdx r.1 r.2 with
      | some _ => if ine then (st, none) else (st, some ExecErr.exists_)
      | none => ({ st with users := st.users ++ [{ name := r.1, host := r.2, privs := A.empty, isRole := true, locked := true }] }, none))
      roles st
  | .dropUser ie users =>
    foldE (fun st (u : String × String) =>
      match getUserIdx st.keys u.1 u.2 false with
      | none => if ie then (st, none) else (st, some ExecErr.noUser)
      | some i => (st.dropAt i, none)) users st
  | .dropRole ie roles =>
    foldE (fun st (r : String × String) =>
      match st.pkIdx r.1 r.2 with
      | none => if ie then (st, none) else (st, some ExecErr.noRole)
      | some i => (st.dropAt i, none)) roles st
  | .grant lvDb lvTbl ot privs users wgo as_ => execGrant A st cur lvDb lvTbl ot privs users wgo as_
  | .revoke lvDb lvTbl ot privs users ign => execRevoke A st cur lvDb lvTbl ot privs users ign
  | .grantRole roles users admin =>
    foldE (fun st (u : String × String) =>
      match getUserIdx st.keys u.1 u.2 false with
      | none => (st, some ExecErr.noRole)
      | some i =>
        foldE (fun st (r : String × String) =>
          match getUserIdx st.keys r.1 r.2 true, st.keys[i]? with
          | some j, some uk =>
            (match st.keys[j]? with
             | some rk => ({ st with edges := putEdge st.edges (Edge.mk rk.2 rk.1 uk.2 uk.1 admin) }, none)
             | none => (st, some ExecErr.other))
          | _, _ => (st, some ExecErr.noRole)) roles st) users st
  | .revokeRole roles users ifExists ign =>
    foldE (fun st (u : String × String) =>
      match getUserIdx st.keys u.1 u.2 false with
      | none => if ign then (st, none) else (st, some ExecErr.noRole)
      | some i =>
        foldE (fun st (r : String × String) =>
          match getUserIdx st.keys r.1 r.2 true, st.keys[i]? with
          | some j, some uk =>
            (match st.keys[j]? with
             | some rk => ({ st with edges := st.edges.filter (fun e =>
                              !(e.fromHost = rk.2 ∧ e.fromUser = rk.1 ∧ e.toHost = uk.2 ∧ e.toUser = uk.1)) }, none)
             | none => (st, some ExecErr.other))
          | _, _ => if ifExists then (st, none) else (st, some ExecErr.noRole)) roles st) users st

/-! ### authorization: planbuilder/auth_default.go, plan/grant.go, plan/revoke.go -/

inductive Outcome where
  | ok | denied | dbDenied | tblDenied | noAccount | authErr | crash
  deriving DecidableEq, Repr, Inhabited

def Outcome.str : Outcome → String
  | .ok => "ok" | .denied => "denied" | .dbDenied => "dbdenied" | .tblDenied => "tbldenied"
  | .noAccount => "noaccount" | .authErr => "autherr" | .crash => "crash"

/-- Go: `authDatabaseName`. -/
def authDbName (cur dbName : String) : String :=
  let d := if dbName = "" then cur else dbName
  (d.splitOn "/").headD ""

def isInfoSchema (d : String) : Bool := lower d = "information_schema"

/-- Go: `authCheckDatabaseTableNames`. -/
def authCheckNames (v : View) (cur dbName tableName : String) : Outcome :=
  if isInfoSchema dbName then .ok
  else
    let d := authDbName cur dbName
    if v.globalNone && !v.dbAny d then .dbDenied
    else if tableName ≠ "" ∧ (v.globalNone && v.dbNone d && !v.tblAny d tableName) then .tblDenied
    else .ok

/-- `AuthType`s whose case only sets `privilegeTypes` (the regenerated table `simpleAuthTypes`). -/
def simpleAuth : String → Option (List Priv)
  | "ALTER" => some [P_Alter]
  | "ALTER_ROUTINE" => some [P_AlterRoutine]
  | "CREATE" => some [P_Create]
  | "CREATE_ROUTINE" => some [P_CreateRoutine]
  | "CREATE_TEMP" => some [P_CreateTempTable]
  | "CREATE_USER" => some [P_CreateUser]
  | "CREATE_VIEW" => some [P_CreateView]
  | "DELETE" => some [P_Delete]
  | "DROP" => some [P_Drop]
  | "EVENT" => some [P_Event]
  | "FILE" => some [P_File]
  | "FOREIGN_KEY" => some [P_References]
  | "INDEX" => some [P_Index]
  | "INSERT" => some [P_Insert]
  | "LOCK" => some [P_Select, P_LockTables]
  | "PROCESS" => some [P_Process]
  | "RELOAD" => some [P_Reload]
  | "REPLACE" => some [P_Insert, P_Delete]
  | "REPLICATION_CLIENT" => some [P_ReplicationClient]
  | "SELECT" => some [P_Select]
  | "SHOW" => some []
  | "SUPER" => some [P_Super]
  | "TRIGGER" => some [P_Trigger]
  | "UPDATE" => some [P_Update]
  | _ => none

def allGlobalWithGrant : List Priv :=
  [P_Select, P_Insert, P_Update, P_Delete, P_Create, P_Drop, P_Reload, P_Shutdown, P_Process, P_File,
   P_References, P_Index, P_Alter, P_ShowDB, P_Super, P_CreateTempTable, P_LockTables, P_Execute,
   P_ReplicationSlave, P_ReplicationClient, P_CreateView, P_ShowView, P_CreateRoutine, P_AlterRoutine,
   P_CreateUser, P_Event, P_Trigger, P_CreateTablespace, P_CreateRole, P_DropRole, P_GrantOption]
def allDbWithGrant : List Priv := allDb ++ [P_GrantOption]
def allTblWithGrant : List Priv := allTbl ++ [P_GrantOption]

def firstIsAll : List PPriv → Option Bool
  | [] => none
  | p :: _ => some (p.type = PT_All)

/-- Go: the common part of `Grant.CheckAuth` and `Revoke.CheckAuth` for the `*.*` and `db.*` levels and
the table level; `none` = index out of range on `n.Privileges[0]`. -/
def levelCheck (v : View) (cur lvDb lvTbl : String) (privs : List PPriv) : Option Bool :=
  if lvDb = "*" ∧ lvTbl = "*" then
    (firstIsAll privs).map fun all =>
      userHasPrivileges v cur [{ statics := if all then allGlobalWithGrant else convertPrivs privs }]
  else if lvDb ≠ "*" ∧ lvTbl = "*" then
    let d := if lvDb = "" then cur else lvDb
    (firstIsAll privs).map fun all =>
      userHasPrivileges v cur [{ db := d, statics := if all then allDbWithGrant else convertPrivs privs }]
  else
    (firstIsAll privs).map fun all =>
      userHasPrivileges v cur [{ db := lvDb, tbl := lvTbl, statics := if all then allTblWithGrant else convertPrivs privs }]

/-- Go: `GrantRole.CheckAuth` / `RevokeRole.CheckAuth` (`keys`/`edges`: the account keys and role
edges of the state, `ui`: position of the session's account). -/
def roleCheck (v : View) (cur : String) (keys : List (String × String)) (edges : List Edge) (ui : Nat)
    (roles : List (String × String)) : Bool :=
  userHasPrivileges v cur [{ statics := [P_Super] }] ||
  (match keys[ui]? with
   | none => false
   | some uk =>
     let mine := edges.filter (fun e => e.toHost = uk.2 ∧ e.toUser = uk.1)
     roles.all (fun r =>
       match getUserIdx keys r.1 r.2 true with
       | none => false
       | some j =>
         match keys[j]? with
         | none => false
         | some rk => mine.any (fun e => e.fromUser = rk.1 ∧ e.fromHost = rk.2 ∧ e.admin)))

/-- Go: `grantAndRevoke` → `node.CheckAuth`; `none` = panic. `adminOnly` is what
`Catalog.ExternalStoredProcedure` says about the routine (always false for the in-memory catalog). -/
def checkAuthNode (v : View) (cur : String) (keys : List (String × String)) (edges : List Edge) (ui : Nat)
    (adminOnly : Bool) : Stmt → Option Bool
  | .grant lvDb lvTbl ot privs _ _ _ =>
    if userHasPrivileges v cur [{ db := "mysql", statics := [P_Update] }] then some true
    else if (lvDb = "*" ∧ lvTbl = "*") ∨ (lvDb ≠ "*" ∧ lvTbl = "*") then levelCheck v cur lvDb lvTbl privs
    else if ot = OT_Procedure then
      let op : Op := { db := lvDb, rtn := lvTbl, isProc := true, statics := [P_GrantOption] }
      some ((!adminOnly && userHasPrivileges v cur [op]) || routineAdminCheck v cur [op])
    else if ot = OT_Function then some false
    else levelCheck v cur lvDb lvTbl privs
  | .revoke lvDb lvTbl _ privs _ _ =>
    if userHasPrivileges v cur [{ db := "mysql", statics := [P_Update] }] then some true
    else levelCheck v cur lvDb lvTbl privs
  | .grantRole roles _ _ => some (roleCheck v cur keys edges ui roles)
  | .revokeRole roles _ _ _ => some (roleCheck v cur keys edges ui roles)
  | _ => some false

def chunk2 : List String → List (String × String)
  | a :: b :: r => (a, b) :: chunk2 r
  | _ => []

def chunk4 : List String → List (String × String × String × String)
  | a :: b :: c :: d :: r => (a, b, c, d) :: chunk4 r
  | _ => []

def isNat (s : String) : Bool := !s.isEmpty && s.all Char.isDigit

/-- Go: `defaultAuthorizationHandler.HandleAuth` for an enabled handler whose session account is
`keys[ui]` with active view `v`. -/
def handleAuth (v : View) (cur : String) (keys : List (String × String)) (edges : List Edge) (ui : Nat)
    (adminOnly : Bool) (stmt : Stmt)
    (authType targetType : String) (names : List String) : Outcome :=
  let uhp (ops : List Op) := userHasPrivileges v cur ops
  -- first switch: Except-like triple (early outcome | hasPrivileges, privilegeTypes, targetType)
  let first : Outcome ⊕ (Bool × List Priv × String) :=
    if authType = "IGNORE" then .inl .ok
    else match simpleAuth authType with
    | some ps => .inr (true, ps, targetType)
    | none =>
      if authType = "ALTER_USER" then
        if uhp [{ db := "mysql", statics := [P_Update] }] || uhp [{ statics := [P_CreateUser] }] then .inr (true, [], targetType)
        else match names.head?, keys[ui]? with
          | some n, some uk => .inr (decide (uk.1 = n), [], targetType)
          | _, _ => .inl .crash
      else if authType = "BINLOG" then
        .inr (uhp [{ statics := [P_Super] }] || uhp [{ dynamics := ["binlog_admin"] }] ||
              uhp [{ dynamics := ["replication_applier"] }], [], targetType)
      else if authType = "CALL" then
        match names with
        | [n0, procName, n2] =>
          let d := authDbName cur n0
          if !isNat n2 then .inl .authErr
          else match authCheckNames v cur d "" with
            | .ok =>
              if !adminOnly && uhp [{ db := d, statics := [P_Execute] }] then .inr (true, [], targetType)
              else .inr (routineAdminCheck v cur [{ db := d, rtn := procName, isProc := true, statics := [P_Execute] }], [], targetType)
            | o => .inl o
        | _ => .inl .authErr
      else if authType = "CREATE_ROLE" then
        .inr (uhp [{ statics := [P_CreateRole] }] || uhp [{ statics := [P_CreateUser] }], [], targetType)
      else if authType = "DROP_ROLE" then
        .inr (uhp [{ statics := [P_DropRole] }] || uhp [{ statics := [P_CreateUser] }], [], targetType)
      else if authType ∈ ["GRANT_PRIVILEGE", "GRANT_PROXY", "GRANT_ROLE", "REVOKE_ALL", "REVOKE_PRIVILEGE", "REVOKE_PROXY", "REVOKE_ROLE"] then
        match checkAuthNode v cur keys edges ui adminOnly stmt with
        | some b => .inr (b, [], targetType)
        | none => .inl .crash
      else if authType = "RENAME" then
        if names.length % 4 ≠ 0 then .inl .authErr
        else
          let ops := (chunk4 names).flatMap (fun (a, b, c, d) =>
            [({ db := authDbName cur a, tbl := b, statics := [P_Alter, P_Drop] } : Op),
             { db := authDbName cur c, tbl := d, statics := [P_Create, P_Insert] }])
          .inr (uhp ops, [], targetType)
      else if authType = "REPLICATION" then
        .inr (uhp [{ dynamics := ["replication_slave_admin"] }], [], targetType)
      else if authType = "SHOW_CREATE_PROCEDURE" then
        match names.head? with
        | none => .inl .crash
        | some n0 =>
          let d := authDbName cur n0
          .inr (uhp [{ statics := [P_Select] }] || uhp [{ db := d, statics := [P_CreateRoutine] }] ||
                uhp [{ db := d, statics := [P_AlterRoutine] }] || uhp [{ db := d, statics := [P_Execute] }], [], targetType)
      else if authType = "VISIBLE" then
        if targetType = "DB_IDENTS" then
          match names.foldl (fun (acc : Outcome) n => if acc = .ok then authCheckNames v cur n "" else acc) .ok with
          | .ok => .inr (true, [], "IGNORE")
          | o => .inl o
        else if targetType = "TODO" then .inr (true, [], "IGNORE")
        else .inl .authErr
      else .inl .authErr
  match first with
  | .inl o => o
  | .inr (has, ptypes, tt) =>
    -- second switch: auth.TargetType
    let fin (has : Bool) : Outcome := if has then .ok else .denied
    if tt = "IGNORE" ∨ tt = "TODO" then fin has
    else if tt = "DB_IDENTS" then
      -- loop `for i := 0; i < len && hasPrivileges; i++`; an access error returns at once
      let r := names.foldl (fun (acc : Outcome ⊕ Bool) n =>
        match acc with
        | .inl o => .inl o
        | .inr false => .inr false
        | .inr true =>
          if isInfoSchema n then .inr true
          else match authCheckNames v cur n "" with
            | .ok => .inr (uhp [{ db := authDbName cur n, statics := ptypes }])
            | o => .inl o) (.inr has)
      match r with | .inl o => o | .inr b => fin b
    else if tt = "GLOBAL" then fin (uhp [{ statics := ptypes }] && has)
    else if tt = "DB_TABLE_IDENTS" then
      -- loop `for i := 0; i < len && hasPrivileges; i += 2`; a trailing lone name is indexed out of
      -- range only when the loop gets that far
      let r := (chunk2 names).foldl (fun (acc : Outcome ⊕ Bool) (dt : String × String) =>
        match acc with
        | .inl o => .inl o
        | .inr false => .inr false
        | .inr true =>
          if isInfoSchema dt.1 then .inr true
          else match authCheckNames v cur dt.1 dt.2 with
            | .ok => .inr (uhp [{ db := authDbName cur dt.1, tbl := dt.2, statics := ptypes }])
            | o => .inl o) (.inr has)
      match r with
      | .inl o => o
      | .inr b => if b ∧ names.length % 2 ≠ 0 then .crash else fin b
    else if tt = "DB_TABLE_IDENT" ∨ tt = "DB_TABLE_COLUMN_IDENT" then
      match names with
      | d :: t :: rest =>
        if tt = "DB_TABLE_COLUMN_IDENT" ∧ rest = [] then .crash
        else if isInfoSchema d then .ok
        else match authCheckNames v cur d t with
          | .ok => fin (uhp [{ db := authDbName cur d, tbl := t, statics := ptypes }] && has)
          | o => o
      | _ => .crash
    else .authErr

/-- One recorded call of the statement into the authorization handler. -/
inductive Call where
  | ha (authType targetType : String) (names : List String)
  | cd (db : String)                  -- CheckDatabase / CheckSchema
  | ct (db tbl : String)              -- CheckTable
  deriving Repr, Inhabited

def evalCall (v : View) (cur : String) (keys : List (String × String)) (edges : List Edge) (ui : Nat)
    (adminOnly : Bool) (stmt : Stmt) : Call → Outcome
  | .ha at_ tt names => handleAuth v cur keys edges ui adminOnly stmt at_ tt names
  | .cd d => authCheckNames v cur d ""
  | .ct d t => if t = "" then .tblDenied else authCheckNames v cur d t

/-- One statement of a session `who = (user, address)` with current database `cur`: every recorded
authorization call is evaluated against the privilege state *before* the statement; the first
refusal is the outcome and leaves the state untouched; otherwise the effect is executed.
`atomic = false` is the implementation (the executors mutate the accounts in place, so a statement
that fails half-way keeps what it has done so far); `atomic = true` is what the Spec demands: a
failed statement has no effect. -/
def step (atomic : Bool) (st : St σ) (who : String × String) (cur : String) (calls : List Call) (stmt : Stmt)
    (adminOnly : Bool := false) : St σ × String :=
  let run : St σ × String :=
    match exec A st cur stmt with
    | (st', none) => (st', "ok")
    | (st', some e) => (if atomic then st else st', e.str)
  -- `NewQueryState`: a session whose (user, address) matches no account is refused outright (parse.go)
  match getUserIdx st.keys who.1 who.2 false with
  | none => (st, Outcome.noAccount.str)
  | some ui =>
    match st.users[ui]? with
    | none => (st, Outcome.noAccount.str)
    | some u =>
      let v := A.view (activePrivs A st u)
      let o := calls.foldl (fun (acc : Outcome) c => if acc = .ok then evalCall v cur st.keys st.edges ui adminOnly stmt c else acc) .ok
      if o = .ok then run else (st, o.str)

structure Step where
  who : String × String
  cur : String
  calls : List Call
  stmt : Stmt
  deriving Repr, Inhabited

/-- A history: the observations of its steps, in order. -/
def runHist (atomic : Bool) (st : St σ) : List Step → List String
  | [] => []
  | s :: r =>
    let (st', o) := step A atomic st s.who s.cur s.calls s.stmt
    o :: runHist atomic st' r

/-- The root account (`AddRootAccount`): every global static privilege. -/
def rootUser : User σ :=
  { name := "root", host := "localhost", privs := A.addGlobal A.empty allGlobalWithGrant }

def initSt : St σ := { users := [rootUser A] }

end Machine


/-! ## Region of the known defect (F-C39-a) -/

/-- A database-level REVOKE naming an account that (in the Spec state) holds a table- or
routine-level grant inside that database. -/
def regionStep (st : St GSet) (cur : String) : Stmt → Bool
  | .revoke lvDb lvTbl _ _ users _ =>
    decide (lvDb ≠ "*") && decide (lvTbl = "*") &&
      users.any (fun u =>
        match getUserIdx st.keys u.1 u.2 false with
        | some i =>
          (match st.users[i]? with
           | some a => a.privs.any (Grant.belowDb (lower (if lvDb = "" then cur else lvDb)))
           | none => false)
        | none => false)
  | _ => false

def histRegion (st : St GSet) : List Step → Bool
  | [] => false
  | s :: r => regionStep st s.cur s.stmt || histRegion (step specPS true st s.who s.cur s.calls s.stmt).1 r

/-! ## Region of the second known defect (F-C39-b): a statement that failed after doing part of its work -/

/-- An account-management statement whose execution returns an error (after it was authorized). -/
def failedStep (st : St GSet) (who : String × String) (cur : String) (calls : List Call) (stmt : Stmt) : Bool :=
  match stmt with
  | .none => false
  | _ => (step specPS true st who cur calls stmt).2.startsWith "err:"

def histFailed (st : St GSet) : List Step → Bool
  | [] => false
  | s :: r => failedStep st s.who s.cur s.calls s.stmt || histFailed (step specPS true st s.who s.cur s.calls s.stmt).1 r

end Gms.Priv
