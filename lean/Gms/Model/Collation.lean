/-
C29 — model of collation-aware comparison, weight strings and LIKE (core-only).

Generic in the weight function `w : Nat → Int` (Go: `CollationSorter func(rune) int32`), so every
theorem holds for every collation; the driver instantiates `w` with the weights the real
`Sorter` returns for the runes of a case.

Impl model (transliterations)
* `decodeUtf8`     – `utf8.DecodeRuneInString` (rune, size); ill-formed byte ↦ (U+FFFD, 1)
* `nextRune`       – `Encoder.NextRune`: the binary encoder reads one byte, all others decode UTF-8
* `compareLoop`    – the loop of `StringType.Compare` (sql/types/strings.go), including its
                     `aRead == utf8.RuneError` test (the *size* is compared with 0xFFFD, so the
                     "malformed string" error is unreachable)
* `writeWeights`   – `CollationID.WriteWeightString` (4 little-endian bytes per rune weight;
                     raw bytes for `Collation_binary`)
* `likeNodes`, `likeRun` – `ConstructLikeMatcher` and a *declarative* matcher for its node list
                     (the Go backtracking loop is compared with it, not transliterated)

Spec
* `runes`, `cmpW`  – the string as its list of runes; lexicographic comparison of weight lists
                     (shorter list first)
-/
import Gms.Model.RangeMap

namespace Gms.Collation
open Gms.RangeMap (utf8Len)

/-- Go: `utf8.DecodeRuneInString`. -/
def decodeUtf8 : List Nat → Nat × Nat
  | [] => (0xFFFD, 0)
  | b0 :: rest =>
    let n := utf8Len (b0 :: rest)
    let b := fun (i : Nat) => rest.getD i 0 % 64
    if n = 2 then ((b0 % 32) * 64 + b 0, 2)
    else if n = 3 then ((b0 % 16) * 4096 + b 0 * 64 + b 1, 3)
    else if n = 4 then ((b0 % 8) * 262144 + b 0 * 4096 + b 1 * 64 + b 2, 4)
    else (if b0 < 0x80 then b0 else 0xFFFD, 1)

/-- Go: `Encoder.NextRune` (`binaryEncoder` reads one byte; `RangeMap` and `utf8mb4Encoder` call
`utf8.DecodeRuneInString`). -/
def nextRune (bin : Bool) : List Nat → Nat × Nat
  | [] => (0xFFFD, 0)
  | b :: rest => if bin then (b, 1) else decodeUtf8 (b :: rest)

/-- Go: the tail of `Compare` ("shorter strings sort before longer strings"). -/
def cmpLen (a b : List Nat) : Int :=
  if a.length < b.length then -1 else if a.length > b.length then 1 else 0

/-- Go: the loop of `StringType.Compare`. `none` = the error "malformed string encountered while
comparing". -/
def compareLoop (w : Nat → Int) (bin : Bool) : Nat → List Nat → List Nat → Option Int
  | 0, a, b => some (cmpLen a b)
  | fuel + 1, a, b =>
    if a.isEmpty || b.isEmpty then some (cmpLen a b)
    else
      let (ar, an) := nextRune bin a
      let (br, bn) := nextRune bin b
      if an = 0 || bn = 0 || an = 0xFFFD || bn = 0xFFFD then none
      else if w ar < w br then some (-1)
      else if w ar > w br then some 1
      else compareLoop w bin fuel (a.drop an) (b.drop bn)

/-- Go: `StringType.Compare` on two non-NULL strings. -/
def compare (w : Nat → Int) (bin : Bool) (a b : List Nat) : Option Int :=
  compareLoop w bin (a.length + b.length + 1) a b

/-- Go: `byte(x), byte(x >> 8), byte(x >> 16), byte(x >> 24)` of an int32. -/
def wbytes (x : Int) : List Nat :=
  let u := (x % 4294967296).toNat
  [u % 256, u / 256 % 256, u / 65536 % 256, u / 16777216 % 256]

/-- Go: the loop of `WriteWeightString` for a non-binary collation (always UTF-8 decoding). -/
def weightLoop (w : Nat → Int) : Nat → List Nat → Option (List Nat)
  | 0, _ => some []
  | fuel + 1, s =>
    if s.isEmpty then some []
    else
      let (r, n) := decodeUtf8 s
      if n = 0 || n = 0xFFFD then none
      else match weightLoop w fuel (s.drop n) with
        | some rest => some (wbytes (w r) ++ rest)
        | none => none

/-- Go: `CollationID.WriteWeightString`; `binColl` = the collation is `Collation_binary`. -/
def writeWeights (w : Nat → Int) (binColl : Bool) (s : List Nat) : Option (List Nat) :=
  if binColl then some s else weightLoop w (s.length + 1) s

/-! ### Spec -/

/-- The string as the list of runes the decoder yields. -/
def runesLoop (bin : Bool) : Nat → List Nat → List Nat
  | 0, _ => []
  | fuel + 1, s =>
    if s.isEmpty then []
    else
      let (r, n) := nextRune bin s
      r :: runesLoop bin fuel (s.drop (if n = 0 then 1 else n))

def runes (bin : Bool) (s : List Nat) : List Nat := runesLoop bin (s.length + 1) s

/-- Lexicographic comparison of weight lists, a proper prefix first. -/
def cmpW : List Int → List Int → Int
  | [], [] => 0
  | [], _ :: _ => -1
  | _ :: _, [] => 1
  | x :: xs, y :: ys => if x < y then -1 else if x > y then 1 else cmpW xs ys

/-- What the property demands of a comparison under weight function `w`. -/
def compareSpec (w : Nat → Int) (bin : Bool) (a b : List Nat) : Int :=
  cmpW ((runes bin a).map w) ((runes bin b).map w)

/-- Weight string demanded for a non-binary collation: the concatenated rune weights. -/
def weightsSpec (w : Nat → Int) (s : List Nat) : List Nat :=
  ((runes false s).map w).flatMap wbytes

/-! ### LIKE -/

/-- Go: `likeMatcherNode`s: `one (some k)` = a literal rune of weight `k`, `one none` = `_`,
`any` = `%`. -/
inductive LikeNode where
  | one (weight : Option Int)
  | any
  deriving DecidableEq, Repr, Inhabited

/-- A Go literal node: a negative weight makes `likeMatcherRune.Match` accept any rune
(`l.sortOrder < 0`), exactly like `_`. -/
def litNode (k : Int) : LikeNode := if k < 0 then .one none else .one (some k)

/-- Go: `ConstructLikeMatcher` over the pattern's runes (`esc` = escape rune; the `switch` tests
`_`, `%`, escape in this order). `none` = `ErrCharSetInvalidString` (escape at the very end:
`NextRune("")` is `(RuneError, 0)`). -/
def likeNodes (w : Nat → Int) (esc : Nat) : List Nat → Option (List LikeNode)
  | [] => some []
  | r :: rest =>
    if r = 95 then (likeNodes w esc rest).map (.one none :: ·)           -- '_'
    else if r = 37 then (likeNodes w esc rest).map (.any :: ·)           -- '%'
    else if r = esc then
      match rest with
      | r' :: rest' => (likeNodes w esc rest').map (litNode (w r') :: ·)
      | [] => none
    else (likeNodes w esc rest).map (litNode (w r) :: ·)

/-- `f` holds for some suffix of the list (what `%` followed by the rest of the pattern means). -/
def anySuffix (f : List Int → Bool) : List Int → Bool
  | [] => f []
  | x :: xs => f (x :: xs) || anySuffix f xs

/-- Declarative matcher: does the node list match the list of rune weights? -/
def likeRun : List LikeNode → List Int → Bool
  | [], xs => xs.isEmpty
  | .one none :: ns, xs =>
    match xs with
    | [] => false
    | _ :: t => likeRun ns t
  | .one (some k) :: ns, xs =>
    match xs with
    | [] => false
    | x :: t => decide (x = k) && likeRun ns t
  | .any :: ns, xs => anySuffix (likeRun ns) xs

/-- A string is malformed for the LIKE code when some position decodes to `(RuneError, size ≤ 1)`. -/
def malformedLoop (bin : Bool) : Nat → List Nat → Bool
  | 0, _ => false
  | fuel + 1, s =>
    if s.isEmpty then false
    else
      let (r, n) := nextRune bin s
      if r = 0xFFFD && decide (n ≤ 1) then true else malformedLoop bin fuel (s.drop n)

def malformed (bin : Bool) (s : List Nat) : Bool := malformedLoop bin (s.length + 1) s

/-- `LikeMatcher.Match` as a function of pattern and string bytes: `none` = the matcher cannot be
built (malformed pattern / dangling escape), otherwise whether the string matches. A malformed
*string* never matches (the Go loop returns `false` when it reaches the bad byte, and it reaches
every byte before it can answer `true`). -/
def like (w : Nat → Int) (bin : Bool) (esc : Nat) (pat s : List Nat) : Option Bool :=
  if malformed bin pat then none
  else match likeNodes w esc (runes bin pat) with
    | none => none
    | some ns => some (!malformed bin s && likeRun ns ((runes bin s).map w))

/-! ### Regenerated weight tables

`c29 extract` packs the weights the compiled `Sorter` returns for the runes `0..tableSize-1` of a
collation into one natural number (32 bits per rune, two's complement, rune `r` in bits
`[32r, 32r+32)`), and for a one-byte character set the weights of the characters the bytes
`0..255` decode to into another one (`0x80000000` = the byte is not a character of the set). -/

/-- Go: `int32` default weight of a rune a collation has no entry for (`math.MaxInt32`). -/
def defaultWeight : Int := 2147483647

def weightAt (tbl r : Nat) : Int :=
  let u := (tbl >>> (32 * r)) % 4294967296
  if u ≥ 2147483648 then (u : Int) - 4294967296 else (u : Int)

/-- weight of the character byte `b` of a one-byte character set decodes to (`none`: no character) -/
def byteWeightAt (tbl b : Nat) : Option Int :=
  let u := (tbl >>> (32 * b)) % 4294967296
  if u = 2147483648 then none else some (if u ≥ 2147483648 then (u : Int) - 4294967296 else (u : Int))

/-- The weight function of a regenerated table (runes beyond the table weigh `defaultWeight`; the
per-table theorems only talk about strings whose runes are inside the table). -/
def tableW (size tbl : Nat) (r : Nat) : Int := if r < size then weightAt tbl r else defaultWeight

/-! ### SQL operators on two collated columns

The row `SELECT a = b, a < b, a > b, a LIKE b, a IN (b, b), a IN ('<b>', '\x01'), a <=> b,
STRCMP(a, b)` for non-NULL `a`, `b` of a column collation with weight function `w`.

Spec: every operator uses the column collation. Impl model: the same, except the literal list —
`NewHashInTuple` hashes both sides with `GetCompareType(column type, literal type)`, which is
LONGTEXT in the *default* collation `utf8mb4_0900_bin` (weight = code point), not the column's. -/

def b01 (x : Bool) : String := if x then "1" else "0"

def sqlRow (w : Nat → Int) (inLit : Bool) (a b : List Nat) : List String :=
  let c := compareSpec w false a b
  let lk := match like w false 92 b a with
    | some r => b01 r
    | none => "err"
  [b01 (c == 0), b01 (c < 0), b01 (c > 0), lk, b01 (c == 0), b01 inLit, b01 (c == 0), toString c]

def sqlRowSpec (w : Nat → Int) (a b : List Nat) : List String :=
  sqlRow w (compareSpec w false a b == 0) a b

/-- the weight function of `utf8mb4_0900_bin`, the collation of a string literal -/
def wDefault (r : Nat) : Int := r

def sqlRowImpl (w : Nat → Int) (a b : List Nat) : List String :=
  sqlRow w (compare wDefault false a b == some 0) a b

/-- Region of the finding `in_literal_list_ignores_collation`: the two strings are equal under the
column collation but not under the literal's. -/
def InLiteralRegion (w : Nat → Int) (a b : List Nat) : Prop :=
  compareSpec w false a b = 0 ∧ compareSpec wDefault false a b ≠ 0

instance (w : Nat → Int) (a b : List Nat) : Decidable (InLiteralRegion w a b) := by
  unfold InLiteralRegion; infer_instance

/-! ### Hash-based SQL operators over stored rows

`SELECT COUNT(*) FROM t WHERE a IN ('<y>', 'other', 'another')` (HashInTuple: one hash-table probe
per row) and the number of groups of `GROUP BY a` (grouping-key hash), for the rows `rows` of a
column with weight function `w`. Spec: both follow the column collation. Impl model: GROUP BY
does; the literal list is hashed in the literal's collation (`wDefault`), as in `sqlRowImpl`. -/

/-- representatives of the classes of "compares equal under `w`" -/
def classes (w : Nat → Int) : List (List Nat) → List (List Nat)
  | [] => []
  | r :: rs =>
    let cs := classes w rs
    if cs.any (fun c => compareSpec w false r c == 0) then cs else r :: cs

def sqlHashSpec (w : Nat → Int) (rows : List (List Nat)) (y : List Nat) : List String :=
  [toString (rows.filter fun r => compareSpec w false r y == 0).length, toString (classes w rows).length]

def sqlHashImpl (w : Nat → Int) (rows : List (List Nat)) (y : List Nat) : List String :=
  [toString (rows.filter fun r => compare wDefault false r y == some 0).length, toString (classes w rows).length]

end Gms.Collation
