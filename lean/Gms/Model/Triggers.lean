/-
C23 — model of trigger ordering and firing (core-only).

Source files modelled: sql/plan/ddl_trigger.go (`OrderTriggers`), sql/analyzer/triggers.go
(`orderTriggersAndReverseAfter`, the wrapping order of `applyTrigger`), and, for the SQL-level
correspondence, the per-row firing discipline of `TriggerExecutor` (sql/rowexec): BEFORE triggers,
row operation, AFTER triggers, per affected row.

* `specOrder`   – Spec: MySQL's ordering — triggers in creation order, a FOLLOWS/PRECEDES trigger is
                  placed right after/before its referent at creation time
* `orderImpl`   – Impl model of `OrderTriggers`, *including Go slice aliasing*: the expression
                  `append(triggers[i:i+1], orderedTriggers[j:]...)` writes into the backing array of
                  the input slice whenever `1 + len(tail) ≤ cap(triggers) - i`, and the `range` loop
                  then reads the overwritten elements
* `execDml`     – one DML statement with audit-table triggers: per-row firing, the OLD/NEW values each
                  trigger sees (values as written vs. values converted to the column type), what is stored
-/
namespace Gms.Triggers

abbrev TName := Nat

inductive Timing where
  | before | after
  deriving Repr, DecidableEq, Inhabited

inductive OrdKind where
  | precedes | follows
  deriving Repr, DecidableEq, Inhabited

structure Trig where
  name : TName
  time : Timing
  order : Option (OrdKind × TName)
  setB : Option Int := none       -- BEFORE INSERT/UPDATE only: SET NEW.b = NEW.b + k
  deriving Repr, DecidableEq, Inhabited

/-- Index of the first trigger called `ref`. -/
def findName (ref : TName) : List Trig → Option Nat
  | [] => none
  | t :: r => if t.name = ref then some 0 else (findName ref r).map (· + 1)

def insPos (k : OrdKind) (j : Nat) : Nat :=
  match k with
  | .precedes => j
  | .follows => j + 1

/-! ### Spec -/

/-- Place a newly created trigger into the current order. `none`: the referenced trigger does
not exist (MySQL rejects the CREATE TRIGGER). -/
def specInsert (ord : List Trig) (t : Trig) : Option (List Trig) :=
  match t.order with
  | none => some (ord ++ [t])
  | some (k, ref) =>
    match findName ref ord with
    | none => none
    | some j => some (ord.take (insPos k j) ++ t :: ord.drop (insPos k j))

def specFold : List Trig → List Trig → Option (List Trig)
  | acc, [] => some acc
  | acc, t :: ts => match specInsert acc t with
    | none => none
    | some acc' => specFold acc' ts

/-- Spec: the firing order of a list of triggers given in creation order. -/
def specOrder (ts : List Trig) : Option (List Trig) := specFold [] ts

/-! ### Impl model of `OrderTriggers` -/

/-- `arr[start + k] := src[k]` for the slots that exist (writes beyond `len` are invisible). -/
def overwrite : List Trig → Nat → List Trig → List Trig
  | [], _, _ => []
  | a :: arr, 0, [] => a :: arr
  | _ :: arr, 0, s :: src => s :: overwrite arr 0 src
  | a :: arr, n + 1, src => a :: overwrite arr n src

structure LoopState where
  trig : List Trig        -- backing array of the *input* slice (visible part)
  ord : List Trig         -- orderedTriggers
  mutated : Bool          -- has a visible slot of the input been overwritten with a different trigger?
  panicked : Bool := false -- "Referenced trigger … not found"
  deriving Repr, DecidableEq, Inhabited

/-- Go: the `for i, trigger := range triggers` loop, `rem` iterations left, at index `i`. -/
def orderLoop (cap : Nat) : Nat → Nat → LoopState → LoopState
  | 0, _, st => st
  | rem + 1, i, st =>
    match st.trig[i]? with
    | none => st
    | some t =>
      match t.order with
      | none => orderLoop cap rem (i + 1) st
      | some (k, ref) =>
        -- orderedTriggers = append(orderedTriggers[:i], orderedTriggers[i+1:]...)
        let ord' := st.ord.eraseIdx i
        match findName ref ord' with
        | none => { st with panicked := true }
        | some j =>
          let p := insPos k j
          let tail := ord'.drop p
          -- append(triggers[i:i+1], tail...): in place iff it fits into cap(triggers) - i
          let trig2 := if 1 + tail.length ≤ cap - i then overwrite st.trig (i + 1) tail else st.trig
          orderLoop cap rem (i + 1)
            { trig := trig2, ord := ord'.take p ++ t :: tail, mutated := st.mutated || (trig2 != st.trig) }

def orderRun (cap : Nat) (ts : List Trig) : LoopState :=
  orderLoop cap ts.length 0 { trig := ts, ord := ts, mutated := false }

/-- Go: `OrderTriggers` before the BEFORE/AFTER split, for an input slice of capacity `cap`;
`none` = it panicked. -/
def orderImpl (cap : Nat) (ts : List Trig) : Option (List Trig) :=
  let st := orderRun cap ts
  if st.panicked then none else some st.ord

/-- Region predicate: the run overwrote a visible element of its input with a different trigger. -/
def aliasVisible (cap : Nat) (ts : List Trig) : Bool := (orderRun cap ts).mutated

def befores (ts : List Trig) : List Trig := ts.filter (fun t => t.time == .before)
def afters (ts : List Trig) : List Trig := ts.filter (fun t => t.time == .after)

/-- Go: `orderTriggersAndReverseAfter` followed by the wrapping of `applyTrigger`: BEFORE
triggers wrap the source one after the other (first wraps innermost = fires first); AFTER triggers
are applied in reversed order, each wrapping the DML node, so the reversed list fires reversed. -/
def firingOrder (ordered : List Trig) : List Trig × List Trig :=
  (befores ordered, ((afters ordered).reverse).reverse)

/-! ### Statement-level firing (SQL correspondence) -/

/-- A value as it is *written in a statement*, before conversion to the INT column type, in tenths:
`26` is `2.6`, `-5` is `-0.5`, `30` is `3`. What a trigger sees (an audit cell) is in tenths too. -/
abbrev Tenths := Int

/-- Conversion of a numeric value to the INT column type (Go: `col.Type.Convert` in the conversion
loop of `insertIter.Next`, and the same conversion inside `SetField` / integer arithmetic): round
half away from zero. -/
def roundT (x : Tenths) : Int := if 0 ≤ x then (x + 5) / 10 else -((5 - x) / 10)

structure Row where
  a : Int
  b : Int
  deriving Repr, DecidableEq, Inhabited

/-- A row of values as written (`INSERT … VALUES (1, 2.6)`, `INSERT … SELECT x, y FROM src`). -/
structure RawRow where
  a : Tenths
  b : Tenths
  deriving Repr, DecidableEq, Inhabited

/-- The row the table editor receives: every cell converted to the column type. -/
def RawRow.stored (r : RawRow) : Row := ⟨roundT r.a, roundT r.b⟩
/-- A stored row seen as values (exact). -/
def Row.raw (r : Row) : RawRow := ⟨10 * r.a, 10 * r.b⟩
def RawRow.integral (r : RawRow) : Bool := r.a % 10 == 0 && r.b % 10 == 0

/-- One audit record: trigger name, OLD.a, OLD.b, NEW.a, NEW.b (in tenths: the audit columns are
wide enough to show a value that was *not* converted to the column type). -/
structure Audit where
  n : TName
  oa : Option Tenths
  ob : Option Tenths
  na : Option Tenths
  nb : Option Tenths
  deriving Repr, DecidableEq, Inhabited

inductive Event where
  | insert | update | delete
  deriving Repr, DecidableEq, Inhabited

def auditOf (t : Trig) (old new : Option Row) : Audit :=
  { n := t.name, oa := old.map (10 * ·.a), ob := old.map (10 * ·.b), na := new.map (10 * ·.a), nb := new.map (10 * ·.b) }

/-- Audit record of an INSERT trigger that sees the (possibly unconverted) row `new`. -/
def auditRaw (t : Trig) (new : RawRow) : Audit :=
  { n := t.name, oa := none, ob := none, na := some new.a, nb := some new.b }

/-- BEFORE triggers on one row (UPDATE / DELETE: rows of stored values): each may change NEW.b,
then records what it sees. -/
def runBefore : List Trig → Option Row → Option Row → List Audit → Option Row × List Audit
  | [], _, new, acc => (new, acc)
  | t :: ts, old, new, acc =>
    let new' := match t.setB, new with
      | some k, some r => some { r with b := r.b + k }
      | _, _ => new
    runBefore ts old new' (acc ++ [auditOf t old new'])

/-- BEFORE INSERT triggers on one row of values as they arrive from the row source. `NEW.b` is
typed INT: `NEW.b + k` is integer arithmetic on the converted operand and `SET` stores an INT, so
after a `SET` the cell is integral; a cell no trigger assigned stays as written. -/
def runBeforeRaw : List Trig → RawRow → List Audit → RawRow × List Audit
  | [], new, acc => (new, acc)
  | t :: ts, new, acc =>
    let new' : RawRow := match t.setB with
      | some k => { new with b := 10 * (roundT new.b + k) }
      | none => new
    runBeforeRaw ts new' (acc ++ [auditRaw t new'])

def runAfter (ts : List Trig) (old new : Option Row) (acc : List Audit) : List Audit :=
  acc ++ ts.map (fun t => auditOf t old new)

end Gms.Triggers

namespace Gms.Triggers

/-! ### One DML statement on a table `t(a PRIMARY KEY, b)` with an audit table -/

inductive Dml where
  | insert (rows : List RawRow)
  | update (k : Tenths) (lo : Int)    -- UPDATE t SET b = b + k WHERE a >= lo   (k as written, e.g. 1.6)
  | delete (lo : Int)                 -- DELETE FROM t WHERE a >= lo
  deriving Repr, DecidableEq, Inhabited

inductive StmtOutcome where
  | ok
  | dupKey
  | crash
  deriving Repr, DecidableEq, Inhabited

structure StmtResult where
  outcome : StmtOutcome
  audit : List Audit
  table : List Row
  deriving Repr, DecidableEq, Inhabited

def insertSorted (r : Row) : List Row → List Row
  | [] => [r]
  | x :: xs => if r.a < x.a then r :: x :: xs else x :: insertSorted r xs

/-- The row the BEFORE INSERT chain starts from. `early = true` (Spec, MySQL): the values are
converted to the column types when the row is filled, before any trigger runs. `early = false`
(Go): the row source's row reaches the BEFORE trigger executors as it is; the conversion happens
in `insertIter.Next`, which is *below* the AFTER executors and *above* the BEFORE executors. -/
def entryRow (early : Bool) (r : RawRow) : RawRow := if early then r.stored.raw else r

/-- INSERT rows one after the other; stops at the first duplicate key. Returns (audit, table,
failed?). Per row: BEFORE triggers (wrapping the source), `insertIter.Next` (conversion of every
cell, then `inserter.Insert` of the *converted* row), AFTER triggers (wrapping the InsertInto
node: their NEW is the row `insertIter.Next` returns — the converted, stored row). -/
def insertRows (early : Bool) (bf af : List Trig) : List RawRow → List Audit → List Row → List Audit × List Row × Bool
  | [], au, tbl => (au, tbl, false)
  | r :: rs, au, tbl =>
    let (new, au1) := runBeforeRaw bf (entryRow early r) au
    let r' := new.stored
    if tbl.any (fun x => x.a == r'.a) then (au1, tbl, true)
    else insertRows early bf af rs (runAfter af none (some r') au1) (insertSorted r' tbl)

/-- UPDATE: the SET expression is evaluated and converted to the column type (`SetField`) below
the BEFORE executors, so BEFORE and AFTER triggers both see converted values. -/
def updateRows (bf af : List Trig) (k : Tenths) (lo : Int) : List Row → List Audit → List Audit × List Row
  | [], au => (au, [])
  | r :: rs, au =>
    if lo ≤ r.a then
      let (new, au1) := runBefore bf (some r) (some { r with b := roundT (10 * r.b + k) }) au
      let r' := new.getD r
      let (au2, rest) := updateRows bf af k lo rs (runAfter af (some r) (some r') au1)
      (au2, r' :: rest)
    else
      let (au2, rest) := updateRows bf af k lo rs au
      (au2, r :: rest)

def deleteRows (bf af : List Trig) (lo : Int) : List Row → List Audit → List Audit × List Row
  | [], au => (au, [])
  | r :: rs, au =>
    if lo ≤ r.a then
      let (_, au1) := runBefore bf (some r) none au
      deleteRows bf af lo rs (runAfter af (some r) none au1)
    else
      let (au2, rest) := deleteRows bf af lo rs au
      (au2, r :: rest)

/-- Execute one statement given the ordered trigger list of its event. `spec = true`: a failed
statement leaves no trace and inserted values are converted before the BEFORE triggers (Spec);
`spec = false`: the audit rows written so far survive (memory backend: no savepoints) and BEFORE
INSERT triggers see the values as written (Impl). -/
def execDml (spec : Bool) (ordered : List Trig) (tbl : List Row) : Dml → StmtResult
  | .insert rows =>
    let (bf, af) := firingOrder ordered
    let (au, tbl', failed) := insertRows spec bf af rows [] tbl
    if failed then { outcome := .dupKey, audit := if spec then [] else au, table := tbl }
    else { outcome := .ok, audit := au, table := tbl' }
  | .update k lo =>
    let (bf, af) := firingOrder ordered
    let (au, tbl') := updateRows bf af k lo tbl []
    { outcome := .ok, audit := au, table := tbl' }
  | .delete lo =>
    let (bf, af) := firingOrder ordered
    let (au, tbl') := deleteRows bf af lo tbl []
    { outcome := .ok, audit := au, table := tbl' }

/-- Impl: order with `OrderTriggers` on a slice of capacity `cap` (what `applyTriggers` built by
appends; measured by the harness on the compiled code); a failed statement keeps its audit rows. -/
def stmtImpl (cap : Nat) (ts : List Trig) (tbl : List Row) (d : Dml) : StmtResult :=
  match orderImpl cap ts with
  | none => { outcome := .crash, audit := [], table := tbl }
  | some o => execDml false o tbl d

/-- Spec: MySQL order, each trigger once per affected row, statement atomic. `none`: ill-formed trigger set. -/
def stmtSpec (ts : List Trig) (tbl : List Row) (d : Dml) : Option StmtResult :=
  (specOrder ts).map (fun o => execDml true o tbl d)

/-- Region predicate of finding `before_insert_new_unconverted`: the statement inserts a value that
the conversion to the column type changes, and a BEFORE trigger looks at the row. -/
def unconvertedSeen (ordered : List Trig) : Dml → Bool
  | .insert rows => !(befores ordered).isEmpty && rows.any (fun r => !r.integral)
  | _ => false

end Gms.Triggers
