/-
C01 — the conflict detection of `sql/memo/join_order_builder.go` on LEFT-DEEP CHAINS OF INNER JOINS
(core-only Impl model; the mechanism of the finding `inner_conjunct_lost_by_conflict_rule`).

The builder turns every conjunct of an inner join's ON into one edge. `edge.calcTES` gives the edge
a total eligibility set (TES ⊇ the tables the conjunct mentions) and CONFLICT RULES `from → to`
("a join whose inputs contain a table of `from` must contain all of `to`"). In the published
algorithm (CD-C) two inner joins never conflict; here `assoc` / `leftAsscom` / `rightAsscom` answer
`false` before looking at their tables whenever the move would "estrange" a relation (leave an
operator without a connecting predicate — a cross join), so inner edges DO get rules:

    eB : a conjunct of operator m (left = tables 0..m-1, right = table m)
    eA : a conjunct of an operator i < m
    ses(eB) ∩ {0..i-1} ≠ ∅   ⇒   rule {i} → ({0..i-1} ∩ ses(eA), or {0..i-1} when that is empty)

`addPlans(s1, s2)` joins two table sets with the filters of ALL inner edges that are `applicable`
(rules satisfied by s1 ∪ s2, TES ⊆ s1 ∪ s2, TES meets both sides). An edge is not needed to
connect s1 and s2 when another edge does (a second conjunct, or an edge derived by
`ensureClosure` from column equivalences). So a set S ⊇ TES(e) that violates a rule of e can still
get a plan — built without e's filter — and above S the edge is never applicable again, because its
TES lies inside one input. The conjunct is gone from that plan; plans that bring e's tables together
in a set that satisfies the rules keep it: the result depends on the plan.

`countApplied e t` is the number of join nodes of the plan tree `t` at which `addPlans` puts e's
filter; the region of the finding is `countApplied e t = 0` for a conjunct over ≥ 2 tables
(`Gms.C01.applied_once_partial`: without violated rules it is exactly 1).
-/
import Gms.Model.Rel

namespace Gms.JoinConflict
open Gms.Sql Gms.Rel

/-- A set of vertexes (positions of the tables in the chain, 0 = leftmost). -/
abbrev VSet := List Nat

def meets (a b : VSet) : Bool := a.any fun x => b.contains x
def subset (a b : VSet) : Bool := a.all fun x => b.contains x
def union (a b : VSet) : VSet := a ++ b.filter fun x => !a.contains x
def inter (a b : VSet) : VSet := a.filter fun x => b.contains x

/-- `conflictRule{from, to}`. -/
structure Rule where
  frm : VSet
  to : VSet
  deriving Repr, DecidableEq

/-- One edge = one ON-conjunct of operator `m` (left input: tables `0..m-1`, right input: table `m`). -/
structure Edge where
  m : Nat
  ses : VSet
  tes : VSet
  rules : List Rule
  deriving Repr, DecidableEq

def opLeft (m : Nat) : VSet := List.range m
def opRight (m : Nat) : VSet := [m]

/-- `edge.addRule`. -/
def addRule (st : VSet × List Rule) (r : Rule) : VSet × List Rule :=
  if meets r.frm st.1 then (union st.1 r.to, st.2)
  else if subset r.to st.1 then st
  else (st.1, st.2 ++ [r])

/-- "A less restrictive conflict rule can be added in this case." -/
def narrow (side ses : VSet) : VSet := if meets side ses then inter side ses else side

/-- One iteration of the loop of `calcTES` over `eB.op.leftEdges` (inner/cross operators only:
`checkProperty` answers `always` for them — `Gms.C01.inner_cross_entries_always` — so only the
"estrange" tests of `assoc` and `leftAsscom` can fail). The `break` of the fast path is a no-op
step: the TES only grows. -/
def step (m : Nat) (ses : VSet) (st : VSet × List Rule) (eA : Edge) : VSet × List Rule :=
  if subset (opLeft m) st.1 then st
  else
    let st1 :=
      if meets ses (opLeft eA.m) || meets eA.ses (opRight m) then
        addRule st ⟨opRight eA.m, narrow (opLeft eA.m) eA.ses⟩
      else st
    if meets ses (opRight eA.m) || meets eA.ses (opRight m) then
      addRule st1 ⟨opLeft eA.m, narrow (opRight eA.m) eA.ses⟩
    else st1

/-- `makeEdge` + `populateEdgeProps` + `calcTES` for a conjunct with the given SES of operator `m`;
`below` = the edges of the operators in the left input, in creation order. -/
def mkEdge (m : Nat) (ses : VSet) (below : List Edge) : Edge :=
  let t0 := ses
  let t1 := if meets t0 (opLeft m) then t0 else union t0 (opLeft m)
  let t2 := if meets t1 (opRight m) then t1 else union t1 (opRight m)
  let st := below.foldl (step m ses) (t2, [])
  { m := m, ses := ses, tes := st.1, rules := st.2 }

/-- The edges of one operator: one per conjunct; an ON without a two-table conjunct is a cross join
(one edge without filter, SES = ∅). -/
def opEdges (m : Nat) (sess : List VSet) (below : List Edge) : List Edge :=
  match sess with
  | [] => [mkEdge m [] below]
  | _ => sess.map fun s => mkEdge m s below

/-- All edges of the chain; `ons[k]` = the SESs of the conjuncts of operator `k+1`. -/
def buildEdgesFrom (m : Nat) (below : List Edge) : List (List VSet) → List Edge
  | [] => below
  | sess :: rest => buildEdgesFrom (m + 1) (below ++ opEdges m sess below) rest

def buildEdges (ons : List (List VSet)) : List Edge := buildEdgesFrom 1 [] ons

/-! ## Plans -/

/-- The skeleton of a plan: binary join nodes over table leaves. -/
inductive PTree where
  | leaf (v : Nat)
  | node (l r : PTree)
  deriving Repr, DecidableEq

def PTree.verts : PTree → VSet
  | .leaf v => [v]
  | .node l r => l.verts ++ r.verts

/-- `edge.checkRules`. -/
def rulesOk (e : Edge) (s : VSet) : Bool := e.rules.all fun r => !meets r.frm s || subset r.to s

/-- `edge.applicable` for an inner edge. -/
def applicable (e : Edge) (s1 s2 : VSet) : Bool :=
  rulesOk e (s1 ++ s2) && subset e.tes (s1 ++ s2) && meets e.tes s1 && meets e.tes s2

/-- Number of join nodes of the plan whose filter list gets the edge's conjunct. -/
def countApplied (e : Edge) : PTree → Nat
  | .leaf _ => 0
  | .node l r => (if applicable e l.verts r.verts then 1 else 0) + countApplied e l + countApplied e r

/-! ## From the case (query term + plan skeleton) -/

/-- A left-deep chain of inner joins over base tables: the tables and the ON of every operator. -/
def chainOf : Query → Option (List Nat × List Expr)
  | .table n => some ([n], [])
  | .join .inner on l (.table n) =>
    match chainOf l with
    | some (ts, ons) => some (ts ++ [n], ons ++ [on])
    | none => none
  | _ => none

/-- Marker for "not a column of the chain" (subquery inside a conjunct). -/
def noCol : Nat := 1000000

mutual
/-- Columns of the current row mentioned by an expression. -/
def colsE : Expr → List Nat
  | .lit _ => []
  | .col d i => if d == 0 then [i] else []
  | .neg e => colsE e
  | .arith _ a b => colsE a ++ colsE b
  | .cmp _ a b => colsE a ++ colsE b
  | .and a b => colsE a ++ colsE b
  | .or a b => colsE a ++ colsE b
  | .xor a b => colsE a ++ colsE b
  | .not e => colsE e
  | .isNull e => colsE e
  | .isTruth _ e => colsE e
  | .inList e es => colsE e ++ colsEs es
  | .between e lo hi => colsE e ++ colsE lo ++ colsE hi
  | .ite c a b => colsE c ++ colsE a ++ colsE b
  | .coalesce a b => colsE a ++ colsE b
  | .exists _ => [noCol]
  | .inSub e _ => noCol :: colsE e
  | .scalar _ => [noCol]

def colsEs : List Expr → List Nat
  | [] => []
  | e :: es => colsE e ++ colsEs es
end

/-- Position of the table that owns column `i` of the concatenated row. -/
def tableOfCol (widths : List Nat) (i : Nat) : Option Nat :=
  go widths i 0
where
  go : List Nat → Nat → Nat → Option Nat
    | [], _, _ => none
    | w :: ws, i, k => if i < w then some k else go ws (i - w) (k + 1)

def conjList : Expr → List Expr
  | .and a b => conjList a ++ conjList b
  | e => [e]

/-- SES of a conjunct (`none`: it mentions something that is not a column of the chain). -/
def sesOf (widths : List Nat) (c : Expr) : Option VSet :=
  ((colsE c).mapM (tableOfCol widths)).map List.eraseDups

/-- The SESs of the conjuncts over ≥ 2 tables of every ON (a conjunct over one table is pushed
down to the table before join planning; a constant one is not a filter of the join graph). -/
def onSes (widths : List Nat) (ons : List Expr) : Option (List (List VSet)) :=
  ons.mapM fun on => ((conjList on).mapM (sesOf widths)).map fun ss => ss.filter fun s => s.length ≥ 2

def isJoinTok (s : String) : Bool := (s.splitOn "Join").length > 1
def isLeafTok (s : String) : Bool := s == "Tbl" || s == "Idx"

/-- Pre-order operator skeleton (read from the right, with a stack) + the table position of every
leaf → the plan tree. -/
def parseTree (ops : List String) (leaves : List Nat) : Option PTree :=
  let toks := ops.filter fun o => isJoinTok o || isLeafTok o
  if (toks.filter isLeafTok).length != leaves.length then none
  else
    let r := toks.foldr (fun o (st : Option (List PTree × List Nat)) =>
      match st with
      | none => none
      | some (stack, lv) =>
        if isLeafTok o then
          match lv with
          | v :: lv' => some (.leaf v :: stack, lv')
          | [] => none
        else
          match stack with
          | l :: r :: rest => some (.node l r :: rest, lv)
          | _ => none) (some ([], leaves.reverse))
    match r with
    | some ([t], []) => some t
    | _ => none

def isPermOfRange (n : Nat) (vs : List Nat) : Bool :=
  vs.length == n && (List.range n).all fun i => vs.contains i

/-- The edges of the chain's ON-conjuncts over ≥ 2 tables that the plan applies nowhere. -/
def lostEdges (db : Db) (q : Query) (ops : List String) (leaves : List Nat) : List Edge :=
  match chainOf q with
  | none => []
  | some (ts, ons) =>
    let widths := ts.map (tableWidth db)
    match onSes widths ons, parseTree ops leaves with
    | some sess, some t =>
      if isPermOfRange ts.length t.verts then
        (buildEdges sess).filter fun e => e.ses.length ≥ 2 && countApplied e t == 0
      else []
    | _, _ => []

/-! ## Observation of the unit correspondence (`jcd` cases) -/

def mask (s : VSet) : Nat := s.eraseDups.foldl (fun a x => a + 2 ^ x) 0

/-- `op/ses/tes/from>to,…/count` per edge, `|`-separated; sets as bit masks (an edge without filter
— a cross join — has nothing to apply: count 0). -/
def showEdges (es : List Edge) (t : PTree) : String :=
  "|".intercalate (es.map fun e =>
    s!"{e.m}/{mask e.ses}/{mask e.tes}/{",".intercalate (e.rules.map fun r => s!"{mask r.frm}>{mask r.to}")}/{if e.ses.isEmpty then 0 else countApplied e t}")

/-- Region `inner_conjunct_lost_by_conflict_rule`. -/
def conjunctLost (db : Db) (q : Query) (ops : List String) (leaves : List Nat) : Bool :=
  !(lostEdges db q ops leaves).isEmpty

end Gms.JoinConflict
