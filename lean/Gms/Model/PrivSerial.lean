/-
C41 — model of persisting and reloading the access-control state (core-only).

* `NState`     – the in-memory state as it is: accounts with their privilege sets *including the map
                 keys and the display names* of every database / table / routine entry, role edges
* `Tree`       – the logical content of the flatbuffer written by `MySQLDb.Persist`
                 (mysql_db.go, mysql_db_serialize.go): vectors of users / role edges / super users
* `serialize`  – Impl model of `Persist` + `serializeUser` + `serializePrivilegeSet` …
* `load`       – Impl model of `LoadData` + `LoadUser` + `loadPrivilegeSet` … + `LoadRoleEdge`
                 (mysql_db_load.go); two switches select the repaired behaviour so that the Spec
                 ("reload is the identity on the access-control content") is `load true true`:
                 `fixKeys`  – key every reloaded entry by its lower-cased name (as the live maps are)
                 `fixAdmin` – read `WithAdminOption` back
* `erase`      – forget the names: the `Gms.Priv.PrivSet` the decisions of C39 are taken on
-/
import Gms.Model.Priv

namespace Gms.PrivSerial
open Gms.Priv

structure NTbl where
  key : String
  name : String
  privs : List Priv
  deriving Repr, Inhabited, DecidableEq

structure NRtn where
  key : String
  isProc : Bool
  name : String
  privs : List Priv
  deriving Repr, Inhabited, DecidableEq

structure NDb where
  key : String
  name : String
  privs : List Priv
  tables : List NTbl
  routines : List NRtn
  deriving Repr, Inhabited, DecidableEq

structure NPrivSet where
  global : List Priv := []
  dynamic : List (String × Bool) := []
  dbs : List NDb := []
  deriving Repr, Inhabited, DecidableEq

structure NUser where
  name : String
  host : String
  plugin : String
  auth : String
  locked : Bool
  isSuper : Bool
  isEphemeral : Bool
  extra : List String      -- Identity, SslType, SslCipher, X509Issuer, X509Subject, Attributes ("-" = nil, else "+"++value)
  privs : NPrivSet
  deriving Repr, Inhabited, DecidableEq

structure NState where
  users : List NUser := []
  edges : List Edge := []
  deriving Repr, Inhabited

/-! ## the serialized tree -/

structure TTbl where
  name : String
  privs : List Priv
  deriving Repr, Inhabited, DecidableEq

structure TRtn where
  name : String
  isProc : Bool
  privs : List Priv
  deriving Repr, Inhabited, DecidableEq

structure TDb where
  name : String
  privs : List Priv
  tables : List TTbl
  routines : List TRtn
  deriving Repr, Inhabited, DecidableEq

structure TPrivSet where
  global : List Priv
  dynamic : List (String × Bool)
  dbs : List TDb
  deriving Repr, Inhabited, DecidableEq

structure TUser where
  name : String
  host : String
  plugin : String
  auth : String
  locked : Bool
  extra : List String
  privs : TPrivSet
  deriving Repr, Inhabited, DecidableEq

structure Tree where
  users : List TUser
  edges : List Edge
  superUsers : List TUser
  deriving Repr, Inhabited

/-! ## sorting (Go: `sort.Slice` / `sort.Ints`; keys are assumed pairwise different, so the order is determined) -/

def strLe (a b : String) : Bool := decide (a ≤ b)

def sortNats (l : List Nat) : List Nat := l.mergeSort (fun a b => decide (a ≤ b))

/-- `ToSlice()`: the privileges of a map, sorted (and each once). -/
def toSlice (l : List Priv) : List Priv := sortNats l.eraseDups

def sortBy {α : Type} (f : α → String) (l : List α) : List α := l.mergeSort (fun a b => strLe (f a) (f b))

/-- Order on pairs of strings, first component first (users: (Host, User); edges likewise). -/
def pairLe (a b : String × String) : Bool := if a.1 = b.1 then strLe a.2 b.2 else strLe a.1 b.1

/-! ## `Persist` -/

def NTbl.hasPrivileges (t : NTbl) : Bool := !t.privs.isEmpty
def NRtn.hasPrivileges (r : NRtn) : Bool := !r.privs.isEmpty
def NDb.hasPrivileges (d : NDb) : Bool :=
  !d.privs.isEmpty || d.tables.any NTbl.hasPrivileges || d.routines.any NRtn.hasPrivileges

/-- `serializeTables(b, database.getTables())`: only tables with privileges, sorted by name. -/
def serTables (ts : List NTbl) : List TTbl :=
  (sortBy NTbl.name (ts.filter NTbl.hasPrivileges)).map (fun t => { name := t.name, privs := toSlice t.privs })

/-- `serializeRoutines(b, database.getRoutines())`: every routine entry, ordered by name (the
comparator of `getRoutines` compares a name with a type, so routines of equal name keep an
unspecified relative order; observations sort them). -/
def serRoutines (rs : List NRtn) : List TRtn :=
  (sortBy NRtn.name rs).map (fun r => { name := r.name, isProc := r.isProc, privs := toSlice r.privs })

/-- `serializeDatabases(b, ps.getDatabases())`: only databases with privileges, sorted by name. -/
def serDbs (ds : List NDb) : List TDb :=
  (sortBy NDb.name (ds.filter NDb.hasPrivileges)).map (fun d =>
    { name := d.name, privs := toSlice d.privs, tables := serTables d.tables, routines := serRoutines d.routines })

def serPrivSet (ps : NPrivSet) : TPrivSet :=
  { global := toSlice ps.global, dynamic := ps.dynamic, dbs := serDbs ps.dbs }

def serUser (u : NUser) : TUser :=
  { name := u.name, host := u.host, plugin := u.plugin, auth := u.auth, locked := u.locked, extra := u.extra,
    privs := serPrivSet u.privs }

def sortUsers (us : List NUser) : List NUser := us.mergeSort (fun a b => pairLe (a.host, a.name) (b.host, b.name))

def edgeLe (a b : Edge) : Bool :=
  if a.fromHost = b.fromHost then
    if a.fromUser = b.fromUser then
      if a.toHost = b.toHost then strLe a.toUser b.toUser else strLe a.toHost b.toHost
    else strLe a.fromUser b.fromUser
  else strLe a.fromHost b.fromHost

/-- Go: `MySQLDb.Persist`. -/
def serialize (s : NState) : Tree :=
  let live := s.users.filter (fun u => !u.isEphemeral)
  { users := (sortUsers (live.filter (fun u => !u.isSuper))).map serUser
    edges := s.edges.mergeSort edgeLe
    superUsers := (sortUsers (live.filter (fun u => u.isSuper))).map serUser }

/-! ## `LoadData` -/

def loadTbl (fixKeys : Bool) (t : TTbl) : NTbl :=
  { key := if fixKeys then lower t.name else t.name, name := t.name, privs := t.privs }

def loadRtn (fixKeys : Bool) (r : TRtn) : NRtn :=
  { key := if fixKeys then lower r.name else r.name, isProc := r.isProc, name := r.name, privs := r.privs }

/-- `m[k] = v` on a list of entries with a key function: a later entry replaces an earlier one. -/
def putKey {α : Type} (key : α → String × Bool) (m : List α) (v : α) : List α :=
  m.filter (fun x => decide (key x ≠ key v)) ++ [v]

/-- Go: `loadDatabase`: `tables[table.Name()] = …`, `routines[routineKey{RoutineName(), isProc}] = …`. -/
def loadDb (fixKeys : Bool) (d : TDb) : NDb :=
  { key := if fixKeys then lower d.name else d.name
    name := d.name
    privs := d.privs
    tables := (d.tables.map (loadTbl fixKeys)).foldl (putKey fun t => (t.key, false)) []
    routines := (d.routines.map (loadRtn fixKeys)).foldl (putKey fun r => (r.key, r.isProc)) [] }

/-- Go: `loadPrivilegeSet`: `databases[database.Name()] = …`. -/
def loadPrivSet (fixKeys : Bool) (ps : TPrivSet) : NPrivSet :=
  { global := ps.global
    dynamic := ps.dynamic
    dbs := (ps.dbs.map (loadDb fixKeys)).foldl (putKey fun d => (d.key, false)) [] }

/-- Go: `LoadUser` (IsSuperUser, IsEphemeral, IsRole are not restored). -/
def loadUser (fixKeys : Bool) (u : TUser) : NUser :=
  { name := u.name, host := u.host, plugin := u.plugin, auth := u.auth, locked := u.locked, isSuper := false,
    isEphemeral := false, extra := u.extra, privs := loadPrivSet fixKeys u.privs }

/-- Go: `LoadRoleEdge` — `WithAdminOption` is written by `serializeRoleEdge` but never read back. -/
def loadEdge (fixAdmin : Bool) (e : Edge) : Edge := { e with admin := if fixAdmin then e.admin else false }

/-- Go: `Editor.PutUser` into a set that holds no *equal* user: appended (an existing user with the same
key but different content stays beside it — not reachable when loading into an empty set). -/
def load (fixKeys fixAdmin : Bool) (t : Tree) : NState :=
  { users := (t.users ++ t.superUsers).map (loadUser fixKeys)
    edges := (t.edges.map (loadEdge fixAdmin)).foldl putEdge [] }

def reload (fixKeys fixAdmin : Bool) (s : NState) : NState := load fixKeys fixAdmin (serialize s)

/-- `reload` with a third switch: `fixOrder` keeps the accounts in the order they had (the order is not
part of the persisted data — `Persist` sorts by (Host, User) — but `GetUser` depends on it). -/
def reloadWith (fixKeys fixAdmin fixOrder : Bool) (s : NState) : NState :=
  let r := reload fixKeys fixAdmin s
  if fixOrder then
    { r with users := (s.users.filter (fun u => !u.isEphemeral)).map (fun u => loadUser fixKeys (serUser u)) }
  else r

/-! ## forgetting the names: the sets the decisions are taken on -/

def eraseDb (d : NDb) : DbSet :=
  { privs := d.privs
    tables := d.tables.map (fun t => (t.key, t.privs))
    routines := d.routines.map (fun r => ((r.key, r.isProc), r.privs)) }

def erase (ps : NPrivSet) : PrivSet :=
  { global := ps.global, dynamic := ps.dynamic, dbs := ps.dbs.map (fun d => (d.key, eraseDb d)) }

def eraseState (s : NState) : St PrivSet :=
  { users := s.users.map (fun u => { name := u.name, host := u.host, privs := erase u.privs, locked := u.locked })
    edges := s.edges }


/-! ## what `Copy()` / `UnionWith` make of a set: every entry re-keyed by its lower-cased name

`UserActivePrivilegeSet` never reads an account's set directly: it copies it with `UnionWith`, which
files every entry under `strings.ToLower(entry.name)`. A live entry has key = lower name, a reloaded
one has key = name, so `lower key` is the key it ends up under in both cases. Entries that collide
are merged. -/

def normDb (s : DbSet) : DbSet :=
  { privs := s.privs
    tables := mfold s.tables (fun acc k v => mset acc (lower k) (pinsAll ((mget acc (lower k)).getD []) v)) []
    routines := mfold s.routines (fun acc k v => mset acc (lower k.1, k.2) (pinsAll ((mget acc (lower k.1, k.2)).getD []) v)) [] }

def normalizePs (ps : PrivSet) : PrivSet :=
  { global := ps.global
    dynamic := ps.dynamic
    dbs := mfold ps.dbs (fun acc k s => mset acc (lower k) (PrivSet.unionDb ((mget acc (lower k)).getD {}) (normDb s))) [] }

/-- The state the decisions are taken on: every account's set as `Copy()` sees it. -/
def normalizeSt (st : St PrivSet) : St PrivSet :=
  { st with users := st.users.map (fun u => { u with privs := normalizePs u.privs }) }

/-! ## `RemoveRoutine` on a set whose keys need not be lower-case

`Gms.Priv.PrivSet.remRtn` (C39) models the final `delete(routines, routineKey{procName, isProc})` of
`RemoveRoutine` for sets whose keys are all lower-case (there it can only hit when `procName` is
lower-case). After a reload the keys are the stored names, so the `delete` under the name *as given* can
hit a reloaded entry: this version drops that assumption. On sets with lower-case keys both agree
(`remRtnRaw_eq` in Props/C41.lean). -/
def remRtnRaw (ps : PrivSet) (d r : String) (isProc : Bool) (privs : List Priv) : PrivSet :=
  let s := ps.dbOrNew d
  let rp := premAll ((mget s.routines (lower r, isProc)).getD []) privs
  let rs := mset s.routines (lower r, isProc) rp
  let rs := if rp.isEmpty then merase rs (r, isProc) else rs
  ps.setDb d { s with routines := rs }

/-- The privilege-set algebra of the real code on arbitrary keys. -/
def implRaw : PS PrivSet := { implPS with remRtn := remRtnRaw }

/-! ## regions of the known defects -/

/-- Some entry that carries privileges has a display name that is not its (lower-case) key. -/
def NDb.mixedCase (d : NDb) : Bool :=
  d.hasPrivileges && (d.name != d.key ||
    d.tables.any (fun t => t.hasPrivileges && t.name != t.key) ||
    d.routines.any (fun r => r.name != r.key))

def hasMixedCase (s : NState) : Bool :=
  s.users.any (fun u => !u.isEphemeral && u.privs.dbs.any NDb.mixedCase)

def hasAdminEdge (s : NState) : Bool := s.edges.any (·.admin)

/-- How many of the keys does `GetUser`'s loop accept for this user name and client host? -/
def matchCount (keys : List (String × String)) (user host : String) (roleSearch : Bool) : Nat :=
  (keys.filter (fun k => k.1 = user && hostMatches (normHost host) host k.2 roleSearch)).length

/-- The account a session `user@host` runs as depends on the order of the accounts: the session is not the
primary key of an account and the loop of `GetUser` accepts two or more accounts of that name (or none of
that name and two or more anonymous ones). -/
def ambiguous (keys : List (String × String)) (user host : String) (roleSearch : Bool) : Bool :=
  !keys.any (fun k => k.2 = normHost host ∧ k.1 = user) &&
    (matchCount keys user host roleSearch ≥ 2 ||
      (matchCount keys user host roleSearch = 0 && matchCount keys "" host roleSearch ≥ 2))

def hasAmbiguous (s : NState) (sessions : List (String × String)) : Bool :=
  let keys := (s.users.filter (fun u => !u.isEphemeral)).map (fun u => (u.name, u.host))
  sessions.any (fun w => ambiguous keys w.1 w.2 false)

end Gms.PrivSerial
