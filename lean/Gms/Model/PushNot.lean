/-
C05 — Impl model of `pushNotFiltersHelper` (sql/analyzer/optimization_rules.go), core-only.

The Go function rewrites, top-down and recursively *on the rewritten term*:

    NOT(NOT(c))          => c                     if c's static type is boolean
    NOT(AND(l,r))        => OR(NOT(l), NOT(r))
    NOT(OR(l,r))         => AND(NOT(l), NOT(r))
    NOT(GT(a,b))         => LTE(a,b)     NOT(GTE) => LT     NOT(LT) => GTE     NOT(LTE) => GT
    NOT(BETWEEN(v,lo,hi))=> OR(LT(v,lo), GT(v,hi))
    anything else        => same node, children rewritten

`push` / `pushNeg` below are that function in structurally recursive form: `push e` is
`pushNotFiltersHelper(e)` and `pushNeg e` is `pushNotFiltersHelper(NOT(e))` (the freshly built
OR/AND/comparison node is not a NOT, so the Go code falls through to "children rewritten", which
is exactly the recursive calls written out here). `PExpr` keeps every other expression kind as an
opaque node `other tag children` (arithmetic, IN, CASE, functions, …) or leaf `atom`.

Semantics: `eval` interprets the logical nodes with M1's three-valued operators and an opaque
node by an *arbitrary* function of its children's values (`F tag`), a leaf by an arbitrary
valuation; `isBool` is the engine's static `types.IsBoolean(e.Type())`.
-/
import Gms.Model.Sql

namespace Gms.PushNot
open Gms.Sql

/-- The comparison operators the rewrite distinguishes (`eq`, `ne`, `nseq` are left alone). -/
abbrev Op := CmpOp

inductive PExpr where
  /-- leaf `n`; `bool` = its static type is boolean -/
  | atom (n : Nat) (bool : Bool)
  | not (e : PExpr)
  | and (a b : PExpr)
  | or (a b : PExpr)
  | cmp (op : Op) (a b : PExpr)
  | between (v lo hi : PExpr)
  /-- any other expression kind; `bool` = its static type is boolean -/
  | other (tag : Nat) (bool : Bool) (cs : List PExpr)
  deriving Repr, Inhabited

/-- `types.IsBoolean(e.Type())`. -/
def isBool : PExpr → Bool
  | .atom _ b => b
  | .other _ b _ => b
  | _ => true

/-- The comparison a negated comparison is rewritten to (`none`: not rewritten). -/
def negOp : Op → Option Op
  | .gt => some .le
  | .ge => some .lt
  | .lt => some .ge
  | .le => some .gt
  | _ => none

mutual
/-- `pushNotFiltersHelper(e)` -/
def push : PExpr → PExpr
  | .atom n b => .atom n b
  | .not e => pushNeg e
  | .and a b => .and (push a) (push b)
  | .or a b => .or (push a) (push b)
  | .cmp op a b => .cmp op (push a) (push b)
  | .between v lo hi => .between (push v) (push lo) (push hi)
  | .other t b cs => .other t b (pushList cs)

/-- `pushNotFiltersHelper(NOT(e))` -/
def pushNeg : PExpr → PExpr
  | .not c => if isBool c then push c else .not (pushNeg c)
  | .and l r => .or (pushNeg l) (pushNeg r)
  | .or l r => .and (pushNeg l) (pushNeg r)
  | .cmp op a b =>
    match negOp op with
    | some op' => .cmp op' (push a) (push b)
    | none => .not (.cmp op (push a) (push b))
  | .between v lo hi => .or (.cmp .lt (push v) (push lo)) (.cmp .gt (push v) (push hi))
  | .atom n b => .not (.atom n b)
  | .other t b cs => .not (.other t b (pushList cs))

def pushList : List PExpr → List PExpr
  | [] => []
  | e :: es => push e :: pushList es
end

/-! ### Semantics -/

mutual
def eval (ρ : Nat → Value) (F : Nat → List Value → Value) : PExpr → Value
  | .atom n _ => ρ n
  | .not e => (Tri.not (eval ρ F e).truth).toValue
  | .and a b => (Tri.and (eval ρ F a).truth (eval ρ F b).truth).toValue
  | .or a b => (Tri.or (eval ρ F a).truth (eval ρ F b).truth).toValue
  | .cmp op a b => (cmpTri op (eval ρ F a) (eval ρ F b)).toValue
  | .between v lo hi => (betweenTri (eval ρ F v) (eval ρ F lo) (eval ρ F hi)).toValue
  | .other t _ cs => F t (evalList ρ F cs)

def evalList (ρ : Nat → Value) (F : Nat → List Value → Value) : List PExpr → List Value
  | [] => []
  | e :: es => eval ρ F e :: evalList ρ F es
end

/-- A value a boolean-typed expression may take. -/
def IsBoolValue (v : Value) : Prop := v = .null ∨ v = .int 0 ∨ v = .int 1

mutual
/-- The static boolean flags of leaves and opaque nodes are honoured by the interpretation. -/
def WellTyped (ρ : Nat → Value) (F : Nat → List Value → Value) : PExpr → Prop
  | .atom n b => b = true → IsBoolValue (ρ n)
  | .not e => WellTyped ρ F e
  | .and a b => WellTyped ρ F a ∧ WellTyped ρ F b
  | .or a b => WellTyped ρ F a ∧ WellTyped ρ F b
  | .cmp _ a b => WellTyped ρ F a ∧ WellTyped ρ F b
  | .between v lo hi => WellTyped ρ F v ∧ WellTyped ρ F lo ∧ WellTyped ρ F hi
  | .other t b cs => (b = true → IsBoolValue (F t (evalList ρ F cs))) ∧ WellTypedList ρ F cs

def WellTypedList (ρ : Nat → Value) (F : Nat → List Value → Value) : List PExpr → Prop
  | [] => True
  | e :: es => WellTyped ρ F e ∧ WellTypedList ρ F es
end

/-! ### A deliberately wrong variant (Appendix C mutant `NOT (a < b) ↦ a > b`), used only to show
that the equivalence theorem is not vacuous: it is refuted in Props/C05.lean. -/

def negOpWrong : Op → Option Op
  | .gt => some .le
  | .ge => some .lt
  | .lt => some .gt
  | .le => some .gt
  | _ => none

end Gms.PushNot
