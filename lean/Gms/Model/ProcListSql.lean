/-
C37 — the SQL layer on top of `ProcessList` (core-only).

`Gms/Model/ProcList.lean` models the methods of `sqle.ProcessList`. This file models the statements
that reach those methods *through the engine*:

* `KILL QUERY n`, `KILL CONNECTION n`, `KILL n`  — planbuilder `buildKill` (`Kill.Connection` ↦
  `plan.KillType_Connection`, otherwise `plan.KillType_Query`; the bare `KILL n` of the grammar sets
  `Connection`), rowexec `buildKill` (the body of the lazy iterator: `ctx.ProcessList.Kill(n.ConnID)`
  for both types, and `ctx.KillConnection(n.ConnID)` in addition for type Connection);
* `SHOW PROCESSLIST` — rowexec `buildShowProcessList` (`ctx.ProcessList.Processes()` ↦ rows);
* for every statement: `rowexec.FinalizeIters` wraps the iterator into a `plan.TrackedRowIter` whose
  `Close` calls `ctx.ProcessList.EndQuery(ctx)` — the statement ends its own query (the server's
  handler calls `EndQuery` a second time in a defer; that one is a separate call of a history).

`Services.KillConnection` (the server's `SessionManager.KillConnection`) only closes the network
connection; the process-list entry is removed later by `RemoveConnection`, when the connection's handler
loop has unwound. So the state of the SQL layer is the `ProcessList` state plus the list `closed` of
close requests (connection ids handed to the service, in order), and cancelling what the target is
doing is the job of the `Kill` call, for both kill types.

* `sstep`  – Impl model (the Go code path by path, on top of `step`).
* `sastep` – Spec (on top of `astep`): a KILL statement of either type is a `KILL` of the target in the
             abstract session machine, type Connection also requests closing exactly the target; then
             the statement's own query ends. `none` = outside the protocol (as for `astep`).
* `lower`  – the direct `ProcessList` calls a statement stands for.
-/
import Gms.Model.ProcList
namespace Gms.ProcList

/-- `plan.KillType`. -/
inductive KillType where
  | query | connection
  deriving DecidableEq, Repr, Inhabited

/-- A call of a history at the SQL layer: a direct `ProcessList` call, or a statement executed through
the engine by connection `i` as its query number `pid`. -/
inductive SqlEv where
  | call (e : Ev)
  | killStmt (kt : KillType) (i pid c : Nat)
  | show (i pid : Nat)
  deriving DecidableEq, Repr, Inhabited

structure SSt where
  pl : St
  /-- ids handed to `Services.KillConnection`, in order -/
  closed : List Nat
  deriving Repr, Inhabited

def SSt.init : SSt := { pl := St.init, closed := [] }

inductive SRes where
  | call (r : Res)
  /-- one `OkResult` row -/
  | ok
  /-- the result set of SHOW PROCESSLIST: the process table it was computed from -/
  | rows (v : List (Nat × Proc))
  | crash
  deriving DecidableEq, Repr, Inhabited

/-! ### Impl model -/

/-- rowexec `buildKill`, the body of the lazy iterator, for a `plan.Kill{kt, c}`:
`ctx.ProcessList.Kill(n.ConnID)`; `if n.Kt == plan.KillType_Connection { ctx.KillConnection(n.ConnID) }`. -/
def killStmtBody (kt : KillType) (s : SSt) (c : Nat) : SSt :=
  let s := { s with pl := (step s.pl (.kill c)).1 }
  match kt with
  | .connection => { s with closed := s.closed ++ [c] }
  | .query => s

/-- Draining and closing the statement's iterator: `TrackedRowIter.done` calls
`ctx.ProcessList.EndQuery(ctx)` with the statement's context (session `i`, query `pid`). A panic in
there (`EndQuery`'s unguarded `p.Kill()`) replaces the statement's result. -/
def closeStmt (s : SSt) (i pid : Nat) (r : SRes) : SSt × SRes :=
  let q := step s.pl (.endQ i pid)
  ({ s with pl := q.1 }, if q.2 = .crash then .crash else r)

def sstep (s : SSt) : SqlEv → SSt × SRes
  | .call e => let q := step s.pl e; ({ s with pl := q.1 }, .call q.2)
  | .killStmt kt i pid c => closeStmt (killStmtBody kt s c) i pid .ok
  | .show i pid => closeStmt s i pid (.rows s.pl.procs)

def srun : SSt → List SqlEv → List (SSt × SRes)
  | _, [] => []
  | s, e :: es => let r := sstep s e; r :: srun r.1 es

def sexec (s : SSt) (es : List SqlEv) : SSt := es.foldl (fun s e => (sstep s e).1) s

/-- The calls the model attributes to the iterator body of each kill type (compared with the
regenerated fact `Generated.C37.killStmtCalls`). -/
def killStmtCalls : List (String × List String) :=
  [("Connection", ["ProcessList.Kill", "KillConnection"]), ("Query", ["ProcessList.Kill"])]

/-- planbuilder `buildKill`: `Kill.Connection` ↦ kill type (regenerated fact `killPlanTypes`). -/
def killPlanTypes : List (Bool × String) := [(true, "Connection"), (false, "Query")]

/-! ### Spec -/

structure SASt where
  pl : ASt
  closed : List Nat
  deriving Repr, Inhabited

def SASt.init : SASt := { pl := ASt.init, closed := [] }

/-- What the property demands of a statement. KILL of either type: the work registered for the target
is cancelled (the abstract machine's `kill`), type Connection requests closing exactly the target,
type Query requests nothing; then the statement's own query ends (`endQ`). SHOW PROCESSLIST: the rows
are the connected sessions with the query each is running. -/
def sastep (a : SASt) : SqlEv → Option (SASt × SRes)
  | .call e =>
    match astep a.pl e with
    | none => none
    | some (p, r) => some ({ a with pl := p }, .call r)
  | .killStmt kt i pid c =>
    match astep a.pl (.kill c) with
    | none => none
    | some (p, _) =>
      match astep p (.endQ i pid) with
      | none => none
      | some (p', _) =>
        some ({ pl := p', closed := match kt with
                                    | .connection => a.closed ++ [c]
                                    | .query => a.closed }, .ok)
  | .show i pid =>
    match astep a.pl (.endQ i pid) with
    | none => none
    | some (p', _) => some ({ a with pl := p' }, .rows a.pl.procs)

/-- The direct calls a statement stands for. -/
def lower : SqlEv → List Ev
  | .call e => [e]
  | .killStmt _ i pid c => [.kill c, .endQ i pid]
  | .show i pid => [.endQ i pid]

def lowerAll (es : List SqlEv) : List Ev := es.flatMap lower

/-- The close requests a history makes. -/
def closeRequests : List SqlEv → List Nat
  | [] => []
  | .killStmt .connection _ _ c :: es => c :: closeRequests es
  | _ :: es => closeRequests es

/-- Defect regions at the SQL layer: those of the direct calls; no statement is in a region. -/
def sInRegion (a : SASt) : SqlEv → Bool
  | .call e => inRegion a.pl e
  | _ => false

def sRegionName (a : SASt) : SqlEv → String
  | .call e => regionName a.pl e
  | _ => "-"

end Gms.ProcList
