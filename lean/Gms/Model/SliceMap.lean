/-
C10 — offsets taken in a case-mapped copy of a string (core-only).

`function.Locate.Eval` (sql/expression/function/locate.go) lower-cases both operands and searches with
`strings.Index`. Lower-casing is not length-preserving in UTF-8 (Ⱥ U+023A: 2 bytes → ⱥ U+2C65: 3
bytes; İ U+0130: 2 → i: 1; K U+212A: 3 → k: 1), so an offset found in the mapped copy is NOT an offset
of the original string. This file models

* Go's slice expressions with the runtime panic as an explicit outcome (`none`);
* `Locate.Eval` after the argument conversions, as written (`locateG`): byte positions, one slice
  `str[position-1:]`, the case mapping a PARAMETER (the theorems of Gms/Props/C10.lean hold for every
  mapping, length-changing or not);
* the class of code the property has to exclude (`locateMapped`): a character-position variant that
  finds the needle in the mapped copy of the tail and then slices the ORIGINAL string with that offset
  (`str[start : start+res]`);
* the mapping the driver instantiates the models with: `strings.ToLower` = `mapCase` (C34's model of
  the ASCII fast path / `strings.Map`) over the regenerated table of simple case mappings.
-/
import Gms.Model.ScalarFn

namespace Gms.SliceMap
open Gms.Utf8 Gms.ScalarFn

/-- Go: `s[i:]`; `none` = `panic: runtime error: slice bounds out of range`. -/
def sliceFrom (s : Bytes) (i : Int) : Option Bytes :=
  if 0 ≤ i ∧ i ≤ s.length then some (s.drop i.toNat) else none

/-- Go: `s[i:j]`; `none` = panic. -/
def slice (s : Bytes) (i j : Int) : Option Bytes :=
  if 0 ≤ i ∧ i ≤ j ∧ j ≤ s.length then some ((s.drop i.toNat).take (j - i).toNat) else none

/-- locate.go `Locate.Eval` after the conversions of its arguments, with the slice expression's panic
explicit and the case mapping `lower` as a parameter. -/
def locateG (lower : Bytes → Bytes) (sub str : Bytes) (position : Int) : Option Int :=
  let n : Int := str.length
  if position ≤ 0 ∨ (n > 0 ∧ position > n) then some 0
  else if sub.isEmpty ∧ str.isEmpty then (if position = 1 then some 1 else some 0)
  else if position > n then some 0
  else
    match sliceFrom str (position - 1) with
    | none => none
    | some tail =>
      match indexOf (lower sub) (lower tail) with
      | some i => some (i + position)
      | none => some 0

/-- Go: the byte offset reached by `k` steps of `utf8.DecodeRuneInString` (each step advances by the
width of the decoded rune; at the end of the string the width is 0). -/
def runeOffset : Nat → Bytes → Nat
  | 0, _ => 0
  | _ + 1, [] => 0
  | k + 1, b0 :: rest =>
    let w := (decodeRune1 b0 rest).2
    w + runeOffset k ((b0 :: rest).drop w)

/-- The CLASS: positions counted in characters, the needle searched in the lower-cased copy of the
tail, and the byte offset found there used to slice the original (`str[start : start+res]`) in order
to count the characters in front of the match. -/
def locateMapped (lower : Bytes → Bytes) (sub str : Bytes) (position : Int) : Option Int :=
  let n : Int := runeCount str
  if position ≤ 0 ∨ (n > 0 ∧ position > n) then some 0
  else if sub.isEmpty ∧ n = 0 then (if position = 1 then some 1 else some 0)
  else if position > n then some 0
  else
    let start : Int := runeOffset (position - 1).toNat str
    match sliceFrom str start with
    | none => none
    | some tail =>
      match indexOf (lower sub) (lower tail) with
      | none => some 0
      | some res =>
        match slice str start (start + res) with
        | none => none
        | some pre => some (runeCount pre + position)

/-! ### the case mapping of the compiled code -/

/-- `unicode.ToLower` restricted to a table of (rune, lower, upper) entries; ASCII by rule, every
other rune unchanged (assumption of the driver: the strings of the cases stay inside the table). -/
def lowerRune (tbl : List (Nat × Nat × Nat)) (r : Nat) : Nat :=
  match tbl.find? (fun e => e.1 == r) with
  | some e => e.2.1
  | none => lowerByte r

def upperRune (tbl : List (Nat × Nat × Nat)) (r : Nat) : Nat :=
  match tbl.find? (fun e => e.1 == r) with
  | some e => e.2.2
  | none => upperByte r

/-- `strings.ToLower`. -/
def lowerWith (tbl : List (Nat × Nat × Nat)) (s : Bytes) : Bytes := mapCase (lowerRune tbl) s

/-- Outcome of a `(loc …)` case as the harness prints it. -/
def locObs : Option Int → String
  | none => "crash"
  | some i => toString i

end Gms.SliceMap
