/-
C50 — model of `SELECT … INTO OUTFILE` (sql/rowexec/rel.go `buildInto`) and `LOAD DATA INFILE`
(sql/plan/load_data.go `SplitLines`, sql/rowexec/ddl_iters.go `loadDataIter.parseLinePrefix`,
`parseFields`), byte level, core-only.

* `writeFile`  – Impl model of the OUTFILE writer (only the line terminator is "escaped")
* `readFile`   – Impl model of the LOAD DATA reader into a table whose columns are all of a string
                 type: scanner tokens → prefix → terminator → field state machine → NULL spelling
* `specRow`    – Spec: what the table must contain after the round trip (the rows themselves)

Go loops that move an index by more than one (`i++` inside the body, `i += termLen - 1`) are
modelled with a `skip` counter: `skip = k` means "the next k bytes were already consumed".
-/
namespace Gms.Outfile

abbrev Bytes := List UInt8

/-- The six options shared by `plan.Into` and `plan.LoadData`. The plan builder guarantees
`enc.length ≤ 1`, `esc.length ≤ 1` and `ft ≠ []` (an empty FIELDS TERMINATED BY keeps the default). -/
structure Opts where
  ft : Bytes      -- FieldsTerminatedBy
  enc : Bytes     -- FieldsEnclosedBy
  encOpt : Bool   -- FieldsEnclosedByOpt
  esc : Bytes     -- FieldsEscapedBy
  lt : Bytes      -- LinesTerminatedBy
  ls : Bytes      -- LinesStartingBy
  deriving DecidableEq, Repr

/-- A cell of the exported result set. `text` = Go `string` coming from a text-typed column;
`num b` = a non-string value of a non-text column whose `fmt.Sprintf("%v")` rendering is `b`. -/
inductive Val where
  | null
  | text (b : Bytes)
  | num (b : Bytes)
  deriving DecidableEq, Repr

/-- "NULL" -/
def NULLs : Bytes := [78, 85, 76, 76]

/-! ### Writer (`buildInto`, `n.Outfile != ""` branch) -/

/-- Go: `strings.Replace(s, old, new, -1)` for `old ≠ ""` (left-to-right, non-overlapping). -/
def replaceGo (old new : Bytes) : Nat → Bytes → Bytes
  | _, [] => []
  | k + 1, _ :: cs => replaceGo old new k cs
  | 0, c :: cs =>
    if old.isPrefixOf (c :: cs) then new ++ replaceGo old new (old.length - 1) cs
    else c :: replaceGo old new 0 cs

/-- Go: body of `for i, val := range r` after the field terminator was written. -/
def renderVal (o : Opts) : Val → Bytes
  | .null => if o.esc.isEmpty then NULLs else o.esc ++ [78]
  | .text s =>
    -- `!n.FieldsEnclosedByOpt || types.IsText(sch[i].Type)` holds; `val.(string)` succeeds
    o.enc ++ (if o.lt.isEmpty then s else replaceGo o.lt (o.esc ++ o.lt) 0 s) ++ o.enc
  | .num b => if !o.encOpt then o.enc ++ b ++ o.enc else b

def joinFields (ft : Bytes) : List Bytes → Bytes
  | [] => []
  | [f] => f
  | f :: fs => f ++ ft ++ joinFields ft fs

def writeRow (o : Opts) (r : List Val) : Bytes :=
  o.ls ++ joinFields o.ft (r.map (renderVal o)) ++ o.lt

def writeFile (o : Opts) : List (List Val) → Bytes
  | [] => []
  | r :: rs => writeRow o r ++ writeFile o rs

/-! ### Reader -/

/-- Go: `bufio.Scanner` driven by `LoadData.SplitLines` (`bytes.Index(data, lt)`; the token
includes the terminator; trailing data without terminator is a last token). `lt ≠ []`. -/
def splitLines (lt : Bytes) : Nat → Bytes → Bytes → List Bytes
  | _, [], cur => if cur.isEmpty then [] else [cur.reverse]
  | k + 1, _ :: cs, cur => splitLines lt k cs cur
  | 0, c :: cs, cur =>
    if lt.isPrefixOf (c :: cs) then (cur.reverse ++ lt) :: splitLines lt (lt.length - 1) cs []
    else splitLines lt 0 cs (c :: cur)

/-! ### The scanner as it really runs: a split function called on a growing buffer

`bufio.Scanner` never sees the whole file. It reads a chunk (4096 bytes at first, whatever the
reader delivers), calls the split function on *the bytes buffered so far* with `atEOF = false`, and
when the function answers "need more" (`advance = 0`, `token = nil`) it reads the next chunk, appends
it and calls the function again **on the same pending bytes plus the new ones**. `splitLines` above is
the whole-file view; `scan` below is the streaming view, for an arbitrary list of chunks. -/

/-- Go: `bytes.Index(data, p)` for `p ≠ []`. -/
def index (p : Bytes) : Bytes → Option Nat
  | [] => none
  | c :: cs => if p.isPrefixOf (c :: cs) then some 0 else (index p cs).map (· + 1)

/-- Go: `LoadData.SplitLines(data, atEOF)` → `(advance, token)`; `none` is the `nil` token
("read more"). The function has no state: it searches the pending bytes from byte 0 on every call. -/
def splitFn (lt data : Bytes) (atEOF : Bool) : Nat × Option Bytes :=
  if atEOF && data.isEmpty then (0, none) else
  match index lt data with
  | some i => (i + lt.length, some (data.take (i + lt.length)))
  | none => if atEOF then (data.length, some data) else (0, none)

/-- A split function that remembers how many leading bytes of the pending line it has already
searched (`searched`, reset when a token is returned) and resumes there. `back` is how far the
resume point is moved back from the end of the buffered bytes when no terminator was found:
`back = lt.length - 1` is the correct resume point (a terminator may have begun in the last
`lt.length - 1` bytes), `back = 0` is the off-by-(L-1) variant that loses a terminator straddling
two reads. Returns the new `searched` as third component. -/
def splitFnResume (back : Nat) (lt data : Bytes) (atEOF : Bool) (searched : Nat) : Nat × Option Bytes × Nat :=
  if atEOF && data.isEmpty then (0, none, searched) else
  match index lt (data.drop searched) with
  | some i => (searched + i + lt.length, some (data.take (searched + i + lt.length)), 0)
  | none => if atEOF then (data.length, some data, 0) else (0, none, data.length - back)

/-- Go: the loop of `bufio.Scanner.Scan` while it does not have to read: call the split function on
the buffered bytes; a token is emitted and `advance` bytes are dropped; `(0, nil)` leaves the loop
(read more, or stop at EOF). `fuel` bounds the number of tokens (every token advances). Returns the
tokens and the bytes still pending. -/
def drain (lt : Bytes) (atEOF : Bool) : Nat → Bytes → List Bytes × Bytes
  | 0, buf => ([], buf)
  | fuel + 1, buf =>
    match splitFn lt buf atEOF with
    | (adv, some tok) =>
      if adv = 0 then ([], buf) else
      let r := drain lt atEOF fuel (buf.drop adv)
      (tok :: r.1, r.2)
    | (_, none) => ([], buf)

/-- Go: `bufio.Scanner` over a reader that delivers `chunks` one per `Read` and then EOF;
`buf` = bytes pending from earlier reads. -/
def scan (lt : Bytes) : Bytes → List Bytes → List Bytes
  | buf, [] => (drain lt true (buf.length + 1) buf).1
  | buf, c :: cs =>
    let r := drain lt false (buf.length + c.length + 1) (buf ++ c)
    r.1 ++ scan lt r.2 cs

/-- The same scanner loop driven by the resuming split function. -/
def drainResume (back : Nat) (lt : Bytes) (atEOF : Bool) : Nat → Bytes → Nat → List Bytes × Bytes × Nat
  | 0, buf, s => ([], buf, s)
  | fuel + 1, buf, s =>
    match splitFnResume back lt buf atEOF s with
    | (adv, some tok, s') =>
      if adv = 0 then ([], buf, s') else
      let r := drainResume back lt atEOF fuel (buf.drop adv) s'
      (tok :: r.1, r.2)
    | (_, none, s') => ([], buf, s')

def scanResume (back : Nat) (lt : Bytes) : Bytes → Nat → List Bytes → List Bytes
  | buf, s, [] => (drainResume back lt true (buf.length + 1) buf s).1
  | buf, s, c :: cs =>
    let r := drainResume back lt false (buf.length + c.length + 1) (buf ++ c) s
    r.1 ++ scanResume back lt r.2.1 r.2.2 cs

/-- Go: `strings.Index(line, p)` followed by `line[idx+len(p):]`; `none` when not found. -/
def dropToAfter (p : Bytes) : Bytes → Option Bytes
  | [] => none
  | c :: cs => if p.isPrefixOf (c :: cs) then some ((c :: cs).drop p.length) else dropToAfter p cs

/-- Go: `parseLinePrefix`. -/
def parseLinePrefix (ls line : Bytes) : Bytes :=
  if ls.isEmpty then line else
  match dropToAfter ls line with
  | none => []
  | some r => r

/-- Go: the `switch line[i]` after an escape character. -/
def unesc (c : UInt8) : Bytes :=
  if c = 78 then NULLs else if c = 90 then [26] else if c = 48 then [0] else if c = 110 then [10]
  else if c = 116 then [9] else if c = 114 then [13] else if c = 98 then [8] else [c]

/-- Parser state of `parseFields`: completed fields (reversed), `currentField` (reversed),
`inEnclosure`. -/
structure PS where
  fields : List Bytes
  cur : Bytes
  inEnc : Bool
  deriving DecidableEq, Repr

/-- Go: `for i := 0; i < len(line); i++ { … }` of `parseFields`. `nlt` is `normalLineTerm`. -/
def fieldLoop (o : Opts) (nlt : Bool) : Nat → Bytes → PS → PS
  | _, [], st => st
  | k + 1, _ :: rest, st => fieldLoop o nlt k rest st
  | 0, ch :: rest, st =>
    let hasEnc := !o.enc.isEmpty
    let hasEsc := !o.esc.isEmpty
    let enc0 := o.enc.headD 0
    let esc0 := o.esc.headD 0
    let encEqEsc := hasEnc && hasEsc && o.enc == o.esc
    let isEnc := hasEnc && ch == enc0
    let isEsc := hasEsc && !encEqEsc && ch == esc0
    if isEnc && !st.inEnc && st.cur.isEmpty then
      fieldLoop o nlt 0 rest { st with inEnc := true }
    else if isEnc && st.inEnc && encEqEsc && rest.head? == some enc0 then
      fieldLoop o nlt 1 rest { st with cur := enc0 :: st.cur }
    else if isEnc && st.inEnc then
      let followedByTerm := o.ft.isPrefixOf rest
      let atLineEnd := rest.isEmpty
      if followedByTerm || (atLineEnd && nlt) then fieldLoop o nlt 0 rest { st with inEnc := false }
      else fieldLoop o nlt 0 rest { st with cur := ch :: st.cur }
    else
      match isEsc, rest with
      | true, c :: _ => fieldLoop o nlt 1 rest { st with cur := (unesc c).reverse ++ st.cur }
      | _, _ =>
        if !st.inEnc && o.ft.isPrefixOf (ch :: rest) then
          fieldLoop o nlt (o.ft.length - 1) rest { fields := st.cur.reverse :: st.fields, cur := [], inEnc := st.inEnc }
        else fieldLoop o nlt 0 rest { st with cur := ch :: st.cur }

/-- Go: `parseFields` up to the `fields` slice; `none` = skipped line (`return nil, nil`). -/
def parseLine (o : Opts) (tok : Bytes) : Option (List Bytes) :=
  let line := parseLinePrefix o.ls tok
  if line.isEmpty then none else
  let hasTerm := o.lt.isSuffixOf line
  let line := if hasTerm then line.take (line.length - o.lt.length) else line
  let encEqEsc := !o.enc.isEmpty && !o.esc.isEmpty && o.enc == o.esc
  let nlt := hasTerm || !encEqEsc
  let st := fieldLoop o nlt 0 line { fields := [], cur := [], inEnc := false }
  let last := if st.inEnc then o.enc.headD 0 :: st.cur.reverse else st.cur.reverse
  some (last :: st.fields).reverse

/-- Go: tail of `parseFields` for a destination column of a string type without default:
a missing field gives the column default (NULL), the spelling `NULL` gives NULL. -/
def fieldVal : Option Bytes → Option Bytes
  | none => none
  | some f => if f = NULLs then none else some f

/-- Go: `inputPreprocessor` without user variables / SET: field k goes to column k, surplus
fields are dropped, missing ones are `nil`. -/
def rowOf : Nat → List Bytes → List (Option Bytes)
  | 0, _ => []
  | n + 1, [] => none :: rowOf n []
  | n + 1, f :: fs => fieldVal (some f) :: rowOf n fs

def readLines (o : Opts) (ncols : Nat) : List Bytes → List (List (Option Bytes))
  | [] => []
  | t :: ts =>
    match parseLine o t with
    | none => readLines o ncols ts
    | some fs => rowOf ncols fs :: readLines o ncols ts

/-- The table (all columns of a string type, `ncols` of them) after `LOAD DATA INFILE`. -/
def readFile (o : Opts) (ncols : Nat) (data : Bytes) : List (List (Option Bytes)) :=
  readLines o ncols (splitLines o.lt 0 data [])

/-- The table after `LOAD DATA` when the reader delivers the file as `chunks` (any chunking: the
4096-byte refills of `bufio.Scanner` over an `os.File`, the packets of `LOAD DATA LOCAL`). -/
def readFileChunked (o : Opts) (ncols : Nat) (chunks : List Bytes) : List (List (Option Bytes)) :=
  readLines o ncols (scan o.lt [] chunks)

/-! ### Spec -/

def specVal : Val → Option Bytes
  | .null => none
  | .text b => some b
  | .num b => some b

/-- What the round trip must give back: the rows. -/
def specRows (rows : List (List Val)) : List (List (Option Bytes)) := rows.map (·.map specVal)

/-- Impl model of the round trip. -/
def roundTrip (o : Opts) (ncols : Nat) (rows : List (List Val)) : List (List (Option Bytes)) :=
  readFile o ncols (writeFile o rows)

/-! ### Well-formed options and the defect regions -/

/-- The bytes that delimit: first byte of the line and field terminators, enclosure, escape. -/
def delims (o : Opts) : Bytes := o.lt.take 1 ++ o.ft.take 1 ++ o.enc ++ o.esc

def nodupB : Bytes → Bool
  | [] => true
  | b :: bs => !bs.contains b && nodupB bs

/-- Options for which the file format is unambiguous at all (what the round trip is claimed for):
non-empty terminators, one-byte enclosure/escape, pairwise distinct delimiter bytes, the line
terminator's first byte occurs in no other option, and no delimiter is a letter of `NULL`. -/
def optsWF (o : Opts) : Bool :=
  !o.ft.isEmpty && !o.lt.isEmpty && o.enc.length ≤ 1 && o.esc.length ≤ 1 && nodupB (delims o)
    && !o.ft.contains (o.lt.headD 0) && !o.ls.contains (o.lt.headD 0)
    && (delims o).all (fun d => !NULLs.contains d)

def valBytes : Val → Option Bytes
  | .null => none
  | .text b => some b
  | .num b => some b

def anyVal (p : Bytes → Bool) (rows : List (List Val)) : Bool :=
  rows.any (·.any fun v => match valBytes v with | none => false | some b => p b)

def rNullSpelling (rows : List (List Val)) : Bool := anyVal (fun b => b == NULLs) rows
def rLineTerm (o : Opts) (rows : List (List Val)) : Bool := anyVal (fun b => b.contains (o.lt.headD 0)) rows
def rEscape (o : Opts) (rows : List (List Val)) : Bool := anyVal (fun b => o.esc.any b.contains) rows
def rEnclosure (o : Opts) (rows : List (List Val)) : Bool := anyVal (fun b => o.enc.any b.contains) rows
/-- Is the value written between enclosure characters? -/
def enclosed (o : Opts) : Val → Bool
  | .null => false
  | .text _ => !o.enc.isEmpty
  | .num _ => !o.enc.isEmpty && !o.encOpt

/-- Some value that is written *without* enclosure contains the field terminator's first byte
(inside an enclosure the reader does not look for the field terminator). -/
def rFieldTerm (o : Opts) (rows : List (List Val)) : Bool :=
  rows.any (·.any fun v => !enclosed o v &&
    match valBytes v with | none => false | some b => b.contains (o.ft.headD 0))

/-- Name of the first defect region the case falls into (`none`: no special byte anywhere). -/
def region (o : Opts) (rows : List (List Val)) : Option String :=
  if rNullSpelling rows then some "value_is_null_spelling"
  else if rLineTerm o rows then some "value_contains_line_terminator"
  else if rEscape o rows then some "value_contains_escape"
  else if rEnclosure o rows then some "value_contains_enclosure"
  else if rFieldTerm o rows then some "value_contains_field_terminator"
  else none

end Gms.Outfile
