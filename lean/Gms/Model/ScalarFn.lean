/-
C34 — model of the built-in scalar functions of sql/expression/function (core-only).

Two layers:

* **Impl model** (`impl`): one definition per Go `Eval`, following the Go code path by path
  (evaluation / NULL-check / conversion order, `[]rune` decoding, byte offsets where the code
  uses byte offsets, int64 wrap-around, `Int32.Convert` clamping, the `float64` accumulator of
  GREATEST/LEAST, …) — defects included.
* **Spec** (`spec`): what the property demands where the code deviates (character-counting
  LPAD/RPAD/LOCATE, INET_NTOA over the whole uint32 range, two's-complement BIN, …). Where the
  Spec says nothing different, `spec = impl`.

Arguments are literals: `null`, `int` (a BIGINT literal), `text` (LONGTEXT, utf8mb4) or `blob`
(LONGBLOB). The result additionally distinguishes the Go dynamic type (`string` ↦ `text`,
`[]byte` ↦ `blob`), an error class, and a panic.

Source files: length.go concat.go substring.go reverse_repeat_replace.go rpad_lpad.go
trim_ltrim_rtrim.go locate.go lower_upper.go string.go tobase64_frombase64.go absval.go math.go
(Sign) ceil_round_floor.go truncate.go greatest_least.go conv.go oct.go inet_convert.go, and
sql/types/strings.go (`ConvertToBytes`: strict-mode UTF-8 validation), number.go (clamping).
-/
import Gms.Model.Utf8
namespace Gms.ScalarFn
open Gms.Utf8

inductive Val where
  | null
  | int (i : Int)
  | text (b : Bytes)
  | blob (b : Bytes)
  deriving Repr, DecidableEq, Inhabited

inductive Res where
  | ok (v : Val)
  | err (cls : String)
  | crash
  deriving Repr, DecidableEq, Inhabited

abbrev rnull : Res := .ok .null
abbrev rint (i : Int) : Res := .ok (.int i)
abbrev rtext (b : Bytes) : Res := .ok (.text b)
abbrev rblob (b : Bytes) : Res := .ok (.blob b)

/-! ## Integers: int64 / int32 views -/

def two63 : Int := 9223372036854775808
def two64 : Int := 18446744073709551616
def maxI64 : Int := 9223372036854775807
def minI64 : Int := -9223372036854775808

/-- Go: int64 arithmetic result (wrap-around). -/
def wrap64 (i : Int) : Int := (i + two63) % two64 - two63

/-- Go: `uint64(int64)`. -/
def toU64 (i : Int) : Nat := (i % two64).toNat

/-- Go: `int64(uint64)`. -/
def ofU64 (n : Nat) : Int := wrap64 (n : Int)

/-- `types.Int32.Convert` of an int64: clamps. -/
def clamp32 (i : Int) : Int := if i > 2147483647 then 2147483647 else if i < -2147483648 then -2147483648 else i

/-- `types.Int64.Convert` of an exact integer (decimal): clamps. -/
def clamp64 (i : Int) : Int := if i > maxI64 then maxI64 else if i < minI64 then minI64 else i

/-! ## Digits -/

def toDigitsAux (b : Nat) : Nat → Nat → List Nat → List Nat
  | 0, _, acc => acc
  | f + 1, n, acc => if n < b then n :: acc else toDigitsAux b f (n / b) (n % b :: acc)

/-- Digit values of `n` in base `b`, most significant first (`[0]` for 0). -/
def toDigits (b n : Nat) : List Nat := toDigitsAux b (n + 1) n []

def ofDigits (b : Nat) (ds : List Nat) : Nat := ds.foldl (fun a d => a * b + d) 0

/-- strconv: lower-case digit characters. -/
def digitLower (d : Nat) : Nat := if d < 10 then 48 + d else 87 + d
/-- after `strings.ToUpper` / `%X`. -/
def digitUpper (d : Nat) : Nat := if d < 10 then 48 + d else 55 + d

/-- strconv.ParseUint: value of a digit character. -/
def digitVal (c : Nat) : Option Nat :=
  if 48 ≤ c ∧ c ≤ 57 then some (c - 48)
  else if 97 ≤ c ∧ c ≤ 122 then some (c - 87)
  else if 65 ≤ c ∧ c ≤ 90 then some (c - 55)
  else none

/-- `strconv.FormatInt(i, 10)` as bytes. -/
def decBytes (i : Int) : Bytes :=
  if i < 0 then 45 :: (toDigits 10 i.natAbs).map digitLower else (toDigits 10 i.toNat).map digitLower

/-! ## Byte-string helpers (Go `strings` package on bytes) -/

def isPrefix : Bytes → Bytes → Bool
  | [], _ => true
  | _ :: _, [] => false
  | a :: as, b :: bs => a = b && isPrefix as bs

/-- `strings.Index(s, sub)`; `none` = -1. Works for any element lists (bytes or runes). -/
def indexOf (sub : List Nat) : List Nat → Option Nat
  | [] => if sub.isEmpty then some 0 else none
  | c :: cs =>
    if isPrefix sub (c :: cs) then some 0
    else (indexOf sub cs).map (· + 1)

/-- `strings.Replace(s, from, to, -1)` for non-empty `from` (fuel = length of `s`). -/
def replaceAll (frm to : Bytes) : Nat → Bytes → Bytes
  | 0, s => s
  | _ + 1, [] => []
  | f + 1, c :: cs =>
    if isPrefix frm (c :: cs) then to ++ replaceAll frm to f ((c :: cs).drop frm.length)
    else c :: replaceAll frm to f cs

def repeatBytes (s : Bytes) : Nat → Bytes
  | 0 => []
  | n + 1 => s ++ repeatBytes s n

def lowerByte (b : Nat) : Nat := if 65 ≤ b ∧ b ≤ 90 then b + 32 else b
def upperByte (b : Nat) : Nat := if 97 ≤ b ∧ b ≤ 122 then b - 32 else b

/-- `strings.ToUpper` / `strings.ToLower` with an ASCII-only case table (assumption: the other
code points of the input have no case mapping): ASCII fast path, otherwise `strings.Map`, which
re-encodes every decoded rune (an ill-formed byte becomes U+FFFD). -/
def mapCase (f : Nat → Nat) (s : Bytes) : Bytes :=
  if isAscii s then s.map f else encodeRunes ((decodeRunes s).map f)

def hexUpper (s : Bytes) : Bytes := s.flatMap fun b => [digitUpper (b / 16), digitUpper (b % 16)]

/-- `types.LongText.Convert` of a string/[]byte in strict mode: ill-formed UTF-8 is rejected. -/
def longText (b : Bytes) : Except String Bytes :=
  if validUtf8 b then .ok b else .error "charset"

/-! ## Argument views -/

/-- A string-valued argument (text or blob literal). -/
def Val.bytes? : Val → Option Bytes
  | .text b => some b
  | .blob b => some b
  | _ => none

def Val.isBlob : Val → Bool
  | .blob _ => true
  | _ => false

def badArgs : Res := .err "badargs"

/-! ## String functions -/

/-- length.go, `NumBytes`. -/
def fLength : List Val → Res
  | [.null] => rnull
  | [.text b] => rint b.length
  | [.blob b] => rint b.length
  | [.int i] => rint (decBytes i).length
  | _ => badArgs

/-- The CHAR_LENGTH loop over `NextRune` (utf8mb4): a step `(RuneError, ≤1)` is an error. -/
def charLenAux : Nat → Bytes → Option Nat
  | _, [] => some 0
  | k + 1, _ :: rest => charLenAux k rest
  | 0, b0 :: rest =>
    let rw := decodeRune1 b0 rest
    if rw.1 = runeError ∧ rw.2 ≤ 1 then none
    else (charLenAux (rw.2 - 1) rest).map (· + 1)

/-- length.go, `NumChars`: utf8mb4 for text, the binary encoder (one byte = one char) for blobs. -/
def fCharLength : List Val → Res
  | [.null] => rnull
  | [.text b] => match charLenAux 0 b with
    | some n => rint n
    | none => .err "malformed"
  | [.blob b] => rint b.length
  | [.int i] => rint (decBytes i).length
  | _ => badArgs

/-- concat.go: the first NULL (left to right) makes the result NULL. -/
def concatAux : List Val → Bytes → Res
  | [], acc => rtext acc
  | .null :: _, _ => rnull
  | .text b :: rest, acc => concatAux rest (acc ++ b)
  | .blob b :: rest, acc => concatAux rest (acc ++ b)
  | .int i :: rest, acc => concatAux rest (acc ++ decBytes i)

def fConcat (args : List Val) : Res := if args.isEmpty then badArgs else concatAux args []

/-- substring.go `Substring.Eval` after the conversions: `text` = `[]rune(str)`. Since the `fix:`
commit the length is clamped by comparing it with the remaining length
(`if length > runeCount-startIdx { length = runeCount - startIdx }`; `0 ≤ startIdx < runeCount`
there, so neither the subtraction nor the later `startIdx+length ≤ runeCount` can wrap): the
function is total. -/
def substrRunes (text : List Nat) (start : Int) (len? : Option Int) : List Nat :=
  let runeCount : Int := text.length
  let length : Int := len?.getD runeCount
  let startIdx : Int := if start < 0 then wrap64 (runeCount + start) else start - 1
  if startIdx < 0 ∨ startIdx ≥ runeCount ∨ length ≤ 0 then []
  else
    let length := if length > runeCount - startIdx then runeCount - startIdx else length
    (text.drop startIdx.toNat).take length.toNat     -- text[startIdx : startIdx+length]

/-- `Substring.Eval` **before** the `fix:` commit (kept only for the witness theorem
`Gms.C34.fixed_substring_len_overflow_panics`): the clamp was `if startIdx+length > runeCount`,
an int64 addition that wraps. `none` = panic (slice bounds out of range). -/
def substrRunesPreFix (text : List Nat) (start : Int) (len? : Option Int) : Option (List Nat) :=
  let runeCount : Int := text.length
  let length : Int := len?.getD runeCount
  let startIdx : Int := if start < 0 then wrap64 (runeCount + start) else start - 1
  if startIdx < 0 ∨ startIdx ≥ runeCount ∨ length ≤ 0 then some []
  else
    let stop0 := wrap64 (startIdx + length)
    let stop := if stop0 > runeCount then runeCount else stop0
    if stop < startIdx then none     -- text[startIdx : negative]
    else some ((text.drop startIdx.toNat).take (stop - startIdx).toNat)

/-- The same computation without the int64 wrap (what the code means). -/
def substrRunesSpec (text : List Nat) (start : Int) (len? : Option Int) : List Nat :=
  let runeCount : Int := text.length
  let length : Int := len?.getD runeCount
  let startIdx : Int := if start < 0 then runeCount + start else start - 1
  if startIdx < 0 ∨ startIdx ≥ runeCount ∨ length ≤ 0 then []
  else (text.drop startIdx.toNat).take length.toNat

def fSubstring : List Val → Res
  | s :: pos :: rest =>
    if rest.length > 1 then badArgs else
    match s with
    | .int _ => badArgs
    | .null => rnull
    | .text b | .blob b =>
      match longText b with
      | .error e => .err e
      | .ok b =>
        match pos with
        | .null => rnull
        | .int p =>
          match rest with
          | [] => rtext (encodeRunes (substrRunes (decodeRunes b) p none))
          | [.null] => rnull
          | [.int l] => rtext (encodeRunes (substrRunes (decodeRunes b) p (some l)))
          | _ => badArgs
        | _ => badArgs
  | _ => badArgs

/-- substring.go `Left.Eval` / `Right.Eval`: type switch, no UTF-8 validation. -/
def fLeftRight (right : Bool) : List Val → Res
  | [s, n] =>
    match s with
    | .null => rnull
    | .int _ => .err "invalidtype"
    | .text b | .blob b =>
      match n with
      | .null => rnull
      | .int n =>
        let text := decodeRunes b
        let runeCount : Int := text.length
        let length := if n > runeCount then runeCount else n
        if length ≤ 0 then rtext []
        else if right then rtext (encodeRunes (text.drop (runeCount - length).toNat))
        else rtext (encodeRunes (text.take length.toNat))
      | _ => badArgs
  | _ => badArgs

/-- substring.go `Instr.Eval` + `findSubsequence` (on runes, case-sensitive). -/
def fInstr : List Val → Res
  | [s, sub] =>
    match s with
    | .null => rnull
    | .int _ => .err "invalidtype"
    | .text b | .blob b =>
      match sub with
      | .null => rnull
      | .int _ => .err "invalidtype"
      | .text sb | .blob sb =>
        match indexOf (decodeRunes sb) (decodeRunes b) with
        | some i => rint (i + 1)
        | none => rint 0
  | _ => badArgs

/-- locate.go `Locate.Eval` after the conversions: **byte** offsets, both sides lower-cased.
Since the `fix:` commit the edge-case switch has a third case `position > len(str)` (reachable
only with an empty `str` and a non-empty needle) that returns 0, so `str[position-1:]` is always
in bounds: the function is total. -/
def locateImpl (sub str : Bytes) (position : Int) : Int :=
  let n : Int := str.length
  if position ≤ 0 ∨ (n > 0 ∧ position > n) then 0
  else if sub.isEmpty ∧ str.isEmpty then (if position = 1 then 1 else 0)
  else if position > n then 0
  else
    -- `strings.ToLower(str[position-1:])`: a slice that starts inside a multi-byte character is
    -- ill-formed, and `strings.Map` re-encodes each stray byte as U+FFFD (3 bytes)
    match indexOf (mapCase lowerByte sub) (mapCase lowerByte (str.drop (position - 1).toNat)) with
    | some i => i + position
    | none => 0

/-- `Locate.Eval` **before** the `fix:` commit (kept only for the witness theorem
`Gms.C34.fixed_locate_empty_str_pos_panics`): without the third case. `none` = panic
(`str[position-1:]` with `position-1 > len(str)`). -/
def locateImplPreFix (sub str : Bytes) (position : Int) : Option Int :=
  let n : Int := str.length
  if position ≤ 0 ∨ (n > 0 ∧ position > n) then some 0
  else if sub.isEmpty ∧ str.isEmpty then (if position = 1 then some 1 else some 0)
  else if position - 1 > n then none
  else
    match indexOf (mapCase lowerByte sub) (mapCase lowerByte (str.drop (position - 1).toNat)) with
    | some i => some (i + position)
    | none => some 0

/-- Spec of LOCATE: 1-based **character** position of the first occurrence at/after `position`,
compared exactly (consistent with INSTR and SUBSTRING); 0 when there is none. -/
def locateSpec (sub str : Bytes) (position : Int) : Int :=
  let rs := decodeRunes str
  let n : Int := rs.length
  if position ≤ 0 ∨ position > n + 1 then 0
  else if position = n + 1 then (if sub.isEmpty ∧ n = 0 then 1 else 0)
  else
    match indexOf (decodeRunes sub) (rs.drop (position - 1).toNat) with
    | some i => i + position
    | none => 0

def fLocate : List Val → Res
  | sub :: s :: rest =>
    if rest.length > 1 then badArgs else
    match sub with
    | .null => rnull
    | .int _ => badArgs
    | .text sb | .blob sb =>
      match longText sb with
      | .error e => .err e
      | .ok sb =>
        match s with
        | .null => rnull
        | .int _ => badArgs
        | .text b | .blob b =>
          match longText b with
          | .error e => .err e
          | .ok b =>
            let fin (p : Int) : Res := rint (locateImpl sb b p)
            match rest with
            | [] => fin 1
            | [.null] => fin 1          -- `if posVal != nil` – a NULL position is ignored
            | [.int p] => fin (clamp32 p)
            | _ => badArgs
  | _ => badArgs

/-- reverse_repeat_replace.go `Reverse.Eval`. -/
def fReverse : List Val → Res
  | [.null] => rnull
  | [.text b] | [.blob b] =>
    match longText b with
    | .error e => .err e
    | .ok b => rtext (encodeRunes (decodeRunes b).reverse)
  | _ => badArgs

/-- `Repeat.Eval`. -/
def fRepeat : List Val → Res
  | [s, n] =>
    match s with
    | .null => rnull
    | .int _ => badArgs
    | .text b | .blob b =>
      match longText b with
      | .error e => .err e
      | .ok b =>
        match n with
        | .null => rnull
        | .int n =>
          let c := clamp32 n
          if c < 0 then .err "repeat" else rtext (repeatBytes b c.toNat)
        | _ => badArgs
  | _ => badArgs

/-- `Replace.Eval`. -/
def fReplace : List Val → Res
  | [s, frm, to] =>
    match s with
    | .null => rnull
    | .int _ => badArgs
    | .text b | .blob b =>
      match longText b with
      | .error e => .err e
      | .ok b =>
        match frm with
        | .null => rnull
        | .int _ => badArgs
        | .text fb | .blob fb =>
          match longText fb with
          | .error e => .err e
          | .ok fb =>
            match to with
            | .null => rnull
            | .int _ => badArgs
            | .text tb | .blob tb =>
              match longText tb with
              | .error e => .err e
              | .ok tb => if fb.isEmpty then rtext b else rtext (replaceAll fb tb b.length b)
  | _ => badArgs

/-- rpad_lpad.go `padString` — everything in **bytes**. -/
def padImpl (left : Bool) (str : Bytes) (length : Int) (pad : Bytes) : Bytes :=
  if length ≤ 0 then []
  else if (str.length : Int) ≥ length then str.take length.toNat
  else if pad.isEmpty then []
  else
    let padLen := length.toNat - str.length
    let quo := padLen / pad.length
    let rem := padLen % pad.length
    if left then (repeatBytes pad quo ++ pad.take rem ++ str).take length.toNat
    else
      let result := str ++ repeatBytes pad quo ++ pad.take rem
      result.drop (result.length - length.toNat)

/-- Spec of LPAD/RPAD: the same algorithm counting **characters**. -/
def padSpec (left : Bool) (str : Bytes) (length : Int) (pad : Bytes) : Bytes :=
  encodeRunes (padImpl left (decodeRunes str) length (decodeRunes pad))

def fPad (left : Bool) : List Val → Res
  | [s, n, p] =>
    match s with
    | .null => rnull
    | .int _ => badArgs
    | .text b | .blob b =>
      match longText b with
      | .error _ => .err "invalidtype"
      | .ok b =>
        match n with
        | .null => rnull
        | .int n =>
          match p with
          | .null => rnull
          | .int _ => badArgs
          | .text pb | .blob pb =>
            match longText pb with
            | .error e => .err e
            | .ok pb => rtext (padImpl left b n pb)
        | _ => badArgs
  | _ => badArgs

/-- The two loops of `Trim.Eval` (fuel = length): strip `pat` from the front / the back. -/
def trimLeading (pat : Bytes) : Nat → Bytes → Bytes
  | 0, s => s
  | f + 1, s => if isPrefix pat s then trimLeading pat f (s.drop pat.length) else s

def trimTrailing (pat : Bytes) (s : Bytes) : Bytes :=
  (trimLeading pat.reverse s.length s.reverse).reverse

/-- trim_ltrim_rtrim.go `Trim.Eval`; `dir`: 0 both, 1 leading, 2 trailing. The pattern is
evaluated (and NULL-checked, converted) before the string. -/
def fTrim (dir : Nat) : List Val → Res
  | [s, pat] =>
    match pat with
    | .null => rnull
    | .int _ => badArgs
    | .text pb | .blob pb =>
      match longText pb with
      | .error e => .err e
      | .ok pb =>
        match s with
        | .null => rnull
        | .int _ => badArgs
        | .text b | .blob b =>
          match longText b with
          | .error e => .err e
          | .ok b =>
            if pb.isEmpty then rtext b
            else
              let b1 := if dir = 0 ∨ dir = 1 then trimLeading pb b.length b else b
              let b2 := if dir = 0 ∨ dir = 2 then trimTrailing pb b1 else b1
              rtext b2
  | _ => badArgs

def dropSpaces : Bytes → Bytes
  | [] => []
  | c :: cs => if c = 32 then dropSpaces cs else c :: cs

/-- `LeftTrim.Eval` / `RightTrim.Eval` (`strings.TrimLeftFunc(r == ' ')` on valid UTF-8). -/
def fLRTrim (right : Bool) : List Val → Res
  | [.null] => rnull
  | [.text b] | [.blob b] =>
    match longText b with
    | .error e => if right then .err e else .err "invalidtype"
    | .ok b => if right then rtext (dropSpaces b.reverse).reverse else rtext (dropSpaces b)
  | _ => badArgs

/-- lower_upper.go: the character set's `Uppercase`/`Lowercase` (utf8mb4 for text; the binary
encoder leaves blobs unchanged). -/
def fCase (upper : Bool) : List Val → Res
  | [.null] => rnull
  | [.text b] => rtext (mapCase (if upper then upperByte else lowerByte) b)
  | [.blob b] => rtext b
  | _ => badArgs

/-! ## HEX / UNHEX / BASE64 -/

def hexInt (i : Int) : Bytes := (toDigits 16 (toU64 i)).map digitUpper

/-- string.go `Hex.Eval`. -/
def fHex : List Val → Res
  | [.null] => rnull
  | [.text b] | [.blob b] => rtext (hexUpper b)
  | [.int i] => rtext (hexInt i)
  | _ => badArgs

def unhexPairs : Bytes → Option Bytes
  | [] => some []
  | [_] => none
  | a :: b :: rest =>
    match digitVal a, digitVal b, unhexPairs rest with
    | some x, some y, some r => if x < 16 ∧ y < 16 then some ((x * 16 + y) :: r) else none
    | _, _, _ => none

/-- string.go `Unhex.Eval`: odd length gets a leading `0`; any non-hex character ⇒ NULL. -/
def fUnhex : List Val → Res
  | [.null] => rnull
  | [.text b] | [.blob b] =>
    match longText b with
    | .error e => .err e
    | .ok b =>
      let s := if b.length % 2 ≠ 0 then 48 :: b else b
      match unhexPairs s with
      | some r => rblob r
      | none => rnull
  | _ => badArgs

def b64Char (v : Nat) : Nat :=
  if v < 26 then 65 + v else if v < 52 then 71 + v else if v < 62 then v - 4 else if v = 62 then 43 else 47

def b64Val (c : Nat) : Option Nat :=
  if 65 ≤ c ∧ c ≤ 90 then some (c - 65)
  else if 97 ≤ c ∧ c ≤ 122 then some (c - 71)
  else if 48 ≤ c ∧ c ≤ 57 then some (c + 4)
  else if c = 43 then some 62
  else if c = 47 then some 63
  else none

/-- `base64.StdEncoding.EncodeToString`. -/
def b64Encode : Bytes → Bytes
  | [] => []
  | [a] => [b64Char (a / 4), b64Char (a % 4 * 16), 61, 61]
  | [a, b] => [b64Char (a / 4), b64Char (a % 4 * 16 + b / 16), b64Char (b % 16 * 4), 61]
  | a :: b :: c :: rest =>
    b64Char (a / 4) :: b64Char (a % 4 * 16 + b / 16) :: b64Char (b % 16 * 4 + c / 64) :: b64Char (c % 64)
      :: b64Encode rest

/-- The line-splitting loop of `ToBase64.Eval` (fuel = length): 76 characters, then `\n`. -/
def splitLines : Nat → Bytes → Bytes
  | 0, s => s
  | f + 1, s => if s.length ≤ 76 then s else s.take 76 ++ 10 :: splitLines f (s.drop 76)

/-- tobase64_frombase64.go `ToBase64.Eval`. -/
def toBase64 (b : Bytes) : Bytes :=
  let e := b64Encode b
  splitLines e.length e

def fToBase64 : List Val → Res
  | [.null] => rnull
  | [.text b] => match longText b with
    | .error _ => .err "invalidtype"
    | .ok b => rtext (toBase64 b)
  | [.blob b] => rtext (toBase64 b)
  | _ => badArgs

/-- `base64.StdEncoding.DecodeString` on input without `\r`/`\n`: quanta of four characters, `=`
padding only in the last quantum, nothing after it. -/
def b64DecodeQ : Bytes → Option Bytes
  | [] => some []
  | [a, b, 61, 61] =>
    match b64Val a, b64Val b with
    | some x, some y => some [x * 4 + y / 16]
    | _, _ => none
  | [a, b, c, 61] =>
    match b64Val a, b64Val b, b64Val c with
    | some x, some y, some z => some [x * 4 + y / 16, y % 16 * 16 + z / 4]
    | _, _, _ => none
  | a :: b :: c :: d :: rest =>
    match b64Val a, b64Val b, b64Val c, b64Val d, b64DecodeQ rest with
    | some x, some y, some z, some w, some r =>
      some ((x * 4 + y / 16) :: (y % 16 * 16 + z / 4) :: (z % 4 * 64 + w) :: r)
    | _, _, _, _, _ => none
  | _ => none

/-- `DecodeString`: newlines are skipped wherever they occur. -/
def fromBase64 (s : Bytes) : Option Bytes := b64DecodeQ (s.filter fun c => c ≠ 10 ∧ c ≠ 13)

def fFromBase64 : List Val → Res
  | [.null] => rnull
  | [.text b] | [.blob b] =>
    match longText b with
    | .error _ => .err "invalidtype"
    | .ok b => match fromBase64 b with
      | some r => rblob r
      | none => .err "base64"
  | _ => badArgs

/-! ## Numeric functions on BIGINT literals -/

/-- absval.go, `case int64`: `-x` in int64. -/
def fAbs : List Val → Res
  | [.null] => rnull
  | [.int i] => rint (if i < 0 then wrap64 (-i) else i)
  | _ => badArgs

def fSign : List Val → Res
  | [.null] => rnull
  | [.int i] => rint (if i = 0 then 0 else if i < 0 then -1 else 1)
  | _ => badArgs

/-- ceil_round_floor.go: integers need no rounding. -/
def fFloorCeil : List Val → Res
  | [.null] => rnull
  | [.int i] => rint i
  | _ => badArgs

/-- Round half away from zero to a multiple of `10^k`. -/
def roundPow (i : Int) (k : Nat) : Int :=
  let p : Nat := 10 ^ k
  let q := i.natAbs / p
  let r := i.natAbs % p
  let m : Nat := (if 2 * r ≥ p then q + 1 else q) * p
  if i < 0 then -(m : Int) else (m : Int)

/-- Truncate toward zero to a multiple of `10^k`. -/
def truncPow (i : Int) (k : Nat) : Int :=
  let p : Nat := 10 ^ k
  let m : Nat := i.natAbs / p * p
  if i < 0 then -(m : Int) else (m : Int)

/-- `Round.Eval` on a BIGINT: decimal rounding at `-d` digits (|d| capped at 30), then
`Int64.Convert` (clamping). A NULL number is NULL even when the digits argument is not. -/
def fRound : List Val → Res
  | [.null] => rnull
  | [.int i] => rint i
  | [.null, _] => rnull
  | [.int _, .null] => rnull
  | [.int i, .int d] =>
    let d := clamp32 d
    if d ≥ 0 then rint i else rint (clamp64 (roundPow i (min (-d).toNat 30)))
  | _ => badArgs

/-- `Truncate.Eval` on a BIGINT (|d| capped at 65 on the left). -/
def fTruncate : List Val → Res
  | [.null, _] => rnull
  | [.int _, .null] => rnull
  | [.int i, .int d] =>
    let d := clamp32 d
    if d ≥ 0 then rint i else rint (clamp64 (truncPow i (min (-d).toNat 65)))
  | _ => badArgs

/-- `float64(int64)`: round to nearest, ties to even, 53-bit significand. -/
def f64OfNat (n : Nat) : Nat :=
  if n < 9007199254740992 then n
  else
    let sh := Nat.log2 n - 52
    let q := n / 2 ^ sh
    let r := n % 2 ^ sh
    let half := 2 ^ (sh - 1)
    let q' := if r > half ∨ (r = half ∧ q % 2 = 1) then q + 1 else q
    q' * 2 ^ sh

def f64OfInt (i : Int) : Int := if i < 0 then -(f64OfNat i.natAbs : Int) else f64OfNat i.toNat

/-- greatest_least.go `compEval` on integer arguments: the running selection is a `float64`. -/
def glAux (greatest : Bool) : List Val → Nat → Int → Res
  | [], _, sel => rint sel
  | .int v :: rest, idx, sel =>
    let take := idx = 0 ∨ (if greatest then v > sel else v < sel)
    glAux greatest rest (idx + 1) (if take then f64OfInt v else sel)
  | .null :: _, _, _ => rnull
  | _ :: _, _, _ => badArgs

def fGreatestLeast (greatest : Bool) (args : List Val) : Res :=
  if args.isEmpty then badArgs
  else if args.any (· == .null) then rnull   -- `compRetType` = Null
  else glAux greatest args 0 0

/-- Spec of GREATEST/LEAST on integers: the exact maximum/minimum. -/
def glStep (greatest : Bool) (m x : Int) : Int :=
  if greatest then (if x > m then x else m) else (if x < m then x else m)

def glSpec (greatest : Bool) : List Int → Int
  | [] => 0
  | a :: rest => rest.foldl (glStep greatest) a

/-! ## CONV / BIN / OCT -/

/-- The "longest convertible prefix" loop of `convertFromBase` over `strconv.ParseUint`: stops at
the first character that is not a digit of the base, and at the first prefix that overflows
uint64. -/
def parsePrefix (base : Nat) : Bytes → Nat → Nat
  | [], acc => acc
  | c :: cs, acc =>
    match digitVal c with
    | some d => if d < base then
        let acc' := acc * base + d
        if (acc' : Int) ≥ two64 then acc else parsePrefix base cs acc'
      else acc
    | none => acc

inductive ConvVal where
  | invalid            -- `nil`
  | signed (i : Int)   -- int64
  | unsigned (n : Nat) -- uint64
  deriving Repr, DecidableEq

/-- conv.go `convertFromBase`. -/
def convertFromBase (nVal : Bytes) (fromBase : Int) : ConvVal :=
  if nVal.isEmpty then .invalid else
  let fromVal := fromBase.natAbs
  if fromVal < 2 ∨ fromVal > 36 then .invalid else
  let (negative, body, lone) : Bool × Bytes × Bool := match nVal with
    | 45 :: rest => (true, rest, rest.isEmpty)
    | 43 :: rest => (false, rest, rest.isEmpty)
    | _ => (false, nVal, false)
  if lone then .unsigned 0 else
  let body :=
    if negative then
      let minDigits := (toDigits fromVal two63.toNat).map digitLower
      if body.length > minDigits.length + 1 then minDigits else body
    else
      let maxDigits := (toDigits fromVal (two64.toNat - 1)).map digitLower
      if body.length > maxDigits.length then maxDigits else body
  let result := parsePrefix fromVal body 0
  if negative then .signed (wrap64 (-(ofU64 result))) else .unsigned result

/-- conv.go `convertToBase` + `strings.ToUpper`; `none` = invalid target base. -/
def convertToBase (v : ConvVal) (toBase : Int) : Option Bytes :=
  let toVal := toBase.natAbs
  if toVal < 2 ∨ toVal > 36 then none else
  let fmtU (n : Nat) : Bytes := (toDigits toVal n).map digitUpper
  let fmtS (i : Int) : Bytes := if i < 0 then 45 :: fmtU i.natAbs else fmtU i.toNat
  match v with
  | .invalid => none
  | .signed i => if toBase < 0 then some (fmtS i) else some (fmtU (toU64 i))
  | .unsigned n => if toBase < 0 then some (fmtS (ofU64 n)) else some (fmtU n)

/-- `Conv.Eval` after the NULL checks: `n` already converted to text. -/
def convCore (n : Bytes) (frm to : Int) : Res :=
  match convertFromBase n frm with
  | .invalid => rnull
  | v => match convertToBase v to with
    | some r => rtext r
    | none => rnull

/-- The text form of the first argument of CONV (`LongText.Convert`; a failure yields NULL). -/
def convArgText : Val → Option (Option Bytes)
  | .null => none
  | .int i => some (some (decBytes i))
  | .text b | .blob b => some (match longText b with | .ok b => some b | .error _ => none)

def fConv : List Val → Res
  | [n, frm, to] =>
    match convArgText n with
    | none => rnull
    | some nb =>
      match frm, to with
      | .null, _ => rnull
      | .int _, .null => rnull
      | .int f, .int t => match nb with
        | none => rnull
        | some nb => convCore nb f t
      | _, _ => badArgs
  | _ => badArgs

/-- oct.go: `CONV(n, 10, 8)`. -/
def fOct : List Val → Res
  | [n] => fConv [n, .int 10, .int 8]
  | _ => badArgs

/-- string.go `binForNegativeInt64`: the eight bytes, most significant first, each printed with
`strconv.FormatInt(b, 2)` — **without** zero padding. -/
def binNegImpl (i : Int) : Bytes :=
  let u := toU64 i
  (List.range 8).reverse.flatMap fun k => (toDigits 2 (u / 256 ^ k % 256)).map digitLower

def binSpec (i : Int) : Bytes := (toDigits 2 (toU64 i)).map digitLower

/-- string.go `Bin.Eval` on a BIGINT. -/
def fBin : List Val → Res
  | [.null] => rnull
  | [.int i] => rtext (if i < 0 then binNegImpl i else binSpec i)
  | _ => badArgs

/-! ## INET_ATON / INET_NTOA -/

/-- net.ParseIP on a string without `:` = `netip.parseIPv4`: four decimal fields 0..255 without
leading zeros. State: fields done, current value, digits in the current field. -/
def parseIPv4Aux : Bytes → List Nat → Nat → Nat → Option (List Nat)
  | [], fields, val, digits =>
    if digits = 0 ∨ fields.length ≠ 3 then none else some (fields ++ [val])
  | c :: cs, fields, val, digits =>
    if 48 ≤ c ∧ c ≤ 57 then
      if digits > 0 ∧ val = 0 then none
      else
        let v := val * 10 + (c - 48)
        if v > 255 then none else parseIPv4Aux cs fields v (digits + 1)
    else if c = 46 then
      if digits = 0 ∨ fields.length ≥ 3 then none else parseIPv4Aux cs (fields ++ [val]) 0 0
    else none

def inetAton (s : Bytes) : Option Nat :=
  match parseIPv4Aux s [] 0 0 with
  | some [a, b, c, d] => some (a * 16777216 + b * 65536 + c * 256 + d)
  | _ => none

/-- inet_convert.go `InetAton.Eval` (inputs without `:`; no UTF-8 validation: `ConvertToString`
errors are mapped to an error). -/
def fInetAton : List Val → Res
  | [.null] => rnull
  | [.text b] | [.blob b] =>
    match longText b with
    | .error _ => .err "invalidtype"
    | .ok b => match inetAton b with
      | some n => rint n
      | none => rnull
  | [.int i] => match inetAton (decBytes i) with
    | some n => rint n
    | none => rnull
  | _ => badArgs

def dotted (u : Nat) : Bytes :=
  let f (n : Nat) : Bytes := (toDigits 10 n).map digitLower
  f (u / 16777216 % 256) ++ 46 :: f (u / 65536 % 256) ++ 46 :: f (u / 256 % 256) ++ 46 :: f (u % 256)

/-- `InetNtoa.Eval`: `Int32.Convert` clamps, then `uint32(int32)`. -/
def inetNtoaImpl (i : Int) : Bytes := dotted ((clamp32 i % 4294967296).toNat)

/-- Spec: the dotted quad of a uint32, NULL outside `0 ≤ n < 2^32`. -/
def inetNtoaSpec (i : Int) : Option Bytes :=
  if 0 ≤ i ∧ i < 4294967296 then some (dotted i.toNat) else none

def fInetNtoa : List Val → Res
  | [.null] => rnull
  | [.int i] => rtext (inetNtoaImpl i)
  | _ => badArgs

/-! ## Dispatch -/

/-- The Impl model of one call `name(args)`. -/
def impl (name : String) (args : List Val) : Res :=
  match name with
  | "length" => fLength args
  | "char_length" => fCharLength args
  | "concat" => fConcat args
  | "substring" => fSubstring args
  | "left" => fLeftRight false args
  | "right" => fLeftRight true args
  | "instr" => fInstr args
  | "locate" => fLocate args
  | "reverse" => fReverse args
  | "repeat" => fRepeat args
  | "replace" => fReplace args
  | "lpad" => fPad true args
  | "rpad" => fPad false args
  | "trim_both" => fTrim 0 args
  | "trim_leading" => fTrim 1 args
  | "trim_trailing" => fTrim 2 args
  | "ltrim" => fLRTrim false args
  | "rtrim" => fLRTrim true args
  | "upper" => fCase true args
  | "lower" => fCase false args
  | "hex" => fHex args
  | "unhex" => fUnhex args
  | "to_base64" => fToBase64 args
  | "from_base64" => fFromBase64 args
  | "abs" => fAbs args
  | "sign" => fSign args
  | "floor" => fFloorCeil args
  | "ceil" => fFloorCeil args
  | "round" => fRound args
  | "truncate" => fTruncate args
  | "greatest" => fGreatestLeast true args
  | "least" => fGreatestLeast false args
  | "conv" => fConv args
  | "bin" => fBin args
  | "oct" => fOct args
  | "inet_aton" => fInetAton args
  | "inet_ntoa" => fInetNtoa args
  | _ => badArgs

/-- The function names `impl` knows (compared with the regenerated registry table). -/
def modelled : List String :=
  ["length", "char_length", "concat", "substring", "left", "right", "instr", "locate", "reverse",
   "repeat", "replace", "lpad", "rpad", "trim_both", "trim_leading", "trim_trailing", "ltrim",
   "rtrim", "upper", "lower", "hex", "unhex", "to_base64", "from_base64", "abs", "sign", "floor",
   "ceil", "round", "truncate", "greatest", "least", "conv", "bin", "oct", "inet_aton",
   "inet_ntoa"]

/-! ## Spec and regions -/

def hasNonAscii (b : Bytes) : Bool := b.any (· ≥ 0x80)
def hasUpperAscii (b : Bytes) : Bool := b.any fun c => 65 ≤ c ∧ c ≤ 90

def intArgs : List Val → Option (List Int)
  | [] => some []
  | .int i :: rest => (intArgs rest).map (i :: ·)
  | _ => none

/-- Region of one call: the name of the known-defect class the call falls into (decided on the
arguments, not on the outcome), or `none`. The two crash classes `locate_empty_str_pos_panics`
and `substring_len_overflow_panics` were repaired (`fix:` commit) and are no regions any more: a
LOCATE/SUBSTRING call that panics again has region `-`. -/
def region (name : String) (args : List Val) : Option String :=
  match name, args with
  | "lpad", [s, .int _, p] | "rpad", [s, .int _, p] =>
    match s.bytes?, p.bytes? with
    | some sb, some pb =>
      if validUtf8 sb ∧ validUtf8 pb ∧ (hasNonAscii sb ∨ hasNonAscii pb) then some "pad_counts_bytes" else none
    | _, _ => none
  | "inet_ntoa", [.int i] => if i < 0 ∨ i ≥ 2147483648 then some "inet_ntoa_int32_clamp" else none
  | "bin", [.int i] => if i < 0 then some "bin_negative_drops_zeros" else none
  | "locate", sub :: s :: rest =>
    match sub.bytes?, s.bytes? with
    | some sb, some b =>
      if validUtf8 sb ∧ validUtf8 b then
        match rest with
        | [.null] => some "locate_null_pos"
        | [] | [.int _] =>
          if hasNonAscii b then some "locate_counts_bytes"
          else if hasUpperAscii b ∨ hasUpperAscii sb then some "locate_folds_case"
          else none
        | _ => none
      else none
    | _, _ => none
  | "greatest", _ | "least", _ =>
    match intArgs args with
    | some is => if is.any (fun i => i.natAbs > 9007199254740992) then some "greatest_least_float_precision" else none
    | none => none
  | _, _ => none

/-- What the property demands of one call. Differs from `impl` only inside a region. -/
def spec (name : String) (args : List Val) : Res :=
  match region name args with
  | none => impl name args
  | some _ =>
    match name, args with
    | "lpad", [s, .int n, p] =>
      (match s.bytes?, p.bytes? with
        | some sb, some pb => rtext (padSpec true sb n pb)
        | _, _ => impl name args)
    | "rpad", [s, .int n, p] =>
      (match s.bytes?, p.bytes? with
        | some sb, some pb => rtext (padSpec false sb n pb)
        | _, _ => impl name args)
    | "inet_ntoa", [.int i] => (match inetNtoaSpec i with | some b => rtext b | none => rnull)
    | "bin", [.int i] => rtext (binSpec i)
    | "locate", sub :: s :: rest =>
      (match sub.bytes?, s.bytes?, rest with
        | some _, some _, [.null] => rnull
        | some sb, some b, [.int p] => rint (locateSpec sb b (clamp32 p))
        | some sb, some b, [] => rint (locateSpec sb b 1)
        | _, _, _ => impl name args)
    | "greatest", _ => (match intArgs args with | some is => rint (glSpec true is) | none => impl name args)
    | "least", _ => (match intArgs args with | some is => rint (glSpec false is) | none => impl name args)
    | _, _ => impl name args

end Gms.ScalarFn
