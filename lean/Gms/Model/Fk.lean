/-
C18 — model of foreign-key enforcement (core-only).

Go sources transliterated here (paths relative to the repository root):

* `sql/analyzer/apply_foreign_keys.go`   `getForeignKeyEditor`, `getForeignKeyReferences`,
  `getForeignKeyRefActions`, `foreignKeyCache.GetEditor`, `foreignKeyChain`  ↦  `build*`
  (the editor *graph*: one node per `*plan.ForeignKeyEditor`, shared through the cache)
* `sql/plan/foreign_key_editor.go`       `ForeignKeyEditor.Update/Delete`, `OnUpdate*`, `OnDelete*`,
  `ColumnsUpdated`, `ForeignKeyReferenceHandler.CheckReference`, `ForeignKeyRowMapper.GetIter`
  ↦  `execStep`, `checkReference`, `matching`
* `sql/plan/foreign_key_handler.go`      `ForeignKeyHandler.Insert/Update/Delete`  ↦  `runStmt`
* `memory/table_editor.go`               `tableEditor.Insert/Update/Delete` on a keyed table
  (primary key = column 0), `IndexedAccess` (pending edits are applied before every lookup, so a
  lookup sees the statement's own earlier writes and iterates over a *copy*)  ↦  `edInsert`,
  `edUpdate`, `edDelete`, and the fact that `matching` is evaluated eagerly.

Envelope of the model: every table has an integer primary key in column 0, every other column
is a (nullable or NOT NULL) integer; foreign keys are MATCH SIMPLE with actions RESTRICT /
NO ACTION / (none) ↦ `restrict`, CASCADE, SET NULL; no generated columns, no type conversions.
A database is a function from table number to its list of rows.
-/
namespace Gms.Fk

abbrev Val := Option Int
abbrev Row := List Val

inductive Act where
  | restrict | cascade | setNull
  deriving DecidableEq, Repr, Inhabited

structure Fk where
  child : Nat
  ccols : List Nat
  parent : Nat
  pcols : List Nat
  onDel : Act
  onUpd : Act
  deriving DecidableEq, Repr, Inhabited

structure Schema where
  ntab : Nat
  /-- NOT NULL column positions of each table (column 0, the primary key, is always NOT NULL). -/
  notNull : Nat → List Nat
  /-- in creation order; the i-th key is named `f<i>` (so name order = creation order). -/
  fks : List Fk

abbrev Db := Nat → List Row

inductive Err where
  | fkParent   -- 1451 ErrForeignKeyParentViolation
  | fkChild    -- 1452 ErrForeignKeyChildViolation
  | depth      -- ErrForeignKeyDepthLimit
  | notNull    -- 1048 (row pipeline of INSERT / UPDATE, before the editor is called)
  | fkNotNull  -- 1105 `null value in column "…" violates not-null constraint` (ForeignKeyEditor.Update)
  | dup        -- 1062 duplicate primary key
  | fuel       -- the model's recursion fuel ran out (unreachable: the depth limit fires first)
  deriving DecidableEq, Repr, Inhabited

def col (r : Row) (i : Nat) : Val := r.getD i none
def key (r : Row) (cols : List Nat) : List Val := cols.map (col r)
def hasNull (k : List Val) : Bool := k.any Option.isNone
def pk (r : Row) : Val := col r 0

def setTab (db : Db) (t : Nat) (rows : List Row) : Db := fun u => if u = t then rows else db u

/-- Go: `ForeignKeyRowMapper.GetIter` — rows of table `t` whose `cols` equal `k`; a NULL in `k`
gives the empty iterator. The iterator runs over a copy made by `IndexedAccess`. -/
def matching (db : Db) (t : Nat) (cols : List Nat) (k : List Val) : List Row :=
  if hasNull k then [] else (db t).filter (fun r => key r cols == k)

/-- Go: `tableEditor.Delete` → `pkTableEditAccumulator.Delete/deleteHelper`: removal by primary key. -/
def edDelete (db : Db) (t : Nat) (row : Row) : Db :=
  setTab db t ((db t).filter (fun r => pk r != pk row))

/-- Go: `tableEditor.Insert` on a keyed table. -/
def edInsert (db : Db) (t : Nat) (row : Row) : Except Err Db :=
  if (db t).any (fun r => pk r == pk row) then .error .dup
  else .ok (setTab db t (db t ++ [row]))

/-- Go: `tableEditor.Update`: `ea.Delete(old)`; duplicate check only when the key changed; `ea.Insert(new)`. -/
def edUpdate (db : Db) (t : Nat) (old new : Row) : Except Err Db :=
  let db1 := edDelete db t old
  if pk old != pk new && (db1 t).any (fun r => pk r == pk new) then .error .dup
  else .ok (setTab db1 t ((db1 t).filter (fun r => pk r != pk new) ++ [new]))

/-- Go: `CheckReference` (MATCH SIMPLE): any NULL exempts the row; otherwise a parent row must
exist, or — for a self-referential key — the row may reference itself. -/
def checkReference (db : Db) (f : Fk) (row : Row) : Bool :=
  let k := key row f.ccols
  hasNull k || (db f.parent).any (fun p => key p f.pcols == k) ||
    (f.child == f.parent && key row f.ccols == key row f.pcols)

/-- Replace the columns `cols` of `r` by the values `vs` (position-wise). Go: the
`ChildParentMapping` loop of `OnUpdateCascade`. -/
def setCols (r : Row) : List Nat → List Val → Row
  | c :: cs, v :: vs => setCols (r.set c v) cs vs
  | _, _ => r

/-- Go: `OnDeleteSetNull` / `OnUpdateSetNull` row construction. -/
def nullCols (r : Row) (cols : List Nat) : Row := setCols r cols (cols.map fun _ => none)

-- ---------------------------------------------------------------------------------------------
-- The editor graph.

structure ActData where
  /-- the constraint, with `onUpd` already replaced by `restrict` where the analyzer does so -/
  fk : Fk
  /-- node id of `refActionData.Editor` -/
  child : Nat
  deriving Repr, Inhabited

structure Node where
  tbl : Nat
  refs : List Fk
  acts : List ActData
  cyclical : Bool
  deriving Repr, Inhabited

abbrev Graph := List Node

/-- Node `e` of the graph (a default node for an id out of range). -/
def gnode (G : Graph) (e : Nat) : Node := List.getD G e default

structure BState where
  nodes : List Node := []
  /-- `foreignKeyCache.editorsCache`, in insertion order: (table, node id) -/
  cache : List (Nat × Nat) := []

def BState.alloc (s : BState) (n : Node) : BState × Nat :=
  ({ s with nodes := s.nodes ++ [n] }, s.nodes.length)

def BState.modify (s : BState) (i : Nat) (f : Node → Node) : BState :=
  { s with nodes := s.nodes.modify i f }

def BState.node (s : BState) (i : Nat) : Node := s.nodes.getD i default

/-- Go: `foreignKeyCache.GetEditor`. With `fkEditor == nil` the first cached editor of the table
without references is returned; otherwise — because the inner `continue` only continues the
inner loop — the first cached editor with the *same number* of references. -/
def BState.getEditor (s : BState) (refEd : Option Nat) (tbl : Nat) : Option Nat :=
  let want := match refEd with
    | none => 0
    | some e => (s.node e).refs.length
  (s.cache.find? (fun p => p.1 == tbl && (s.node p.2).refs.length == want)).map (·.2)

def indexed (fks : List Fk) : List (Nat × Fk) := (List.range fks.length).zip fks

/-- Go: `getForeignKeyEditor` = `getForeignKeyReferences` then `getForeignKeyRefActions`.
`withRefs = false` is the DELETE entry point (`getForeignKeyRefActions(…, nil, …)`).
`chainFks`/`chainTabs` are `foreignKeyChain.fkNames`/`fkTables`. Fuel: the Go recursion ends at
a cache hit; every call that recurses adds a cache entry (table, number of references) that no
later call can add again, so the nesting is at most `fks.length + ntab + 1` (`buildFuel`; the
driver checks on every schema that the result is closed, i.e. that the fuel did not cut it). -/
def buildEditor (S : Schema) : Nat → Bool → Nat → List Nat → List Nat → BState → BState × Option Nat
  | 0, _, _, _, _, s => (s, none)
  | fuel + 1, withRefs, tbl, chainFks, chainTabs, s =>
    -- getForeignKeyReferences
    let declared := if withRefs then
        ((indexed S.fks).filter (fun p => p.2.child == tbl && !chainFks.contains p.1)).map (·.2)
      else []
    let (s, refEd) := if declared.isEmpty then (s, none) else
      let (s, e) := s.alloc { tbl := tbl, refs := declared, acts := [], cyclical := false }
      (s, some e)
    -- getForeignKeyRefActions
    let referenced := (indexed S.fks).filter (fun p => p.2.parent == tbl)
    if referenced.isEmpty then (s, refEd) else
    match s.getEditor refEd tbl with
    | some c => (s.modify c (fun n => { n with cyclical := true }), some c)
    | none =>
      let (s, e) := match refEd with
        | some e => (s, e)
        | none => s.alloc { tbl := tbl, refs := [], acts := [], cyclical := false }
      let s := { s with cache := s.cache ++ [(tbl, e)] }
      let chainTabs := tbl :: chainTabs
      let s := referenced.foldl (fun (s : BState) (p : Nat × Fk) =>
        let (i, fk) := p
        let (s, ce) := buildEditor S fuel true fk.child (i :: chainFks) chainTabs s
        let (s, ce) := match ce with
          | some ce => (s, ce)
          | none => s.alloc { tbl := fk.child, refs := [], acts := [], cyclical := false }
        let cyc := (s.node ce).cyclical
        let onUpd := if chainTabs.contains fk.child then Act.restrict else fk.onUpd
        s.modify e (fun n => { n with cyclical := n.cyclical || cyc,
                                      acts := n.acts ++ [{ fk := { fk with onUpd := onUpd }, child := ce }] })) s
      (s, some e)

def buildFuel (S : Schema) : Nat := S.fks.length + S.ntab + 2

inductive Entry where
  | insert   -- `getForeignKeyReferences` only
  | update   -- `getForeignKeyEditor`
  | delete   -- `getForeignKeyRefActions(…, nil, …)`
  deriving DecidableEq, Repr

/-- The editor graph of one statement on `tbl` and its root node (none: the table takes part in no
constraint for this statement kind, the plain table editor is used). -/
def build (S : Schema) (entry : Entry) (tbl : Nat) : Graph × Option Nat :=
  match entry with
  | .insert =>
    let declared := S.fks.filter (fun f => f.child == tbl)
    if declared.isEmpty then ([], none)
    else ([{ tbl := tbl, refs := declared, acts := [], cyclical := false }], some 0)
  | .update =>
    let (s, r) := buildEditor S (buildFuel S) true tbl [] [] {}
    (s.nodes, r)
  | .delete =>
    let (s, r) := buildEditor S (buildFuel S) false tbl [] [] {}
    (s.nodes, r)

-- ---------------------------------------------------------------------------------------------
-- Execution.

inductive Op where
  | del (node : Nat) (row : Row) (depth : Nat)
  | upd (node : Nat) (old new : Row) (depth : Nat)

/-- Sequential loop with early exit on error (`for … { if err != nil { return err } }`). -/
def iterM {α : Type} (f : α → Db → Except Err Db) : List α → Db → Except Err Db
  | [], db => .ok db
  | a :: as, db =>
    match f a db with
    | .ok db' => iterM f as db'
    | .error e => .error e

/-- Go: the depth test of `OnDeleteCascade`/`OnDeleteSetNull` (cyclical editors stop one level
earlier). -/
def delDepthExceeded (cyclical : Bool) (depth : Nat) : Bool :=
  depth ≥ 15 && (cyclical || depth > 15)

/-- Go: the depth test of `OnUpdateCascade`/`OnUpdateSetNull`. -/
def updDepthExceeded (depth : Nat) : Bool := depth > 15

/-- Go: `OnDeleteRestrict` for every RESTRICT-like action (first loop of `Delete`). -/
def delBlocked (acts : List ActData) (row : Row) (db : Db) : Bool :=
  acts.any fun a => a.fk.onDel == .restrict &&
    !(matching db a.fk.child a.fk.ccols (key row a.fk.pcols)).isEmpty

/-- Go: `ColumnsUpdated`. -/
def columnsUpdated (f : Fk) (old new : Row) : Bool := key old f.pcols != key new f.pcols

/-- Go: `OnUpdateRestrict` for every RESTRICT-like action (second loop of `Update`). -/
def updBlocked (acts : List ActData) (old new : Row) (db : Db) : Bool :=
  acts.any fun a => a.fk.onUpd == .restrict && columnsUpdated a.fk old new &&
    !(matching db a.fk.child a.fk.ccols (key old a.fk.pcols)).isEmpty

/-- Go: first loop of `Update` — references whose columns changed must resolve. -/
def refsOk (refs : List Fk) (old new : Row) (db : Db) : Bool :=
  refs.all fun f => key old f.ccols == key new f.ccols || checkReference db f new

def notNullOk (S : Schema) (t : Nat) (r : Row) : Bool :=
  (0 :: S.notNull t).all fun i => (col r i).isSome

/-- Go: one referential action after the parent row was deleted (third loop of `Delete`). -/
def onDeleteAct (rec : Op → Db → Except Err Db) (cyclical : Bool) (row : Row) (depth : Nat)
    (a : ActData) (db : Db) : Except Err Db :=
  match a.fk.onDel with
  | .restrict => .ok db
  | .cascade =>
    iterM (fun c db => if delDepthExceeded cyclical depth then .error .depth
                       else rec (.del a.child c depth) db)
      (matching db a.fk.child a.fk.ccols (key row a.fk.pcols)) db
  | .setNull =>
    iterM (fun c db => if delDepthExceeded cyclical depth then .error .depth
                       else rec (.upd a.child c (nullCols c a.fk.ccols) depth) db)
      (matching db a.fk.child a.fk.ccols (key row a.fk.pcols)) db

/-- Go: one referential action after the parent row was updated (last loop of `Update`). -/
def onUpdateAct (rec : Op → Db → Except Err Db) (old new : Row) (depth : Nat)
    (a : ActData) (db : Db) : Except Err Db :=
  match a.fk.onUpd with
  | .restrict => .ok db
  | .cascade =>
    if !columnsUpdated a.fk old new then .ok db else
    iterM (fun c db => if updDepthExceeded depth then .error .depth
                       else rec (.upd a.child c (setCols c a.fk.ccols (key new a.fk.pcols)) depth) db)
      (matching db a.fk.child a.fk.ccols (key old a.fk.pcols)) db
  | .setNull =>
    if !columnsUpdated a.fk old new then .ok db else
    iterM (fun c db => if updDepthExceeded depth then .error .depth
                       else rec (.upd a.child c (nullCols c a.fk.ccols) depth) db)
      (matching db a.fk.child a.fk.ccols (key old a.fk.pcols)) db

/-- One level of `ForeignKeyEditor.Delete` / `ForeignKeyEditor.Update`; `rec` is the same
function one level deeper. -/
def execStep (S : Schema) (G : Graph) (rec : Op → Db → Except Err Db) : Op → Db → Except Err Db
  | .del e row depth, db =>
    let nd := gnode G e
    if delBlocked nd.acts row db then .error .fkParent else
    iterM (onDeleteAct rec nd.cyclical row (depth + 1)) nd.acts (edDelete db nd.tbl row)
  | .upd e old new depth, db =>
    let nd := gnode G e
    if !refsOk nd.refs old new db then .error .fkChild else
    if updBlocked nd.acts old new db then .error .fkParent else
    if !notNullOk S nd.tbl new then .error .fkNotNull else
    match edUpdate db nd.tbl old new with
    | .error e => .error e
    | .ok db1 => iterM (onUpdateAct rec old new (depth + 1)) nd.acts db1

def exec (S : Schema) (G : Graph) : Nat → Op → Db → Except Err Db
  | 0 => fun _ _ => .error .fuel
  | n + 1 => execStep S G (exec S G n)

/-- More than the depth limit allows: a call at depth `d` needs `18 - d` levels at most. -/
def topFuel : Nat := 20

-- ---------------------------------------------------------------------------------------------
-- Statements.

inductive Pred where
  | all
  | eq (c : Nat) (v : Int)
  | isNull (c : Nat)
  | lt (c : Nat) (v : Int)
  deriving Repr, DecidableEq

def Pred.eval : Pred → Row → Bool
  | .all, _ => true
  | .eq c v, r => col r c == some v
  | .isNull c, r => (col r c).isNone
  | .lt c v, r => match col r c with | some x => decide (x < v) | none => false

inductive SetExpr where
  | const (v : Val)
  | addCol (c : Nat) (k : Int)    -- `<col c> + k`
  deriving Repr, DecidableEq

def SetExpr.eval : SetExpr → Row → Val
  | .const v, _ => v
  | .addCol c k, r => (col r c).map (· + k)

/-- `SET c1 = e1, c2 = e2, …` — MySQL evaluates assignments left to right on the row being built. -/
def applySets (r : Row) : List (Nat × SetExpr) → Row
  | [] => r
  | (c, e) :: rest => applySets (r.set c (e.eval r)) rest

inductive Stmt where
  | insert (t : Nat) (rows : List Row)
  | update (t : Nat) (sets : List (Nat × SetExpr)) (w : Pred) (ord : List Int)
  | delete (t : Nat) (w : Pred) (ord : List Int)
  deriving Repr

/-- Position of a row in the scan order `ord` (primary keys); rows `ord` does not mention come
last, in primary-key order. -/
def rank (ord : List Int) (r : Row) : Nat × Int :=
  match pk r with
  | some k => (ord.idxOf k, k)
  | none => (ord.length, 0)

def rowLe (ord : List Int) (a b : Row) : Bool :=
  let x := rank ord a
  let y := rank ord b
  decide (x.1 < y.1) || (x.1 == y.1 && decide (x.2 ≤ y.2))

def insertBy {α : Type} (le : α → α → Bool) (a : α) : List α → List α
  | [] => [a]
  | b :: bs => if le a b then a :: b :: bs else b :: insertBy le a bs

/-- Insertion sort (structural, so that closed instances evaluate in the kernel). -/
def isort {α : Type} (le : α → α → Bool) : List α → List α
  | [] => []
  | a :: as => insertBy le a (isort le as)

/-- Rows the statement visits: the rows satisfying the predicate, in the order `ord` (primary
keys as reported by the storage layer — the physical scan order is an *input* of the model;
every theorem holds for every `ord`). -/
def selectRows (db : Db) (t : Nat) (w : Pred) (ord : List Int) : List Row :=
  isort (rowLe ord) ((db t).filter w.eval)

/-- Go: `ForeignKeyHandler.Insert` (or the plain editor when the table declares no key). -/
def insertRow (S : Schema) (root : Option Node) (t : Nat) (row : Row) (db : Db) : Except Err Db :=
  if !notNullOk S t row then .error .notNull else
  match root with
  | none => edInsert db t row
  | some nd => if nd.refs.all (fun f => checkReference db f row) then edInsert db t row else .error .fkChild

def updateRow (S : Schema) (G : Graph) (root : Option Nat) (t : Nat) (sets : List (Nat × SetExpr))
    (old : Row) (db : Db) : Except Err Db :=
  let new := applySets old sets
  if new == old then .ok db else
  if !notNullOk S t new then .error .notNull else
  match root with
  | none => edUpdate db t old new
  | some e => exec S G topFuel (.upd e old new 1) db

def deleteRow (S : Schema) (G : Graph) (root : Option Nat) (t : Nat) (row : Row) (db : Db) : Except Err Db :=
  match root with
  | none => .ok (edDelete db t row)
  | some e => exec S G topFuel (.del e row 1) db

/-- Go: `sql/analyzer/process_truncate.go` `deleteToTruncate`/`validateTruncate`: a DELETE without
WHERE becomes TRUNCATE (no key is consulted) unless a constraint declared on *another* table
references the table; self-references do not count. -/
def truncatable (S : Schema) (t : Nat) : Bool := S.fks.all fun f => f.parent != t || f.child == t

/-- One statement on the Impl model (success: the new database). -/
def runStmt (S : Schema) (db : Db) : Stmt → Except Err Db
  | .insert t rows =>
    let (G, r) := build S .insert t
    iterM (insertRow S (r.map (gnode G)) t) rows db
  | .update t sets w ord =>
    let (G, r) := build S .update t
    iterM (updateRow S G r t sets) (selectRows db t w ord) db
  | .delete t w ord =>
    if w == .all && truncatable S t then .ok (setTab db t []) else
    let (G, r) := build S .delete t
    iterM (deleteRow S G r t) (selectRows db t w ord) db

/-- A failed statement has no effect (`DiscardChanges` on every updater of the chain). -/
def step (S : Schema) (db : Db) (st : Stmt) : Db × Option Err :=
  match runStmt S db st with
  | .ok db' => (db', none)
  | .error e => (db, some e)

def run (S : Schema) (db : Db) (sts : List Stmt) : Db := sts.foldl (fun db st => (step S db st).1) db

-- ---------------------------------------------------------------------------------------------
-- Spec: referential integrity and what a statement is allowed to change.

/-- `f` holds in `db`: every child row with a NULL-free key has a parent row with that key. -/
def fkHolds (db : Db) (f : Fk) : Bool :=
  (db f.child).all fun c => hasNull (key c f.ccols) ||
    (db f.parent).any fun p => key p f.pcols == key c f.ccols

def riB (S : Schema) (db : Db) : Bool := S.fks.all (fkHolds db)

-- ---------------------------------------------------------------------------------------------
-- Structural facts about editor graphs that the theorems of `Props/C18.lean` take as hypotheses
-- (Boolean versions, evaluated by the driver on every generated schema).

/-- `nd.acts` covers every constraint referencing `nd.tbl`. -/
def coversB (S : Schema) (nd : Node) : Bool :=
  S.fks.all fun f => f.parent != nd.tbl || nd.acts.any fun a =>
    a.fk.child == f.child && a.fk.ccols == f.ccols && a.fk.parent == f.parent &&
    a.fk.pcols == f.pcols && a.fk.onDel == f.onDel

def closedB (S : Schema) (G : Graph) (ids : List Nat) : Bool :=
  ids.all fun e => decide (e < G.length) && coversB S (gnode G e) &&
    (gnode G e).acts.all fun a => ids.contains a.child && (gnode G a.child).tbl == a.fk.child &&
      a.fk.parent == (gnode G e).tbl

/-- Node ids reachable from `ids` through child editors. -/
def reach (G : Graph) : Nat → List Nat → List Nat
  | 0, ids => ids
  | n + 1, ids => reach G n ((ids ++ ids.flatMap fun e => (gnode G e).acts.map (·.child)).eraseDups)

/-- The graph built for a statement of kind `entry` on table `t` is well formed: no root exactly
when the table has no constraint of the relevant kind; otherwise the reachable part is closed,
the root edits `t`, and (UPDATE) the root checks every constraint declared on `t`. -/
def graphOkB (S : Schema) (entry : Entry) (t : Nat) : Bool :=
  let (G, root) := build S entry t
  match root with
  | none =>
    (entry == .insert || S.fks.all fun f => f.parent != t) &&
    (entry == .delete || S.fks.all fun f => f.child != t)
  | some r =>
    let ids := reach G G.length [r]
    (gnode G r).tbl == t &&
    (entry == .insert || closedB S G ids) &&
    (entry == .delete || S.fks.all fun f => f.child != t || (gnode G r).refs.contains f)

/-- Primary keys are unique in every table (`tabs` = the tables of interest). -/
def pkUniqueB (ntab : Nat) (db : Db) : Bool :=
  (List.range ntab).all fun t => ((db t).map pk).Nodup

end Gms.Fk
