/-
C51 — model of sql/fulltext/default_parser.go (tokenizer state machine, unique words) and of
the contents the Full-Text pseudo-index tables must have for a given set of rows (core-only).

A document is a list of runes as Go's `for i, r := range document` delivers them: code point,
number of bytes consumed (`len`), and the value of Go's `isCharacter` predicate
(`((IsLetter||IsNumber||IsDigit) && !IsPunct) || r == '_'`, supplied by the harness from the
`unicode` tables — the tables themselves are outside the model).

* `tokenize`   – Impl model of the loop in `NewDefaultParser` + `newParserWord` (positions included)
* `specWords`  – Spec: split at separators, a rune separates unless it is a word character or an
                 apostrophe directly between two word characters; keep pieces of ≥ 3 bytes
* `uniqueWords`– Impl model of the `uniqueMap` / `unique` loop (parameter: collation hash `key`)
* `Index` …    – Spec of the index tables as functions of the rows; `ftMatch` – Spec of MATCH
* `Layout`, `getKeyColumns`, `parentIndexCols` – key layouts of the parent table and Impl model of
                 sql/fulltext/fulltext.go `GetKeyColumns` (primary key in declaration order / first usable
                 unique key / row hash) and of the parent index sql/rowexec/fulltext_filter.go selects
* `filterWalk`, `implWhere` – Impl model of `fulltextFilterTableRowIter`: DOC_COUNT entries resolved back
                 to parent rows by probing the parent index positionally with the stored key values
-/
namespace Gms.Fulltext

structure R where
  cp : Nat
  len : Nat
  ch : Bool
  deriving DecidableEq, Repr

abbrev Word := List R

def isApos (r : R) : Bool := r.cp == 39

def bytes : Word → Nat
  | [] => 0
  | r :: rs => r.len + bytes rs

/-- Go: `parserState`. -/
inductive St where
  | ws | word | apos
  deriving DecidableEq, Repr

/-- Loop state: `state`, `buildingWord` (reversed), `position`, `words` (reversed). -/
structure TS where
  st : St
  bw : Word
  pos : Nat
  words : List (Word × Nat)
  deriving DecidableEq, Repr

def trimLeft (w : Word) : Word := w.dropWhile isApos
def trimRight (w : Word) : Word := (w.reverse.dropWhile isApos).reverse

/-- Go: `word := newParserWord(string(buildingWord), position); if len(word.Word) >= 3 { append }`.
`minLen` is the literal 3 of the source (regenerated fact). -/
def emit (minLen : Nat) (bw : Word) (pos : Nat) (words : List (Word × Nat)) : List (Word × Nat) :=
  let w := bw.reverse
  let l := trimLeft w
  let pos' := pos + (bytes w - bytes l)
  let t := trimRight l
  if bytes t ≥ minLen then (t, pos') :: words else words

/-- Go: the body of `for i, r := range document`. -/
def step (minLen : Nat) (ts : TS) (i : Nat) (r : R) : TS :=
  match ts.st with
  | .ws =>
    if r.ch then { ts with bw := r :: ts.bw, st := .word }
    else { ts with pos := ts.pos + 1 }
  | .word =>
    if !r.ch then
      if isApos r then { ts with bw := r :: ts.bw, st := .apos }
      else { st := .ws, bw := [], pos := i, words := emit minLen ts.bw ts.pos ts.words }
    else { ts with bw := r :: ts.bw }
  | .apos =>
    if !r.ch then { st := .ws, bw := [], pos := i, words := emit minLen ts.bw ts.pos ts.words }
    else { ts with bw := r :: ts.bw, st := .word }

def run (minLen : Nat) : TS → Nat → List R → TS
  | ts, _, [] => ts
  | ts, i, r :: rest => run minLen (step minLen ts i r) (i + r.len) rest

def init : TS := { st := .ws, bw := [], pos := 0, words := [] }

/-- Go: `NewDefaultParser(...).words` — words with their recorded positions, in order. -/
def tokenize (minLen : Nat) (doc : List R) : List (Word × Nat) :=
  let ts := run minLen init 0 doc
  (emit minLen ts.bw ts.pos ts.words).reverse

/-! ### Spec of the tokenizer -/

def nextIsCh : List R → Bool
  | [] => false
  | n :: _ => n.ch

/-- Pieces between separators. `p` = "the previous rune is a word character". A rune belongs to a
word iff it is a word character, or an apostrophe whose two neighbours are word characters. -/
def pieces : Bool → List R → Word → List Word
  | _, [], cur => [cur.reverse]
  | p, r :: rest, cur =>
    if r.ch || (isApos r && p && nextIsCh rest) then pieces r.ch rest (r :: cur)
    else cur.reverse :: pieces false rest []

def specWords (minLen : Nat) (doc : List R) : List Word :=
  (pieces false doc []).filter (fun w => bytes w ≥ minLen)

/-! ### Unique words under the collation hash -/

/-- Go: `if count, ok := uniqueMap[hash]; ok { uniqueMap[hash] = count+1 } else { unique = append(unique, word); uniqueMap[hash] = 1 }`
as an association list in first-occurrence order: (first spelling, key, count). -/
def bump {κ : Type} [DecidableEq κ] (k : κ) (w : Word) : List (Word × κ × Nat) → List (Word × κ × Nat)
  | [] => [(w, k, 1)]
  | (w', k', n) :: rest => if k' = k then (w', k', n + 1) :: rest else (w', k', n) :: bump k w rest

def uniqueWords {κ : Type} [DecidableEq κ] (key : Word → κ) (ws : List Word) : List (Word × κ × Nat) :=
  ws.foldl (fun acc w => bump (key w) w acc) []

/-! ### Documents of a row, Spec of the index tables and of MATCH -/

def spaceR : R := { cp := 32, len := 1, ch := false }

/-- Go: the `strings.Builder` loop at the top of `NewDefaultParser` (NULL columns are skipped; a
separator is written before every non-NULL column but the first *column*). -/
def joinDoc : Nat → List (Option (List R)) → List R
  | _, [] => []
  | i, none :: rest => joinDoc (i + 1) rest
  | i, some d :: rest => (if i > 0 then [spaceR] else []) ++ d ++ joinDoc (i + 1) rest

/-- Words of a document that can be stored in the index (`len(word) > maxWordLength` are skipped). -/
def indexable (minLen maxLen : Nat) (doc : List R) : List Word :=
  ((tokenize minLen doc).map (·.1)).filter (fun w => bytes w ≤ maxLen)

/-- Spec of MATCH … AGAINST in natural-language mode: some word of the search string has the same
collation key as some storable word of the row's document. -/
def ftMatch {κ : Type} [DecidableEq κ] (key : Word → κ) (minLen maxLen : Nat) (query doc : List R) : Bool :=
  ((tokenize minLen query).map (·.1)).any fun w => (indexable minLen maxLen doc).any fun w' => key w = key w'

/-- Number of *unique* words of the search string (classes of the collation hash) that occur in
the document. -/
def matchCount {κ : Type} [DecidableEq κ] (key : Word → κ) (minLen maxLen : Nat) (query doc : List R) : Nat :=
  ((uniqueWords key ((tokenize minLen query).map (·.1))).filter fun e =>
    (indexable minLen maxLen doc).any fun w' => e.2.1 = key w').length

/-! ### Rows, DML histories, Spec of the pseudo-index tables -/

/-- A row of the parent table: the integer columns `id` (ordinal 0) and `k2` (ordinal 1; constantly
0 in layouts without that column) and the indexed text columns. -/
structure Row where
  id : Nat
  cols : List (Option (List R))
  k2 : Nat := 0
  deriving DecidableEq, Repr

inductive Op where
  | ins (r : Row)                                  -- INSERT one row
  | del (id : Nat)                                 -- DELETE … WHERE id = k
  | upd (id : Nat) (cols : List (Option (List R))) -- UPDATE … SET <text columns> WHERE id = k
  | rekey (id new : Nat)                           -- UPDATE … SET id = new WHERE id = k
  | rekey2 (id new : Nat)                          -- UPDATE … SET k2 = new WHERE id = k
  deriving Repr

/-! ### Key layouts and the resolution of key columns (sql/fulltext/fulltext.go `GetKeyColumns`,
sql/rowexec/fulltext_filter.go) -/

/-- Key layout of the parent table over the integer columns `id` (ordinal 0) and `k2` (ordinal 1).
`pk`: PRIMARY KEY column ordinals in *declaration* order (`[]` = no primary key); `uks`: the UNIQUE
KEYs in the order `GetIndexes` lists them (index name), each with its column ordinals in declaration
order; `nn`: ordinals declared NOT NULL. The generated rows never hold NULL in a key column, so every
declared key is enforced. -/
structure Layout where
  pk : List Nat
  uks : List (List Nat)
  nn : List Nat
  deriving DecidableEq, Repr

/-- Go: `fulltext.KeyType`. `unique i`: the i-th UNIQUE KEY of the layout (`KeyColumns.Name`). -/
inductive KeyType where
  | primary
  | unique (i : Nat)
  | none
  deriving DecidableEq, Repr

/-- Go: `fulltext.KeyColumns` — `Positions` are column ordinals of the parent table, in the order in
which the key values are stored as `C0, C1, …` in DOC_COUNT / POSITION. -/
structure KeyCols where
  type : KeyType
  positions : List Nat
  deriving DecidableEq, Repr

/-- Go: the loop `for _, index := range indexes` of `GetKeyColumns`: the first unique index none of
whose columns is nullable. -/
def firstUsable (nn : List Nat) : Nat → List (List Nat) → Option (Nat × List Nat)
  | _, [] => none
  | i, cs :: rest => if cs.all (fun c => nn.contains c) then some (i, cs) else firstUsable nn (i + 1) rest

/-- Go: `GetKeyColumns`. Primary key: `positions = copy of sch.PkOrdinals` (declaration order, *not*
schema order); else the first usable unique index: `index.Expressions()` order; else the row hash. -/
def getKeyColumns (lay : Layout) : KeyCols :=
  if lay.pk ≠ [] then { type := .primary, positions := lay.pk }
  else match firstUsable lay.nn 0 lay.uks with
    | some (i, cs) => { type := .unique i, positions := cs }
    | none => { type := .none, positions := [] }

/-- Go: `FulltextFilterTable.PartitionRows` picks the parent index `PRIMARY` / `KeyCols.Name`; its
columns (memory backend: built from `PkOrdinals` / the declared column list) in index order. -/
def parentIndexCols (lay : Layout) : KeyType → List Nat
  | .primary => lay.pk
  | .unique i => lay.uks.getD i []
  | .none => []

/-- DOC_COUNT / POSITION are keyed by key columns (not by the row hash). -/
def keyedIdx (lay : Layout) : Bool := (getKeyColumns lay).type != .none

/-- Value of the integer column with the given ordinal. -/
def val (r : Row) (p : Nat) : Nat := if p = 0 then r.id else r.k2

/-- Go: the key values of a row in the order of `cs` (`for _, refCol := range KeyCols.Positions`). -/
def keyVals (cs : List Nat) (r : Row) : List Nat := cs.map (val r)

/-- Every declared key of the table. -/
def constraints (lay : Layout) : List (List Nat) := (if lay.pk ≠ [] then [lay.pk] else []) ++ lay.uks

/-- The two rows cannot coexist: they agree on all columns of some declared key. -/
def conflict (lay : Layout) (a b : Row) : Bool := (constraints lay).any fun cs => keyVals cs a == keyVals cs b

def targets (k : Nat) (rows : List Row) : List Row := rows.filter (·.id == k)

/-- Reference table semantics. A statement that would create a duplicate under a declared key
fails and changes nothing (the engine is statement-atomic); without keys duplicates are allowed. -/
def applyOp (lay : Layout) (rows : List Row) : Op → List Row
  | .ins r => if rows.any (conflict lay r) then rows else rows ++ [r]
  | .del k => rows.filter (fun r => r.id != k)
  | .upd k cols => rows.map (fun r => if r.id == k then { r with cols := cols } else r)
  | .rekey k n =>
    if k != n && (targets k rows).any (fun t => rows.any fun r => r.id != k && conflict lay { t with id := n } r) then rows
    else rows.map (fun r => if r.id == k then { r with id := n } else r)
  | .rekey2 k n =>
    -- every target ends as (k, n): two targets collide under any declared key; a single moved
    -- target may collide with a row that is not a target
    let ts := targets k rows
    if (constraints lay != [] && ts.length ≥ 2) ||
        ts.any (fun t => t.k2 != n && rows.any fun r => r.id != k && conflict lay { t with k2 := n } r) then rows
    else rows.map (fun r => if r.id == k then { r with k2 := n } else r)

def docOf (r : Row) : List R := joinDoc 0 r.cols

/-- The row's document contains a word that is too long to be stored in the index. -/
def hasLong (minLen maxLen : Nat) (r : Row) : Bool :=
  (tokenize minLen (docOf r)).any fun e => bytes e.1 > maxLen

/-- The rows a statement really changes: the engine skips a row whose new image equals the old one
(`UPDATE t SET k2 = 2` on a row that already has `k2 = 2`), so the Full-Text editor never sees it. -/
def touched (rows : List Row) : Op → List Row
  | .ins _ => []
  | .del k => targets k rows
  | .upd k cols => (targets k rows).filter (fun r => r.cols != cols)
  | .rekey k n => (targets k rows).filter (fun r => r.id != n)
  | .rekey2 k n => (targets k rows).filter (fun r => r.k2 != n)

/-- Impl model of a DML statement on a FULLTEXT table: `TableEditor.Delete` (also the first half of
`Update`) has no `len(word) > maxWordLength` guard in its DOC_COUNT loop; deleting the over-long
key from the `varchar(84)` column is an error, so a statement that deletes or really changes a row
whose document contains an over-long word fails and is discarded as a whole. -/
def applyOpImpl (minLen maxLen : Nat) (lay : Layout) (rows : List Row) (op : Op) : List Row :=
  if (touched rows op).any (hasLong minLen maxLen) then rows else applyOp lay rows op

/-- Defect region: the history deletes / changes a row that contains an over-long word. -/
def rStuck (minLen maxLen : Nat) (lay : Layout) : List Row → List Op → Bool
  | _, [] => false
  | rows, op :: ops =>
    (touched rows op).any (hasLong minLen maxLen) || rStuck minLen maxLen lay (applyOpImpl minLen maxLen lay rows op) ops

def dedup {α : Type} [DecidableEq α] : List α → List α
  | [] => []
  | a :: as => a :: (dedup as).filter (fun b => b ≠ a)

/-- Rows as the index keys them: by primary key when `keyed`, by row hash (= row content) otherwise. -/
def indexedRows (keyed : Bool) (rows : List Row) : List Row := if keyed then rows else dedup rows

section spec
variable {κ : Type} [DecidableEq κ] (key : Word → κ) (minLen maxLen : Nat)

def uniqOf (r : Row) : List (Word × κ × Nat) := uniqueWords key ((tokenize minLen (docOf r)).map (·.1))

/-- DOC_COUNT: per indexed row and unique storable word (first spelling): occurrences in the document. -/
def specDocCount (keyed : Bool) (rows : List Row) : List (Word × Row × Nat) :=
  (indexedRows keyed rows).flatMap fun r =>
    ((uniqOf key minLen r).filter (fun e => bytes e.1 ≤ maxLen)).map fun e => (e.1, r, e.2.2)

/-- GLOBAL_COUNT: per collation key of a storable word, the number of rows (with multiplicity)
whose document contains it. -/
def specGlobalCount (rows : List Row) : List (κ × Nat) :=
  let ks := rows.flatMap fun r => ((uniqOf key minLen r).filter (fun e => bytes e.1 ≤ maxLen)).map (·.2.1)
  (ks.foldl (fun acc k => bump k [] acc) []).map fun e => (e.2.1, e.2.2)

/-- ROW_COUNT: per distinct row, (number of copies, number of unique words of its document). -/
def specRowCount (keyed : Bool) (rows : List Row) : List (Nat × Nat) :=
  (indexedRows keyed rows).map fun r => ((rows.filter (· = r)).length, (uniqOf key minLen r).length)

/-- POSITION: per indexed row, every storable word occurrence with its recorded position. -/
def specPosition (keyed : Bool) (rows : List Row) : List (Word × Row × Nat) :=
  (indexedRows keyed rows).flatMap fun r =>
    ((tokenize minLen (docOf r)).filter (fun e => bytes e.1 ≤ maxLen)).map fun e => (e.1, r, e.2)

/-- Spec: rows selected by `WHERE MATCH (cols) AGAINST (query)` — each matching row once. -/
def specMatch (rows : List Row) (query : List R) : List Row :=
  rows.filter fun r => ftMatch key minLen maxLen query (docOf r)

/-- Impl model of the WHERE form (sql/rowexec/fulltext_filter.go): on a table with a primary key
`fulltextFilterTableRowIter` walks the unique words of the search string and, per word, the
DOC_COUNT entries and their parent rows — a row is delivered once per matched unique word (the
Filter above keeps every copy). Without a key the whole table is scanned once. -/
def implMatchWhere (keyed : Bool) (rows : List Row) (query : List R) : List Row :=
  if keyed then rows.flatMap fun r => List.replicate (matchCount key minLen maxLen query (docOf r)) r
  else specMatch key minLen maxLen rows query

/-- The document of the row contains a storable word of class `k` (⇔ DOC_COUNT has an entry
`(k, key of the row)` when the index is in sync). -/
def hasWord (k : κ) (r : Row) : Bool := (indexable minLen maxLen (docOf r)).any fun w' => k = key w'

/-- Go: the parent-index lookup of `fulltextFilterTableRowIter.Next`: `ranges[i]` (the i-th key value
of the DOC_COUNT row) is a closed point range on the i-th column of the parent index. -/
def lookup (ixCols : List Nat) (rows : List Row) (vals : List Nat) : List Row :=
  rows.filter fun r => keyVals ixCols r == vals

/-- Impl model of `fulltextFilterTableRowIter` (keyed tables), with the key-column resolution made
explicit: for every unique word of the search string, for every DOC_COUNT entry of that word — one per
row containing it, holding the row's key values in the order `ps` = `KeyColumns.Positions` — the
parent index (columns `ixCols`) is probed with those values *positionally*, and every parent row found
is delivered. -/
def filterWalk (ps ixCols : List Nat) (rows : List Row) (query : List R) : List Row :=
  (uniqueWords key ((tokenize minLen query).map (·.1))).flatMap fun e =>
    (rows.filter (hasWord key minLen maxLen e.2.1)).flatMap fun r => lookup ixCols rows (keyVals ps r)

/-- Impl model of the WHERE form for a key layout: the walk above with the positions `GetKeyColumns`
returns and the columns of the index the filter selects; a full scan when the index is keyed by the
row hash. (The `Filter` node above re-evaluates MATCH on every delivered row.) -/
def implWhere (lay : Layout) (rows : List Row) (query : List R) : List Row :=
  let kc := getKeyColumns lay
  if keyedIdx lay then
    (filterWalk key minLen maxLen kc.positions (parentIndexCols lay kc.type) rows query).filter
      fun r => ftMatch key minLen maxLen query (docOf r)
  else specMatch key minLen maxLen rows query

/-- Defect region of the WHERE form: a keyed table in which some row contains two different words
of the search string. -/
def rRepeats (keyed : Bool) (rows : List Row) (query : List R) : Bool :=
  keyed && rows.any fun r => matchCount key minLen maxLen query (docOf r) ≥ 2

end spec

end Gms.Fulltext
