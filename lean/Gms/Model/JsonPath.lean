/-
C32 (part 2) — model of the JSON document mutation functions of sql/types/json_value.go
(walkPathAndUpdate, updateObject, updateArray, updateObjectTreatAsArray, parseIndex) and of path
lookup (LookupJSONValue → lookupJson → jsonpath library), on parsed paths. Core-only.

The path *text* is parsed by the Go code (parseNameAfterDot, parseIndex, jsonpath.Compile); here a
path is a list of legs, and the harness renders legs to text, so the text parsers are tied by
correspondence only.
-/
namespace Gms.JsonPath

abbrev Bytes := List UInt8

inductive Json
  | null
  | bool (b : Bool)
  | num (n : Int)
  | str (s : Bytes)
  | arr (l : List Json)
  | obj (kvs : List (Bytes × Json))
  deriving Repr, Inhabited

inductive Idx
  | n (k : Nat) | last | lastMinus (k : Nat)
  deriving DecidableEq, Repr

inductive Leg
  | key (k : Bytes) | idx (i : Idx)
  deriving DecidableEq, Repr

inductive Mode
  | set | insert | replace | remove | arrayAppend | arrayInsert
  deriving DecidableEq, Repr

/-! ### Go maps as association lists (keys unique) -/

def oget : List (Bytes × Json) → Bytes → Option Json
  | [], _ => none
  | (k, v) :: rest, x => if k = x then some v else oget rest x

/-- Go: `doc[name] = val`. -/
def oset : List (Bytes × Json) → Bytes → Json → List (Bytes × Json)
  | [], x, v => [(x, v)]
  | (k, w) :: rest, x, v => if k = x then (k, v) :: rest else (k, w) :: oset rest x v

/-- Go: `delete(doc, name)`. -/
def odel : List (Bytes × Json) → Bytes → List (Bytes × Json)
  | [], _ => []
  | (k, w) :: rest, x => if k = x then odel rest x else (k, w) :: odel rest x

/-! ### parseIndex -/

structure PIdx where
  underflow : Bool
  overflow : Bool
  index : Nat
  deriving Repr, DecidableEq

/-- Go: `parseIndex(indexStr, lastIndex)` with `lastIndex = len - 1` (`len = 0`: -1).
`len` is passed instead of `lastIndex`. For an overflowing number Go stores `lastIndex` (possibly
-1) in `index`; callers never read it when `overflow` is set, so 0 is stored here. -/
def parseIndex (i : Idx) (len : Nat) : PIdx :=
  match i with
  | .last => ⟨false, false, len - 1⟩
  | .lastMinus k => if len = 0 ∨ len - 1 < k then ⟨true, false, 0⟩ else ⟨false, false, len - 1 - k⟩
  | .n k => if len = 0 ∨ k > len - 1 then ⟨false, true, if len = 0 then 0 else len - 1⟩ else ⟨false, false, k⟩

def setAt (l : List Json) (i : Nat) (v : Json) : List Json := l.set i v
def removeAt (l : List Json) (i : Nat) : List Json := l.eraseIdx i
def insertAt (l : List Json) (i : Nat) (v : Json) : List Json := l.take i ++ [v] ++ l.drop i

/-- Go: `updateObjectTreatAsArray` (the rest of the path is ignored by the Go code). -/
def treatAsArray (i : Idx) (doc val : Json) (mode : Mode) : Json × Bool :=
  let p := parseIndex i 1
  if p.underflow then
    (if mode = .set ∨ mode = .insert then (.arr [val, doc], true) else (doc, false))
  else if p.overflow then
    (if mode = .set ∨ mode = .insert then (.arr [doc, val], true) else (doc, false))
  else if mode = .set ∨ mode = .replace then (val, true)
  else if mode = .arrayAppend then (.arr [doc, val], true)
  else (doc, false)

/-- Go: `walkPathAndUpdate("", doc, val, ARRAY_APPEND)`: append, wrapping a non-array first. -/
def appendEnd (val : Json) : Json → Json
  | .arr l => .arr (l ++ [val])
  | d => .arr [d, val]

/-- Go: `walkPathAndUpdate` with `updateObject` and `updateArray` inlined; `none` = error. -/
def update (mode : Mode) (val : Json) : List Leg → Json → Option (Json × Bool)
  | [], doc =>
    match mode with
    | .set | .replace => some (val, true)
    | .insert => some (doc, false)
    | .arrayAppend => some (appendEnd val doc, true)
    | .arrayInsert | .remove => none
  | .key name :: rest, doc =>
    match doc with
    | .obj kvs =>
      match rest with
      | [] =>
        if mode = .arrayAppend then
          match oget kvs name with
          | none => some (.obj kvs, false)
          | some cur => some (.obj (oset kvs name (appendEnd val cur)), true)   -- walk("", cur)
        else if mode = .arrayInsert then none
        else
          let destructive := (oget kvs name).isSome
          if mode = .set ∨ (!destructive ∧ mode = .insert) ∨ (destructive ∧ mode = .replace) then
            some (.obj (oset kvs name val), true)
          else if destructive ∧ mode = .remove then some (.obj (odel kvs name), true)
          else some (.obj kvs, false)
      | _ :: _ =>
        match update mode val rest ((oget kvs name).getD .null) with
        | none => none
        | some (n, changed) => some (.obj (if changed then oset kvs name n else kvs), changed)
    | d => if mode = .arrayInsert then none else some (d, false)
  | .idx i :: rest, doc =>
    match doc with
    | .arr l =>
      let p := parseIndex i l.length
      if p.underflow ∧ mode ≠ .set then some (.arr l, false)
      else if l.length > p.index ∧ !p.overflow then
        if rest = [] ∧ mode ≠ .arrayAppend then
          if mode = .set ∨ mode = .replace then some (.arr (setAt l p.index val), true)
          else if mode = .remove then some (.arr (removeAt l p.index), true)
          else if mode = .arrayInsert then some (.arr (insertAt l p.index val), true)
          else some (.arr l, false)
        else
          match update mode val rest (l.getD p.index .null) with
          | none => none
          | some (n, changed) => some (.arr (if changed then setAt l p.index n else l), changed)
      else if mode = .set ∨ mode = .insert ∨ mode = .arrayInsert then some (.arr (l ++ [val]), true)
      else some (.arr l, false)
    | d => some (treatAsArray i d val mode)

/-! ### Lookup -/

inductive LRes
  | found (j : Json)
  | missing          -- SQL NULL
  | err
  | crash            -- the Go code panics (nil pointer dereference inside the jsonpath library)
  deriving Repr

/-- Inner walk of the jsonpath library as wrapped by `lookupJson` (errors "key error", "index out
of range", "object is not map", "object is not Slice" are mapped to SQL NULL there). An index leg
applied to a JSON null dereferences a nil pointer. -/
def walk : List Leg → Json → LRes
  | [], d => .found d
  | .key k :: rest, .obj kvs =>
    match oget kvs k with
    | some v => walk rest v
    | none => .missing
  | .key _ :: _, _ => .missing
  | .idx (.n i) :: rest, .arr l =>
    match l[i]? with
    | some v => walk rest v
    | none => .missing
  | .idx _ :: _, .null => .crash
  | .idx _ :: _, _ => .missing

/-- Go: `memberAccessOnNonObject(document, path)`. -/
def maon : List Leg → Json → Bool
  | [], _ => false
  | .key k :: rest, .obj kvs =>
    match oget kvs k with
    | some v => maon rest v
    | none => false
  | .key _ :: _, _ => true
  | .idx (.n i) :: rest, .arr l =>
    match l[i]? with
    | some v => maon rest v
    | none => false
  | .idx (.n i) :: rest, d => if i ≠ 0 then false else maon rest d
  | .idx _ :: _, _ => false

def hasLast : List Leg → Bool
  | [] => false
  | .idx .last :: _ => true
  | .idx (.lastMinus _) :: _ => true
  | _ :: rest => hasLast rest

/-- Impl model of `LookupJSONValue(doc, path)`: `$` is the identity; a JSON null or scalar document
gives SQL NULL for every other path; `last` is not understood by the jsonpath library. -/
def lookup (p : List Leg) (d : Json) : LRes :=
  match p, d with
  | [], d => .found d
  | _, .null => .missing
  | p, d =>
    if hasLast p then .err
    else match d with
      | .arr _ | .obj _ => if maon p d then .missing else walk p d
      | _ => .missing

/-- Spec (MySQL): `[0]` and `[last]` on a non-array denote the value itself; `last` is understood. -/
def specWalk : List Leg → Json → LRes
  | [], d => .found d
  | .key k :: rest, .obj kvs =>
    match oget kvs k with
    | some v => specWalk rest v
    | none => .missing
  | .key _ :: _, _ => .missing
  | .idx i :: rest, .arr l =>
    let p := parseIndex i l.length
    if p.underflow ∨ p.overflow then .missing
    else match l[p.index]? with
      | some v => specWalk rest v
      | none => .missing
  | .idx i :: rest, d =>
    let p := parseIndex i 1
    if p.underflow ∨ p.overflow then .missing else specWalk rest d

/-! ### Canonical text (MySQL format) -/

/-- Go: the comparison of `sortKeys`: shorter first, then bytewise. -/
def keyLt (a b : Bytes) : Bool :=
  if a.length ≠ b.length then a.length < b.length else decide (a < b)

def insertKey {α : Type} (p : Bytes × α) : List (Bytes × α) → List (Bytes × α)
  | [] => [p]
  | q :: rest => if keyLt p.1 q.1 then p :: q :: rest else q :: insertKey p rest

/-- Go: `sortKeys` (insertion sort here; `sort.Slice` there — any sort gives the same list because
the keys of a Go map are distinct and `keyLt` is a strict total order on distinct keys). -/
def sortKeys {α : Type} (kvs : List (Bytes × α)) : List (Bytes × α) := kvs.foldr insertKey []

def strB (s : String) : Bytes := s.toUTF8.toList

def joinWith (sep : Bytes) : List Bytes → Bytes
  | [] => []
  | [x] => x
  | x :: y :: rest => x ++ sep ++ joinWith sep (y :: rest)

/-- Strings of the generated documents are plain ASCII without quotes or backslashes. -/
def printStr (s : Bytes) : Bytes := [34] ++ s ++ [34]

mutual
  def printJson : Json → Bytes
    | .null => strB "null"
    | .bool true => strB "true"
    | .bool false => strB "false"
    | .num n => strB (toString n)
    | .str s => printStr s
    | .arr l => [91] ++ joinWith [44, 32] (printList l) ++ [93]
    | .obj kvs => [123] ++ joinWith [44, 32] ((sortKeys (printKvs kvs)).map (·.2)) ++ [125]
  def printList : List Json → List Bytes
    | [] => []
    | j :: rest => printJson j :: printList rest
  def printKvs : List (Bytes × Json) → List (Bytes × Bytes)
    | [] => []
    | (k, v) :: rest => (k, printStr k ++ [58, 32] ++ printJson v) :: printKvs rest
end

end Gms.JsonPath
