/-
C30 — memory model of the results of `RangeMap` conversions (core-only).

`Gms/Model/RangeMap.lean` models every conversion as a pure function from bytes to bytes. That is
only the whole truth if the byte slice a call hands back is *its own*: Go slices are views into
buffers, and a conversion that builds its output in storage that outlives the call (a package-level
scratch buffer, a `sync.Pool`, a field of the encoder, a memo table, a row of a static table) returns
the right bytes at the moment it returns and the wrong ones later — when the next call rewrites the
storage, or when the caller edits a result it was told is safe to edit (`RangeMap.IsReturnSafe`).
A check that looks at each result before it makes the next call cannot see any of this.

This file makes the storage explicit.

* `Heap`, `Slice`, `Heap.read`, `Heap.overwrite` – byte buffers and views `buf[0:len]`
* `Alloc`                                        – where a call builds its output:
    `fresh`     `make([]byte, 0, len(str))` + `append` — the code that exists (pinned by the
                regenerated facts `outputWrites_*`, `packageVars`, `structFields`, see `C30.facts_match`)
    `shared k`  a buffer that outlives the call and is rewritten in place by the next one
    `memo`      a table input ↦ result slice; a repeated input gets the stored slice back
  the last two are *not* what the code does; they are kept so that the theorems below have
  content (`C30.shared_not_independent`, `C30.memo_not_independent`) and as the replay of that class
  of change
* `Step`, `runLate`, `observeLate`               – a batch of calls (and caller writes into buffers)
                                                   whose results are all kept and read at the end
* `runEager`, `observeEager`                     – a batch in which the caller reads each result at
                                                   once and then scribbles over it
* `pureResults`                                  – the Spec: every call yields the value of the pure
                                                   function, whatever happened before or after

Calls are atomic in this model: it speaks about results kept across calls (by one goroutine or by
several whose calls are interleaved in any order — the theorems quantify over every order), not
about two calls running inside each other.
-/
import Gms.Model.RangeMap

namespace Gms.RangeMap

/-- Byte buffers; buffer `i` is `h[i]`. -/
abbrev Heap := List (List Nat)

/-- The Go slice `buf[0:len]`. -/
structure Slice where
  buf : Nat
  len : Nat
  deriving DecidableEq, Repr, Inhabited

def Heap.read (h : Heap) (s : Slice) : List Nat := (h.getD s.buf []).take s.len

/-- Write `bs` at the start of buffer `i`, keeping what lies behind (`append(buf[:0], bs...)`, or a
caller writing into a slice it holds). -/
def Heap.overwrite (h : Heap) (i : Nat) (bs : List Nat) : Heap :=
  h.set i (bs ++ (h.getD i []).drop bs.length)

/-- Where a conversion builds its output. -/
inductive Alloc where
  | fresh
  | shared (k : Nat)
  | memo
  deriving DecidableEq, Repr, Inhabited

/-- A result as the caller holds it: a view, not a value. -/
inductive SRes where
  | ok (s : Slice)
  | fail
  | crash
  deriving DecidableEq, Repr, Inhabited

def SRes.read (h : Heap) : SRes → Res
  | .ok s => .ok (h.read s)
  | .fail => .fail
  | .crash => .crash

/-- Buffers plus the memo table (used by `Alloc.memo` only). -/
structure Mem where
  heap : Heap
  cache : List (List Nat × Slice) := []
  deriving Repr, Inhabited

def allocFresh (m : Mem) (bs : List Nat) : Mem × Slice :=
  ({ m with heap := m.heap ++ [bs] }, ⟨m.heap.length, bs.length⟩)

/-- One conversion call on input `key` whose pure result is `r`. A failing call returns `nil`. -/
def callM (a : Alloc) (key : List Nat) (r : Res) (m : Mem) : Mem × SRes :=
  match r with
  | .fail => (m, .fail)
  | .crash => (m, .crash)
  | .ok bs =>
    match a with
    | .fresh => let p := allocFresh m bs; (p.1, .ok p.2)
    | .shared k =>
      if k < m.heap.length then ({ m with heap := m.heap.overwrite k bs }, .ok ⟨k, bs.length⟩)
      else let p := allocFresh m bs; (p.1, .ok p.2)
    | .memo =>
      match m.cache.find? (fun e => e.1 == key) with
      | some e => (m, .ok e.2)
      | none => let p := allocFresh m bs; ({ p.1 with cache := (key, p.2) :: p.1.cache }, .ok p.2)

/-- What happens in a batch. -/
inductive Step where
  /-- a conversion of `key`; `r` is the value of the pure function on it -/
  | call (key : List Nat) (r : Res)
  /-- the caller writes `bs` into buffer `i` (its own input buffer, say) -/
  | edit (i : Nat) (bs : List Nat)
  deriving Repr, Inhabited

/-- Run a batch, keeping every result (as a view). -/
def runLate (a : Alloc) : List Step → Mem → Mem × List SRes
  | [], m => (m, [])
  | .call key r :: st, m =>
    let p := callM a key r m
    let q := runLate a st p.1
    (q.1, p.2 :: q.2)
  | .edit i bs :: st, m => runLate a st { m with heap := m.heap.overwrite i bs }

/-- … and look at all of them when the batch is over. -/
def observeLate (a : Alloc) (st : List Step) (m : Mem) : List Res :=
  let q := runLate a st m
  q.2.map (SRes.read q.1.heap)

/-- Run a batch in which every result is read as soon as the call returns and then overwritten
with `junk` by the caller (allowed: `IsReturnSafe`). -/
def observeEager (a : Alloc) (junk : Nat) : List Step → Mem → List Res
  | [], _ => []
  | .call key r :: st, m =>
    let p := callM a key r m
    let seen := p.2.read p.1.heap
    let m' : Mem := match p.2 with
      | .ok s => { p.1 with heap := p.1.heap.overwrite s.buf (List.replicate s.len junk) }
      | _ => p.1
    seen :: observeEager a junk st m'
  | .edit i bs :: st, m => observeEager a junk st { m with heap := m.heap.overwrite i bs }

/-- Spec: the values of the pure functions, call by call. -/
def pureResults : List Step → List Res
  | [] => []
  | .call _ r :: st => r :: pureResults st
  | .edit _ _ :: st => pureResults st

/-- Every caller write of the batch goes to a buffer below `n` (buffers that existed before). -/
def editsBelow (n : Nat) : List Step → Bool
  | [] => true
  | .call _ _ :: st => editsBelow n st
  | .edit i _ :: st => decide (i < n) && editsBelow n st

/-- The batch the harness runs in `keep` mode: input `j` lives in buffer `j`; after call `j` the
caller scribbles over its input. -/
def keepBatch (junk : Nat) : Nat → List (List Nat × Res) → List Step
  | _, [] => []
  | j, (key, r) :: rest => .call key r :: .edit j (List.replicate key.length junk) :: keepBatch junk (j + 1) rest

end Gms.RangeMap
