/-
C05 — model of the row iterator behind every secondary-index lookup on a memory table,
`memory/table.go`: `indexScanRowIter` / `newIndexScanRowIter` / `indexRowMatches` (core-only).

The index storage is a slice of entries kept sorted on the index columns. `Next` walks it from the
current position — upwards, or downwards when `lookup.IsReverse` — evaluates the lookup's range
expression on the key of each entry (`indexRowMatches`), returns the first entry that matches and
moves past it. The ONLY ways out of the loop are: a match, an evaluation error, the end of the slice
(the regenerated fact `Gms.Generated.C05.idxIterLoopExits` pins exactly this list of exits).

Impl model layer (one `def` per Go function)
* `visit`   – the visiting order fixed by `newIndexScanRowIter` (`i = 0`, `i++` / `i = len-1`, `i--`);
* `next`    – one call of `Next`: skip non-matching entries, return the first match and the rest;
* `drain`   – the caller's loop `for { row, err := it.Next(); if err == io.EOF { break } … }`;
* `scan`    – `drain` over `visit`.

Spec layer
* `Spec.scan` – the rows an index lookup must deliver: the entries whose key satisfies the range
  expression, each exactly once (a filter of the index).

A *range* of the lookup is a box: one one-dimensional interval per index column (`Interval`, `Box`,
`Box.holds`), NULL being the lowest key value. The stale-location skip (`len(primaryRows[partition]) <= idx`,
foreign-key cascades) and the error path are not modelled.

`scanStopAfterRun` is NOT the code: it is the "stop at the first entry past the run of matches"
variant, kept to state when such an early exit would be sound (`Contiguous`) and that a box over a
multi-column index is not such a case.
-/
namespace Gms.MemIdxIter

/-- A key value of an index column: `none` is NULL (sorts lowest). -/
abbrev KeyVal := Option Int
abbrev Key := List KeyVal

/-- An index entry: key tuple and the primary row it points to. -/
structure Entry (α : Type) where
  key : Key
  row : α
  deriving Repr, DecidableEq

/-! ## Spec -/

/-- The entries a lookup with range expression `m` must deliver. -/
def Spec.scan {α : Type} (m : Key → Bool) (es : List (Entry α)) : List (Entry α) :=
  es.filter (fun e => m e.key)

/-! ## Impl model -/

/-- Go: `newIndexScanRowIter`: forward from 0 with `i++`, or from `len-1` with `i--`. -/
def visit {α : Type} (reverse : Bool) (es : List (Entry α)) : List (Entry α) :=
  if reverse then es.reverse else es

/-- Go: one call of `indexScanRowIter.Next` on the entries still ahead (in visiting order): the
first matching entry and the entries after it, or `none` (`io.EOF`). -/
def next {α : Type} (m : Key → Bool) : List (Entry α) → Option (Entry α × List (Entry α))
  | [] => none
  | e :: es => if m e.key then some (e, es) else next m es

/-- Go: the consumer's loop, with fuel ≥ number of entries + 1. -/
def drain {α : Type} (m : Key → Bool) : Nat → List (Entry α) → List (Entry α)
  | 0, _ => []
  | fuel + 1, es =>
    match next m es with
    | none => []
    | some (e, rest) => e :: drain m fuel rest

/-- The rows of an index lookup. -/
def scan {α : Type} (m : Key → Bool) (reverse : Bool) (es : List (Entry α)) : List (Entry α) :=
  drain m (es.length + 1) (visit reverse es)

/-! ## Ranges -/

/-- One-dimensional interval of key values (NULL is the lowest key value): `[NULL, NULL]`
(`IS NULL`), `[NULL, ∞)` (unrestricted), or the non-NULL values between two bounds, a bound being
`none` (unbounded: `(NULL, …` / `…, ∞)`) or `(value, inclusive)`. -/
inductive Interval where
  | isNull
  | all
  | range (lo hi : Option (Int × Bool))
  deriving Repr, DecidableEq

def Interval.holds : Interval → KeyVal → Bool
  | .isNull, v => v.isNone
  | .all, _ => true
  | .range _ _, none => false
  | .range lo hi, some v =>
    (match lo with
     | none => true
     | some (l, incl) => if incl then decide (l ≤ v) else decide (l < v))
    && (match hi with
     | none => true
     | some (h, incl) => if incl then decide (v ≤ h) else decide (v < h))

/-- The order of one index column: NULL first, then the integers. -/
def keyValLe : KeyVal → KeyVal → Bool
  | none, _ => true
  | some _, none => false
  | some a, some b => decide (a ≤ b)

/-- A `MySQLRange`: one interval per index column (missing columns are unrestricted). -/
abbrev Box := List Interval

def Box.holds : Box → Key → Bool
  | [], _ => true
  | _ :: _, [] => false
  | r :: rs, v :: vs => r.holds v && Box.holds rs vs

/-- A `MySQLRangeCollection`: the union of its boxes. -/
def boxesHold (bs : List Box) (k : Key) : Bool := bs.any (fun b => b.holds k)

/-! ## The early-exit variant (not the code) -/

/-- Stop at the first non-matching entry after a match. -/
def scanStopAfterRun {α : Type} (m : Key → Bool) : List (Entry α) → List (Entry α)
  | [] => []
  | e :: es => if m e.key then e :: es.takeWhile (fun x => m x.key) else scanStopAfterRun m es

/-- The matching entries form one run of adjacent entries. -/
def Contiguous {α : Type} (m : Key → Bool) (es : List (Entry α)) : Prop :=
  ∃ pre mid post, es = pre ++ mid ++ post ∧ (∀ e ∈ pre, m e.key = false) ∧ (∀ e ∈ mid, m e.key = true)
    ∧ (∀ e ∈ post, m e.key = false)

end Gms.MemIdxIter
