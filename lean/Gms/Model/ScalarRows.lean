/-
C34, statement level: the Impl model of ONE node of a modelled scalar function evaluated for the
rows of a statement, the results read after the last row. None of the modelled nodes keeps state
between rows (regenerated fact `Gms.C34.facts_nodes_stateless`), so the statement's results are
the single-call results, row by row: `evalRows`. `Gms/Model/NodeRows.lean` is the memory model
behind that sentence (a `[]byte` result is a reference into an array), `Gms.C34.rows_are_single_calls`
the theorem that ties the two. Core Lean only.
-/
import Gms.Model.ScalarFn
import Gms.Model.NodeRows
namespace Gms.ScalarFn

/-- one statement: `name(c0, c1, …)` over the rows `rows` (each row = the argument tuple). -/
def evalRows (name : String) (rows : List (List Val)) : List Res := rows.map (impl name)

/- The statement-level Spec is relative to the single call: row `i` of the statement must read as
the single call on row `i` reads. Where a single call deviates from ITS Spec (the known-defect
regions of `region`), the single-call case of that row reports it — the harness records every row
as a single-call case too — so a statement is never excused by the regions of its rows. -/

/-- the bytes of a result that Go hands out by reference (`[]byte`, and strings built with
`unsafe.String` over a buffer); every other result is a value. -/
def blobOf : Res → NodeRows.Bytes
  | .ok (.blob b) => b
  | .ok (.text b) => b
  | _ => []

end Gms.ScalarFn
