/-
C01 — join keys whose equality is not byte equality (core-only).

The shared SQL definition (`Gms.Sql`) compares strings bytewise and has one numeric type. A join key
of the engine may be a text column under a case/accent-insensitive collation (`'Bob' = 'BOB' =
'bób'`) or a numeric column whose type differs from the other side's (`1 = 1.0 = 1.000 = 1e0`,
`-0.0 = 0`). The meaning of a query over such columns is the meaning of the same query over the
NORMAL FORMS of the key values: two keys are `=` iff their normal forms are the same value.

* `foldRune`, `foldBytes` — the case/accent fold on the alphabet the harness draws text keys from
  (ASCII letters and `Á É Í Ó Ö Ú Ü Ñ Ç` in both cases; UTF-8, 1-2 bytes per rune). It is tied to
  the engine's collations by the regenerated fact `Gms.Generated.C01.ciWeights` (the weight the
  real `Sorter` of every collation used gives to every rune of the alphabet):
  `Gms.C01.fold_eq_iff_weight_eq`.
* `parseDec` — decimal text `[-]digits[.digits]` (≤ 3 fractional digits) ↦ thousandths.
* `normDb` — normalise every key column of a database; what the driver evaluates the query term on.
-/
import Gms.Model.Rel

namespace Gms.PhysKeys
open Gms.Sql Gms.Rel

/-- Kind of a column: `raw` (compared as stored), `ci` (text under an `_ai_ci` collation), `num`
(numeric key that can hold fractions: DECIMAL / DOUBLE) and `numZ` (integral numeric key: INT /
BIGINT UNSIGNED); numeric keys of either kind are compared by numeric value. -/
inductive KeyKind where
  | raw | ci | num | numZ
  deriving DecidableEq, Repr, Inhabited

def KeyKind.isNum : KeyKind → Bool
  | .num => true | .numZ => true | _ => false

/-- The upper-case Latin-1 letters of the alphabet with their base letter. -/
def latin1Base : List (Nat × Nat) :=
  [(0xC1, 0x61), (0xC9, 0x65), (0xCD, 0x69), (0xD3, 0x6F), (0xD6, 0x6F), (0xDA, 0x75), (0xDC, 0x75),
   (0xD1, 0x6E), (0xC7, 0x63)]

/-- Case/accent fold of one rune of the alphabet (`none` outside the alphabet). -/
def foldRune? (r : Nat) : Option Nat :=
  if 0x41 ≤ r ∧ r ≤ 0x5A then some (r + 32)
  else if 0x61 ≤ r ∧ r ≤ 0x7A then some r
  else match latin1Base.find? (fun p => p.1 == r || p.1 + 32 == r) with
    | some p => some p.2
    | none => none

def foldRune (r : Nat) : Nat := (foldRune? r).getD r

/-- All runes of the alphabet. -/
def alphabet : List Nat :=
  (List.range 26).flatMap (fun i => [0x61 + i, 0x41 + i]) ++ latin1Base.flatMap (fun p => [p.1 + 32, p.1])

/-- The base letters (the image of the fold). -/
def baseLetters : List Nat := (List.range 26).map (0x61 + ·)

/-- Fold a UTF-8 byte string over the alphabet; `none` if it leaves the alphabet. -/
def foldBytes : List UInt8 → Option (List UInt8)
  | [] => some []
  | b :: rest =>
    if b < 0x80 then
      match foldRune? b.toNat, foldBytes rest with
      | some f, some t => some (UInt8.ofNat f :: t)
      | _, _ => none
    else if b == 0xC3 then
      match rest with
      | c :: rest' =>
        if 0x80 ≤ c ∧ c < 0xC0 then
          match foldRune? (0x40 + c.toNat), foldBytes rest' with
          | some f, some t => some (UInt8.ofNat f :: t)
          | _, _ => none
        else none
      | [] => none
    else none

def digit? (b : UInt8) : Option Nat := if 0x30 ≤ b ∧ b ≤ 0x39 then some (b.toNat - 0x30) else none

def digits? : List UInt8 → Option Nat
  | [] => none
  | bs => bs.foldl (fun acc b => match acc, digit? b with
      | some a, some d => some (a * 10 + d)
      | _, _ => none) (some 0)

/-- `digits[.digits]` ↦ thousandths. -/
def parseUDec (bs : List UInt8) : Option Nat :=
  let ip := bs.takeWhile (· != 0x2E)
  let fp := (bs.dropWhile (· != 0x2E)).drop 1
  match digits? ip with
  | none => none
  | some i =>
    if bs.all (· != 0x2E) then some (i * 1000)
    else if fp.length = 0 ∨ fp.length > 3 then none
    else match digits? fp with
      | some f => some (i * 1000 + f * 10 ^ (3 - fp.length))
      | none => none

/-- `[-]digits[.digits]` ↦ thousandths (`-0.0` ↦ 0). -/
def parseDec : List UInt8 → Option Int
  | 0x2D :: rest => (parseUDec rest).map fun n => -(n : Int)
  | bs => (parseUDec bs).map fun n => (n : Int)

/-- Normal form of one value of a column of the given kind. -/
def normValue : KeyKind → Value → Option Value
  | _, .null => some .null
  | .raw, v => some v
  | .ci, .str b => (foldBytes b).map Value.str
  | .ci, .int _ => none
  | .num, .int i => some (.int (i * 1000))
  | .num, .str b => (parseDec b).map Value.int
  | .numZ, .int i => some (.int (i * 1000))
  | .numZ, .str _ => none

def normRow : List KeyKind → Row → Option Row
  | [], [] => some []
  | k :: ks, v :: vs =>
    match normValue k v, normRow ks vs with
    | some v', some vs' => some (v' :: vs')
    | _, _ => none
  | _, _ => none

def normTable (ks : List KeyKind) (t : Table) : Option Table :=
  (t.rows.mapM (normRow ks)).map fun rows => { width := t.width, rows := rows }

def normDb : List (List KeyKind) → Db → Option Db
  | [], [] => some []
  | ks :: kss, t :: ts =>
    match normTable ks t, normDb kss ts with
    | some t', some ts' => some (t' :: ts')
    | _, _ => none
  | _, _ => none

/-- Column types after normalisation: a numeric key is an integer. -/
def normTys (ks : List KeyKind) (tys : List Ty) : List Ty :=
  (ks.zip tys).map fun p => if p.1.isNum then .int else p.2

/-- Two stored key values are equal as join keys. -/
def keyEq (k : KeyKind) (a b : Value) : Bool :=
  match normValue k a, normValue k b with
  | some x, some y => !x.isNull && x == y
  | _, _ => false

end Gms.PhysKeys
