/-
M1 — shared SQL reference semantics, part 1 (core-only): values, three-valued logic, the scalar
operators, and the *syntax* of expressions and queries (the two are mutually recursive because
of subqueries; their evaluation is in `Gms/Model/Rel.lean`).

Conventions (shared by every property that reuses this model):

* `Value` is `NULL`, an exact integer, or a byte string compared bytewise (the engine's default
  collation `utf8mb4_0900_bin`; NO PAD). Decimals and case-insensitive collations are *not* in
  this model yet (extension point: add constructors + `Value.cmp?` cases; every theorem below is
  stated through `cmp?`/`Tri`, not through the constructors).
* SQL has no boolean type: a predicate evaluates to `1`, `0` or `NULL`; `Value.truth` reads any
  value as a truth value (`NULL` ↦ unknown, `0` ↦ false, other integers ↦ true). So a single
  expression sort `Expr` covers select-list expressions and predicates alike.
* Column references are de Bruijn pairs `col depth idx`: `depth = 0` is the row the expression is
  evaluated on (for a join condition: left row ++ right row), `depth = k` the row of the k-th
  enclosing query block (correlation).
* Evaluation is *total*: on ill-typed terms (integer compared with string, a string used as a
  truth value, `IN`-subquery with the wrong width, scalar subquery with several rows) it returns
  an arbitrary but fixed answer. Drivers must call `Gms.Rel.check` (type and cardinality
  discipline) first and refuse terms it rejects.
-/
namespace Gms.Sql

/-! ## Values -/

inductive Value where
  | null
  | int (i : Int)
  | str (b : List UInt8)
  deriving DecidableEq, Repr, Inhabited

abbrev Row := List Value

/-! ## Three-valued logic -/

inductive Tri where
  | t | f | u
  deriving DecidableEq, Repr, Inhabited

namespace Tri

def not : Tri → Tri
  | t => f | f => t | u => u

def and : Tri → Tri → Tri
  | f, _ => f
  | _, f => f
  | t, t => t
  | _, _ => u

def or : Tri → Tri → Tri
  | t, _ => t
  | _, t => t
  | f, f => f
  | _, _ => u

def xor : Tri → Tri → Tri
  | u, _ => u
  | _, u => u
  | t, t => f
  | f, f => f
  | _, _ => t

def ofBool : Bool → Tri
  | true => t | false => f

/-- The SQL value of a truth value: `1`, `0`, `NULL`. -/
def toValue : Tri → Value
  | t => .int 1 | f => .int 0 | u => .null

end Tri

/-- Any value read as a truth value (what `WHERE`, `AND`, `NOT`, `CASE WHEN` do). Strings are
outside the typed fragment. -/
def Value.truth : Value → Tri
  | .null => .u
  | .int i => if i = 0 then .f else .t
  | .str _ => .f

def Value.isNull : Value → Bool
  | .null => true
  | _ => false

/-! ## Comparison -/

/-- Lexicographic bytewise order (binary collation, NO PAD). -/
def bytesCmp : List UInt8 → List UInt8 → Ordering
  | [], [] => .eq
  | [], _ :: _ => .lt
  | _ :: _, [] => .gt
  | a :: as, b :: bs => if a < b then .lt else if b < a then .gt else bytesCmp as bs

/-- SQL comparison: undefined (`none`) as soon as one side is NULL. -/
def Value.cmp? : Value → Value → Option Ordering
  | .null, _ => none
  | _, .null => none
  | .int a, .int b => some (compare a b)
  | .str a, .str b => some (bytesCmp a b)
  | .int _, .str _ => some .lt   -- outside the typed fragment
  | .str _, .int _ => some .gt   -- outside the typed fragment

/-- Total order used by ORDER BY / MIN / MAX: NULL is the lowest value. -/
def Value.ord : Value → Value → Ordering
  | .null, .null => .eq
  | .null, _ => .lt
  | _, .null => .gt
  | .int a, .int b => compare a b
  | .str a, .str b => bytesCmp a b
  | .int _, .str _ => .lt
  | .str _, .int _ => .gt

inductive CmpOp where
  | eq | ne | lt | le | gt | ge
  | nseq   -- `<=>`, NULL-safe equality
  deriving DecidableEq, Repr, Inhabited

def CmpOp.holds : CmpOp → Ordering → Bool
  | .eq, o => o == .eq
  | .nseq, o => o == .eq
  | .ne, o => o != .eq
  | .lt, o => o == .lt
  | .le, o => o != .gt
  | .gt, o => o == .gt
  | .ge, o => o != .lt

/-- Three-valued result of `a op b`. -/
def cmpTri (op : CmpOp) (a b : Value) : Tri :=
  match op with
  | .nseq =>
    match a, b with
    | .null, .null => .t
    | .null, _ => .f
    | _, .null => .f
    | _, _ => match a.cmp? b with
      | some o => Tri.ofBool (o == .eq)
      | none => .f
  | _ =>
    match a.cmp? b with
    | none => .u
    | some o => Tri.ofBool (op.holds o)

/-- `v IN (vs)`: by the SQL definition, the disjunction of the equalities. -/
def inTri (v : Value) : List Value → Tri
  | [] => .f
  | w :: ws => Tri.or (cmpTri .eq v w) (inTri v ws)

/-- `v BETWEEN lo AND hi`: by definition `v >= lo AND v <= hi`. -/
def betweenTri (v lo hi : Value) : Tri :=
  Tri.and (cmpTri .ge v lo) (cmpTri .le v hi)

/-! ## Arithmetic (exact integers; the engine's 64-bit range is C25's subject) -/

inductive ArithOp where
  | add | sub | mul
  | idiv   -- `DIV`, truncating; NULL on division by zero
  | mod    -- `%`, sign of the dividend; NULL on division by zero
  deriving DecidableEq, Repr, Inhabited

def arith (op : ArithOp) : Value → Value → Value
  | .int a, .int b =>
    match op with
    | .add => .int (a + b)
    | .sub => .int (a - b)
    | .mul => .int (a * b)
    | .idiv => if b = 0 then .null else .int (Int.tdiv a b)
    | .mod => if b = 0 then .null else .int (Int.tmod a b)
  | _, _ => .null

def negate : Value → Value
  | .int a => .int (-a)
  | _ => .null

/-! ## Aggregates -/

inductive AggFn where
  | countStar | count | sum | min | max | countDistinct
  deriving DecidableEq, Repr, Inhabited

def nonNull (vs : List Value) : List Value := vs.filter (fun v => !v.isNull)

def sumInts : List Value → Int
  | [] => 0
  | .int i :: vs => i + sumInts vs
  | _ :: vs => sumInts vs

/-- The least (`wantGt = false`) or greatest element of a list under `Value.ord`. -/
def extremum (wantGt : Bool) : List Value → Option Value
  | [] => none
  | v :: vs =>
    match extremum wantGt vs with
    | none => some v
    | some w =>
      let o := v.ord w
      if wantGt then (if o == .lt then some w else some v)
      else (if o == .gt then some w else some v)

/-- Keep the first occurrence of every element. -/
def dedup {α : Type} [DecidableEq α] : List α → List α
  | [] => []
  | a :: l => a :: (dedup l).filter (fun b => b ≠ a)

/-- The value of an aggregate over the argument values of the rows of one group (for
`COUNT(*)` the argument is irrelevant). -/
def aggregate (fn : AggFn) (vs : List Value) : Value :=
  match fn with
  | .countStar => .int vs.length
  | .count => .int (nonNull vs).length
  | .countDistinct => .int (dedup (nonNull vs)).length
  | .sum => if (nonNull vs).isEmpty then .null else .int (sumInts vs)
  | .min => (extremum false (nonNull vs)).getD .null
  | .max => (extremum true (nonNull vs)).getD .null

/-! ## Syntax of expressions and queries -/

inductive JoinKind where
  | inner | left | right
  deriving DecidableEq, Repr, Inhabited

inductive SetOp where
  | union | intersect | except
  deriving DecidableEq, Repr, Inhabited

mutual
inductive Expr where
  | lit (v : Value)
  | col (depth idx : Nat)
  | neg (e : Expr)
  | arith (op : ArithOp) (a b : Expr)
  | cmp (op : CmpOp) (a b : Expr)
  | and (a b : Expr)
  | or (a b : Expr)
  | xor (a b : Expr)
  | not (e : Expr)
  | isNull (e : Expr)
  /-- `e IS TRUE` (`want = true`) / `e IS FALSE`; never NULL. -/
  | isTruth (want : Bool) (e : Expr)
  | inList (e : Expr) (es : List Expr)
  | between (e lo hi : Expr)
  /-- `CASE WHEN c THEN a ELSE b END` (multi-branch CASE is the nested form). -/
  | ite (c a b : Expr)
  /-- `COALESCE(a, b)` (n-ary COALESCE is the nested form). -/
  | coalesce (a b : Expr)
  | exists (q : Query)
  | inSub (e : Expr) (q : Query)
  | scalar (q : Query)

inductive Query where
  /-- base table number `n` of the database -/
  | table (n : Nat)
  /-- WHERE / HAVING -/
  | filter (p : Expr) (q : Query)
  | project (es : List Expr) (q : Query)
  /-- `on` is evaluated on left row ++ right row; a cross join is `inner` with `lit 1` -/
  | join (kind : JoinKind) (on : Expr) (l r : Query)
  /-- output row = key values ++ aggregate values (`fns` and `args` are parallel lists); no keys
  means one group, even over an empty input -/
  | group (keys : List Expr) (fns : List AggFn) (args : List Expr) (q : Query)
  | distinct (q : Query)
  | setop (op : SetOp) (all : Bool) (l r : Query)
  /-- `keys` and `desc` are parallel lists -/
  | orderBy (keys : List Expr) (desc : List Bool) (q : Query)
  | limit (n off : Nat) (q : Query)
end

instance : Inhabited Expr := ⟨.lit .null⟩
instance : Inhabited Query := ⟨.table 0⟩

/-- `NOT IN`, `NOT EXISTS`, `IS NOT NULL`, `NOT BETWEEN` are `not` of the positive form. -/
abbrev Expr.notInSub (e : Expr) (q : Query) : Expr := .not (.inSub e q)
abbrev Expr.notInList (e : Expr) (es : List Expr) : Expr := .not (.inList e es)

end Gms.Sql
