/-
C28 — model of the text wire form of stored values (core-only).

Impl model (transliterations of the Go code that exists, defects included)
* `natText`/`intText`   – `strconv.AppendUint/AppendInt(dest, v, 10)`
* `clampInt`, `sqlInt`  – `NumberTypeImpl_.SQLInt8 … SQLUint64` (sql/types/number.go): clamp to the type's
                          range, then decimal ASCII. `SQLUint24` clamps to `1 << 24` (not `1<<24 - 1`).
* `decText`             – `DecimalType_.AppendStringFixedDecimal` = `(*apd.Decimal).Append(dest, 'f')` of a
                          coefficient at the column's scale: sign, integer digits (at least `0`), `.`, exactly
                          `scale` fraction digits
* `bitText`             – `BitType_.SQL`: `ceil(n/8)` bytes, big endian
* `yearText`            – `YearType_.SQL`: `strconv.AppendInt` (year 0 is printed as `0`)
* `dateText`            – `appendDateFormat`: `0000-00-00` for the zero time; the year through
                          `strconv.AppendInt` (NOT zero padded; only year 0 is written `0000`), `-MM-DD`
* `timeOfDayText`       – `appendTimeFormat` + `appendMicroseconds`
* `datetimeText`        – `appendDatetimeFormat`
* `timeText`            – `Timespan.AppendBytes` (always 6 fraction digits)
* `maxTextLen`          – `MaxTextResponseByteLength` of each type (what `schemaToFields` announces as
                          `ColumnLength`)

Spec
* the inverse readers `parseDec`, `parseYear`, `parseDate`, `parseDatetime`, `parseTime` (what the text
  denotes; for integers and BIT the inverse is the existing Impl model of `Type.Convert` from
  Gms/Model/NumConv.lean), the padded year (`dateTextSpec`, `yearTextSpec`) and `specLen`, the shortest
  announced length that fits every value.
-/
import Gms.Model.NumConv

namespace Gms.Wire
open Gms.Num Gms.Conv

abbrev Bytes := List UInt8

/-! ## Decimal ASCII -/

/-- least significant digit first; `fuel > n` suffices -/
def digitsRev : Nat → Nat → Bytes
  | 0, _ => []
  | f + 1, n => if n < 10 then [UInt8.ofNat (48 + n)] else UInt8.ofNat (48 + n % 10) :: digitsRev f (n / 10)

/-- Go: `strconv.AppendUint(nil, n, 10)` -/
def natText (n : Nat) : Bytes := (digitsRev (n + 1) n).reverse

/-- Go: `strconv.AppendInt(nil, v, 10)` -/
def intText (v : Int) : Bytes := if v < 0 then 45 :: natText v.natAbs else natText v.natAbs

/-- `n` zero-padded on the left to at least `w` digits -/
def padNat (w n : Nat) : Bytes := List.replicate (w - (natText n).length) 48 ++ natText n

/-- two digits `'0'+byte(x/10), '0'+byte(x%10)` (Go computes them without a range check) -/
def two (x : Nat) : Bytes := [UInt8.ofNat (48 + x / 10), UInt8.ofNat (48 + x % 10)]

/-! ## Types and stored values -/

inductive Ty where
  | int (t : ITy)
  | dec (prec scale : Nat)
  | bit (n : Nat)
  | year
  | date
  | datetime (prec : Nat)     -- DATETIME(p) and TIMESTAMP(p) share the code
  | time
  deriving DecidableEq, Repr, Inhabited

/-- A stored value (what `Type.Convert` returns for the column). -/
inductive Val where
  | int (v : Int)
  | dec (coeff : Int)                      -- coefficient at the column's scale
  | bit (v : Nat)
  | year (y : Nat)
  | date (y m d : Nat)                     -- `0 0 0` = the zero date
  | datetime (y m d h mi s us : Nat)       -- `0 0 0 0 0 0 0` = the zero datetime
  | time (neg : Bool) (h mi s us : Nat)
  deriving DecidableEq, Repr, Inhabited

def dim (y m : Nat) : Nat :=
  if m = 2 then (if y % 4 = 0 ∧ (y % 100 ≠ 0 ∨ y % 400 = 0) then 29 else 28)
  else if m = 4 ∨ m = 6 ∨ m = 9 ∨ m = 11 then 30 else 31

def validDate (y m d : Nat) : Prop :=
  (y = 0 ∧ m = 0 ∧ d = 0) ∨ (1 ≤ y ∧ y ≤ 9999 ∧ 1 ≤ m ∧ m ≤ 12 ∧ 1 ≤ d ∧ d ≤ dim y m)

/-- Storable values of a type. -/
def Valid : Ty → Val → Prop
  | .int t, .int v => t.InRange v
  | .dec p s, .dec c => s ≤ p ∧ 1 ≤ p ∧ c.natAbs < 10 ^ p
  | .bit n, .bit v => 1 ≤ n ∧ n ≤ 64 ∧ v < 2 ^ n
  | .year, .year y => y = 0 ∨ (1901 ≤ y ∧ y ≤ 2155)
  | .date, .date y m d => validDate y m d
  | .datetime p, .datetime y m d h mi s us =>
    p ≤ 6 ∧ validDate y m d ∧ h < 24 ∧ mi < 60 ∧ s < 60 ∧ us < 1000000 ∧ us % 10 ^ (6 - p) = 0 ∧
      (y = 0 → h = 0 ∧ mi = 0 ∧ s = 0 ∧ us = 0)
  | .time, .time _ h mi s us => h ≤ 838 ∧ mi < 60 ∧ s < 60 ∧ us < 1000000 ∧ (h = 838 ∧ mi = 59 ∧ s = 59 → us = 0)
  | _, _ => False

instance (y m d : Nat) : Decidable (validDate y m d) := by unfold validDate; infer_instance
instance (t : Ty) (v : Val) : Decidable (Valid t v) := by
  cases t <;> cases v <;> unfold Valid <;> infer_instance

/-! ## Impl model: `Type.SQL` -/

/-- Go: the clamp of `SQLInt8 … SQLUint64` applied to the int64/uint64 the value converts to. -/
def clampInt (t : ITy) (v : Int) : Int :=
  match t with
  | .u24 => if v > 16777216 then 16777216 else v          -- `if num > (1 << 24) { num = 1 << 24 }`
  | .i64 | .u64 => v
  | t => if v > t.hi then t.hi else if v < t.lo then t.lo else v

/-- `convertToInt64` first clamps a `uint64` above `MaxInt64` (signed types only; negative inputs of
unsigned types wrap in `convertToUint64` and are not modelled here). -/
def sqlInt (t : ITy) (v : Int) : Bytes :=
  intText (clampInt t (if !t.unsigned && decide (v > maxI64) then maxI64 else v))

/-- Go: `(*apd.Decimal).Append(dest, 'f')` for coefficient `c`, exponent `-s`. -/
def decText (s : Nat) (c : Int) : Bytes :=
  let a := c.natAbs
  let ip := natText (a / 10 ^ s)
  let body := if s = 0 then ip else ip ++ 46 :: padNat s (a % 10 ^ s)
  if c < 0 then 45 :: body else body

/-- bytes of `v`, least significant first, `k` of them -/
def leBytes : Nat → Nat → Bytes
  | 0, _ => []
  | k + 1, v => UInt8.ofNat (v % 256) :: leBytes k (v / 256)

/-- Go: `BitType_.SQL`: `for i := 0; i < numOfBits; i += 8 { data = append(data, byte(bitVal>>i)) }`, reversed. -/
def bitText (n v : Nat) : Bytes := (leBytes ((n + 7) / 8) v).reverse

def yearText (y : Nat) : Bytes := natText y

/-- Go: `appendDateFormat`. -/
def dateText (y m d : Nat) : Bytes :=
  if y = 0 ∧ m = 0 ∧ d = 0 then [48, 48, 48, 48, 45, 48, 48, 45, 48, 48]
  else (if y = 0 then [48, 48, 48, 48] else natText y) ++ 45 :: two m ++ 45 :: two d

/-- Go: `appendMicroseconds(dest, us, precision)`. -/
def fracText (p us : Nat) : Bytes :=
  if p = 0 then [] else 46 :: padNat p (us / 10 ^ (6 - p))

/-- Go: `appendTimeFormat(dest, h, m, s, us, precision)`. -/
def timeOfDayText (h mi s us p : Nat) : Bytes :=
  (if h < 10 then [48] else []) ++ natText h ++ 58 :: two mi ++ 58 :: two s ++ fracText p us

/-- the zero datetime strings `ZeroTimestampDatetimeStrs[precision]` -/
def zeroDatetimeText (p : Nat) : Bytes :=
  [48, 48, 48, 48, 45, 48, 48, 45, 48, 48, 32, 48, 48, 58, 48, 48, 58, 48, 48] ++
    (if p = 0 then [] else 46 :: List.replicate p 48)

/-- Go: `appendDatetimeFormat`. -/
def datetimeText (p y m d h mi s us : Nat) : Bytes :=
  if y = 0 ∧ m = 0 ∧ d = 0 then zeroDatetimeText p
  else dateText y m d ++ 32 :: timeOfDayText h mi s us p

/-- Go: `Timespan.AppendBytes`. -/
def timeText (neg : Bool) (h mi s us : Nat) : Bytes :=
  (if neg then [45] else []) ++ timeOfDayText h mi s us 6

/-- `Type.SQL(ctx, nil, v)` for a value of the type (`none`: the value is not of this type). -/
def sqlText : Ty → Val → Option Bytes
  | .int t, .int v => some (sqlInt t v)
  | .dec _ s, .dec c => some (decText s c)
  | .bit n, .bit v => some (bitText n v)
  | .year, .year y => some (yearText y)
  | .date, .date y m d => some (dateText y m d)
  | .datetime p, .datetime y m d h mi s us => some (datetimeText p y m d h mi s us)
  | .time, .time neg h mi s us => some (timeText neg h mi s us)
  | _, _ => none

/-- Go: `MaxTextResponseByteLength` (the `ColumnLength` of the field packet). -/
def maxTextLen : Ty → Nat
  | .int .u8 => 3 | .int .i8 => 4 | .int .u16 => 5 | .int .i16 => 6 | .int .u24 => 8 | .int .i24 => 9
  | .int .u32 => 10 | .int .i32 => 11 | .int .u64 => 20 | .int .i64 => 20
  | .dec p s => if s = 0 then p + 1 else p + 2
  | .bit n => n
  | .year => 4
  | .date => 10
  | .datetime _ => 26
  | .time => 17

/-! ## Spec -/

/-- digits of a byte string as a number (`none` if a byte is not a digit or the string is empty) -/
def parseNat? (bs : Bytes) : Option Nat :=
  if bs.isEmpty || !bs.all isDigit then none else some (digitsVal bs 0)

def splitAt (sep : UInt8) : Bytes → Bytes × Option Bytes
  | [] => ([], none)
  | b :: rest =>
    if b = sep then ([], some rest)
    else let (l, r) := splitAt sep rest; (b :: l, r)

/-- What a fixed-point text denotes at scale `s`: the coefficient. -/
def parseDec (s : Nat) (bs : Bytes) : Option Int :=
  let (neg, body) := match bs with
    | 45 :: r => (true, r)
    | r => (false, r)
  let (ip, fp) := splitAt 46 body
  let mag : Option Nat :=
    match parseNat? ip, fp with
    | some i, none => if s = 0 then some i else none
    | some i, some f => if f.length = s ∧ s ≠ 0 then (parseNat? f).map (fun f => i * 10 ^ s + f) else none
    | none, _ => none
  mag.map fun m => if neg then -(m : Int) else (m : Int)

/-- `YearType_.Convert` of a *string* of digits (MySQL rule: the string '0' … '69' is 2000 … 2069,
'70' … '99' is 1970 … 1999; only the *number* 0 is the year 0000, and so is the string '0000'). -/
def parseYear (bs : Bytes) : Option Nat :=
  match parseNat? bs with
  | none => none
  | some n =>
    if bs.length = 4 then (if n = 0 ∨ (1901 ≤ n ∧ n ≤ 2155) then some n else none)
    else if bs.length ≤ 2 then (if n ≤ 69 then some (2000 + n) else some (1900 + n))
    else none

def parse2 (a b : UInt8) : Option Nat :=
  if isDigit a && isDigit b then some ((a.toNat - 48) * 10 + (b.toNat - 48)) else none

/-- `YYYY-MM-DD` with a four-digit year (what the date layouts of `ConvertToTime` accept for a
full date) -/
def parseDate (bs : Bytes) : Option (Nat × Nat × Nat) :=
  match bs with
  | [y1, y2, y3, y4, 45, m1, m2, 45, d1, d2] =>
    match parseNat? [y1, y2, y3, y4], parse2 m1 m2, parse2 d1 d2 with
    | some y, some m, some d => some (y, m, d)
    | _, _, _ => none
  | _ => none

def parseFrac (bs : Bytes) : Option Nat :=
  match bs with
  | [] => some 0
  | 46 :: f => if 1 ≤ f.length ∧ f.length ≤ 6 then (parseNat? f).map (· * 10 ^ (6 - f.length)) else none
  | _ => none

def parseClock (bs : Bytes) : Option (Nat × Nat × Nat × Nat) :=
  match bs with
  | h1 :: h2 :: 58 :: m1 :: m2 :: 58 :: s1 :: s2 :: frac =>
    match parse2 h1 h2, parse2 m1 m2, parse2 s1 s2, parseFrac frac with
    | some h, some m, some s, some us => some (h, m, s, us)
    | _, _, _, _ => none
  | _ => none

def parseDatetime (bs : Bytes) : Option (Nat × Nat × Nat × Nat × Nat × Nat × Nat) :=
  match parseDate (bs.take 10), bs.drop 10 with
  | some (y, m, d), 32 :: clock =>
    match parseClock clock with
    | some (h, mi, s, us) => some (y, m, d, h, mi, s, us)
    | none => none
  | _, _ => none

/-- `[-]H+:MM:SS[.ffffff]` -/
def parseTime (bs : Bytes) : Option (Bool × Nat × Nat × Nat × Nat) :=
  let (neg, body) := match bs with
    | 45 :: r => (true, r)
    | r => (false, r)
  let (hs, rest) := splitAt 58 body
  match parseNat? hs, rest with
  | some h, some (m1 :: m2 :: 58 :: s1 :: s2 :: frac) =>
    match parse2 m1 m2, parse2 s1 s2, parseFrac frac with
    | some mi, some s, some us => some (neg, h, mi, s, us)
    | _, _, _ => none
  | _, _ => none

/-- The value a text denotes for the column type ("converting it back into the column type"). For
integers and BIT this is the Impl model of `Type.Convert` on a string (Gms/Model/NumConv.lean). -/
def denotes (t : Ty) (bs : Bytes) : Option Val :=
  match t with
  | .int it =>
    match convertInt it (.s bs) with
    | ⟨.int v, .inRange, .none⟩ => some (.int v)
    | _ => none
  | .bit n =>
    match convertBit n (.s bs) with
    | ⟨.int v, .inRange, .none⟩ => some (.bit v.toNat)
    | _ => none
  | .dec _ s => (parseDec s bs).map .dec
  | .year => (parseYear bs).map .year
  | .date => (parseDate bs).map fun (y, m, d) => .date y m d
  | .datetime _ => (parseDatetime bs).map fun (y, m, d, h, mi, s, us) => .datetime y m d h mi s us
  | .time => (parseTime bs).map fun (neg, h, mi, s, us) => .time neg h mi s us

/-- negative zero has no representation of its own -/
def normTime : Val → Val
  | .time neg h mi s us => .time (neg && !(h == 0 && mi == 0 && s == 0 && us == 0)) h mi s us
  | v => v

/-! ### Regions (value classes in which the unchanged code violates the property) -/

/-- DECIMAL(p,p) with a negative value: `-0.ddd` is `p + 3` bytes, announced `p + 2`. -/
def DecimalFullScaleNegative : Ty → Val → Prop
  | .dec p s, .dec c => p = s ∧ c < 0
  | _, _ => False

/-- DATE/DATETIME with a year 1 … 999: the year is written without zero padding. -/
def DateYearBelow1000 : Ty → Val → Prop
  | .date, .date y _ _ => 1 ≤ y ∧ y < 1000
  | .datetime _, .datetime y _ _ _ _ _ _ => 1 ≤ y ∧ y < 1000
  | _, _ => False

/-- YEAR 0000 is written `0`, which as a string denotes 2000. -/
def YearZero : Ty → Val → Prop
  | .year, .year y => y = 0
  | _, _ => False

instance (t : Ty) (v : Val) : Decidable (DecimalFullScaleNegative t v) := by
  cases t <;> cases v <;> unfold DecimalFullScaleNegative <;> infer_instance
instance (t : Ty) (v : Val) : Decidable (DateYearBelow1000 t v) := by
  cases t <;> cases v <;> unfold DateYearBelow1000 <;> infer_instance
instance (t : Ty) (v : Val) : Decidable (YearZero t v) := by
  cases t <;> cases v <;> unfold YearZero <;> infer_instance

def regionOf (t : Ty) (v : Val) : String :=
  if DecimalFullScaleNegative t v then "decimal_full_scale_negative"
  else if DateYearBelow1000 t v then "date_year_below_1000"
  else if YearZero t v then "year_zero_text"
  else "-"

/-! ### Spec text: what the property demands where the Impl model deviates -/

/-- the text the property demands: as the code, except that years are four digits -/
def specText : Ty → Val → Option Bytes
  | .year, .year y => some (padNat 4 y)
  | .date, .date y m d =>
    some (if y = 0 ∧ m = 0 ∧ d = 0 then dateText 0 0 0 else padNat 4 y ++ 45 :: two m ++ 45 :: two d)
  | .datetime p, .datetime y m d h mi s us =>
    some (if y = 0 ∧ m = 0 ∧ d = 0 then zeroDatetimeText p
      else padNat 4 y ++ 45 :: two m ++ 45 :: two d ++ 32 :: timeOfDayText h mi s us p)
  | t, v => sqlText t v

/-- the length the property demands to be announced at least: DECIMAL(p,p) needs the leading `0` -/
def specLen : Ty → Nat
  | .dec p s => if s = 0 then p + 1 else if p = s then p + 3 else p + 2
  | t => maxTextLen t

/-! ## Wire level: field packet and binary protocol -/

/-- Column type as the server sees it: TIMESTAMP(p) shares `Type.SQL` with DATETIME(p) but not the
field-packet code. -/
inductive WTy where
  | plain (t : Ty)
  | timestamp (p : Nat)
  deriving DecidableEq, Repr, Inhabited

def WTy.ty : WTy → Ty
  | .plain t => t
  | .timestamp p => .datetime p

/-- Go: `schemaToFields`: `Decimals` is set for DECIMAL (scale) and for `types.IsDatetimeType`
(base type DATETIME only — not TIMESTAMP, not TIME). -/
def fieldDecimals : WTy → Nat
  | .plain (.dec _ s) => s
  | .plain (.datetime p) => p
  | _ => 0

/-- What the property needs: the number of fraction digits the column can hold. -/
def fieldDecimalsSpec : WTy → Nat
  | .plain (.dec _ s) => s
  | .plain (.datetime p) => p
  | .timestamp p => p
  | .plain .time => 6
  | _ => 0

def truncUs (decimals us : Nat) : Nat := us - us % 10 ^ (6 - decimals)

/-- What a binary-protocol client (go-sql-driver) ends up with: temporal values are rendered with
the announced number of fraction digits; `none` = the result stream breaks (vitess converts the
text value to the binary encoding and reads the year from the first four bytes). -/
def binDenoted (wt : WTy) (v : Val) : Option Val :=
  if DateYearBelow1000 wt.ty v then none
  else match v with
    | .datetime y m d h mi s us => some (.datetime y m d h mi s (truncUs (fieldDecimals wt) us))
    | .time neg h mi s us => some (normTime (.time neg h mi s (truncUs (fieldDecimals wt) us)))
    | v => some v

/-- Region: the value has fraction digits the field packet does not announce. -/
def FractionNotAnnounced (wt : WTy) (v : Val) : Prop :=
  match v with
  | .datetime _ _ _ _ _ _ us => truncUs (fieldDecimals wt) us ≠ us
  | .time _ _ _ _ us => truncUs (fieldDecimals wt) us ≠ us
  | _ => False

instance (wt : WTy) (v : Val) : Decidable (FractionNotAnnounced wt v) := by
  cases v <;> unfold FractionNotAnnounced <;> infer_instance

def wireRegionOf (wt : WTy) (v : Val) : String :=
  if regionOf wt.ty v ≠ "-" then regionOf wt.ty v
  else if FractionNotAnnounced wt v ∨ fieldDecimals wt ≠ fieldDecimalsSpec wt then "fraction_decimals_not_announced"
  else "-"

/-! ## Canonical rendering (the harness prints values the same way) -/

def showNat (n : Nat) : String := toString n
def showVal : Val → String
  | .int v => s!"(int {v})"
  | .dec c => s!"(dec {c})"
  | .bit v => s!"(bit {v})"
  | .year y => s!"(year {y})"
  | .date y m d => s!"(date {y} {m} {d})"
  | .datetime y m d h mi s us => s!"(datetime {y} {m} {d} {h} {mi} {s} {us})"
  | .time neg h mi s us => s!"(time {if neg then 1 else 0} {h} {mi} {s} {us})"

end Gms.Wire
