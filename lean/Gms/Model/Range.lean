/-
M4 `Range` — index ranges (core-only). Shared by C46 (range operations) and C03 (filter → range).

Spec layer
* points of one index column are `Option Int` (`none` = NULL, its own lowest point);
* `Cut.isBelow c v` – the cut `c` lies below the point `v`; a cut *is* the up-set of points above it;
* `ColRange.mem`, `Range.mem`, `memAny` – denotation of a column range / n-column range /
  collection.

Impl model layer (transliteration of sql/range_cut.go, sql/range_column_expr.go,
sql/range_mysql.go; every `def` names the Go function it follows, path by path, defects included)
* `Cut.compare`, `cutMax`, `cutMin`, `orderedCuts`
* `ColRange.{equals,isEmpty,isConnected,overlaps,subtract,isSubsetOf,tryIntersect,tryUnion}`,
  `simplify`
* `Range.{isEmpty,equals,compare,intersect,tryMerge,isSubsetOf,overlaps}`, `removeOverlap`,
  `intersectRanges` (F-C46-a repaired by a `fix:` commit; pre-fix model kept as `intersectRangesPreFix`), `sortRanges`, `validate`
* `rorLoop`/`removeOverlappingRanges` – the worklist of `RemoveOverlappingRanges` over an abstract
  tree interface `TreeOps` (the tree itself: `Gms/Model/RangeTree.lean`).

Keys are `Int` (the harness uses one integer key type for all columns; `Type.Compare` on int64 is
`cmpKey`). Go errors from `Compare` cannot occur for this key type and are not modelled.
-/
namespace Gms.Range

/-! ## Cuts -/

inductive Cut where
  | belowNull
  | aboveNull
  | below (k : Int)
  | above (k : Int)
  | aboveAll
  deriving DecidableEq, Repr, Inhabited

/-- Go: `Type.Compare` on two int64 keys. -/
def cmpKey (a b : Int) : Int := if a < b then -1 else if a = b then 0 else 1

/-- Go: `Above.Compare`, `AboveAll.Compare`, `Below.Compare`, `AboveNull.Compare`,
`BelowNull.Compare` (range_cut.go), one line per `case`. -/
def Cut.compare : Cut → Cut → Int
  -- Above.Compare
  | .above _, .aboveAll => -1
  | .above _, .aboveNull => 1
  | .above a, .above c => cmpKey a c
  | .above a, .below c => if cmpKey a c = -1 then -1 else 1
  | .above _, .belowNull => 1
  -- AboveAll.Compare
  | .aboveAll, .aboveAll => 0
  | .aboveAll, _ => 1
  -- Below.Compare
  | .below _, .aboveAll => -1
  | .below _, .aboveNull => 1
  | .below b, .below c => cmpKey b c
  | .below b, .above c => if cmpKey c b = -1 then 1 else -1
  | .below _, .belowNull => 1
  -- AboveNull.Compare
  | .aboveNull, .aboveNull => 0
  | .aboveNull, .belowNull => 1
  | .aboveNull, _ => -1
  -- BelowNull.Compare
  | .belowNull, .belowNull => 0
  | .belowNull, _ => -1

/-- Spec: the cut lies below the point. Points of one column are `Option Int`: `none` = NULL (its
own lowest point); the key `k` sits at the point `some (2 * k)` (`keyPt`), odd points lie strictly
between consecutive integer keys, so that the order of points is as fine as the order of cuts
(Go's cuts range over arbitrary — dense — key types: `(Above 1, Below 2)` is a non-empty range). -/
def Cut.isBelow : Cut → Option Int → Bool
  | .belowNull, _ => true
  | .aboveNull, v => v.isSome
  | .below k, some x => decide (2 * k ≤ x)
  | .below _, none => false
  | .above k, some x => decide (2 * k < x)
  | .above _, none => false
  | .aboveAll, _ => false

/-- The point of a key value. -/
def keyPt (k : Int) : Option Int := some (2 * k)

/-- Go: `GetMySQLRangeCutMax(ctx, typ, a, b)` with two non-nil cuts. -/
def cutMax (a b : Cut) : Cut := if a.compare b = -1 then b else a

/-- Go: `GetMySQLRangeCutMin(ctx, typ, a, b)` with two non-nil cuts. -/
def cutMin (a b : Cut) : Cut := if a.compare b = 1 then b else a

/-- Go: `OrderedCuts`. -/
def orderedCuts (l r : Cut) : Cut × Cut := if l.compare r ≤ 0 then (l, r) else (r, l)

/-! ## Column ranges -/

structure ColRange where
  lo : Cut
  hi : Cut
  deriving DecidableEq, Repr, Inhabited

namespace ColRange

/-- Spec: membership of a point. -/
def mem (r : ColRange) (v : Option Int) : Bool := r.lo.isBelow v && !r.hi.isBelow v

/-- Go: `EmptyRangeColumnExpr`. -/
def empty : ColRange := ⟨.aboveAll, .aboveAll⟩
/-- Go: `AllRangeColumnExpr`. -/
def all : ColRange := ⟨.belowNull, .aboveAll⟩
/-- Go: `NullRangeColumnExpr`. -/
def null : ColRange := ⟨.belowNull, .aboveNull⟩
/-- Go: `NotNullRangeColumnExpr`. -/
def notNull : ColRange := ⟨.aboveNull, .aboveAll⟩
/-- Go: `ClosedRangeColumnExpr(l, u)` with non-nil keys. -/
def closed (l u : Int) : ColRange := ⟨.below l, .above u⟩
/-- Go: `OpenRangeColumnExpr(l, u)` with non-nil keys. -/
def opened (l u : Int) : ColRange := ⟨.above l, .below u⟩
/-- Go: `LessThanRangeColumnExpr`. -/
def lessThan (u : Int) : ColRange := ⟨.aboveNull, .below u⟩
/-- Go: `LessOrEqualRangeColumnExpr`. -/
def lessOrEqual (u : Int) : ColRange := ⟨.aboveNull, .above u⟩
/-- Go: `GreaterThanRangeColumnExpr`. -/
def greaterThan (l : Int) : ColRange := ⟨.above l, .aboveAll⟩
/-- Go: `GreaterOrEqualRangeColumnExpr`. -/
def greaterOrEqual (l : Int) : ColRange := ⟨.below l, .aboveAll⟩

/-- Go: `MySQLRangeColumnExpr.Equals`. -/
def equals (r o : ColRange) : Bool := r.lo.compare o.lo == 0 && r.hi.compare o.hi == 0

/-- Go: `MySQLRangeColumnExpr.IsEmpty`. -/
def isEmpty (r : ColRange) : Bool := decide (r.lo.compare r.hi ≥ 0)

/-- Go: `MySQLRangeColumnExpr.IsConnected` (both sides have the same key type). -/
def isConnected (r o : ColRange) : Bool :=
  if r.lo.compare o.hi > 0 then false else decide (o.lo.compare r.hi ≤ 0)

/-- Go: `MySQLRangeColumnExpr.Overlaps`. -/
def overlaps (r o : ColRange) : ColRange × Bool :=
  if r.lo.compare o.hi ≥ 0 then (empty, false)
  else if o.lo.compare r.hi ≥ 0 then (empty, false)
  else (⟨cutMax r.lo o.lo, cutMin r.hi o.hi⟩, true)

/-- Which bound a piece returned by `Subtract` takes. -/
inductive Sel where
  | rLo | rHi | oLo | oHi
  deriving DecidableEq, Repr

def Sel.pick (r o : ColRange) : Sel → Cut
  | .rLo => r.lo | .rHi => r.hi | .oLo => o.lo | .oHi => o.hi

/-- Go: the nine-case `switch (3 * (lComp + 1)) + (uComp + 1)` of `Subtract`: case number ↦ the
pieces returned, each as (lower bound, upper bound) selectors. `none` = the `default` panic. -/
def subtractCase : Int → Option (List (Sel × Sel))
  | 0 => some [(.rLo, .oLo)]
  | 1 => some [(.rLo, .oLo)]
  | 2 => some [(.rLo, .oLo), (.oHi, .rHi)]
  | 3 => some []
  | 4 => some []
  | 5 => some [(.oHi, .rHi)]
  | 6 => some []
  | 7 => some []
  | 8 => some [(.oHi, .rHi)]
  | _ => none

/-- Go: `MySQLRangeColumnExpr.Subtract` (`none` = panic of the default case). -/
def subtract (r o : ColRange) : Option (List ColRange) :=
  if !(r.overlaps o).2 then some [r]
  else
    let lComp := r.lo.compare o.lo
    let uComp := r.hi.compare o.hi
    (subtractCase (3 * (lComp + 1) + (uComp + 1))).map
      (fun ps => ps.map (fun p => ⟨p.1.pick r o, p.2.pick r o⟩))

/-- Go: `MySQLRangeColumnExpr.IsSubsetOf`. -/
def isSubsetOf (r o : ColRange) : Bool :=
  if r.lo.compare o.lo = -1 then false
  else if r.hi.compare o.hi = 1 then false
  else true

/-- Go: `MySQLRangeColumnExpr.TryIntersect`. -/
def tryIntersect (r o : ColRange) : ColRange × Bool :=
  let l := (orderedCuts r.lo o.lo).2
  let u := (orderedCuts r.hi o.hi).1
  if l.compare u < 0 then (⟨l, u⟩, true) else (empty, false)

/-- Go: `MySQLRangeColumnExpr.TryUnion` (the range returned with `false` is the zero value and is
never used by callers; the model returns `empty` there). -/
def tryUnion (r o : ColRange) : ColRange × Bool :=
  if o.isEmpty then (r, true)
  else if r.isEmpty then (o, true)
  else if !r.isConnected o then (empty, false)
  else (⟨(orderedCuts r.lo o.lo).1, (orderedCuts r.hi o.hi).2⟩, true)

/-- Go: `rangeColumnExprSlice.Less`. -/
def less (a b : ColRange) : Bool :=
  let lc := a.lo.compare b.lo
  if lc < 0 then true else if lc > 0 then false else decide (a.hi.compare b.hi < 0)

end ColRange

/-- Insertion into a list sorted by `lt` (after all elements that are not greater). -/
def insertSorted {α : Type} (lt : α → α → Bool) (x : α) : List α → List α
  | [] => [x]
  | y :: ys => if lt x y then x :: y :: ys else y :: insertSorted lt x ys

/-- Go: `sort.Sort` / `sort.Slice` with a strict weak order whose equivalence is identity on the
compared fields: every correct sort returns the same list; modelled by insertion sort. -/
def sortBy {α : Type} (lt : α → α → Bool) (l : List α) : List α :=
  l.foldl (fun acc x => insertSorted lt x acc) []

/-- Go: loop body of `SimplifyRangeColumn`: state is (res, cur). -/
def simplifyStep (st : List ColRange × ColRange) (r : ColRange) : List ColRange × ColRange :=
  let res := st.1
  let cur := st.2
  if (cur.tryUnion r).2 then (res, (cur.tryUnion r).1)
  else if !cur.isEmpty then (res ++ [cur], r)
  else (res, cur)

/-- Go: `SimplifyRangeColumn` (one key type, so the type check passes). -/
def simplify (rces : List ColRange) : List ColRange :=
  if rces.isEmpty then []
  else
    let sorted := sortBy ColRange.less rces
    let st := sorted.foldl simplifyStep ([], ColRange.empty)
    if !st.2.isEmpty then st.1 ++ [st.2] else st.1

/-! ## n-column ranges -/

abbrev Range := List ColRange
abbrev Tuple := List (Option Int)

namespace Range

/-- Spec: membership of a key tuple (one point per index column). -/
def mem : Range → Tuple → Bool
  | [], [] => true
  | c :: cs, v :: vs => c.mem v && mem cs vs
  | _, _ => false

/-- Go: `MySQLRange.AsEmpty`. -/
def asEmpty (r : Range) : Range := r.map (fun _ => ColRange.empty)

/-- Go: `MySQLRange.IsEmpty`. -/
def isEmpty (r : Range) : Bool := List.isEmpty r || List.any r ColRange.isEmpty

def all2 (p : ColRange → ColRange → Bool) : Range → Range → Bool
  | a :: as, b :: bs => p a b && all2 p as bs
  | _, _ => true

/-- Go: `MySQLRange.Equals`. -/
def equals (a b : Range) : Bool := a.length == b.length && all2 ColRange.equals a b

def compareCols : Range → Range → Int
  | a :: as, b :: bs =>
    let c := a.lo.compare b.lo
    if c ≠ 0 then c else
    let c := a.hi.compare b.hi
    if c ≠ 0 then c else compareCols as bs
  | _, _ => 0

/-- Go: `MySQLRange.Compare` (`none` = the "matching lengths" error). -/
def compare (a b : Range) : Option Int :=
  if a.length ≠ b.length then none else some (compareCols a b)

def intersectCols : Range → Range → Option Range
  | a :: as, b :: bs =>
    if !(a.tryIntersect b).2 then none else (intersectCols as bs).map ((a.tryIntersect b).1 :: ·)
  | _, _ => some []

/-- Go: `MySQLRange.Intersect` (`[]` = nil when the lengths differ). -/
def intersect (a b : Range) : Range :=
  if a.length ≠ b.length then []
  else match intersectCols a b with
    | none => a.asEmpty
    | some r => r

/-- Go: `MySQLRange.IsSubsetOf`. -/
def isSubsetOf (a b : Range) : Bool :=
  if a.length ≠ b.length then false else all2 ColRange.isSubsetOf a b

/-- Go: `MySQLRange.Overlaps` (and `IsConnected`, which has the same body). -/
def overlaps (a b : Range) : Bool :=
  if a.length ≠ b.length then false else all2 (fun x y => (x.overlaps y).2) a b

/-- Indices of the columns that are not `Equals` (ascending). -/
def diffIdx : Range → Range → List Nat
  | a :: as, b :: bs =>
    if a.equals b then (diffIdx as bs).map (· + 1) else 0 :: (diffIdx as bs).map (· + 1)
  | _, _ => []

inductive MergeRes where
  | no
  | yes (r : Range)
  | err            -- "invalid index to merge"
  deriving DecidableEq, Repr

/-- Go: `MySQLRange.TryMerge`. -/
def tryMerge (a b : Range) : MergeRes :=
  if a.length ≠ b.length then .no
  else if b.isSubsetOf a then .yes a
  else if a.isSubsetOf b then .yes b
  else match diffIdx a b with
    | [] => .err
    | [i] =>
      let u := (a[i]?.getD default).tryUnion (b[i]?.getD default)
      if u.2 then .yes (a.set i u.1) else .no
    | _ => .no

end Range

inductive RO where
  | fuel                                   -- recursion budget of the model exhausted
  | err                                    -- Go error ("invalid index to merge")
  | crash                                  -- Go panic (`Subtract` default case)
  | res (rs : List Range) (ok : Bool)
  deriving DecidableEq, Repr

/-- Go: `MySQLRange.RemoveOverlap`. The Go recursion replaces the first differing column by the
common overlap in both ranges, so it ends after at most `len` calls; the model takes fuel. -/
def removeOverlap : Nat → Range → Range → RO
  | 0, _, _ => .fuel
  | fuel + 1, a, b =>
    match a.tryMerge b with
    | .err => .err
    | .yes m => .res [m] true
    | .no =>
      if !a.overlaps b then .res [a, b] false
      else match Range.diffIdx a b with
        | [] => .res [] true
        | i :: _ =>
          let ai := a[i]?.getD default
          let bi := b[i]?.getD default
          let ov := (ai.overlaps bi).1
          match ai.subtract ov, bi.subtract ov with
          | some s1, some s2 =>
            match removeOverlap fuel (a.set i ov) (b.set i ov) with
            | .res rs _ => .res (s1.map (a.set i ·) ++ s2.map (b.set i ·) ++ rs) true
            | e => e
          | _, _ => .crash

/-- Fuel that always suffices (see `Gms.C46.removeOverlap_fuel`). -/
def removeOverlapFuel (a : Range) : Nat := a.length + 1

/-- Go: `IntersectRanges` before the repair (commit "fix: IntersectRanges …" in /repo): `newRange`
was computed and dropped, the first non-nil range was returned (F-C46-a). Kept only so that the
repaired defect stays documented by a machine-checked witness (`Gms.C46.fixed_intersectRanges_result_discarded`). -/
def intersectRangesLoopPreFix (rang : Range) : List Range → Range
  | [] => rang
  | rc :: rest =>
    if rc.length = 0 then intersectRangesLoopPreFix rang rest
    else
      let newRange := rang.intersect rc
      if newRange.length = 0 then [] else intersectRangesLoopPreFix rang rest

def intersectRangesPreFix (ranges : List Range) : Range :=
  match ranges.dropWhile (fun rc => rc.length = 0) with
  | [] => []
  | rang :: rest => intersectRangesLoopPreFix rang rest

/-- Go: `IntersectRanges` — as written now: the second loop assigns `rang = newRange`. -/
def intersectRangesLoop (rang : Range) : List Range → Range
  | [] => rang
  | rc :: rest =>
    if rc.length = 0 then intersectRangesLoop rang rest
    else
      let newRange := rang.intersect rc
      if newRange.length = 0 then [] else intersectRangesLoop newRange rest

def intersectRanges (ranges : List Range) : Range :=
  match ranges.dropWhile (fun rc => rc.length = 0) with
  | [] => []
  | rang :: rest => intersectRangesLoop rang rest

/-- Spec: what `IntersectRanges` documents: the running intersection is carried along
(`rang = newRange`). -/
def intersectRangesSpecLoop (rang : Range) : List Range → Range
  | [] => rang
  | rc :: rest =>
    if rc.length = 0 then intersectRangesSpecLoop rang rest
    else
      let newRange := rang.intersect rc
      if newRange.length = 0 then [] else intersectRangesSpecLoop newRange rest

def intersectRangesSpec (ranges : List Range) : Range :=
  match ranges.dropWhile (fun rc => rc.length = 0) with
  | [] => []
  | rang :: rest => intersectRangesSpecLoop rang rest

def rangeLess (a b : Range) : Bool := Range.compareCols a b == -1

/-- Go: `SortRanges` on ranges of one length. -/
def sortRanges (rs : List Range) : List Range := sortBy rangeLess rs

/-- Go: `validateRangeCollection`: `true` = no error. -/
def validate : List Range → Bool
  | [] => true
  | r :: rs => rs.all (fun s => !r.overlaps s) && validate rs

/-- Spec: a tuple is a member of some range of the collection. -/
def memAny (rs : List Range) (v : Tuple) : Bool := rs.any (·.mem v)

/-! ## `RemoveOverlappingRanges` over an abstract tree -/

/-- The operations `RemoveOverlappingRanges` uses of `MySQLRangeColumnExprTree`. `none` models a
Go panic inside the tree code. -/
structure TreeOps (T : Type) where
  new : Range → T
  find : T → Range → Option (List Range)
  insert : T → Range → Option T
  remove : T → Range → Option T
  /-- stored ranges in iteration order (what `GetRangeCollection` walks over) -/
  toList : T → Option (List Range)

inductive Found where
  | none
  | crash
  | err
  | fuel
  | hit (conn : Range) (newRanges : List Range)

/-- Go: the inner `for _, connectingRange := range connectingRanges` loop. -/
def firstOverlap (rang : Range) : List Range → Found
  | [] => .none
  | c :: cs =>
    match removeOverlap (removeOverlapFuel c) c rang with
    | .fuel => .fuel
    | .err => .err
    | .crash => .crash
    | .res rs true => .hit c rs
    | .res _ false => firstOverlap rang cs

inductive Res (α : Type) where
  | ok (x : α)
  | err (msg : String)
  | crash
  | fuel
  deriving Repr, DecidableEq

/-- Go: the outer `for i := 1; i < len(ranges); i++` loop; `pending` is `ranges[i:]` (new ranges
are appended to it). -/
def rorLoop {T : Type} (ops : TreeOps T) : Nat → T → List Range → Res T
  | _, t, [] => .ok t
  | 0, _, _ :: _ => .fuel
  | fuel + 1, t, rang :: rest =>
    match ops.find t rang with
    | none => .crash
    | some conns =>
      match firstOverlap rang conns with
      | .crash => .crash
      | .err => .err "invalid index to merge"
      | .fuel => .fuel
      | .hit c newRanges =>
        match ops.remove t c with
        | none => .crash
        | some t' => rorLoop ops fuel t' (rest ++ newRanges)
      | .none =>
        match ops.insert t rang with
        | none => .crash
        | some t' => rorLoop ops fuel t' rest

/-- Go: the merge loop of `GetRangeCollection` over the stored ranges in iteration order; state is
(rangeCollection, emptyRange). -/
def collectStep (st : Option (List Range × Range)) (rang : Range) : Option (List Range × Range) :=
  match st with
  | none => none
  | some (coll, emptyRange) =>
    if !rang.isEmpty then
      match coll.getLast? with
      | some last =>
        match last.tryMerge rang with
        | .err => none
        | .yes m => some (coll.dropLast ++ [m], emptyRange)
        | .no => some (coll ++ [rang], emptyRange)
      | none => some ([rang], emptyRange)
    else some (coll, rang)

/-- Go: `GetRangeCollection` given the iteration order (`none` = "invalid index to merge"). -/
def getRangeCollection (stored : List Range) : Option (List Range) :=
  match stored.foldl collectStep (some ([], [])) with
  | none => none
  | some (coll, emptyRange) => if coll.isEmpty then some [emptyRange] else some coll

/-- Go: `RemoveOverlappingRanges` (all ranges have one length ≥ 1). -/
def removeOverlappingRanges {T : Type} (ops : TreeOps T) (fuel : Nat) (ranges : List Range) :
    Res (List Range) :=
  match ranges with
  | [] => .ok []
  | r0 :: rest =>
    match rorLoop ops fuel (ops.new r0) rest with
    | .crash => .crash
    | .fuel => .fuel
    | .err m => .err m
    | .ok t =>
      match ops.toList t with
      | none => .crash
      | some stored =>
        match getRangeCollection stored with
        | none => .err "invalid index to merge"
        | some coll => if validate coll then .ok coll else .err "overlapping ranges"

/-- Go: `MySQLRangeCollection.Intersect`. -/
def collectionIntersect {T : Type} (ops : TreeOps T) (fuel : Nat) (xs ys : List Range) :
    Res (List Range) :=
  let newRanges := xs.flatMap (fun x => (ys.map (fun y => x.intersect y)).filter (fun r => r.length > 0))
  removeOverlappingRanges ops fuel newRanges

/-! ### The tree as a plain set (sorted duplicate-free list): the Spec of range_tree.go -/

def listInsert (t : List Range) (r : Range) : List Range :=
  if t.any (fun x => x.equals r) then t else insertSorted rangeLess r t

def listTree : TreeOps (List Range) where
  new := fun r => [r]
  find := fun t r => some (t.filter (fun x => x.length == r.length && Range.all2 ColRange.isConnected r x))
  insert := fun t r => some (listInsert t r)
  remove := fun t r => some (t.filter (fun x => !x.equals r))
  toList := fun t => some t

end Gms.Range
