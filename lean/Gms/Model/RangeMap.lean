/-
C30 — model of sql/encodings/rangemap.go (core-only).

Bytes are `Nat`s below 256 (the driver only feeds such values); Go's `byte` arithmetic is written
out with `% 256`. `input` side = bytes of the character set, `output` side = UTF-8 bytes (the
engine's internal string encoding).

Impl model (transliteration of the Go code that exists, defects included)
* `contains`, `toIdx`, `fromIdx`   – `rangeBounds.contains` and the two arithmetic loops of
                                     `DecodeRune` / `EncodeRune`
* `convRune`                       – the body shared (textually mirrored) by `DecodeRune`/`EncodeRune`
* `decodeRune`, `encodeRune`       – its two instances
* `scan`, `convLoop`               – the `for ; n <= len(rm.inputEntries); n++` search and the outer
                                     `for len(str) > 0` loop of `Decode` and `Encode` (both guarded by
                                     `if n > len(str) { return nil, false }` since the repair of finding
                                     `encode_unrepresentable_tail`; `extra` is what lies between `len`
                                     and `cap` of the argument slice — an unguarded loop reads it)
* `decode`, `encode`, `replace`    – `Decode`, `Encode`, `EncodeReplaceUnknown`
* `encodePreFix`                   – `Encode` as it was before the repair (NOT guarded: `str[:n]` may
                                     exceed the slice); kept only to state `fixed_encode_unrepresentable_tail`
* `utf8Len`                        – size returned by Go's `utf8.DecodeRune`

Spec
* `encodeRuneSpec`                 – a unit is encodable iff the produced bytes decode back to it
* `encodeSpec`, `replaceSpec`      – the same (guarded) loops over `encodeRuneSpec`; never crash,
                                     report (`fail`) resp. write one `?` per unrepresentable character

Shape assumption of the model: `contains`/`toIdx`/`fromIdx` walk their lists in lock-step (Go indexes
`r[i]`, `inputMults[i]`, `outputMults[i]` and divides by `outputMults[i]`); on tables that satisfy
`wfB` (checked by `decide` over the regenerated tables) all those lists have equal lengths and
the divisors are positive, so Go's index/zero-division panics cannot occur there.
-/
namespace Gms.RangeMap

abbrev Bounds := List (Nat × Nat)

structure Entry where
  inR : Bounds
  outR : Bounds
  inM : List Nat
  outM : List Nat
  deriving Repr, Inhabited

structure RangeMap where
  inE : List (List Entry)
  outE : List (List Entry)
  deriving Repr, Inhabited

/-- Go: `rangeBounds.contains` (walks `r`; `data` is assumed at least as long). -/
def contains : Bounds → List Nat → Bool
  | [], _ => true
  | (lo, hi) :: bs, d :: ds => !(decide (lo > d) || decide (hi < d)) && contains bs ds
  | _ :: _, [] => false

/-- Go: `for i := len(src)-1; i >= 0; i-- { increase += int(r[i]-src[i][0]) * srcMults[i] }`. -/
def toIdx : Bounds → List Nat → List Nat → Nat
  | (lo, _) :: bs, m :: ms, d :: ds => ((d + 256 - lo) % 256) * m + toIdx bs ms ds
  | _, _, _ => 0

/-- Go: `for i := 0; i < len(dst); i++ { diff := increase / dstMults[i]; out[i] = dst[i][0] + byte(diff);
increase -= diff * dstMults[i] }`. -/
def fromIdx : Bounds → List Nat → Nat → List Nat
  | (lo, _) :: bs, m :: ms, inc =>
    let diff := inc / m
    ((lo + diff % 256) % 256) :: fromIdx bs ms (inc - diff * m)
  | _, _, _ => []

/-- Go: `for _, entry := range tbl[len(r)-1] { if entry.<src>.contains(r) {…} }` – the first entry. -/
def lookup (tbl : List (List Entry)) (src : Entry → Bounds) (r : List Nat) : Option Entry :=
  (tbl.getD (r.length - 1) []).find? (fun e => contains (src e) r)

/-- Body of `DecodeRune` / `EncodeRune` (the two Go functions are mirror images). `r = []` makes
the Go code panic (`tbl[-1]`); no caller passes it, the model answers `none`. -/
def convRune (tbl : List (List Entry)) (src dst : Entry → Bounds) (sm dm : Entry → List Nat)
    (r : List Nat) : Option (List Nat) :=
  if r.length = 0 ∨ r.length > tbl.length then none
  else match lookup tbl src r with
    | some e => some (fromIdx (dst e) (dm e) (toIdx (src e) (sm e) r))
    | none => none

def decodeRune (rm : RangeMap) (r : List Nat) : Option (List Nat) :=
  convRune rm.inE Entry.inR Entry.outR Entry.inM Entry.outM r

def encodeRune (rm : RangeMap) (r : List Nat) : Option (List Nat) :=
  convRune rm.outE Entry.outR Entry.inR Entry.outM Entry.inM r

/-- Result of a whole-string conversion. `crash` = the Go code panics. -/
inductive Res where
  | ok (bs : List Nat)
  | fail
  | crash
  deriving DecidableEq, Repr, Inhabited

def Res.prepend (out : List Nat) : Res → Res
  | .ok bs => .ok (out ++ bs)
  | .fail => .fail
  | .crash => .crash

/-- Outcome of the inner search loop. -/
inductive Scan where
  | found (n : Nat) (out : List Nat)
  | short (n : Nat)      -- the length guard fired (`n > len(str)`)
  | exhausted            -- `n > len(rm.inputEntries)`
  | oob                  -- `str[:n]` with `n > cap(str)`: panic
  deriving DecidableEq, Repr, Inhabited

/-- The inner loop `for ; n <= L; n++`, `k` = iterations left (`n + k = L + 1`).
`guard`: the loop checks `n > len(str)` before slicing (`Decode`, `EncodeReplaceUnknown`).
`buf` is the slice up to its capacity, `len` its length. -/
def scan (f : List Nat → Option (List Nat)) (guard : Bool) (buf : List Nat) (len : Nat) :
    Nat → Nat → Scan
  | _, 0 => .exhausted
  | n, k + 1 =>
    if guard && decide (n > len) then .short n
    else if n > buf.length then .oob
    else match f (buf.take n) with
      | some out => .found n out
      | none => scan f guard buf len (n + 1) k

/-- The outer loop of `Decode` / `Encode` (guard; the pre-fix `Encode` had none). `fuel` bounds the iterations
(each consumes at least one byte). `extra` = bytes between `len(str)` and `cap(str)`. -/
def convLoop (f : List Nat → Option (List Nat)) (guard : Bool) (L : Nat) (extra : List Nat) :
    Nat → List Nat → Res
  | 0, _ => .fail
  | fuel + 1, str =>
    if str.isEmpty then .ok []
    else match scan f guard (str ++ extra) str.length 1 L with
      | .found n out =>
        -- `str = str[n:]` panics when `n > len(str)`
        if n > str.length then .crash
        else (convLoop f guard L extra fuel (str.drop n)).prepend out
      | .oob => .crash
      | _ => .fail

/-- Go: `RangeMap.Decode`. -/
def decode (rm : RangeMap) (s : List Nat) : Res :=
  convLoop (decodeRune rm) true rm.inE.length [] (s.length + 1) s

/-- Go: `RangeMap.Encode`; the loop bound is `len(rm.inputEntries)` there too. The search loop has
the same length guard as `Decode` (repair of finding `encode_unrepresentable_tail`). `extra` (the
bytes between `len(str)` and `cap(str)`) is kept as a parameter so that "the spare capacity is never
read" is a statement (`C30.encode_capacity_irrelevant`). -/
def encode (rm : RangeMap) (s : List Nat) (extra : List Nat := []) : Res :=
  convLoop (encodeRune rm) true rm.inE.length extra (s.length + 1) s

/-- `RangeMap.Encode` before the repair: the search loop sliced `str[:n]` without the length guard. -/
def encodePreFix (rm : RangeMap) (s : List Nat) (extra : List Nat := []) : Res :=
  convLoop (encodeRune rm) false rm.inE.length extra (s.length + 1) s

/-- Size returned by Go's `utf8.DecodeRune` (1 for an invalid or truncated sequence, 0 for none). -/
def utf8Len : List Nat → Nat
  | [] => 0
  | b0 :: rest =>
    let cont := fun (b : Nat) => decide (0x80 ≤ b) && decide (b ≤ 0xBF)
    if b0 < 0xC2 then 1
    else if b0 < 0xE0 then
      match rest with
      | b1 :: _ => if cont b1 then 2 else 1
      | _ => 1
    else if b0 < 0xF0 then
      let lo := if b0 = 0xE0 then 0xA0 else 0x80
      let hi := if b0 = 0xED then 0x9F else 0xBF
      match rest with
      | b1 :: b2 :: _ => if decide (lo ≤ b1) && decide (b1 ≤ hi) && cont b2 then 3 else 1
      | _ => 1
    else if b0 < 0xF5 then
      let lo := if b0 = 0xF0 then 0x90 else 0x80
      let hi := if b0 = 0xF4 then 0x8F else 0xBF
      match rest with
      | b1 :: b2 :: b3 :: _ =>
        if decide (lo ≤ b1) && decide (b1 ≤ hi) && cont b2 && cont b3 then 4 else 1
      | _ => 1
    else 1

/-- The outer loop of `EncodeReplaceUnknown`. `collapse = true` is the Go code: when the search
stops because `n > len(str)` (fewer than `L` bytes left, none of their prefixes encodable) the
*whole rest* is replaced by a single `?`. `collapse = false` is the Spec: fall back to the UTF-8
rune length as in the `n > L` case. -/
def replLoop (f : List Nat → Option (List Nat)) (collapse : Bool) (L : Nat) :
    Nat → List Nat → Res
  | 0, _ => .fail
  | fuel + 1, str =>
    if str.isEmpty then .ok []
    else
      let fallback : Nat × List Nat :=
        let n := utf8Len str
        (if n = 0 then 1 else n, [63])
      let (n, out) : Nat × List Nat :=
        match scan f true str str.length 1 L with
        | .found n out => (n, out)
        | .exhausted => fallback
        | .short n => if collapse then (n, []) else fallback
        | .oob => (0, [])   -- unreachable (guarded scan); `str[:n]` would have panicked
      let n := if n ≥ str.length then str.length else n
      let out := if out.isEmpty then [63] else out
      -- `str = str[n:]` (n ≤ len(str) here; n = 0 would loop forever: modelled as crash)
      if n = 0 then .crash
      else (replLoop f collapse L fuel (str.drop n)).prepend out

/-- Go: `RangeMap.EncodeReplaceUnknown`. -/
def replace (rm : RangeMap) (s : List Nat) : Res :=
  replLoop (encodeRune rm) true rm.inE.length (s.length + 1) s

/-! ### Spec -/

/-- A unit is representable iff it encodes to bytes that decode back to it. -/
def encodeRuneSpec (rm : RangeMap) (r : List Nat) : Option (List Nat) :=
  match encodeRune rm r with
  | some c => if decodeRune rm c = some r then some c else none
  | none => none

/-- Spec of `Encode`: guarded loop (reports instead of panicking) over representable units. -/
def encodeSpec (rm : RangeMap) (s : List Nat) : Res :=
  convLoop (encodeRuneSpec rm) true rm.inE.length [] (s.length + 1) s

/-- Spec of `EncodeReplaceUnknown`: one `?` per unrepresentable character. -/
def replaceSpec (rm : RangeMap) (s : List Nat) : Res :=
  replLoop (encodeRuneSpec rm) false rm.inE.length (s.length + 1) s

/-! ### Well-formedness of a table (decidable; proved by `decide` over the regenerated tables) -/

def card : Bounds → Nat
  | [] => 1
  | (lo, hi) :: rest => (hi - lo + 1) * card rest

/-- Mixed-radix place values of a box. -/
def pv : Bounds → List Nat
  | [] => []
  | _ :: rest => card rest :: pv rest

def boundsOK : Bounds → Bool
  | [] => true
  | (lo, hi) :: rest => Nat.ble lo hi && Nat.blt hi 256 && boundsOK rest

/-- Two boxes share no point on their common coordinates. -/
def disjointB : Bounds → Bounds → Bool
  | (l1, h1) :: a, (l2, h2) :: b => Nat.blt h1 l2 || Nat.blt h2 l1 || disjointB a b
  | _, _ => false

def boundsEqB : Bounds → Bounds → Bool
  | [], [] => true
  | (a, b) :: x, (c, d) :: y => Nat.beq a c && Nat.beq b d && boundsEqB x y
  | _, _ => false

def natsEqB : List Nat → List Nat → Bool
  | [], [] => true
  | a :: x, c :: y => Nat.beq a c && natsEqB x y
  | _, _ => false

def Entry.eqB (a b : Entry) : Bool :=
  boundsEqB a.inR b.inR && boundsEqB a.outR b.outR && natsEqB a.inM b.inM && natsEqB a.outM b.outM

/-- One entry: boxes inside the byte range, multipliers are the place values, and the character
set side is not larger than the UTF-8 side (every charset unit has an image). -/
def entryOK (e : Entry) : Bool :=
  boundsOK e.inR && boundsOK e.outR && natsEqB e.inM (pv e.inR) && natsEqB e.outM (pv e.outR) &&
    Nat.ble (card e.inR) (card e.outR)

/-- Entries of `tbl[k]` have a `src` box of `k+1` coordinates. -/
def shapeB (src : Entry → Bounds) : Nat → List (List Entry) → Bool
  | _, [] => true
  | k, l :: ls => l.all (fun e => Nat.beq (src e).length (k + 1) && entryOK e) && shapeB src (k + 1) ls

/-- Any two entries of the list are equal or have disjoint `src` boxes (triangular check). -/
def pairwiseB (src : Entry → Bounds) : List Entry → Bool
  | [] => true
  | a :: as => as.all (fun b => disjointB (src a) (src b) || a.eqB b) && pairwiseB src as

def sideDisjointB (src : Entry → Bounds) (tbl : List (List Entry)) : Bool :=
  pairwiseB src tbl.flatten

def subsetB (a b : List (List Entry)) : Bool :=
  a.flatten.all fun e => b.flatten.any fun e' => e.eqB e'

def wfB (rm : RangeMap) : Bool :=
  Nat.beq rm.inE.length rm.outE.length &&
  shapeB Entry.inR 0 rm.inE && shapeB Entry.outR 0 rm.outE &&
  sideDisjointB Entry.inR rm.inE && sideDisjointB Entry.outR rm.outE &&
  subsetB rm.inE rm.outE && subsetB rm.outE rm.inE

/-- Entries whose UTF-8 box is strictly larger than the charset box: UTF-8 units whose index
falls beyond the charset box are "encoded" to bytes outside the charset box. -/
def looseEntries (rm : RangeMap) : List Entry :=
  rm.outE.flatten.filter fun e => !(Nat.beq (card e.inR) (card e.outR))

/-- The UTF-8 unit `u` hits an entry but its index lies beyond the charset box. -/
def overflowUnit (rm : RangeMap) (u : List Nat) : Bool :=
  match lookup rm.outE Entry.outR u with
  | some e => decide (card e.inR ≤ toIdx e.outR e.outM u)
  | none => false

end Gms.RangeMap
