/-
C11 — the session's per-transaction working copy of the data and when it is dropped (core-only).

Go code modelled:
  memory/session.go            Session.tables: the session's working copy of every table it touched; `tableData` serves
                               from it when present and fills it from the database otherwise; `StartTransaction` and
                               `Rollback` empty it, `CommitTransaction` writes the working copies back — it is *not*
                               emptied by a commit
  engine.go                    Engine.beginTransaction: every statement starts a transaction iff `ctx.GetTransaction() == nil`
  sql/rowexec/transaction_iters.go   TransactionCommittingIter.Close: after the statement, commit and `SetTransaction(nil)`
                               unless `GetIgnoreAutoCommit()` (explicit transaction) or `@@autocommit = 0`
  sql/rowexec/transaction.go   buildStartTransaction (commit what is pending, StartTransaction, SetIgnoreAutoCommit(true)),
                               buildCommit / buildRollback (…, SetIgnoreAutoCommit(false), SetTransaction(nil))

So the working copy left behind by a finished transaction is still in the session; what keeps it from being
served is only that the *next* statement finds `GetTransaction() == nil` and calls `StartTransaction`. The Spec
below has no such leftover: a session is `idle` or has an open transaction with its working copy.

`σ` is the data, a statement is a function `σ → ο × σ` (observation and data after it; a query returns its
argument unchanged). Visibility between *concurrent* transactions (a commit writes the whole working copy
back) is C17's subject: the histories generated for C11 never write from one session while the other has a
transaction open.
-/
namespace Gms.TxSnapshot

/-- an operation a session issues -/
inductive Op (σ ο : Type) where
  | stmt (f : σ → ο × σ)   -- SELECT / INSERT / UPDATE / DELETE
  | start                   -- START TRANSACTION [READ ONLY | READ WRITE] / BEGIN
  | commit
  | rollback
  | setAC (b : Bool)        -- SET autocommit = b

/-! ## Impl model -/

/-- the transaction state the Go code keeps per session -/
structure Sess (σ : Type) where
  tables : Option σ := none     -- memory.Session.tables (none: nothing touched since StartTransaction)
  txn : Bool := false           -- ctx.GetTransaction() != nil
  ignoreAC : Bool := false      -- ctx.GetIgnoreAutoCommit()
  autocommit : Bool := true     -- @@autocommit
  deriving Repr, DecidableEq, Inhabited

/-- `Session.StartTransaction` + `ctx.SetTransaction(tx)` -/
def Sess.startTx {σ} (s : Sess σ) : Sess σ := { s with tables := none, txn := true }

/-- `Engine.beginTransaction`, called at the start of every statement -/
def Sess.beginStmt {σ} (s : Sess σ) : Sess σ := if s.txn then s else s.startTx

/-- `Session.tableData`: the data a statement of this session reads -/
def Sess.view {σ} (s : Sess σ) (db : σ) : σ := s.tables.getD db

/-- `Session.CommitTransaction`: the database after the working copy was written back -/
def Sess.flush {σ} (s : Sess σ) (db : σ) : σ := s.tables.getD db

/-- `TransactionCommittingIter.Close` -/
def Sess.endStmt {σ} (s : Sess σ) (db : σ) : σ × Sess σ :=
  if !s.txn then (db, s)
  else if s.ignoreAC then (db, s)
  else if !s.autocommit then (db, s)
  else (s.flush db, { s with txn := false })

/-- one operation of a session: observation (statements only), database, session -/
def stepImpl {σ ο} (db : σ) (s : Sess σ) : Op σ ο → Option ο × σ × Sess σ
  | .stmt f =>
    let s1 := s.beginStmt
    let r := f (s1.view db)
    let (db', s2) := ({ s1 with tables := some r.2 } : Sess σ).endStmt db
    (some r.1, db', s2)
  | .start =>
    let s1 := s.beginStmt
    -- buildStartTransaction: `currentTx != nil` always holds here
    let db' := s1.flush db
    let s2 : Sess σ := { s1.startTx with ignoreAC := true }
    let (db'', s3) := s2.endStmt db'
    (none, db'', s3)
  | .commit =>
    let s1 := s.beginStmt
    let db' := s1.flush db
    let s2 : Sess σ := { s1 with ignoreAC := false, txn := false }
    let (db'', s3) := s2.endStmt db'
    (none, db'', s3)
  | .rollback =>
    let s1 := s.beginStmt
    let s2 : Sess σ := { s1 with tables := none, ignoreAC := false, txn := false }
    let (db', s3) := s2.endStmt db
    (none, db', s3)
  | .setAC b =>
    let s1 := s.beginStmt
    let (db', s2) := ({ s1 with autocommit := b } : Sess σ).endStmt db
    (none, db', s2)

/-- the variant the tie must exclude (the class of the seeded change): a COMMIT that writes back but leaves the
transaction marks set — the working copy is then served for ever -/
def stepKeep {σ ο} (db : σ) (s : Sess σ) : Op σ ο → Option ο × σ × Sess σ
  | .commit =>
    let s1 := s.beginStmt
    (none, s1.flush db, s1)
  | op => stepImpl db s op

def upd {α : Type} (f : Nat → α) (i : Nat) (a : α) : Nat → α := fun j => if j = i then a else f j

/-- a history: (session, operation) in the order the engine executes them -/
abbrev Hist (σ ο : Type) := List (Nat × Op σ ο)

def runWith {σ ο τ : Type} (step : σ → τ → Op σ ο → Option ο × σ × τ) :
    Hist σ ο → σ → (Nat → τ) → List (Option ο)
  | [], _, _ => []
  | (i, op) :: rest, db, ss =>
    let r := step db (ss i) op
    r.1 :: runWith step rest r.2.1 (upd ss i r.2.2)

def runImpl {σ ο} : Hist σ ο → σ → (Nat → Sess σ) → List (Option ο) := runWith stepImpl
def runKeep {σ ο} : Hist σ ο → σ → (Nat → Sess σ) → List (Option ο) := runWith stepKeep

/-! ## Spec -/

/-- what a session is entitled to: no transaction, or an open one (explicit or opened implicitly under
`autocommit = 0`) with the working copy of the data it has touched (`none`: nothing touched yet) -/
inductive Tx (σ : Type) where
  | idle
  | active (explicit : Bool) (work : Option σ)
  deriving Repr, DecidableEq, Inhabited

structure SSess (σ : Type) where
  tx : Tx σ := .idle
  autocommit : Bool := true
  deriving Repr, DecidableEq, Inhabited

def Tx.flush {σ} (t : Tx σ) (db : σ) : σ :=
  match t with
  | .active _ (some v) => v
  | _ => db

def stepSpec {σ ο} (db : σ) (s : SSess σ) : Op σ ο → Option ο × σ × SSess σ
  | .stmt f =>
    match s.tx with
    | .idle =>
      -- outside a transaction a statement sees, and changes, the current data
      if s.autocommit then (some (f db).1, (f db).2, s)
      else (some (f db).1, db, { s with tx := .active false (some (f db).2) })
    | .active e w => (some (f (w.getD db)).1, db, { s with tx := .active e (some (f (w.getD db)).2) })
  | .start => (none, s.tx.flush db, { s with tx := .active true none })
  | .commit => (none, s.tx.flush db, { s with tx := .idle })
  | .rollback => (none, db, { s with tx := .idle })
  | .setAC b =>
    match s.tx with
    | .idle => (none, db, { tx := if b then .idle else .active false none, autocommit := b })
    | .active true w => (none, db, { tx := .active true w, autocommit := b })
    | .active false w =>
      if b then (none, (Tx.active false w).flush db, { tx := .idle, autocommit := b })
      else (none, db, { tx := .active false w, autocommit := b })

def runSpec {σ ο} : Hist σ ο → σ → (Nat → SSess σ) → List (Option ο) := runWith stepSpec

/-- what the Impl state of a session means (between two statements) -/
def Sess.abs {σ} (s : Sess σ) : SSess σ :=
  { tx := if s.txn then .active s.ignoreAC s.tables else .idle, autocommit := s.autocommit }

/-- the marks are consistent between two statements: "explicit transaction" implies "transaction", and a
transaction that is not explicit stays open only under `autocommit = 0` -/
def Sess.Inv {σ} (s : Sess σ) : Prop :=
  (s.ignoreAC = true → s.txn = true) ∧ (s.txn = true → s.ignoreAC = false → s.autocommit = false)

end Gms.TxSnapshot
