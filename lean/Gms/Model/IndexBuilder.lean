/-
C03 — model of sql/index_builder.go (`MySQLIndexBuilder`) over integer index columns, with integer
and decimal literals (core-only). Ranges, cuts: Gms/Model/Range.lean.

Spec layer
* `Lit` – a literal: an integer or an exact decimal `coeff / 10^scale`;
* `Pred`, `Pred.holds` – one leaf predicate on one column and its SQL truth (TRUE or not) on a
  column value (`none` = NULL), by exact rational comparison.

Impl model layer (one `def` per Go function, path by path)
* `Lit.floor`, `Lit.ceil`, `Lit.integral` – Go `floor`, `ceil`, the `k.Cmp(kInt) != 0` tests;
* `convert` – `NumberTypeImpl_.Convert` on an integral key: value clamped to the type, plus
  `InRange | Overflow | Underflow`;
* `potEquals … potLessOrEqual` – the ranges each builder call hands to `updateCol`;
* `updateCol`, `apply` (one builder call), `ranges` (`MySQLIndexBuilder.Ranges`: the odometer over
  the per-column range lists).
The error paths of the builder (`b.err`) need a failing conversion, which integer columns with
integer / decimal keys never produce; they are not modelled.
-/
import Gms.Model.Range

namespace Gms.IndexBuilder
open Gms.Range

/-! ## Literals -/

inductive Lit where
  | int (v : Int)
  | dec (coeff : Int) (scale : Nat)     -- Go: *apd.Decimal with value coeff / 10^scale
  deriving DecidableEq, Repr, Inhabited

def pow10 (s : Nat) : Int := (10 : Int) ^ s

namespace Lit

/-- numerator and (positive) denominator -/
def num : Lit → Int
  | int v => v
  | dec c _ => c

def den : Lit → Int
  | int _ => 1
  | dec _ s => pow10 s

/-- Go: `floor(key)` (integers unchanged, decimals floored), as an integer. -/
def floor (l : Lit) : Int := l.num / l.den

/-- Go: `ceil(key)`. -/
def ceil (l : Lit) : Int := -((-l.num) / l.den)

/-- Go: `k.Cmp(DecimalRound(k, 0)) == 0` / `key == floor(key)`: the literal is a whole number. -/
def integral (l : Lit) : Bool := l.num % l.den == 0

end Lit

/-! ## Spec: leaf predicates -/

inductive Pred where
  | eq (ks : List Lit)        -- `=` (one key) and `IN (…)`
  | neq (k : Lit)
  | notIn (ks : List Lit)
  | gt (k : Lit)
  | ge (k : Lit)
  | lt (k : Lit)
  | le (k : Lit)
  | isNull
  | isNotNull
  deriving Repr, Inhabited

/-- SQL truth of `x <op> literal` by exact comparison of `x * den` with `num`. -/
def Pred.holds : Pred → Option Int → Bool
  | .isNull, v => v.isNone
  | .isNotNull, v => v.isSome
  | _, none => false
  | .eq ks, some x => ks.any (fun k => x * k.den == k.num)
  | .neq k, some x => x * k.den != k.num
  | .notIn ks, some x => ks.all (fun k => x * k.den != k.num)
  | .gt k, some x => decide (k.num < x * k.den)
  | .ge k, some x => decide (k.num ≤ x * k.den)
  | .lt k, some x => decide (x * k.den < k.num)
  | .le k, some x => decide (x * k.den ≤ k.num)

/-- The point of a column value (`none` = NULL). -/
def pt : Option Int → Option Int
  | none => none
  | some k => keyPt k

/-! ## Impl model -/

/-- An integer column type: its value range. -/
structure IntType where
  min : Int
  max : Int
  deriving Repr, Inhabited, DecidableEq

inductive InR where
  | inRange | overflow | underflow
  deriving DecidableEq, Repr

/-- Go: `colType.Convert(ctx, key)` for an integral key: (clamped value, ConvertInRange). -/
def convert (t : IntType) (k : Int) : Int × InR :=
  if k > t.max then (t.max, .overflow)
  else if k < t.min then (t.min, .underflow)
  else (k, .inRange)

/-- Go: loop body of `Equals` / `In` for one key. -/
def potEqualsOne (t : IntType) (k : Lit) : ColRange :=
  if !k.integral then ColRange.empty
  else
    let c := convert t k.floor
    if c.2 ≠ .inRange then ColRange.empty else ColRange.closed c.1 c.1

/-- Go: `GreaterThan`. -/
def potGreaterThan (t : IntType) (k : Lit) : ColRange :=
  let c := convert t k.floor
  match c.2 with
  | .overflow => ColRange.empty
  | .underflow => ColRange.notNull
  | .inRange => ColRange.greaterThan c.1

/-- Go: `GreaterOrEqual`. -/
def potGreaterOrEqual (t : IntType) (k : Lit) : ColRange :=
  let exclude := !k.integral
  let c := convert t k.floor
  match c.2 with
  | .overflow => ColRange.empty
  | .underflow => ColRange.notNull
  | .inRange => if exclude then ColRange.greaterThan c.1 else ColRange.greaterOrEqual c.1

/-- Go: `LessThan`. -/
def potLessThan (t : IntType) (k : Lit) : ColRange :=
  let c := convert t k.ceil
  match c.2 with
  | .overflow => ColRange.notNull
  | .underflow => ColRange.empty
  | .inRange => ColRange.lessThan c.1

/-- Go: `LessOrEqual`. -/
def potLessOrEqual (t : IntType) (k : Lit) : ColRange :=
  let exclude := !k.integral
  let c := convert t k.ceil
  match c.2 with
  | .overflow => ColRange.notNull
  | .underflow => ColRange.empty
  | .inRange => if exclude then ColRange.lessThan c.1 else ColRange.lessOrEqual c.1

/-- Go: the ranges `NotEquals` hands to `updateCol`, and whether it goes on to `Simplify`. -/
def potNotEquals (t : IntType) (k : Lit) : List ColRange × Bool :=
  if !k.integral then ([ColRange.notNull], false)
  else
    let c := convert t k.floor
    if c.2 ≠ .inRange then ([ColRange.notNull], true)
    else ([ColRange.greaterThan c.1, ColRange.lessThan c.1], true)

/-- Builder state: the range list of every index column, and `isInvalid`. -/
structure B where
  cols : List (List ColRange)
  invalid : Bool
  deriving Repr, DecidableEq

/-- Go: `NewMySQLIndexBuilder` for an index of `n` columns. -/
def B.new (n : Nat) : B := { cols := List.replicate n [ColRange.all], invalid := false }

/-- Go: `updateCol`. -/
def updateCol (b : B) (i : Nat) (pot : List ColRange) : B :=
  if pot.isEmpty then b
  else
    let cur := b.cols[i]?.getD []
    let new := cur.flatMap (fun c => pot.filterMap (fun p =>
      let r := c.tryIntersect p
      if r.2 && !r.1.isEmpty then some r.1 else none))
    if new.isEmpty then { b with invalid := true } else { b with cols := b.cols.set i new }

/-- Go: `NotEquals` after its `updateCol`: `SimplifyRangeColumn` of the column. -/
def simplifyCol (b : B) (i : Nat) : B :=
  if b.invalid then b
  else
    let rs := simplify (b.cols[i]?.getD [])
    if rs.isEmpty then { b with invalid := true } else { b with cols := b.cols.set i rs }

def notEqualsOne (t : IntType) (b : B) (i : Nat) (k : Lit) : B :=
  if b.invalid then b
  else
    let p := potNotEquals t k
    let b' := updateCol b i p.1
    if p.2 then simplifyCol b' i else b'

/-- One builder call on column `i` (Go: `Equals`, `In`, `NotEquals`, `NotIn`, `GreaterThan`, …). -/
def apply (t : IntType) (b : B) (i : Nat) (p : Pred) : B :=
  if b.invalid then b
  else match p with
    | .eq ks => updateCol b i (ks.map (potEqualsOne t))
    | .neq k => notEqualsOne t b i k
    | .notIn ks => ks.foldl (fun b k => notEqualsOne t b i k) b
    | .gt k => updateCol b i [potGreaterThan t k]
    | .ge k => updateCol b i [potGreaterOrEqual t k]
    | .lt k => updateCol b i [potLessThan t k]
    | .le k => updateCol b i [potLessOrEqual t k]
    | .isNull => updateCol b i [ColRange.null]
    | .isNotNull => updateCol b i [ColRange.notNull]

/-- All combinations, first column varying fastest. -/
def product : List (List ColRange) → List Range
  | [] => [[]]
  | c :: cs => (product cs).flatMap (fun rest => c.map (fun x => x :: rest))

/-- Go: the odometer of `Ranges` increments before it reads: the all-zero combination comes last. -/
def rotate1 {α : Type} : List α → List α
  | [] => []
  | x :: xs => xs ++ [x]

/-- Go: `MySQLIndexBuilder.Ranges` (no error state). -/
def ranges (b : B) : List Range :=
  if b.invalid then [b.cols.map (fun _ => ColRange.empty)]
  else
    let rs := (rotate1 (product b.cols)).filter (fun r => !r.isEmpty)
    if rs.isEmpty then [b.cols.map (fun _ => ColRange.empty)] else rs

/-- A conjunction of leaf predicates, each on one column of the index. -/
def build (t : IntType) (n : Nat) (ops : List (Nat × Pred)) : B :=
  ops.foldl (fun b op => apply t b op.1 op.2) (B.new n)

/-! ## `MySQLRangeColumnExpr.Type` and the backend's filter expression -/

inductive RangeType where
  | invalid | empty | all | greaterThan | greaterOrEqual | lessThanOrNull | lessOrEqualOrNull
  | closedClosed | openOpen | openClosed | closedOpen | equalNull
  deriving DecidableEq, Repr

/-- Go: `MySQLRangeColumnExpr.Type()`. -/
def rangeType (r : ColRange) : RangeType :=
  match r.lo, r.hi with
  | .above _, .above _ => .openClosed
  | .above _, .aboveAll => .greaterThan
  | .above _, .below _ => .openOpen
  | .aboveAll, .aboveAll => .empty
  | .below _, .above _ => .closedClosed
  | .below _, .aboveAll => .greaterOrEqual
  | .below _, .below _ => .closedOpen
  | .aboveNull, .above _ => .openClosed
  | .aboveNull, .aboveAll => .greaterThan
  | .aboveNull, .below _ => .openOpen
  | .aboveNull, .aboveNull => .empty
  | .belowNull, .above _ => .lessOrEqualOrNull
  | .belowNull, .aboveAll => .all
  | .belowNull, .below _ => .lessThanOrNull
  | .belowNull, .aboveNull => .equalNull
  | .belowNull, .belowNull => .empty
  | _, _ => .invalid

def cutKey : Cut → Option Int
  | .below k => some k
  | .above k => some k
  | _ => none

/-- SQL truth (TRUE or not) of the expression `expression.NewRangeFilterExpr` builds for one
column range, on the column value `x` (comparisons with NULL are not TRUE). `none` = the Go code
builds no expression for this range type (`RangeType_Invalid`: nil expression). -/
def filterHolds (r : ColRange) (x : Option Int) : Option Bool :=
  let gt (k : Option Int) := match x, k with | some x, some k => decide (k < x) | _, _ => false
  let ge (k : Option Int) := match x, k with | some x, some k => decide (k ≤ x) | _, _ => false
  let lt (k : Option Int) := match x, k with | some x, some k => decide (x < k) | _, _ => false
  let le (k : Option Int) := match x, k with | some x, some k => decide (x ≤ k) | _, _ => false
  let binding (c : Cut) := (cutKey c).isSome
  match rangeType r with
  | .invalid => none
  | .empty => some false
  | .all => some true
  | .equalNull => some x.isNone
  | .greaterThan => if binding r.lo then some (gt (cutKey r.lo)) else some x.isSome
  | .greaterOrEqual => some (ge (cutKey r.lo))
  | .lessThanOrNull => some (lt (cutKey r.hi) || x.isNone)
  | .lessOrEqualOrNull => some (le (cutKey r.hi) || x.isNone)
  -- Go tests `rce.LowerBound == rce.UpperBound` first; a `Below` is never `==` an `Above`, so the
  -- `NewEquals` branch is dead and the conjunction is always built
  | .closedClosed => some (ge (cutKey r.lo) && le (cutKey r.hi))
  | .openOpen => if binding r.lo then some (gt (cutKey r.lo) && lt (cutKey r.hi)) else some (lt (cutKey r.hi))
  | .openClosed => if binding r.lo then some (gt (cutKey r.lo) && le (cutKey r.hi)) else some (le (cutKey r.hi))
  | .closedOpen => some (ge (cutKey r.lo) && lt (cutKey r.hi))

end Gms.IndexBuilder
