/-
C35 — memory model of the wire-format scratch buffer (`sql.ByteBufPool`, `sql.ByteBuffer`) as the
protocol handler uses it (server/handler.go `doQuery` → `resultFor*Iter` → `RowToSQL` →
`toSqlHelper` → `typ.SQL(ctx, buf.Get(), v)`), core-only.

The `sqltypes.Value`s of the rows of a `*sqltypes.Result` are *slices into the scratch buffer*;
the result handed to the callback is therefore only meaningful while nobody else writes into that
storage. Several client connections run `doQuery` at the same time and share one `sync.Pool` of
buffers.

  borrow c   : connection c's doQuery takes a buffer out of the pool (`ByteBufPool.Get()`; a new
               one if the pool is empty)
  write c r  : one row is converted to its wire format at the buffer's write position
               (`buf.Get()` … `buf.Grow(n)`); the row of the pending result is a slice of the buffer
  deliver c  : the callback consumes the pending result: the client READS the bytes the slices
               point to *now* (vitess serialises them into packets)
  drop c     : the pending result is discarded without being sent (error path)
  release c  : `buf.Reset(); ByteBufPool.Put(buf)` — write position 0, buffer back in the pool

The discipline (`bad = false`): a connection writes and delivers only while it holds the buffer,
and gives it back only when nothing is pending. Doubling of the backing array (`ByteBuffer.Double`)
is transparent for this model (old slices keep pointing to an array nobody writes any more), so a
buffer is an unbounded byte list with a write position.
-/
namespace Gms.BufPool

/-- A row in wire format: it *aliases* `len` bytes at `off` of buffer `buf`. -/
structure Slice where
  buf : Nat
  off : Nat
  len : Nat
  deriving Repr, DecidableEq

structure Buf where
  mem : List Nat   -- backing bytes
  pos : Nat        -- ByteBuffer.i, the next safe write position
  deriving Repr

structure Conn where
  held : Option Nat                        -- the buffer this connection's doQuery has checked out
  pending : List (Slice × List Nat)        -- rows of the result being filled; 2nd component: the
                                           -- bytes the engine's row converts to (specification only)
  received : List (List Nat)               -- what the client has read so far
  sent : List (List Nat)                   -- what the engine produced for the delivered rows

structure St where
  nbufs : Nat                -- buffers created so far (ids 0 … nbufs-1)
  bufs : Nat → Buf
  free : List Nat            -- content of the pool (LIFO, as sync.Pool's per-P private slot)
  conns : Nat → Conn
  bad : Bool                 -- the discipline was violated somewhere

inductive Ev where
  | borrow (c : Nat)
  | write (c : Nat) (row : List Nat)
  | deliver (c : Nat)
  | drop (c : Nat)
  | release (c : Nat)
  deriving Repr

def emptyConn : Conn := { held := none, pending := [], received := [], sent := [] }

def init : St :=
  { nbufs := 0, bufs := fun _ => { mem := [], pos := 0 }, free := [], conns := fun _ => emptyConn,
    bad := false }

/-- The bytes a slice points to, as the memory is now. -/
def deref (bufs : Nat → Buf) (s : Slice) : List Nat := ((bufs s.buf).mem.drop s.off).take s.len

/-- Overwrite/extend `mem` with `bs` at position `i`. -/
def splice (mem : List Nat) (i : Nat) (bs : List Nat) : List Nat :=
  mem.take i ++ bs ++ mem.drop (i + bs.length)

def setConn (s : St) (c : Nat) (k : Conn) : St :=
  { s with conns := fun c' => if c' = c then k else s.conns c' }

/-- The discipline, per event: a connection borrows only when it holds nothing, writes only while
it holds a buffer, is not handed rows (`deliver`) after it gave the buffer back, and gives the buffer
back only when no row is pending. -/
def pre (s : St) : Ev → Bool
  | .borrow c => (s.conns c).held.isNone
  | .write c _ => (s.conns c).held.isSome
  | .deliver c => (s.conns c).held.isSome || (s.conns c).pending.isEmpty
  | .drop _ => true
  | .release c => (s.conns c).held.isSome && (s.conns c).pending.isEmpty

/-- What the event does to memory, pool and connection (whether or not the discipline holds). -/
def apply (s : St) : Ev → St
  | .borrow c =>
    let k := s.conns c
    match s.free with
    | b :: rest => setConn { s with free := rest } c { k with held := some b }
    | [] =>
      setConn { s with nbufs := s.nbufs + 1,
                       bufs := fun b => if b = s.nbufs then { mem := [], pos := 0 } else s.bufs b }
        c { k with held := some s.nbufs }
  | .write c row =>
    let k := s.conns c
    match k.held with
    | none => s
    | some b =>
      let bf := s.bufs b
      let bf' : Buf := { mem := splice bf.mem bf.pos row, pos := bf.pos + row.length }
      setConn { s with bufs := fun b' => if b' = b then bf' else s.bufs b' } c
        { k with pending := k.pending ++ [({ buf := b, off := bf.pos, len := row.length }, row)] }
  | .deliver c =>
    let k := s.conns c
    setConn s c { k with pending := [],
                         received := k.received ++ k.pending.map (fun p => deref s.bufs p.1),
                         sent := k.sent ++ k.pending.map (fun p => p.2) }
  | .drop c =>
    let k := s.conns c
    setConn s c { k with pending := [] }
  | .release c =>
    let k := s.conns c
    match k.held with
    | none => s
    | some b =>
      let bf := s.bufs b
      setConn { s with free := b :: s.free,
                       bufs := fun b' => if b' = b then { bf with pos := 0 } else s.bufs b' }
        c { k with held := none }

def step (s : St) (e : Ev) : St := { apply s e with bad := s.bad || !pre s e }

def run (s : St) : List Ev → St
  | [] => s
  | e :: es => run (step s e) es

/-- Every client has read exactly the bytes the engine produced for the rows it was sent. -/
def Intact (s : St) : Prop := ∀ c, (s.conns c).received = (s.conns c).sent

/-! ### Server-side cursors

With a server-side cursor (COM_STMT_EXECUTE asking for a cursor, rows pulled with COM_STMT_FETCH) the
vitess connection does not serialise the result inside the callback: the callback only hands the
`*sqltypes.Result` to the connection's command loop, which keeps it as the cursor's *pending* result
and writes its rows when the client fetches them. For the last result of a statement that is after
`doQuery` has returned — and has given the scratch buffer back. `between` is whatever the other
connections do between the EXECUTE and the FETCH that sends those rows. -/
def cursorTrace (c : Nat) (rows : List (List Nat)) (between : List Ev) : List Ev :=
  [Ev.borrow c] ++ rows.map (Ev.write c) ++ [Ev.release c] ++ between ++ [Ev.deliver c]

/-- The defect class: other connections execute between the EXECUTE and the last FETCH. -/
def CursorRegion (between : List Ev) : Prop := between ≠ []

/-! ### The handler's statement program, for the correspondence driver

A statement of connection `conn` producing `n` rows of `w` bytes each (all bytes of row `j` are
`tag + j`, so that every statement has a recognisable payload). `nested` are statements of *other*
connections that execute at the moment callback number `at` of this statement has been entered and
has not yet read its rows (the schedule the harness forces on the real handler). -/
inductive Stmt where
  | mk (conn tag n w : Nat) (nested : List (Nat × Stmt)) : Stmt

def rowBytes (tag w j : Nat) : List Nat := List.replicate w (tag + j)

/-- Callback `j` of a statement: the nested statements scheduled at `j` run, then the client reads. -/
def writes (c tag w : Nat) : Nat → Nat → List Ev
  | _, 0 => []
  | j, k + 1 => Ev.write c (rowBytes tag w j) :: writes c tag w (j + 1) k

/-- the full batches `j … j+k-1`: rows converted, then handed to the callback while the buffer is
held; `atCb j` = the events of the statements scheduled at callback `j` -/
def batches (B c tag w : Nat) (atCb : Nat → List Ev) : Nat → Nat → List Ev
  | _, 0 => []
  | j, k + 1 =>
    writes c tag w (j * B) B ++ atCb j ++ [Ev.deliver c] ++ batches B c tag w atCb (j + 1) k

mutual
/-- `doQuery` for one statement. `late = true`: the buffer is returned by a `defer` of `doQuery`,
i.e. after the final callback (the code as it is); `late = false`: it is returned when spooling is
finished, before the final callback (the class of defect this model exists for). `B` = rowsBatch. -/
def compile (late : Bool) (B : Nat) : Stmt → List Ev
  | .mk c tag n w nested =>
    let full := if B = 0 then 0 else n / B
    let rest := if B = 0 then n else n % B
    let final := decide (rest ≠ 0) || decide (full = 0)
    [Ev.borrow c]
      ++ batches B c tag w (fun j => compileAt late B nested j) 0 full
      ++ writes c tag w (full * B) rest
      ++ (if final then
            (if late then compileAt late B nested full ++ [Ev.deliver c, Ev.release c]
             else [Ev.release c] ++ compileAt late B nested full ++ [Ev.deliver c])
          else [Ev.release c])
/-- the nested statements scheduled at callback `j` -/
def compileAt (late : Bool) (B : Nat) : List (Nat × Stmt) → Nat → List Ev
  | [], _ => []
  | (at_, st) :: rest, j =>
    (if at_ = j then compile late B st else []) ++ compileAt late B rest j
end

end Gms.BufPool
