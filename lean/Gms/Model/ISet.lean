/-
C47 — model of sql/in_mem_table/multimap.go and multimapeditors.go (core-only).

A Go `map[any][]V` is an association list (first binding wins; the invariants below keep keys
distinct, and observations are compared after sorting by key, so order is irrelevant).
`keyOf i` is the i-th `Keyer`, `eq` is the `Equals` callback.
-/
namespace Gms.ISet

variable {K V : Type} [DecidableEq K]

abbrev MMap (K V : Type) := List (K × List V)

/-- Go: `MultiMap.GetMany`. -/
def MMap.getMany : MMap K V → K → List V
  | [], _ => []
  | (k', vs) :: rest, k => if k' = k then vs else MMap.getMany rest k

/-- Go: `MultiMap.Put` (`m.entries[k] = append(m.entries[k], v)`). -/
def MMap.put : MMap K V → K → V → MMap K V
  | [], k, v => [(k, [v])]
  | (k', vs) :: rest, k, v => if k' = k then (k', vs ++ [v]) :: rest else (k', vs) :: MMap.put rest k v

/-- Go: `MultiMap.Get` — first stored element `vp` with `Equals(v, vp)`. -/
def MMap.get (eq : V → V → Bool) (m : MMap K V) (k : K) (v : V) : Option V :=
  (m.getMany k).find? (fun vp => eq v vp)

/-- Go: `MultiMap.Remove` — drops every `vp` of bucket `k` with `Equals(v, vp)`; deletes the key
when the bucket becomes empty; reports whether anything matched. -/
def MMap.remove (eq : V → V → Bool) : MMap K V → K → V → MMap K V × Bool
  | [], _, _ => ([], false)
  | (k', vs) :: rest, k, v =>
    if k' = k then
      let newvs := vs.filter (fun vp => !eq v vp)
      (if newvs.isEmpty then rest else (k', newvs) :: rest, vs.any (fun vp => eq v vp))
    else
      let r := MMap.remove eq rest k v
      ((k', vs) :: r.1, r.2)

/-- Go: number of entries visited by `VisitEntries`. -/
def MMap.count (m : MMap K V) : Nat := (m.map (fun p => p.2.length)).sum

/-- One index of an `IndexedSet`: its keyer and its multimap. -/
structure Ix (K V : Type) where
  key : V → K
  m : MMap K V

abbrev ISet (K V : Type) := List (Ix K V)

def empty (keys : List (V → K)) : ISet K V := keys.map fun f => { key := f, m := [] }

/-- Go: `IndexedSet.Put`. -/
def put (s : ISet K V) (v : V) : ISet K V :=
  s.map fun ix => { ix with m := ix.m.put (ix.key v) v }

/-- Go: `IndexedSet.GetMany` for the i-th keyer. -/
def getMany (s : ISet K V) (i : Nat) (k : K) : List V :=
  match s[i]? with
  | some ix => ix.m.getMany k
  | none => []

/-- Go: `IndexedSet.Get` (first keyer). -/
def get (eq : V → V → Bool) (s : ISet K V) (v : V) : Option V :=
  match s with
  | [] => none
  | ix :: _ => ix.m.get eq (ix.key v) v

/-- Go: `IndexedSet.Remove`: every index removes under the element's own key. -/
def remove (eq : V → V → Bool) (s : ISet K V) (v : V) : ISet K V × Bool :=
  (s.map fun ix => { ix with m := (ix.m.remove eq (ix.key v) v).1 },
   s.any fun ix => (ix.m.remove eq (ix.key v) v).2)

/-- Go: `IndexedSet.RemoveMany`: copy the bucket, then `Remove` each copied element. -/
def removeMany (eq : V → V → Bool) (s : ISet K V) (i : Nat) (k : K) : ISet K V :=
  (getMany s i k).foldl (fun s v => (remove eq s v).1) s

/-- Go: `IndexedSet.Count` (entries of the first index; 0 without indexes). -/
def count (s : ISet K V) : Nat :=
  match s with
  | [] => 0
  | ix :: _ => ix.m.count

/-- Go: `IndexedSet.Clear`. -/
def clear (s : ISet K V) : ISet K V := s.map fun ix => { ix with m := [] }

/-! ### Editor layer (multimapeditors.go), with rows already converted to elements -/

inductive EdErr where
  | pkViolation
  | entryNotFound
  deriving DecidableEq, Repr

/-- Go: `Insert` — rejects when the first-key bucket is non-empty. -/
def edInsert (s : ISet K V) (e : V) : Except EdErr (ISet K V) :=
  match s with
  | [] => .ok (put s e)   -- not reachable in Go (Keyers[0] would panic); harmless totalisation
  | ix :: _ => if (getMany s 0 (ix.key e)).isEmpty then .ok (put s e) else .error .pkViolation

/-- Go: `Delete` — `RemoveMany` on the first keyer. -/
def edDelete (eq : V → V → Bool) (s : ISet K V) (e : V) : ISet K V :=
  match s with
  | [] => s
  | ix :: _ => removeMany eq s 0 (ix.key e)

/-- Go: `Update old new` with `upd` = `UpdateWithRow(new, ·)` and `newE` = `FromRow(new)`. -/
def edUpdate (eq : V → V → Bool) (s : ISet K V) (old : V) (upd : V → V) (newE : V) : ISet K V :=
  match s with
  | [] => s
  | ix :: _ =>
    match getMany s 0 (ix.key old) with
    | [e] => put (remove eq s old).1 (upd e)
    | es => put (es.foldl (fun s o => (remove eq s o).1) s) newE

/-! ### Spec: an insertion-ordered bag -/

/-- Operations of the container API. -/
inductive Op (K V : Type) where
  | put (v : V)
  | remove (v : V)
  | removeMany (i : Nat) (k : K)
  | clear

def step (eq : V → V → Bool) (s : ISet K V) : Op K V → ISet K V
  | .put v => put s v
  | .remove v => (remove eq s v).1
  | .removeMany i k => removeMany eq s i k
  | .clear => clear s

/-- Spec step on the bag `S` (a list in insertion order), given the keyers. -/
def specStep (eq : V → V → Bool) (keys : List (V → K)) (S : List V) : Op K V → List V
  | .put v => S ++ [v]
  | .remove v => S.filter (fun w => !eq v w)
  | .removeMany i k =>
    match keys[i]? with
    | some f => (S.filter (fun w => decide (f w = k))).foldl (fun S v => S.filter (fun w => !eq v w)) S
    | none => S
  | .clear => []

end Gms.ISet
