/-
M3 — physical join algebra (core-only), the model side of C01.

Three layers:

A. **Join-reordering property tables** (`sql/memo/join_order_builder.go`): the operator kinds of
   `getOpIdx`, the `lookupTableEntry` bit sets and a transliteration of `checkProperty`.

B. **Typed join algebra**: inner join `ij` and the *left-linear* operators `lop` (inner / semi /
   anti / left outer: what one left row contributes depends only on that row and the list of its
   matching right rows). The reordering moves of the memo (commute, assoc, l-asscom, r-asscom) are
   identities between these; they are proved in `Gms/Props/C01.lean`. The bridge lemmas there
   relate `ij`/`lop` to the row-level operators of the SQL definition (`Gms.Rel.innerJoin`, …).

C. **Iterator models** (`sql/rowexec/join_iters.go`, `rowexec/rel.go buildHashLookup`,
   `rowexec/other_iters.go hashLookupGeneratingIter`, `rowexec/merge_join.go`): functional
   transliterations of `joinIter.Next`, `existsIter.Next`, the hash lookup (including the
   "exclude NULLs ⇒ return some non-empty bucket" branch and the fact that the lookup table only
   exists once a complete scan of the right side has happened), index lookup, and an
   algorithm-level merge join. Conditions are three-valued (`Row → Row → Tri`), because the
   iterators distinguish NULL from FALSE (`IsExcludeNulls`).
-/
import Gms.Model.Rel

namespace Gms.Phys
open Gms.Sql Gms.Rel

/-! ## A. Join property tables -/

/-- Operator kinds in the order of `getOpIdx`. -/
inductive Kind where
  | cross | inner | semi | anti | left | full | group | lateral
  deriving DecidableEq, Repr, Inhabited

def Kind.idx : Kind → Nat
  | .cross => 0 | .inner => 1 | .semi => 2 | .anti => 3
  | .left => 4 | .full => 5 | .group => 6 | .lateral => 7

def Kind.all : List Kind := [.cross, .inner, .semi, .anti, .left, .full, .group, .lateral]

/-- `lookupTableEntry` constants (`1 << (iota-1)`). -/
def eNever : Nat := 0
def eAlways : Nat := 1
def eFilterA : Nat := 2
def eFilterB : Nat := 4
def eRejectsOnLeftA : Nat := 8
def eRejectsOnRightA : Nat := 16
def eRejectsOnRightB : Nat := 32

def hasBit (e b : Nat) : Bool := (e &&& b) != 0
def intersects (s t : Nat) : Bool := (s &&& t) != 0

/-- `checkProperty` on one table entry. Vertex sets are bit sets. (As in the Go code, the
`rejectsOnRightB` branch takes the right vertexes of edge **A**.) -/
def checkProperty (entry nullRejA nullRejB leftA rightA : Nat) : Bool :=
  if entry == eNever then false
  else if entry == eAlways then true
  else
    let cand :=
      if hasBit entry eRejectsOnLeftA then leftA
      else if hasBit entry eRejectsOnRightA then rightA
      else if hasBit entry eRejectsOnRightB then rightA
      else 0
    if hasBit entry eFilterA && !intersects nullRejA cand then false
    else if hasBit entry eFilterB && !intersects nullRejB cand then false
    else true

def tableEntry (t : List (List Nat)) (a b : Kind) : Nat := (t.getD a.idx []).getD b.idx 0

/-- What the memo decides for an operator pair: `edge.nullRejectedRels` is never set
(regenerated fact `nullRejectedRelsWrites = 0`), so both null-rejection sets are empty. -/
def allowed (t : List (List Nat)) (a b : Kind) : Bool := checkProperty (tableEntry t a b) 0 0 1 2

/-! ## B. Typed join algebra -/

section Algebra
variable {α β γ : Type}

/-- Inner join producing pairs. -/
def ij (m : α → β → Bool) (L : List α) (R : List β) : List (α × β) :=
  L.flatMap fun a => (R.filter (m a)).map fun b => (a, b)

/-- The four left-linear shapes. -/
inductive Shape where
  | inner | semi | anti | left
  deriving DecidableEq, Repr

/-- What one left row contributes, given the list of its matching right rows. -/
def Shape.ext (s : Shape) (ms : List β) : List (Option β) :=
  match s with
  | .inner => ms.map some
  | .semi => if ms.isEmpty then [] else [none]
  | .anti => if ms.isEmpty then [none] else []
  | .left => if ms.isEmpty then [none] else ms.map some

/-- A left-linear join operator. -/
def lop (s : Shape) (m : α → β → Bool) (L : List α) (R : List β) : List (α × Option β) :=
  L.flatMap fun a => (s.ext (R.filter (m a))).map fun y => (a, y)

end Algebra

/-- The shape of an operator kind (cross = inner with the constant-true condition); `none` for
the kinds that are not left-linear (full outer, lateral) or never constructed (group-by). -/
def Kind.shape : Kind → Option Shape
  | .cross => some .inner
  | .inner => some .inner
  | .semi => some .semi
  | .anti => some .anti
  | .left => some .left
  | _ => none

/-! ## C. Iterator models -/

/-- `joinIter.Next` for one left row `a`: scan the right rows; `found` is `foundMatch`.
`excl` = `joinType.IsExcludeNulls()`: a NULL condition abandons the left row
(`resetSecondaryIter; continue` → next `loadPrimary`). -/
def nlScanRow (leftOuter excl : Bool) (c : Row → Row → Tri) (rw : Nat) (a : Row) :
    List Row → Bool → List Row
  | [], found => if !found && leftOuter then [a ++ nulls rw] else []
  | b :: R, found =>
    match c a b with
    | .u => if excl then [] else nlScanRow leftOuter excl c rw a R found
    | .f => nlScanRow leftOuter excl c rw a R found
    | .t => (a ++ b) :: nlScanRow leftOuter excl c rw a R true

/-- Does the scan of `R` for left row `a` reach EOF (only then `hashLookupGeneratingIter`
publishes the lookup table)? -/
def scanCompletes (excl : Bool) (c : Row → Row → Tri) (a : Row) (R : List Row) : Bool :=
  !(excl && R.any (fun b => c a b == .u))

/-- Nested-loop join (`joinIter` over a plain right child). -/
def nlJoin (leftOuter excl : Bool) (c : Row → Row → Tri) (rw : Nat) (L R : List Row) : List Row :=
  L.flatMap fun a => nlScanRow leftOuter excl c rw a R false

/-- `existsIter.Next` for one left row: is the row emitted? `anti = false` is the semi join. -/
def existsScanRow (anti excl : Bool) (c : Row → Row → Tri) (a : Row) : List Row → Bool
  | [] => anti
  | b :: R =>
    match c a b with
    | .u => if excl then (if anti then false else existsScanRow anti excl c a R)
            else existsScanRow anti excl c a R
    | .f => existsScanRow anti excl c a R
    | .t => !anti

def existsJoin (anti excl : Bool) (c : Row → Row → Tri) (L R : List Row) : List Row :=
  L.filter fun a => existsScanRow anti excl c a R

/-! ### Hash lookup -/

section Hash
variable {κ : Type} [DecidableEq κ]

/-- `hashLookupGeneratingIter`: append each right row to the bucket of its key. -/
def addRow (k : κ) (r : Row) : List (κ × List Row) → List (κ × List Row)
  | [] => [(k, [r])]
  | (k', rs) :: t => if k' = k then (k', rs ++ [r]) :: t else (k', rs) :: addRow k r t

def buildTable (kR : Row → κ) (R : List Row) : List (κ × List Row) :=
  R.foldl (fun t r => addRow (kR r) r t) []

def bucket (t : List (κ × List Row)) (k : κ) : List Row :=
  match t.find? (fun p => p.1 = k) with
  | some p => p.2
  | none => []

/-- `buildHashLookup` once the table exists. For `IsExcludeNulls` joins an empty bucket is
replaced by *some* non-empty bucket (Go map iteration order: `choice` picks which). -/
def probe (excl : Bool) (t : List (κ × List Row)) (k : κ) (choice : Nat) : List Row :=
  let b := bucket t k
  if excl && b.isEmpty then
    let ne := t.filter (fun p => !p.2.isEmpty)
    match ne[choice % ne.length]? with
    | some p => p.2
    | none => []
  else b

/-- `joinIter` over a `HashLookup` right child. `built` says whether the lookup table has been
published; until then every left row scans the whole right side. `choices` feeds `probe`. -/
def hashJoinGo (leftOuter excl : Bool) (c : Row → Row → Tri) (rw : Nat) (kL kR : Row → κ)
    (R : List Row) (choice : Nat) : List Row → Bool → List Row
  | [], _ => []
  | a :: L, built =>
    let cand := if built then probe excl (buildTable kR R) (kL a) choice else R
    nlScanRow leftOuter excl c rw a cand false
      ++ hashJoinGo leftOuter excl c rw kL kR R choice L (built || scanCompletes excl c a cand)

def hashJoin (leftOuter excl : Bool) (c : Row → Row → Tri) (rw : Nat) (kL kR : Row → κ)
    (choice : Nat) (L R : List Row) : List Row :=
  hashJoinGo leftOuter excl c rw kL kR R choice L false

/-- `existsIter` over a `HashLookup` right child (SemiHashJoin / AntiHashJoin…). -/
def hashExistsGo (anti excl : Bool) (c : Row → Row → Tri) (kL kR : Row → κ)
    (R : List Row) (choice : Nat) : List Row → Bool → List Row
  | [], _ => []
  | a :: L, built =>
    let cand := if built then probe excl (buildTable kR R) (kL a) choice else R
    -- the generating iterator is exhausted only if the exists-scan reads every row
    let complete := !(cand.any fun b => c a b == .t || (excl && c a b == .u))
    (if existsScanRow anti excl c a cand then [a] else [])
      ++ hashExistsGo anti excl c kL kR R choice L (built || complete)

/-- Lookup join: the right child is an index lookup keyed by the left row (`idx k` = the rows the
index returns for key `k`). -/
def lookupJoin (leftOuter : Bool) (c : Row → Row → Tri) (rw : Nat) (kL : Row → κ)
    (idx : κ → List Row) (L : List Row) : List Row :=
  L.flatMap fun a => nlScanRow leftOuter false c rw a (idx (kL a)) false

end Hash

/-! ### Merge join (algorithm level)

`mergeJoinIter` walks two inputs sorted on the comparison key. `cmp a b` is the three-way
comparison of the first filter (`none` = a NULL operand, `ErrNilOperand`); `sel` are the
remaining filters. On a NULL operand the side holding the NULL is advanced (`msRejectNull`). On
equality the block of right rows equal to the current left row is buffered and replayed for every
left row equal to it (`incMatch`). -/

def mergeFuel (L R : List Row) : Nat := L.length + R.length + 1

/-- One left row against a buffered block of right rows. -/
def blockRow (leftOuter : Bool) (sel : Row → Row → Bool) (rw : Nat) (a : Row) (blk : List Row) :
    List Row :=
  let ms := blk.filter (sel a)
  if ms.isEmpty then (if leftOuter then [a ++ nulls rw] else []) else ms.map (a ++ ·)

def mergeGo (leftOuter : Bool) (cmp : Row → Row → Option Ordering) (leftNull : Row → Bool)
    (sel : Row → Row → Bool) (rw : Nat) : Nat → List Row → List Row → List Row
  | 0, _, _ => []
  | _ + 1, [], _ => []
  | _ + 1, L, [] => if leftOuter then L.map (· ++ nulls rw) else []
  | n + 1, a :: L, b :: R =>
    match cmp a b with
    | none =>
      if leftNull a then
        (if leftOuter then [a ++ nulls rw] else []) ++ mergeGo leftOuter cmp leftNull sel rw n L (b :: R)
      else mergeGo leftOuter cmp leftNull sel rw n (a :: L) R
    | some .lt =>
      (if leftOuter then [a ++ nulls rw] else []) ++ mergeGo leftOuter cmp leftNull sel rw n L (b :: R)
    | some .gt => mergeGo leftOuter cmp leftNull sel rw n (a :: L) R
    | some .eq =>
      let blk := b :: R.takeWhile (fun b' => cmp a b' == some .eq)
      let R' := R.dropWhile (fun b' => cmp a b' == some .eq)
      let las := a :: L.takeWhile (fun a' => cmp a' b == some .eq)
      let L' := L.dropWhile (fun a' => cmp a' b == some .eq)
      las.flatMap (fun a' => blockRow leftOuter sel rw a' blk)
        ++ mergeGo leftOuter cmp leftNull sel rw n L' R'

def mergeJoin (leftOuter : Bool) (cmp : Row → Row → Option Ordering) (leftNull : Row → Bool)
    (sel : Row → Row → Bool) (rw : Nat) (L R : List Row) : List Row :=
  mergeGo leftOuter cmp leftNull sel rw (mergeFuel L R) L R

end Gms.Phys
