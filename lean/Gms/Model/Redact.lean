/-
C45 — model of sql/sqlredact (redactor.go, mapping.go), core-only.

External parameters (trusted, fed in by the harness from the real code): the vitess lexer's token
stream `(typ, val)` and the identifier set `collectIdents` builds from the vitess AST.

* `Mapping`, `redactIdent`, `redactValue`        – Impl model of mapping.go (Go maps = association lists in
                                                    mint order, tokens kept as their counter `k`, rendered
                                                    `"n" ++ Nat.repr k` / `"v" ++ Nat.repr k`)
* `classify`, `emitStructural`, `emitToken`      – Impl model of the `switch typ` of emitToken
* `redactLoop`, `redactInto`                     – Impl model of the per-statement loop of RedactSQLForTraceInto
* `aStep`                                        – the atomic steps of RedactIdent/RedactValue under the RWMutex
* `specS`, `specLoop`                            – Spec: every token the generator marks as user data is redacted
* `Region` helpers                               – which listed defect class a case falls into
-/
namespace Gms.Redact

abbrev Bytes := List UInt8

/-! ### Token type numbers of the vitess lexer (regenerated and compared in `Props/C45.facts_match`) -/
def tLEX_ERROR : Nat := 57347
def tSTRING : Nat := 57419
def tID : Nat := 57420
def tHEX : Nat := 57421
def tINTEGRAL : Nat := 57422
def tFLOAT : Nat := 57423
def tHEXNUM : Nat := 57424
def tVALUE_ARG : Nat := 57425
def tLIST_ARG : Nat := 57426
def tCOMMENT : Nat := 57427
def tBIT_LITERAL : Nat := 57429

/-- Arms of the `switch typ` in `emitToken`. -/
inductive Cls
  | ident | str | num | hex | bit | arg | other
  deriving DecidableEq, Repr

/-- Go: the `case` lists of `emitToken`'s switch. -/
def classify (typ : Nat) : Cls :=
  if typ = tID then .ident
  else if typ = tSTRING then .str
  else if typ = tINTEGRAL ∨ typ = tFLOAT ∨ typ = tHEXNUM then .num
  else if typ = tHEX then .hex
  else if typ = tBIT_LITERAL then .bit
  else if typ = tVALUE_ARG ∨ typ = tLIST_ARG then .arg
  else .other

/-- Go: `symbolOps` (token type ↦ operator text), sorted by token type. -/
def symbolOps : List (Nat × String) :=
  [(57435, "||"), (57437, "&&"), (57446, "<="), (57447, ">="), (57448, "!="), (57449, "<=>"),
   (57462, "<<"), (57463, ">>"), (57466, "||"), (57513, "->"), (57514, "->>")]

def symLookup : List (Nat × String) → Nat → Option String
  | [], _ => none
  | (k, s) :: rest, typ => if k = typ then some s else symLookup rest typ

def strBytes (s : String) : Bytes := s.toUTF8.toList

/-- Go: `emitStructural(out, typ, val)` — what is written for a non-redacted token. -/
def emitStructural (typ : Nat) (val : Bytes) : Bytes :=
  if val ≠ [] then val
  else if typ < 256 then [UInt8.ofNat typ]
  else match symLookup symbolOps typ with
    | some s => strBytes s
    | none => [32]

/-! ### Mapping -/

/-- Ground truth supplied by the generator for the Spec (the Impl model never looks at it):
`kw` = text of the statement template, `name` = user-chosen name in a position whose AST node is a
TableIdent/ColIdent reached by Walk, `leaky c` = user-chosen name in position class `c`. -/
inductive Role
  | kw | name | leaky (c : Nat)
  deriving DecidableEq, Repr

structure Tok where
  typ : Nat
  val : Bytes
  role : Role := .kw
  deriving Repr

structure Mapping where
  idents : List (Bytes × Nat) := []
  values : List (Bytes × Nat) := []
  nCount : Nat := 0
  vCount : Nat := 0
  deriving Repr, DecidableEq

def lookup : List (Bytes × Nat) → Bytes → Option Nat
  | [], _ => none
  | (k, v) :: rest, x => if k = x then some v else lookup rest x

/-- Go: `RedactIdent`. `none` is the pass-through of the empty string. -/
def redactIdent (m : Mapping) (orig : Bytes) : Mapping × Option Nat :=
  if orig = [] then (m, none)
  else match lookup m.idents orig with
    | some k => (m, some k)
    | none => ({ m with nCount := m.nCount + 1, idents := m.idents ++ [(orig, m.nCount + 1)] },
               some (m.nCount + 1))

/-- Go: `RedactValue` (no special case for the empty string). -/
def redactValue (m : Mapping) (orig : Bytes) : Mapping × Nat :=
  match lookup m.values orig with
  | some k => (m, k)
  | none => ({ m with vCount := m.vCount + 1, values := m.values ++ [(orig, m.vCount + 1)] },
             m.vCount + 1)

/-! ### Atomic steps of the lock protocol (RLock read, then Lock + re-check + mint) -/

inductive AOp
  | readI (k : Bytes) | lockI (k : Bytes) | readV (k : Bytes) | lockV (k : Bytes)
  deriving Repr, DecidableEq

/-- One atomic step; the result is the token the step hands back to its goroutine, if any
(`readI`/`readV` on a miss hand back nothing: the goroutine goes on to `lockI`/`lockV`).
`lockI` is only ever issued for a non-empty key (the `orig == ""` test precedes the locks). -/
def aStep (m : Mapping) : AOp → Mapping × Option Nat
  | .readI k => (m, lookup m.idents k)
  | .lockI k =>
    match lookup m.idents k with
    | some t => (m, some t)
    | none => ({ m with nCount := m.nCount + 1, idents := m.idents ++ [(k, m.nCount + 1)] },
               some (m.nCount + 1))
  | .readV k => (m, lookup m.values k)
  | .lockV k =>
    match lookup m.values k with
    | some t => (m, some t)
    | none => ({ m with vCount := m.vCount + 1, values := m.values ++ [(k, m.vCount + 1)] },
               some (m.vCount + 1))

/-- Run a schedule of atomic steps, collecting (key, namespace, returned token). -/
def aRun : Mapping → List AOp → Mapping × List (AOp × Option Nat)
  | m, [] => (m, [])
  | m, op :: ops =>
    let (m', r) := aStep m op
    let (m'', rs) := aRun m' ops
    (m'', (op, r) :: rs)

/-! ### emitToken -/

/-- An emitted output token. Placeholders carry the mint counter; `render` gives the text. -/
inductive Piece
  | ident (k : Option Nat)   -- `n<k>`  (``  for the empty identifier)
  | str (k : Nat)            -- 'v<k>'
  | num (k : Nat)            -- :v<k>
  | hex (k : Nat)            -- X'v<k>'
  | bit (k : Nat)            -- B'v<k>'
  | raw (bs : Bytes)         -- bytes written verbatim: bind placeholder, keyword text, operator
  deriving DecidableEq, Repr

/-- Go: `emitIdent`. -/
def emitIdent (m : Mapping) (val : Bytes) : Mapping × Piece :=
  let r := redactIdent m val
  (r.1, .ident r.2)

/-- Go: `emitToken(out, typ, val, m, identSet)`. -/
def emitToken (S : List Bytes) (m : Mapping) (typ : Nat) (val : Bytes) : Mapping × Piece :=
  match classify typ with
  | .ident => emitIdent m val
  | .str => let r := redactValue m val; (r.1, .str r.2)
  | .num => let r := redactValue m val; (r.1, .num r.2)
  | .hex => let r := redactValue m val; (r.1, .hex r.2)
  | .bit => let r := redactValue m val; (r.1, .bit r.2)
  | .arg => (m, .raw val)
  | .other =>
    if val ≠ [] ∧ val ∈ S then emitIdent m val
    else (m, .raw (emitStructural typ val))

/-- Go: the `for { typ, val := tk.Scan() … }` loop of `RedactSQLForTraceInto`.
`none` = the lexer reported LEX_ERROR (the mapping keeps what was minted before). -/
def redactLoop (S : List Bytes) : List Tok → Mapping → Mapping × Option (List Piece)
  | [], m => (m, some [])
  | t :: ts, m =>
    if t.typ = 0 then (m, some [])
    else if t.typ = tLEX_ERROR then (m, none)
    else if t.typ = tCOMMENT then redactLoop S ts m
    else
      let r := emitToken S m t.typ t.val
      let rest := redactLoop S ts r.1
      (rest.1, rest.2.map (r.2 :: ·))

/-! ### Rendering -/

def identTok (k : Nat) : String := "n" ++ Nat.repr k
def valueTok (k : Nat) : String := "v" ++ Nat.repr k

def renderPiece : Piece → Bytes
  | .ident none => [96, 96]
  | .ident (some k) => [96] ++ strBytes (identTok k) ++ [96]
  | .str k => [39] ++ strBytes (valueTok k) ++ [39]
  | .num k => [58] ++ strBytes (valueTok k)
  | .hex k => [88, 39] ++ strBytes (valueTok k) ++ [39]
  | .bit k => [66, 39] ++ strBytes (valueTok k) ++ [39]
  | .raw bs => bs

def joinSp : List Bytes → Bytes
  | [] => []
  | [x] => x
  | x :: y :: rest => x ++ [32] ++ joinSp (y :: rest)

def marker : Bytes := strBytes "<unparseable>"

/-- What the parser/lexer pair hands to the loop. -/
inductive Input
  | parseFail
  | parsed (S : List Bytes) (toks : List Tok)
  deriving Repr

inductive Status
  | ok | parseErr | lexErr
  deriving DecidableEq, Repr

/-- Go: `RedactSQLForTraceInto(sql, m)`: output text, mapping afterwards, error class. -/
def redactInto (m : Mapping) : Input → Bytes × Mapping × Status
  | .parseFail => (marker, m, .parseErr)
  | .parsed S toks =>
    match redactLoop S toks m with
    | (m', some ps) => (joinSp (ps.map renderPiece), m', .ok)
    | (m', none) => (marker, m', .lexErr)

/-! ### Spec -/

def isUserOther (t : Tok) : Bool := decide (classify t.typ = .other) && decide (t.role ≠ .kw)

/-- The identifier set the property demands: everything `collectIdents` found plus every
keyword-typed lexeme that the generator placed as a user-chosen name. -/
def specS (S : List Bytes) (toks : List Tok) : List Bytes :=
  S ++ (toks.filter isUserOther).map (·.val)

def specLoop (S : List Bytes) (toks : List Tok) (m : Mapping) : Mapping × Option (List Piece) :=
  redactLoop (specS S toks) toks m

def specInto (m : Mapping) : Input → Bytes × Mapping × Status
  | .parseFail => (marker, m, .parseErr)
  | .parsed S toks => redactInto m (.parsed (specS S toks) toks)

/-- A keyword-typed, user-chosen lexeme that the Impl writes verbatim. -/
def leaks (S : List Bytes) (t : Tok) : Bool :=
  decide (classify t.typ = .other) && decide (t.val ≠ []) && decide (t.val ∉ S) && decide (t.role ≠ .kw)

/-- Listed position classes (known findings): class number ↦ region name. -/
def regionOfClass : Nat → Option String
  | 1 => some "kwname_in_ddl_definition"
  | 2 => some "kwname_of_stored_object"
  | 3 => some "kwname_of_account_or_grant"
  | 4 => some "kwname_in_unwalked_clause"
  | _ => none

def tokRegion (t : Tok) : Option String :=
  match t.role with
  | .leaky c => regionOfClass c
  | _ => none

/-- `Region S toks = some r`: some user lexeme leaks, and *every* leaking token sits in a listed
position class; `r` is the class of the first one. `none` otherwise (in particular when a leak
sits in an unlisted position). -/
def region (S : List Bytes) (toks : List Tok) : Option String :=
  let ls := toks.filter (leaks S)
  match ls with
  | [] => none
  | t :: _ => if ls.all (fun t => (tokRegion t).isSome) then tokRegion t else none

end Gms.Redact
