/-
C05 — which join conditions `analyzer.simplifyFilters` may replace by a definite literal (core-only).

`simplifyExpression` rewrites a filter / join condition bottom-up: an AND / OR with a definite
(non-NULL) literal operand collapses, `NOT <literal>` is negated, and every node without a column
reference or subquery below it (`isEvaluable`) is evaluated once and replaced by a literal. When the
condition of a join ends up as the literal FALSE, `simplifyFilters` replaces the join (inner) or its
right side (left outer) by an `EmptyTable`.

`foldE` is an OVER-approximation of that on the terms of the reference semantics: it does not
evaluate anything, it only tracks what a sub-expression *may* become (`const`: column- and
subquery-free, so that a parent made of such operands is evaluated; `mayT` / `mayF`: a literal that
`getDefiniteBoolValues` reads as TRUE / FALSE). It is used to decide — on the case, identically in
harness/cmd/c05 (`foldOf`) and in the driver — the region of the known finding
`join_on_folds_false_beside_subquery`.
-/
import Gms.Model.Sql

namespace Gms.FilterFold
open Gms.Sql

structure Fold where
  const : Bool
  mayT : Bool
  mayF : Bool
  deriving DecidableEq, Repr

def Fold.none : Fold := ⟨false, false, false⟩
def Fold.any : Fold := ⟨true, true, true⟩
/-- A node whose value is computed from its operands: evaluated iff all of them are constant. -/
def Fold.ofArgs (allConst : Bool) : Fold := if allConst then .any else .none

def Fold.and (x y : Fold) : Fold :=
  let f := x.mayF || y.mayF
  let t := x.mayT && y.mayT
  ⟨f || t || (x.const && y.const), t, f⟩

def Fold.or (x y : Fold) : Fold :=
  let t := x.mayT || y.mayT
  let f := x.mayF && y.mayF
  ⟨f || t || (x.const && y.const), t, f⟩

def Fold.not (x : Fold) : Fold := ⟨x.const, x.mayF, x.mayT⟩

def foldLit : Value → Fold
  | .null => ⟨true, false, false⟩
  | .int i => if i = 0 then ⟨true, false, true⟩ else ⟨true, true, false⟩
  | .str _ => .any

mutual
def foldE : Expr → Fold
  | .lit v => foldLit v
  | .col _ _ => .none
  | .and a b => (foldE a).and (foldE b)
  | .or a b => (foldE a).or (foldE b)
  | .not e => (foldE e).not
  | .neg e | .isNull e | .isTruth _ e => .ofArgs (foldE e).const
  | .arith _ a b | .cmp _ a b | .xor a b | .coalesce a b => .ofArgs ((foldE a).const && (foldE b).const)
  | .between e lo hi | .ite e lo hi => .ofArgs ((foldE e).const && (foldE lo).const && (foldE hi).const)
  | .inList e es => .ofArgs ((foldE e).const && allConst es)
  | .exists _ | .inSub _ _ | .scalar _ => .none
def allConst : List Expr → Bool
  | [] => true
  | e :: es => (foldE e).const && allConst es
end

mutual
/-- Does the expression contain a subquery? -/
def hasSub : Expr → Bool
  | .lit _ | .col _ _ => false
  | .exists _ | .inSub _ _ | .scalar _ => true
  | .not e | .neg e | .isNull e | .isTruth _ e => hasSub e
  | .and a b | .or a b | .arith _ a b | .cmp _ a b | .xor a b | .coalesce a b => hasSub a || hasSub b
  | .between e lo hi | .ite e lo hi => hasSub e || hasSub lo || hasSub hi
  | .inList e es => hasSub e || anySub es
def anySub : List Expr → Bool
  | [] => false
  | e :: es => hasSub e || anySub es
end

/-- Some join of the statement (not looking into subqueries of expressions) has a condition that
may be folded to the literal FALSE. -/
def joinMayFoldFalse : Query → Bool
  | .table _ => false
  | .join _ on l r => (foldE on).mayF || joinMayFoldFalse l || joinMayFoldFalse r
  | .setop _ _ l r => joinMayFoldFalse l || joinMayFoldFalse r
  | .filter _ q | .project _ q | .group _ _ _ q | .distinct q | .orderBy _ _ q | .limit _ _ q =>
    joinMayFoldFalse q

/-- Some WHERE / HAVING / ON of the statement contains a subquery (which the engine may unnest into a
semi / anti join beside the other joins). -/
def predHasSub : Query → Bool
  | .table _ => false
  | .join _ on l r => hasSub on || predHasSub l || predHasSub r
  | .setop _ _ l r => predHasSub l || predHasSub r
  | .filter p q => hasSub p || predHasSub q
  | .project _ q | .group _ _ _ q | .distinct q | .orderBy _ _ q | .limit _ _ q => predHasSub q

/-- Region `join_on_folds_false_beside_subquery`, on one statement. -/
def Region_join_on_folds_false_beside_subquery (q : Query) : Bool :=
  joinMayFoldFalse q && predHasSub q

end Gms.FilterFold
