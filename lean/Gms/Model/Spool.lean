/-
C35 — model of the spooling dispatch of `Handler.doQuery` (server/handler.go): which strategy
turns the engine's row iterator into the `callback` invocations the client sees (core-only).

  schema is the OkResult schema      → resultForOkIter     : exactly one OkResult row, else error
  schema == nil                      → resultForEmptyIter  : no row at all, else error
  QFlagMax1Row is set                → resultForMax1RowIter: zero or one row; a SECOND row is the
                                       error "result max1Row iterator returned more than one row"
  otherwise                          → resultForDefaultIter / resultForValueRowIter: batches of
                                       rowsBatch rows (Gms/Model/Pipeline.lean), then the rest

The flag is computed by the analyzer (costed index scan over a strict key, global aggregation);
the in-process engine ignores it. The handler is only right if the flag is *sound*:
"flag set ⇒ the iterator yields at most one row".
-/
namespace Gms.Spool

inductive Kind where
  | ok      -- types.IsOkResultSchema(schema)
  | none    -- schema == nil
  | rows
  deriving Repr, DecidableEq

/-- One statement as the handler sees it: schema kind, the analyzer's flag, and the number of rows
the engine's iterator yields. -/
structure Q where
  kind : Kind
  max1 : Bool
  n : Nat
  deriving Repr

inductive Out where
  | cbs (sizes : List Nat)   -- row counts of the successive `callback(result)` invocations
  | err                      -- the statement fails (client receives ERR 1105)
  deriving Repr, DecidableEq

/-- Sizes of the callbacks of the batching pipeline for `n` rows: `n / B` full batches, then the
rest — which is also sent when it is empty and nothing has been sent yet. -/
def batchSizes (B n : Nat) : List Nat :=
  List.replicate (n / B) B ++ (if n % B ≠ 0 ∨ n / B = 0 then [n % B] else [])

/-- Impl model: what `doQuery` does. -/
def handler (B : Nat) (q : Q) : Out :=
  match q.kind with
  | .ok => if q.n = 1 then .cbs [0] else .err
  | .none => if q.n = 0 then .cbs [0] else .err
  | .rows =>
    if q.max1 then (if q.n ≤ 1 then .cbs [q.n] else .err)
    else .cbs (batchSizes B q.n)

/-- Spec: the client receives the engine's rows (an OK packet / empty result set for the
row-less kinds); the analyzer's flag must not be observable. -/
def spec (B : Nat) (q : Q) : Out :=
  match q.kind with
  | .ok => .cbs [0]
  | .none => .cbs [0]
  | .rows => .cbs (batchSizes B q.n)

/-- The iterator has the shape its schema promises. -/
def WellShaped (q : Q) : Prop := (q.kind = .ok → q.n = 1) ∧ (q.kind = .none → q.n = 0)

/-- The analyzer's promise. -/
def FlagSound (q : Q) : Prop := q.max1 = true → q.n ≤ 1

def render : Out → String
  | .cbs sizes => "sizes " ++ " ".intercalate (sizes.map toString)
  | .err => "err:1105"

end Gms.Spool
