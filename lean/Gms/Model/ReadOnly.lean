/-
C42 — model of the read-only gates (core-only).

Impl model (transliteration of the Go code, defects included):
* `isRO`        – `plan.IsReadOnly(node)` = the per-kind `IsReadOnly()` methods of sql/plan/*.go, driven by
                  the *regenerated* kind table (`Cls` = shape of a method body)
* `engineGate`  – `Engine.readOnlyCheck` (engine.go)
* `roTxRule`    – `validateReadOnlyTransaction` (sql/analyzer/validation_rules.go), including its
                  traversal `temporaryTableSearch` / `isTempTable`
* `roDbRule`    – `validateReadOnlyDatabase`, including `readOnlyDBSearch`

Spec:
* `verdict`     – does executing the plan modify data or schema (`block`), certainly not (`allow`),
                  or is the property silent (`free`: statistics, locks, replication control …),
                  computed from a hand-written per-kind expectation (`Expect`)
-/
namespace Gms.ReadOnly

/-- Shape of an `IsReadOnly()` method body, as classified by the extractor. -/
inductive Cls where
  | const (b : Bool)                         -- `return true` / `return false`
  | fields (fs : List String)                -- conjunction (left to right, short circuit) over the nodes held by these fields
  | optField (f : String)                    -- `if x.f == nil { return true }; return x.f.IsReadOnly()`
  | ifSet (f : String) (dflt : Bool)         -- `if x.f != nil { return x.f.IsReadOnly() }; return dflt`
  | attr                                     -- returns a boolean attribute stored in the node
  | panics                                   -- the body is `panic(…)`
  | embed (k : String)                       -- no own method: promoted from the embedded kind `k`
  | via (f k : String) (gs : List String)    -- `x.f.g₁.IsReadOnly() && …` where field `f` holds a node of kind `k`
  | complex (src : String)                   -- anything else (an obligation demands there is none)
  deriving DecidableEq, Repr, Inhabited

/-- Attributes of a node the gates look at besides its kind. -/
structure Attr where
  flag : Bool       -- ExternalProcedure: details.ReadOnly; CreateTable: Temporary()
  tempIface : Bool  -- ResolvedTable: the table implements sql.TemporaryTable
  temp : Bool       -- … and IsTemporary()
  roIface : Bool    -- ResolvedTable / CreateTable: the database implements sql.ReadOnlyDatabase
  roDb : Bool       -- … and IsReadOnly()
  deriving DecidableEq, Repr, Inhabited

def Attr.none : Attr := ⟨false, false, false, false, false⟩

/-- A plan tree as the harness serialises it: every node-valued struct field of a node yields
children tagged with the field's name (`field`); `isChild` says whether the node is also an
element of the parent's `Children()` (the traversals of the analyzer rules follow `Children()`,
the `IsReadOnly` methods follow fields). Kind `"<nil>"` is a nil value in a node-typed field. -/
inductive Node where
  | mk (field kind : String) (isChild : Bool) (a : Attr) (children : List Node)
  deriving Repr, Inhabited

def Node.field : Node → String | .mk f _ _ _ _ => f
def Node.kind : Node → String | .mk _ k _ _ _ => k
def Node.isChild : Node → Bool | .mk _ _ c _ _ => c
def Node.attr : Node → Attr | .mk _ _ _ a _ => a
def Node.children : Node → List Node | .mk _ _ _ _ cs => cs
def nilKind : String := "<nil>"
def Node.isNil (n : Node) : Bool := n.kind == nilKind

/-! ## `plan.IsReadOnly` -/

/-- Result of calling `IsReadOnly()` on the real node. -/
inductive Res where
  | ok (b : Bool)
  | panic            -- Go panic (nil dereference, explicit `panic`)
  | unknown          -- kind not in the table / body not understood: the model does not predict
  deriving DecidableEq, Repr, Inhabited

abbrev Table := List (String × Cls)

def lookup (tbl : Table) (k : String) : Option Cls :=
  match tbl with
  | [] => none
  | (k', c) :: rest => if k' == k then some c else lookup rest k

/-- Follow `embed` links (method promotion). -/
def resolveCls (tbl : Table) : Nat → Cls → Option Cls
  | 0, _ => none
  | n + 1, .embed k =>
    match lookup tbl k with
    | some c => resolveCls tbl n c
    | none => none
  | _ + 1, c => some c

def resolve (tbl : Table) (fuel : Nat) (k : String) : Option Cls :=
  match lookup tbl k with
  | some c => resolveCls tbl fuel c
  | none => none

/-- What a parent sees of a child: its field, whether it is nil, and its own `IsReadOnly()`. -/
structure ChildRes where
  field : String
  isNil : Bool
  res : Res
  deriving Repr

/-- Go `a && b && …` / the `for … { if !x.IsReadOnly() { return false } }` loops: left to right,
the first result that is not `true` decides. -/
def conj : List Res → Res
  | [] => .ok true
  | .ok true :: rs => conj rs
  | r :: _ => r

def sel (f : String) (cs : List ChildRes) : List ChildRes := cs.filter (fun c => c.field == f)

/-- The consulted children, in the order the harness serialises them (= `Children()` order, which
is the order of the conjuncts in every method of the source: left/right, IfConditionals…/Else). -/
def consulted (fs : List String) (cs : List ChildRes) : List Res :=
  (cs.filter (fun c => fs.contains c.field)).map (·.res)

def step (c : Cls) (a : Attr) (cs : List ChildRes) : Res :=
  match c with
  | .const b => .ok b
  | .fields fs => conj (consulted fs cs)
  | .via f _ _ => conj (consulted [f] cs)
  | .optField f =>
    match sel f cs with
    | [c] => if c.isNil then .ok true else c.res
    | _ => .unknown
  | .ifSet f d =>
    match sel f cs with
    | [c] => if c.isNil then .ok d else c.res
    | _ => .unknown
  | .attr => .ok a.flag
  | .panics => .panic
  | .embed _ => .unknown
  | .complex _ => .unknown

mutual
/-- `node.IsReadOnly()`. -/
def isRO (tbl : Table) : Node → Res
  | .mk _ kind _ a cs =>
    if kind == nilKind then .panic
    else match resolve tbl 4 kind with
      | none => .unknown
      | some c => step c a (isROs tbl cs)
def isROs (tbl : Table) : List Node → List ChildRes
  | [] => []
  | c :: cs => ⟨c.field, c.isNil, isRO tbl c⟩ :: isROs tbl cs
end

/-! ## `Engine.readOnlyCheck` -/

inductive Gate where
  | pass | errReadOnly | errLocked | panic | unknown
  deriving DecidableEq, Repr, Inhabited

/-- `if e.IsReadOnly() && !plan.IsReadOnly(node) { ErrReadOnly }; if e.IsServerLocked &&
!plan.IsReadOnly(node) { ErrDatabaseWriteLocked }; nil` — `IsReadOnly` is only evaluated when a
mode is on. -/
def engineGate (ro locked : Bool) (r : Res) : Gate :=
  if ro then
    match r with
    | .ok false => .errReadOnly
    | .panic => .panic
    | .unknown => .unknown
    | .ok true => if locked then .pass else .pass
  else if locked then
    match r with
    | .ok false => .errLocked
    | .panic => .panic
    | .unknown => .unknown
    | .ok true => .pass
  else .pass

/-! ## The analyzer rules -/

/-- Facts about the two rules' kind switches (regenerated; see `Gms.Generated.C42`). -/
structure RuleFacts where
  ddl : List String            -- plan.IsDDLNode
  txSearchRoot : List String   -- arms that run temporaryTableSearch over the visited node
  txSearchDest : List String   -- arm that runs it over n.Destination
  txReject : List String       -- arm `valid = false`
  txTempCreate : List String   -- arm `if n.Temporary() { valid = false }`
  dbSearchRoot : List String
  dbSearchDest : List String
  dbOwn : List String          -- CreateTable: looks at n.Database() only
  deriving Repr

def resolvedTable : String := "plan.ResolvedTable"

inductive St where
  | valid (b : Bool)
  | panic
  deriving DecidableEq, Repr, Inhabited

mutual
/-- `transform.InspectWithOpaque(ctx, node, temporaryTableSearch)` threading the captured
variable `valid`: pre-order; a callback result `false` prunes the node's children but not its
siblings; `valid = isTempTable(rt.Table)` overwrites `valid` at every resolved table reached;
`isTempTable` dereferences a nil interface when the table does not implement
sql.TemporaryTable; descending into a nil node panics (`n.Children()` on a nil interface). -/
def tempSearch : Node → St → St
  | .mk _ kind _ a cs, st =>
    match st with
    | .panic => .panic
    | .valid v =>
      if kind == resolvedTable then (if a.tempIface then .valid a.temp else .panic)
      else if v then (if kind == nilKind then .panic else tempSearchL cs (.valid v)) else .valid v
def tempSearchL : List Node → St → St
  | [], st => st
  | c :: cs, st => tempSearchL cs (if c.isChild then tempSearch c st else st)
end

mutual
/-- `transform.InspectWithOpaque(ctx, node, readOnlyDBSearch)` threading `valid` (which this
callback only ever lowers). -/
def dbSearch (enforce : Bool) : Node → St → St
  | .mk _ kind _ a cs, st =>
    match st with
    | .panic => .panic
    | .valid v =>
      let v' := if kind == resolvedTable && a.roIface then (if a.roDb then false else if enforce then false else v) else v
      if v' then (if kind == nilKind then .panic else dbSearchL enforce cs (.valid v')) else .valid v'
def dbSearchL (enforce : Bool) : List Node → St → St
  | [], st => st
  | c :: cs, st => dbSearchL enforce cs (if c.isChild then dbSearch enforce c st else st)
end

mutual
/-- A nil node is reachable through `Children()` edges: a traversal whose callback keeps
returning `true` panics on it. -/
def reachNil : Node → Bool
  | .mk _ kind _ _ cs => kind == nilKind || reachNilL cs
def reachNilL : List Node → Bool
  | [] => false
  | c :: cs => (c.isChild && reachNil c) || reachNilL cs
end

inductive Tx where
  | none | rw | ro
  deriving DecidableEq, Repr, Inhabited

inductive Outcome where
  | pass | reject | panic
  deriving DecidableEq, Repr, Inhabited

def ofSt : St → Outcome
  | .valid true => .pass
  | .valid false => .reject
  | .panic => .panic

def fieldNodes (f : String) (cs : List Node) : List Node := cs.filter (fun c => c.field == f)

/-- `validateReadOnlyTransaction`. The kind switch inside the traversal callback scrutinises the
*root* (`switch n := n.(type)`), so only the root's kind matters; in the default arm the
traversal walks the whole tree without effect. -/
def roTxRule (F : RuleFacts) (tx : Tx) (enforce : Bool) (n : Node) : Outcome :=
  if tx == .none then .pass
  else if tx != .ro && !enforce then .pass
  else
    let k := n.kind
    if F.txSearchRoot.contains k then ofSt (tempSearch n (.valid true))
    else if F.txSearchDest.contains k then
      match fieldNodes "Destination" n.children with
      | [d] => ofSt (tempSearch d (.valid true))
      | _ => .panic
    else if F.txReject.contains k then .reject
    else if F.txTempCreate.contains k then (if n.attr.flag then .reject else .pass)
    else if F.ddl.contains k then .pass
    else if reachNil n then .panic else .pass

/-- `validateReadOnlyDatabase` (`reject` = ErrReadOnlyDatabase, or ErrProcedureCallAsOfReadOnly
when the scope enforces read-only). -/
def roDbRule (F : RuleFacts) (enforce : Bool) (n : Node) : Outcome :=
  let k := n.kind
  if F.dbSearchRoot.contains k then ofSt (dbSearch enforce n (.valid true))
  else if F.dbSearchDest.contains k then
    match fieldNodes "Destination" n.children with
    | [d] => ofSt (dbSearch enforce d (.valid true))
    | _ => .panic
  else if F.dbOwn.contains k then
    (if n.attr.roIface && (n.attr.roDb || enforce) then .reject else .pass)
  else if F.ddl.contains k then ofSt (dbSearch enforce n (.valid true))
  else if reachNil n then .panic else .pass

/-! ## Spec -/

/-- What executing a node of this kind does by itself. -/
inductive Eff where
  | none      -- reads only
  | write     -- modifies table data, schema objects, or the grant tables
  | free      -- the property is silent (statistics, table locks, replication/binlog control, …)
  | byFlag    -- external procedure: `none` when declared read-only, else `write`
  deriving DecidableEq, Repr, Inhabited

/-- Hand-written expectation per kind: own effect, and the fields whose nodes are executed as
part of executing this node. -/
structure Expect where
  eff : Eff
  runs : List String
  deriving DecidableEq, Repr, Inhabited

abbrev ExpTable := List (String × Expect)

def lookupE (exp : ExpTable) (k : String) : Option Expect :=
  match exp with
  | [] => none
  | (k', e) :: rest => if k' == k then some e else lookupE rest k

inductive V where
  | allow | block | free
  deriving DecidableEq, Repr, Inhabited

def ownV (e : Eff) (a : Attr) : V :=
  match e with
  | .none => .allow
  | .write => .block
  | .free => .free
  | .byFlag => if a.flag then .allow else .block

/-- block if anything blocks, else free if anything is free, else allow. -/
def combine (own : V) (cs : List V) : V :=
  if own == .block || cs.contains .block then .block
  else if own == .free || cs.contains .free then .free
  else .allow

mutual
/-- Does executing this plan modify data or schema? -/
def verdict (exp : ExpTable) : Node → V
  | .mk _ kind _ a cs =>
    if kind == nilKind then .allow
    else match lookupE exp kind with
      | none => .free
      | some e => combine (ownV e.eff a) (verdicts exp e.runs cs)
def verdicts (exp : ExpTable) (runs : List String) : List Node → List V
  | [] => []
  | c :: cs => if runs.contains c.field then verdict exp c :: verdicts exp runs cs else verdicts exp runs cs
end

mutual
/-- Defect region: the tree holds a node of shape `ifSet f false` (a stored procedure) without
the optional node (no external implementation) whose flag says its body does not write — the
method answers `false` regardless. -/
def storedProc (tbl : Table) : Node → Bool
  | .mk _ kind _ a cs =>
    (match resolve tbl 4 kind with
     | some (.ifSet f _) => a.flag && nilIn f cs
     | _ => false) || storedProcL tbl cs
def storedProcL (tbl : Table) : List Node → Bool
  | [] => false
  | c :: cs => storedProc tbl c || storedProcL tbl cs
def nilIn (f : String) : List Node → Bool
  | [] => false
  | c :: cs => (c.field == f && c.isNil) || nilIn f cs
end

/-- Per-kind soundness of the table against the expectation (the obligation over the
regenerated table is `∀ k ∈ kinds, kindOk … k`, closed by `decide`). -/
def clsOk (c : Option Cls) (e : Expect) : Bool :=
  match c, e with
  | some (.const true), ⟨.none, []⟩ => true
  | some (.const _), ⟨.free, []⟩ => true
  | some (.const false), ⟨.write, _⟩ => true
  | some (.fields fs), ⟨.none, runs⟩ => fs == runs
  | some (.via f _ _), ⟨.none, runs⟩ => [f] == runs
  | some (.optField f), ⟨.none, runs⟩ => [f] == runs
  | some .attr, ⟨.byFlag, []⟩ => true
  | some (.ifSet f false), ⟨.byFlag, runs⟩ => [f] == runs
  | _, _ => false

def kindOk (tbl : Table) (exp : ExpTable) (k : String) : Bool :=
  match lookupE exp k with
  | some e => clsOk (resolve tbl 4 k) e
  | none => false

def fieldNodesCount (f : String) : List Node → Nat
  | [] => 0
  | c :: cs => (if c.field == f then 1 else 0) + fieldNodesCount f cs

/-- For a kind of shape `ifSet f` (plan.Procedure): the flag "own body does not write" must be
set when an external implementation is attached (the body is then empty). -/
def ifSetFlagOk (f : String) (flag : Bool) : List Node → Bool
  | [] => true
  | c :: cs => (if c.field == f && !c.isNil then flag else true) && ifSetFlagOk f flag cs

mutual
/-- Well-formedness of a tree with respect to the tables: every node (executed or not) has a
sound kind; a consulted field never holds nil except the optional one of `optField`; the single
node fields `optField`/`via` consult are present exactly once. -/
def wf (tbl : Table) (exp : ExpTable) : Node → Bool
  | .mk _ kind _ a cs =>
    kind != nilKind && kindOk tbl exp kind &&
    (match resolve tbl 4 kind with
     | some (.optField f) => (fieldNodesCount f cs == 1) && wfL tbl exp [] cs
     | some (.ifSet f _) => (fieldNodesCount f cs == 1) && ifSetFlagOk f a.flag cs && wfL tbl exp [] cs
     | some (.fields fs) => wfL tbl exp fs cs
     | some (.via f _ _) => wfL tbl exp [f] cs
     | _ => wfL tbl exp [] cs)
def wfL (tbl : Table) (exp : ExpTable) (strict : List String) : List Node → Bool
  | [] => true
  | c :: cs =>
    (if c.kind == nilKind then !strict.contains c.field else wf tbl exp c) && wfL tbl exp strict cs
end

/-! ## The table the expectation demands (Spec side, independent of the source)

When the source's table stops agreeing with the expectation on some kind (`kindOk` fails), `wf`
over the source's table is false for every tree holding that kind and the Spec would fall
silent exactly where the source went wrong. `repair` replaces the entries of such kinds by the
canonical method shape the expectation prescribes, so that well-formedness — hence the Spec —
of a tree can be decided without trusting the source's entry for the offending kind. On a
sound table `repair` is the identity (obligation `repair_is_identity`). -/

/-- The canonical `IsReadOnly` shape of a kind with this expectation. -/
def canonCls (e : Expect) : Cls :=
  match e with
  | ⟨.none, []⟩ => .const true
  | ⟨.none, runs⟩ => .fields runs
  | ⟨.free, _⟩ => .const true
  | ⟨.write, _⟩ => .const false
  | ⟨.byFlag, []⟩ => .attr
  | ⟨.byFlag, f :: _⟩ => .ifSet f false

/-- Replace the entry of every kind that is unsound (and not a listed exception) by the
canonical shape. Soundness is judged against the *original* table (`T`), so a kind that embeds
a repaired kind is repaired itself. -/
def repairWith (T : Table) (exp : ExpTable) (exc : List String) : Table → Table
  | [] => []
  | (k, c) :: rest =>
    (if kindOk T exp k || exc.contains k then (k, c)
     else match lookupE exp k with
       | some e => (k, canonCls e)
       | none => (k, c)) :: repairWith T exp exc rest

def repair (T : Table) (exp : ExpTable) (exc : List String) : Table := repairWith T exp exc T

end Gms.ReadOnly
