/-
C32 (part 1) — byte-level model of internal/strings/unquote.go (core-only).

* `decodeSize`      – Go's `utf8.DecodeRune` as far as `Quote` uses it: size of a well-formed encoding at
                      the head of the input, `none` for (RuneError, 1)
* `quoteEscape`     – the 256-entry escape table
* `quote`           – Impl model of `Quote`
* `unquote`         – Impl model of `Unquote` (escape switch, `\uXXXX`, outer-quote stripping), including
                      the three inputs on which the Go code panics
* `unquoteSpec`     – Spec: same function, total: the panicking inputs are errors
-/
namespace Gms.JsonQuote

abbrev Bytes := List UInt8

/-! ### utf8.DecodeRune -/

def isCont (b : UInt8) : Bool := 0x80 ≤ b && b ≤ 0xBF

/-- Second byte of a 3-byte form: E0 needs A0..BF (no overlong), ED needs 80..9F (no surrogate). -/
def second3 (b0 b1 : UInt8) : Bool :=
  (if b0 = 0xE0 then (0xA0 : UInt8) else 0x80) ≤ b1 && b1 ≤ (if b0 = 0xED then (0x9F : UInt8) else 0xBF)

/-- Second byte of a 4-byte form: F0 needs 90..BF (no overlong), F4 needs 80..8F (≤ U+10FFFF). -/
def second4 (b0 b1 : UInt8) : Bool :=
  (if b0 = 0xF0 then (0x90 : UInt8) else 0x80) ≤ b1 && b1 ≤ (if b0 = 0xF4 then (0x8F : UInt8) else 0xBF)

def lead2 (b0 : UInt8) : Bool := 0xC2 ≤ b0 && b0 ≤ 0xDF
def lead3 (b0 : UInt8) : Bool := 0xE0 ≤ b0 && b0 ≤ 0xEF
def lead4 (b0 : UInt8) : Bool := 0xF0 ≤ b0 && b0 ≤ 0xF4

/-- Size of the well-formed UTF-8 encoding at the head (Go: `utf8.DecodeRune`; `none` = RuneError,1).
Only called with a head byte ≥ 0x80. -/
def decodeSize : Bytes → Option Nat
  | b0 :: b1 :: rest =>
    if lead2 b0 then (if isCont b1 then some 2 else none)
    else if lead3 b0 then
      match rest with
      | b2 :: _ => if second3 b0 b1 && isCont b2 then some 3 else none
      | [] => none
    else if lead4 b0 then
      match rest with
      | b2 :: b3 :: _ => if second4 b0 b1 && isCont b2 && isCont b3 then some 4 else none
      | _ => none
    else none
  | _ => none

/-! ### Quote -/

def hexDigitLower (n : Nat) : UInt8 :=
  if n < 10 then UInt8.ofNat (48 + n) else UInt8.ofNat (97 + n - 10)

/-- Go: `quoteEscape[b]` (`[]` = written unchanged). -/
def quoteEscape (b : UInt8) : Bytes :=
  if b = 34 then [92, 34]
  else if b = 92 then [92, 92]
  else if b = 8 then [92, 98]
  else if b = 12 then [92, 102]
  else if b = 10 then [92, 110]
  else if b = 13 then [92, 114]
  else if b = 9 then [92, 116]
  else if b < 0x20 then [92, 117, 48, 48, hexDigitLower (b.toNat / 16), hexDigitLower (b.toNat % 16)]
  else []

def replacement : Bytes := [92, 117, 102, 102, 102, 100]   -- `�`

/-- Go: the loop of `Quote`; `k` = bytes of the current multi-byte rune still to copy. -/
def quoteAux : Nat → Bytes → Bytes
  | _, [] => []
  | k + 1, b :: rest => b :: quoteAux k rest
  | 0, b :: rest =>
    if b < 0x80 then
      (if quoteEscape b = [] then [b] else quoteEscape b) ++ quoteAux 0 rest
    else
      match decodeSize (b :: rest) with
      | none => replacement ++ quoteAux 0 rest
      | some n => b :: quoteAux (n - 1) rest

def quote (s : Bytes) : Bytes := [34] ++ quoteAux 0 s ++ [34]

/-- Well-formed UTF-8 in the sense `Quote` tests it. -/
def validAux : Nat → Bytes → Bool
  | _, [] => true
  | k + 1, _ :: rest => validAux k rest
  | 0, b :: rest =>
    if b < 0x80 then validAux 0 rest
    else match decodeSize (b :: rest) with
      | none => false
      | some n => validAux (n - 1) rest

def validUtf8 (s : Bytes) : Bool := validAux 0 s

/-- What survives a Quote/Unquote round trip: ill-formed bytes become U+FFFD. -/
def sanitizeAux : Nat → Bytes → Bytes
  | _, [] => []
  | k + 1, b :: rest => b :: sanitizeAux k rest
  | 0, b :: rest =>
    if b < 0x80 then b :: sanitizeAux 0 rest
    else match decodeSize (b :: rest) with
      | none => [0xEF, 0xBF, 0xBD] ++ sanitizeAux 0 rest
      | some n => b :: sanitizeAux (n - 1) rest

def sanitize (s : Bytes) : Bytes := sanitizeAux 0 s

/-! ### Unquote -/

inductive Res
  | ok (bs : Bytes)
  | errUnicode      -- fmt.Errorf("Invalid unicode: …")
  | errHex          -- error of encoding/hex
  | crash           -- the Go code panics
  deriving DecidableEq, Repr

def Res.cons (b : UInt8) : Res → Res
  | .ok bs => .ok (b :: bs)
  | r => r

def Res.app (p : Bytes) : Res → Res
  | .ok bs => .ok (p ++ bs)
  | r => r

def hexVal (c : UInt8) : Option Nat :=
  if 48 ≤ c && c ≤ 57 then some (c.toNat - 48)
  else if 97 ≤ c && c ≤ 102 then some (c.toNat - 97 + 10)
  else if 65 ≤ c && c ≤ 70 then some (c.toNat - 65 + 10)
  else none

/-- Go: `utf8.EncodeRune` for a code unit below 0x10000 that is not a surrogate. -/
def encodeBmp (u : Nat) : Bytes :=
  if u < 0x80 then [UInt8.ofNat u]
  else if u < 0x800 then [UInt8.ofNat (0xC0 + u / 64), UInt8.ofNat (0x80 + u % 64)]
  else [UInt8.ofNat (0xE0 + u / 4096), UInt8.ofNat (0x80 + u / 64 % 64), UInt8.ofNat (0x80 + u % 64)]

inductive Dec
  | bytes (bs : Bytes) | hexErr | surrogate
  deriving DecidableEq, Repr

/-- Go: `decodeEscapedUnicode(s[i+1:i+5])`. For a surrogate code unit `utf8.RuneLen` is -1 and
`char[0:size]` panics. -/
def decodeEscaped (a b c d : UInt8) : Dec :=
  match hexVal a, hexVal b, hexVal c, hexVal d with
  | some a, some b, some c, some d =>
    let u := ((a * 16 + b) * 16 + c) * 16 + d
    if 0xD800 ≤ u ∧ u ≤ 0xDFFF then .surrogate else .bytes (encodeBmp u)
  | _, _, _, _ => .hexErr

/-- Go: the escape-processing loop of `Unquote`. `strict = false` is the code as it is
(Impl model); `strict = true` turns the three panics into errors (Spec). -/
def unescape (strict : Bool) : Bytes → Res
  | [] => .ok []
  | [92] => .ok [92]
  | 92 :: 117 :: rest =>
    match rest with
    | a :: b :: c :: d :: rest' =>
      match decodeEscaped a b c d with
      | .bytes bs => (unescape strict rest').app bs
      | .hexErr => .errHex
      | .surrogate => if strict then .errUnicode else .crash
    | [_, _, _] => if strict then .errUnicode else .crash   -- `i+4 > len(s)` lets len(s) = i+4 through
    | _ => .errUnicode
  | 92 :: c :: rest =>
    let o : UInt8 :=
      if c = 98 then 8 else if c = 102 then 12 else if c = 110 then 10
      else if c = 114 then 13 else if c = 116 then 9 else c   -- `"`, `\` and every other byte: itself
    (unescape strict rest).cons o
  | b :: rest => (unescape strict rest).cons b

/-- Go: "Remove prefix and suffix '\"'". -/
def stripQuotes (s : Bytes) : Bytes :=
  if s.length > 1 ∧ s.head? = some 34 ∧ s.getLast? = some 34 then (s.drop 1).dropLast else s

def unquoteWith (strict : Bool) (s : Bytes) : Res :=
  match unescape strict s with
  | .ok bs => .ok (stripQuotes bs)
  | r => r

/-- Impl model of `Unquote`. -/
def unquote (s : Bytes) : Res := unquoteWith false s
/-- Spec of `Unquote`: never panics. -/
def unquoteSpec (s : Bytes) : Res := unquoteWith true s

/-- The inputs on which Impl and Spec differ (known finding): a `\u` escape that is followed by
exactly three more bytes, or whose four hex digits name a surrogate, before any earlier error. -/
def crashes (s : Bytes) : Bool := unescape false s = .crash

end Gms.JsonQuote
