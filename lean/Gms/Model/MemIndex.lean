/-
M5b `MemIndex` — the in-memory storage engine with its *physical* layout: hash partitions, the
secondary index storage (`secondaryIndexStorage`: key tuple ++ `primaryRowLocation`), and the
statement protocol of the table editor on top of it (core-only, executable). Used by C15
(statement atomicity) and C16 (index consistency). It extends `Gms/Model/MemTable.lean` (whose
accumulator functions `edInsert / edUpdate / edDelete` are reused unchanged) — the flattened
`rows` of that model is the concatenation of the partitions here.

Sources modelled (path by path):
* memory/table_data.go     `TableData.copy` (what is copied, what is shared), `partition` (a
                           parameter: tabulated by the harness in `Env.pmap`), `sortRows`,
                           `sortSecondaryIndexes`, `truncate`
* memory/table.go          `partitionssort.{Less,Swap}` (swap relocates index entries in place),
                           `indexScanRowIter.Next` (follows locations, skips dangling ones),
                           `Table.copy / replaceData`, `DropIndex`, `RenameIndex`, `CreateIndex` + `BuildIndex`
* memory/index.go          `rowToIndexStorage`, `ExtendedExprs`
* memory/table_editor.go   `pkTableEditAccumulator.{ApplyEdits,deleteHelper,insertHelper}`,
                           `keylessTableEditAccumulator.{ApplyEdits,deleteHelper,insertHelper}`,
                           `deleteRowFromIndexes`, `addRowToIndexes`, `tableEditor.{StatementBegin,
                           DiscardChanges,StatementComplete,Close,IndexedAccess}`
* sql/plan/table_editor.go `TableEditorIter.{Next,Close}`

Object identities. `TableData.copy()` copies the partition slices and the index-storage slices,
but **not the index rows themselves**: an index row (`sql.Row` = key values ++ location) is shared
by the session data, the statement snapshot (`initialTable`) and the committed data, and both
`deleteRowFromIndexes` and `partitionssort.Swap` overwrite its last element *in place*. The model
therefore keeps index rows in a `Heap` (object id ↦ entry); a `TData` holds lists of ids. A
snapshot is a `TData` by value; the heap is global.

Go map iteration (partitions, `cmap.Foreach` over pending edits, `indexes`) becomes list order;
this is faithful for the observation used (rows and index entries as multisets) whenever stored
primary keys are distinct, which the harness guarantees (it stops a history at the first
divergence).
-/
import Gms.Model.MemTable
namespace Gms.MemIndex
open Gms.MemTable

/-! ## Layout -/

/-- Go: `primaryRowLocation{partition, idx}` (partition names are the decimal partition numbers). -/
structure Loc where
  part : Nat
  idx : Nat
  deriving DecidableEq, Repr, Inhabited

/-- one row of `secondaryIndexStorage[name]`. -/
structure Entry where
  vals : List Val
  loc : Loc
  deriving DecidableEq, Repr, Inhabited

abbrev Heap := List Entry

structure IdxDef where
  cols : List Nat
  unique : Bool := false
  /-- Go: `Index.PrefixLens` (`KEY (s(4))`), parallel to `cols`, 0 = the whole column. The storage
  does **not** use it: `rowToIndexStorage` evaluates the index expressions on the row and stores the
  full values (`extVals` below), `sortSecondaryIndexes` and the index scan's range filter read those
  full values. Prefix lengths only enter the uniqueness checks (`columnsMatch`, C14). -/
  pfx : List Nat := []
  deriving DecidableEq, Repr, Inhabited

/-- static description of a table: logical schema, secondary indexes (`TableData.indexes`, in a
fixed order), number of partitions, and the tabulated hash partition of every key the case uses. -/
structure Env where
  sch : Schema
  idxs : List IdxDef
  nparts : Nat
  pmap : List (List Val × Nat)
  deriving Repr, Inhabited

/-- `TableData` by value: partitions and, per index of `Env.idxs`, the ids of its storage rows. -/
structure TData where
  parts : List (List Row)
  idx : List (List Nat)
  deriving DecidableEq, Repr, Inhabited

def getE (h : Heap) (id : Nat) : Entry := h.getD id default

def modifyAt {α : Type} (f : α → α) : Nat → List α → List α
  | _, [] => []
  | 0, a :: as => f a :: as
  | n + 1, a :: as => a :: modifyAt f n as

def setLoc (h : Heap) (id : Nat) (l : Loc) : Heap := modifyAt (fun e => { e with loc := l }) id h

/-- the columns `TableData.partition` hashes: the primary key, or every column of a keyless table. -/
def partCols (env : Env) : List Nat :=
  if env.sch.pk.isEmpty then List.range env.sch.cols.length else env.sch.pk

def lookupP : List (List Val × Nat) → List Val → Nat
  | [], _ => 0
  | (k, p) :: rest, key => if k = key then p else lookupP rest key

/-- Go: `TableData.partition(row)` (xxhash of the printed key, mod the number of partitions). -/
def partOf (env : Env) (row : Row) : Nat := lookupP env.pmap (proj (partCols env) row)

/-- Go: `Index.ExtendedExprs`: the index columns, then the primary-key columns not among them. -/
def extCols (env : Env) (d : IdxDef) : List Nat :=
  d.cols ++ env.sch.pk.filter (fun c => !d.cols.contains c)

def extVals (env : Env) (d : IdxDef) (row : Row) : List Val := (extCols env d).map (fun c => row.at c)

def emptyData (env : Env) : TData :=
  { parts := List.replicate env.nparts [], idx := env.idxs.map (fun _ => []) }

/-! ## Index maintenance -/

/-- Go: `addRowToIndexes`: one new storage row per index, appended. -/
def addRowToIndexes (env : Env) (row : Row) (loc : Loc) : List IdxDef → Heap → List (List Nat) → Heap × List (List Nat)
  | d :: ds, h, ids :: rest =>
    let (h', rest') := addRowToIndexes env row loc ds (h ++ [⟨extVals env d row, loc⟩]) rest
    (h', (ids ++ [h.length]) :: rest')
  | _, h, idx => (h, idx)

/-- Go: the body of `deleteRowFromIndexes` for one index: drop the rows located at `(p,i)`,
decrement (in place) the `idx` of the rows located later in the same partition. -/
def delFromIndex (h : Heap) (ids : List Nat) (p i : Nat) : Heap × List Nat :=
  (ids.foldl (fun h id =>
      let e := getE h id
      if e.loc.part = p ∧ e.loc.idx > i then setLoc h id ⟨p, e.loc.idx - 1⟩ else h) h,
   ids.filter (fun id => !decide ((getE h id).loc = ⟨p, i⟩)))

/-- Go: `deleteRowFromIndexes`. -/
def deleteRowFromIndexes : Heap → List (List Nat) → Nat → Nat → Heap × List (List Nat)
  | h, [], _, _ => (h, [])
  | h, ids :: rest, p, i =>
    let (h1, ids') := delFromIndex h ids p i
    let (h2, rest') := deleteRowFromIndexes h1 rest p i
    (h2, ids' :: rest')

/-- first stored row satisfying `pred`: (partition, position). -/
def findSlot (pred : Row → Bool) : List (List Row) → Nat → Option (Nat × Nat)
  | [], _ => none
  | p :: ps, k =>
    match p.findIdx? pred with
    | some i => some (k, i)
    | none => findSlot pred ps (k + 1)

def removeAt (parts : List (List Row)) (p i : Nat) : List (List Row) := modifyAt (fun l => l.eraseIdx i) p parts

/-- Go: `pkTableEditAccumulator.deleteHelper` / `keylessTableEditAccumulator.deleteHelper`:
remove the first stored row that matches (on the key columns, or `Equals`), then
`deleteRowFromIndexes` at its location. Without a match `deleteRowFromIndexes(table, "", 0)` finds
no partition named "" and changes nothing. -/
def deleteHelperP (env : Env) (hd : Heap × TData) (row : Row) : Heap × TData :=
  let pred : Row → Bool :=
    if env.sch.keyless then fun pr => rowEquals env.sch.cols pr row
    else fun pr => columnsMatch env.sch.pk [] pr row || rowEquals env.sch.cols pr row
  match findSlot pred hd.2.parts 0 with
  | none => hd
  | some (p, i) =>
    let (h', idx') := deleteRowFromIndexes hd.1 hd.2.idx p i
    (h', { parts := removeAt hd.2.parts p i, idx := idx' })

/-- Go: `insertHelper` of both accumulators: a keyed table overwrites a stored row with the same
key in place (its old index rows stay), otherwise the row is appended to its hash partition; then
`addRowToIndexes`. -/
def insertHelperP (env : Env) (hd : Heap × TData) (row : Row) : Heap × TData :=
  let saved := if env.sch.keyless then none else findSlot (fun pr => columnsMatch env.sch.pk [] pr row) hd.2.parts 0
  let (parts', loc) : List (List Row) × Loc :=
    match saved with
    | some (p, i) => (modifyAt (fun l => l.set i row) p hd.2.parts, ⟨p, i⟩)
    | none =>
      let p := partOf env row
      (modifyAt (fun l => l ++ [row]) p hd.2.parts, ⟨p, (hd.2.parts.getD p []).length⟩)
  let (h', idx') := addRowToIndexes env row loc env.idxs hd.1 hd.2.idx
  (h', { parts := parts', idx := idx' })

/-! ## Sorting -/

/-- stable insertion sort (`sort.SliceStable`; for `sort.Sort` over distinct keys the result is the same). -/
def insStable {α : Type} (lt : α → α → Bool) (x : α) : List α → List α
  | [] => [x]
  | y :: ys => if lt y x then y :: insStable lt x ys else x :: y :: ys

def sortStable {α : Type} (lt : α → α → Bool) (l : List α) : List α :=
  l.foldr (fun x acc => insStable lt x acc) []

/-- Go: `sortRows`' key: the columns flagged `PrimaryKey`, in *schema* order, ascending. -/
def pkOrder (sch : Schema) : List (Nat × Bool) :=
  ((List.range sch.cols.length).filter (fun c => sch.pk.contains c)).map (fun c => (c, false))

def splitSizes {α : Type} : List Nat → List α → List (List α)
  | [], _ => []
  | n :: ns, l => l.take n :: splitSizes ns (l.drop n)

def locOfPos : List Nat → Nat → Nat → Loc
  | [], p, x => ⟨p, x⟩
  | n :: ns, p, x => if x < n then ⟨p, x⟩ else locOfPos ns (p + 1) (x - n)

def rowAt (parts : List (List Row)) (l : Loc) : Option Row :=
  match parts[l.part]? with
  | none => none
  | some p => p[l.idx]?

def setRow (parts : List (List Row)) (l : Loc) (r : Row) : List (List Row) :=
  modifyAt (fun p => p.set l.idx r) l.part parts

/-- Go: `partitionssort.Swap` seen from one index row: located at one of the two swapped slots it
is re-pointed (in place) at the other one. -/
def swapLoc (la lb l : Loc) : Loc := if l = la then lb else if l = lb then la else l

def relocate (la lb : Loc) (h : Heap) (ids : List Nat) : Heap :=
  ids.foldl (fun h id => setLoc h id (swapLoc la lb (getE h id).loc)) h

/-- Go: `partitionssort.Swap(i, j)`: exchange the two stored rows, then walk over every row of
every index storage and re-point those located at either slot. -/
def swapStep (la lb : Loc) (hd : Heap × TData) : Heap × TData :=
  match rowAt hd.2.parts la, rowAt hd.2.parts lb with
  | some ra, some rb =>
    (hd.2.idx.foldl (relocate la lb) hd.1, { hd.2 with parts := setRow (setRow hd.2.parts la rb) lb ra })
  | _, _ => hd

/-- position (counted from the head) of the least element: the first one no later element is below. -/
def minPos (lt : Row → Row → Bool) : Row → Nat → Nat → List Row → Nat
  | _, best, _, [] => best
  | m, best, k, x :: xs => if lt x m then minPos lt x k (k + 1) xs else minPos lt m best (k + 1) xs

def swapList {α : Type} (l : List α) (i j : Nat) : List α :=
  match l[i]?, l[j]? with
  | some a, some b => (l.set i b).set j a
  | _, _ => l

/-- The transpositions of a selection sort of the flattened rows (positions in the flattened
sequence). `sort.Sort` (pdqsort) performs some other sequence of `Swap` calls that also ends in the
sorted order; for distinct keys the final arrangement of rows *and* of index-row locations is the
same for every such sequence, because an index row follows the row stored in its slot. -/
def selSwaps (lt : Row → Row → Bool) : Nat → Nat → List Row → List (Nat × Nat)
  | 0, _, _ => []
  | _, _, [] => []
  | f + 1, k, x :: xs =>
    let m := minPos lt x 0 1 xs
    (k, k + m) :: selSwaps lt f (k + 1) (swapList (x :: xs) 0 m).tail

/-- index-key comparison of `sortSecondaryIndexes`: the declared index columns only, NULL first. -/
def keyLt (env : Env) (d : IdxDef) (a b : List Val) : Bool :=
  ordLt env.sch ((List.range d.cols.length).map (fun j => (j, false)))
    a b
  -- `ordLt` looks a column's collation up by its position; the generators use integer and
  -- binary-collation columns only, for which the collation flag is irrelevant.

/-- Go: `TableData.sortSecondaryIndexes` (`sort.SliceStable` by the index columns). -/
def sortSecondary (env : Env) (h : Heap) : List IdxDef → List (List Nat) → List (List Nat)
  | d :: ds, ids :: rest =>
    sortStable (fun a b => keyLt env d (getE h a).vals (getE h b).vals) ids :: sortSecondary env h ds rest
  | _, idx => idx

/-- Go: `TableData.sortRows`: `sort.Sort(partitionssort{…})` over all rows across the partitions
(the sorted sequence is laid out over the partition slots in partition order), every swap
relocating index rows in place, then `sortSecondaryIndexes`. -/
def sortRowsP (env : Env) (hd : Heap × TData) : Heap × TData :=
  let sizes := hd.2.parts.map List.length
  let flat := hd.2.parts.flatten
  let swaps := selSwaps (ordLt env.sch (pkOrder env.sch)) flat.length 0 flat
  let hd' := swaps.foldl (fun hd ab => swapStep (locOfPos sizes 0 ab.1) (locOfPos sizes 0 ab.2) hd) hd
  (hd'.1, { hd'.2 with idx := sortSecondary env hd'.1 env.idxs hd'.2.idx })

/-- Go: `ApplyEdits` of both accumulators on `ea.tableData` (in place): deletes, adds, then
`sortRows` (keyed) or `sortSecondaryIndexes` (keyless). -/
def applyEditsP (env : Env) (hd : Heap × TData) (acc : Ed) : Heap × TData :=
  if env.sch.keyless then
    let hd1 := acc.kadds.foldl (insertHelperP env) (acc.kdels.foldl (deleteHelperP env) hd)
    (hd1.1, { hd1.2 with idx := sortSecondary env hd1.1 env.idxs hd1.2.idx })
  else
    sortRowsP env ((acc.adds.map (·.2)).foldl (insertHelperP env) ((acc.dels.map (·.2)).foldl (deleteHelperP env) hd))

/-! ## The statement protocol -/

/-- what survives between statements: the heap of index rows and the session's table data. -/
structure St where
  heap : Heap
  data : TData
  deriving DecidableEq, Repr, Inhabited

/-- a `tableEditor` inside a statement: `ea.tableData` (edited in place by `ApplyEdits`), the
accumulator (`acc.rows` mirrors the flattened partitions), `initialTable` (by value). -/
structure EdSt where
  heap : Heap
  data : TData
  acc : Ed
  snap : TData
  deriving Repr, Inhabited

inductive Op where
  | ins (r : Row)
  | del (r : Row)
  | upd (old new : Row)
  | idx                       -- `tableEditor.IndexedAccess`: `ApplyEdits` + `Clear` in mid-statement
  deriving Repr, Inhabited

/-- how the wrapped iterator ends: `io.EOF`, an error, an `sql.IgnorableError`. -/
inductive Fin where
  | eof | err | errIgn
  deriving DecidableEq, Repr, Inhabited

structure Stmt where
  ops : List Op
  fin : Fin
  deriving Repr, Inhabited

/-- Go: `TableEditorIter.Next` first call: `StatementBegin` (`initialTable = editedTable.copy()`). -/
def begin (st : St) : EdSt :=
  { heap := st.heap, data := st.data, acc := mkEd st.data.parts.flatten, snap := st.data }

/-- Go: `ea.ApplyEdits(ctx, editedTable)` + `ea.Clear()`. -/
def applyNow (env : Env) (s : EdSt) : EdSt :=
  let hd := applyEditsP env (s.heap, s.data) s.acc
  { s with heap := hd.1, data := hd.2, acc := mkEd hd.2.parts.flatten }

/-- one call on the editor; `none` = it returned an error (duplicate key). -/
def stepOp (env : Env) (s : EdSt) : Op → Option EdSt
  | .ins r =>
    match edInsert env.sch s.acc r with
    | .ok a => some { s with acc := a }
    | .error _ => none
  | .del r => some { s with acc := edDelete env.sch s.acc r }
  | .upd o n =>
    match edUpdate env.sch s.acc o n with
    | .ok a => some { s with acc := a }
    | .error _ => none
  | .idx => some (applyNow env s)

/-- the wrapped iterator: the editor state when it stops and whether an editor call failed. -/
def runOps (env : Env) : EdSt → List Op → EdSt × Bool
  | s, [] => (s, false)
  | s, o :: os =>
    match stepOp env s o with
    | some s' => runOps env s' os
    | none => (s, true)

/-- Go: `TableEditorIter.Close` + `tableEditor.Close`:
* an error that is not ignorable ⇒ `DiscardChanges`: clear the accumulator, session data :=
  `initialTable.data` (the snapshot *by value*; index rows are shared);
* otherwise `StatementComplete`: `ApplyEdits`, session data := a copy of the edited data.
Returns the state afterwards and whether the statement failed. -/
def runStmt (env : Env) (st : St) (stmt : Stmt) : St × Bool :=
  let r := runOps env (begin st) stmt.ops
  if r.2 || stmt.fin == .err then ({ heap := r.1.heap, data := r.1.snap }, true)
  else ({ heap := (applyNow env r.1).heap, data := (applyNow env r.1).data }, false)

def runHistory (env : Env) : St → List Stmt → St
  | st, [] => st
  | st, s :: ss => runHistory env (runStmt env st s).1 ss

def initSt (env : Env) : St := { heap := [], data := emptyData env }

/-! ## DDL on the stored data -/

/-- Go: `Table.Truncate` → `TableData.truncate`: empty partitions, a fresh (empty) storage map. -/
def truncateP (env : Env) (st : St) : St := { heap := st.heap, data := emptyData env }

/-- the accumulator after `Insert` calls for `rows` on an empty table (no checks: the rows come
from the table itself). -/
def accumulate (env : Env) (rows : List Row) : Ed := rows.foldl (accInsert env.sch) (mkEd [])

/-- Go: `CREATE INDEX` on a table with data: `CreateIndex` registers the index (`env'` has it),
`BuildIndex` hands out the rewrite editor (`tableEditorForRewrite`: `truncate`), the engine
re-inserts every stored row (`buildIndex`), `Close` applies the edits. Every index is rebuilt. -/
def rebuildP (env' : Env) (st : St) : St :=
  let hd := applyEditsP env' (st.heap, emptyData env') (accumulate env' (st.data.parts.flatten))
  { heap := hd.1, data := hd.2 }

def dropNth {α : Type} : Nat → List α → List α
  | _, [] => []
  | 0, _ :: as => as
  | n + 1, a :: as => a :: dropNth n as

/-- Go: `errIfDuplicateEntryExist`: two stored rows agree on `cols` and have no NULL there. -/
def hasDupProj (rows : List Row) (cols : List Nat) : Bool :=
  anyPair (fun (a b : Row) => !hasNullForAnyCols a cols && proj cols a == proj cols b) rows

def withIdxs (env : Env) (idxs : List IdxDef) : Env :=
  { env with idxs := idxs,
             sch := { env.sch with uniques := (idxs.filter (·.unique)).map (fun d => (d.cols, [])) } }

/-- a step of a C16 history. -/
inductive Step where
  | stmt (s : Stmt)
  | trunc
  | mkidx (d : IdxDef)
  | rmidx (j : Nat)
  deriving Repr, Inhabited

/-- one step on (table description, state): the new description, the new state, failed?. -/
def runStep (env : Env) (st : St) : Step → Env × St × Bool
  | .stmt s => let r := runStmt env st s; (env, r.1, r.2)
  | .trunc => (env, truncateP env st, false)
  | .mkidx d =>
    if d.unique && hasDupProj st.data.parts.flatten d.cols then (env, st, true)
    else
      let env' := withIdxs env (env.idxs ++ [d])
      (env', rebuildP env' st, false)
  | .rmidx j =>
    let env' := withIdxs env (dropNth j env.idxs)
    (env', { st with data := { st.data with idx := dropNth j st.data.idx } }, false)

/-! ## Observation: what a reader sees -/

/-- Go: `indexScanRowIter.Next`: the row at the storage row's location; dangling locations are skipped. -/
def resolve (parts : List (List Row)) (l : Loc) : Option Row := rowAt parts l

/-- per index: its storage rows as (key values, row found at the location). -/
def indexView (st : St) : List (List (List Val × Option Row)) :=
  st.data.idx.map (fun ids => ids.map (fun id => ((getE st.heap id).vals, resolve st.data.parts (getE st.heap id).loc)))

def rowsOf (st : St) : List Row := st.data.parts.flatten

/-! ## Spec -/

/-- Spec of one editor call on the table contents (a keyed map / a multiset). -/
def specOp (env : Env) (t : List Row) : Op → List Row
  | .ins r => t ++ [r]
  | .del r =>
    if env.sch.keyless then t.erase r
    else eraseFirst (fun x => proj env.sch.pk x == proj env.sch.pk r) t
  | .upd o n =>
    (if env.sch.keyless then t.erase o
     else eraseFirst (fun x => proj env.sch.pk x == proj env.sch.pk o) t) ++ [n]
  | .idx => t

/-- the ops executed before the statement stopped (a failing call is not applied). -/
def specStmt (env : Env) (t : List Row) (ops : List Op) (failed : Bool) : List Row :=
  if failed then t else ops.foldl (specOp env) t

/-- Spec index contents: exactly one storage row per stored row, pointing at it. -/
def specIndexView (env : Env) (t : List Row) : List (List (List Val × Option Row)) :=
  env.idxs.map (fun d => t.map (fun r => (extVals env d r, some r)))

/-! ## Defect region -/

def Op.isIdx : Op → Bool
  | .idx => true
  | _ => false

/-- an `IndexedAccess` call is executed before the wrapped iterator stops. -/
def midApplied (env : Env) : EdSt → List Op → Bool
  | _, [] => false
  | s, o :: os =>
    match stepOp env s o with
    | some s' => o.isIdx || midApplied env s' os
    | none => false

/-- Region `index_rows_shared_with_snapshot`: the table has a secondary index and a failing
statement went through `IndexedAccess` (an early `ApplyEdits`) before it failed. -/
def regionMidApply (env : Env) (st : St) (stmt : Stmt) : Bool :=
  (runStmt env st stmt).2 && !env.idxs.isEmpty && midApplied env (begin st) stmt.ops

end Gms.MemIndex
