/-
C26 — model (core-only, executable) of comparison and conversion for the temporal SQL types
DATE, DATETIME(p), TIMESTAMP(p): sql/types/datetime.go `datetimeType.Compare`, `ConvertToTime`,
`ConvertWithoutRangeCheck`, `ValidateTime`, `ValidateTimestamp`.

An instant is an `Int` of nanoseconds since 1970-01-01T00:00:00Z, UNBOUNDED (Go's `time.Time`
covers ±292·10⁹ years; SQL DATETIME covers the years 0..9999, i.e. about 17 times the span of an int64 of
nanoseconds) — `Gms.Cal.goDate` / `fieldsOf` are the calendar (`time.Date`, `t.Date()`/`t.Clock()`).

Values are Go dynamic values handed to `Compare`:
* `t ns`   a `time.Time` (any location) at instant `ns`
* `c f`    a string literal that spells the civil fields `f` in one of the accepted layouts
           (`time.Parse` is external code: the harness renders the string, the model takes the fields)
* `zero`   a value `ConvertWithoutRangeCheck` maps to `ZeroTime`: "0000-00-00…", integer/float/decimal 0, false
* `i n`    a Go integer (non-zero: "Incorrect datetime value")
* `bad`    a string no layout accepts
-/
import Gms.Model.Cal
import Gms.Model.NumConv
namespace Gms.TimeCmp
open Gms.Cal
open Gms.Conv (Cmp cmpInt)

inductive TTy where
  | date
  | datetime (p : Nat)
  | timestamp (p : Nat)
  deriving DecidableEq, Repr, Inhabited

inductive TVal where
  | null
  | t (ns : Int)
  | c (f : Fields)
  | zero
  | i (n : Int)
  | bad
  deriving DecidableEq, Repr, Inhabited

/-- `types.ZeroTime = time.Date(0, 0, 0, 0, 0, 0, 0, time.UTC)` (normalised by Go to -0001-11-30) -/
def zeroTime : Int := goDate ⟨0, 0, 0, 0, 0, 0, 0⟩

/-- `datetimeMaxTime` = 9999-12-31 23:59:59.999999 -/
def maxTime : Int := goDate ⟨9999, 12, 31, 23, 59, 59, 999999000⟩

/-- `datetimeTypeMinTimestamp = time.Unix(1, 0)`, `datetimeTypeMaxTimestamp = time.Unix(MaxInt32, 999999000)` -/
def tsMin : Int := nsSec
def tsMax : Int := 2147483647 * nsSec + 999999000

def TTy.isDate : TTy → Bool
  | .date => true
  | _ => false

def TTy.precision : TTy → Nat
  | .date => 0
  | .datetime p => p
  | .timestamp p => p

/-- the rounding step of `ConvertToTime`: `time.Second / precisionConversion[p]` below the maximal
precision, `time.Microsecond` otherwise -/
def TTy.unit (ty : TTy) : Int :=
  if ty.precision < 6 then nsSec / (10 ^ ty.precision : Nat) else 1000

/-- Go `t.Truncate(24 * time.Hour)`: down to the UTC midnight (absolute time; floor for every sign) -/
def truncDay (t : Int) : Int := t - t % nsDay

/-- Go `t.Round(d)`: to the nearest multiple of `d`, half-way values up -/
def roundTo (d t : Int) : Int :=
  let r := t % d
  if 2 * r < d then t - r else t + (d - r)

/-- a string in an accepted layout spells a four-digit year and a real calendar date/time -/
def validStr (f : Fields) : Bool := decide (validFields f) && decide (0 ≤ f.y) && decide (f.y ≤ 9999)

/-- `ConvertWithoutRangeCheck` (`none`: an error other than a truncation warning) -/
def convertRaw (ty : TTy) : TVal → Option Int
  | .null => none
  | .zero => some zeroTime
  | .bad => none
  | .i n => if n = 0 then some zeroTime else none
  | .c f => if validStr f then some (if ty.isDate then truncDay (goDate f) else goDate f) else none
  | .t ns => some (if ty.isDate then truncDay ns else ns)

/-- the range check at the end of `ConvertToTime`; `t == DatetimeMaxRange` is structural equality, so it
holds for every DATETIME(6) type -/
def rangeOK (ty : TTy) (res : Int) : Bool :=
  match ty with
  | .datetime p =>
    if p = 6 then !(decide (res < zeroTime) || decide (res > maxTime))
    else !(decide ((fieldsOf res).y < 0) || decide ((fieldsOf res).y > 9999))
  | .date => !(decide ((fieldsOf res).y < 0) || decide ((fieldsOf res).y > 9999))
  | .timestamp _ => !(decide (res < tsMin) || decide (res > tsMax))

/-- `ConvertToTime` (= the value `Convert` returns), `none` on error -/
def convertToTime (ty : TTy) (v : TVal) : Option Int :=
  match convertRaw ty v with
  | none => none
  | some res =>
    if res = zeroTime then some zeroTime
    else
      let r := roundTo ty.unit res
      if rangeOK ty r then some r else none

def compareNulls (a b : TVal) : Option Cmp :=
  match a, b with
  | .null, .null => some .eq
  | .null, _ => some .gt
  | _, .null => some .lt
  | _, _ => none

/-- the instant `Compare` orders an operand by: a `time.Time` is taken as it is (only a DATE type
truncates it), anything else goes through `ConvertToTime` -/
def operand (ty : TTy) : TVal → Option Int
  | .t ns => some (if ty.isDate then truncDay ns else ns)
  | v => convertToTime ty v

/-- `datetimeType.Compare`: `CompareNulls`, both operands, then `Before` / `After` on the instants -/
def implCompare (ty : TTy) (a b : TVal) : Cmp :=
  match compareNulls a b with
  | some r => r
  | none =>
    match operand ty a, operand ty b with
    | some x, some y => cmpInt x y
    | _, _ => .err

/-- Spec: NULL first, then the chronological order of the values `Convert` yields (`none`: a
conversion fails, the property does not determine the result) -/
def specCompare (ty : TTy) (a b : TVal) : Option Cmp :=
  match a, b with
  | .null, .null => some .eq
  | .null, _ => some .lt
  | _, .null => some .gt
  | a, b =>
    match convertToTime ty a, convertToTime ty b with
    | some x, some y => some (cmpInt x y)
    | _, _ => none

/-! ## Regions -/

def null_sorts_last (a b : TVal) : Prop := (a = .null ∧ b ≠ .null) ∨ (a ≠ .null ∧ b = .null)

instance (a b : TVal) : Decidable (null_sorts_last a b) := by unfold null_sorts_last; infer_instance

/-- the operand is a `time.Time` carrying a fraction finer than the type's precision -/
def subPrecision (ty : TTy) : TVal → Prop
  | .t ns => (if ty.isDate then truncDay ns else ns) % ty.unit ≠ 0
  | _ => False

instance (ty : TTy) (v : TVal) : Decidable (subPrecision ty v) := by
  unfold subPrecision; cases v <;> infer_instance

/-- an operand is a `time.Time` with a fraction finer than the type's precision: `Compare` orders by the
exact instant, `Convert` would round it to the precision first -/
def time_operand_not_rounded (ty : TTy) (a b : TVal) : Prop := subPrecision ty a ∨ subPrecision ty b

instance (ty : TTy) (a b : TVal) : Decidable (time_operand_not_rounded ty a b) := by
  unfold time_operand_not_rounded; infer_instance

/-! ## Calendar order on civil fields (the Spec's reading of "chronological") -/

/-- lexicographic three-way comparison of (year, month, day, hour, minute, second, nanosecond) -/
def lexCmp (f g : Fields) : Cmp :=
  if f.y ≠ g.y then cmpInt f.y g.y
  else if f.mo ≠ g.mo then cmpInt f.mo g.mo
  else if f.d ≠ g.d then cmpInt f.d g.d
  else if f.h ≠ g.h then cmpInt f.h g.h
  else if f.mi ≠ g.mi then cmpInt f.mi g.mi
  else if f.s ≠ g.s then cmpInt f.s g.s
  else cmpInt f.ns g.ns

/-! ## Reference order on observed results (stream B of the C26 harness, types without an Impl model)

Where the harness knows the rank of a value in the order of the type's converted values (TIME: microseconds,
ENUM: member index, SET: bit mask, DOUBLE: the exact number), every observed result must be the comparison of
the ranks — a consistent total order through a narrowed key does not pass. -/

def refPair (ra rb : Option Int) (xy : Cmp) : Bool :=
  match ra, rb with
  | some x, some y => xy == cmpInt x y
  | _, _ => true

open Gms.Conv (Tri) in
def refOrder (t : Tri) (ra rb rc : Option Int) : Bool :=
  refPair ra rb t.ab && refPair rb ra t.ba && refPair rb rc t.bc && refPair rc rb t.cb &&
  refPair ra rc t.ac && refPair rc ra t.ca && refPair ra ra t.aa && refPair rb rb t.bb && refPair rc rc t.cc

end Gms.TimeCmp
