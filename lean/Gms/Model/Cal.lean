/-
C31 — integer calendar model of the date/time code (core-only, executable).

Layers
* §1 proleptic Gregorian calendar over ℤ days (`dfc`/`cfd`), the stand-in for Go's `time` package
     (external code: tied by the `date` correspondence stream, not verified)
* §2 Go `time.Date` normalisation, field extraction, saturating `Sub`
* §3 Impl model of `expression.TimeDelta.apply` (sql/expression/interval.go) + Spec (total-month arithmetic)
* §4 Impl models of DATEDIFF / TIMESTAMPDIFF (`monthsDiff`, `microsecondsDiff`; function/time_math.go) + Specs
* §5 Impl model of `dateparse.ParseDateWithFormat` (sql/planbuilder/dateparse, STR_TO_DATE) + Spec
* §6 Impl model of `formatDate` (function/date_format.go, DATE_FORMAT)
* §7 the item grammar of complete formats (round-trip theorem)
* §8 Impl model of `datetimeType.SQL` (sql/types/datetime.go `appendDateFormat`/`appendDatetimeFormat`,
     sql/types/time.go `appendTimeFormat`/`appendMicroseconds`: the text a client is sent) + Spec (canonical text);
     Impl model of `types.ValidateTime` (the result range of DATE_ADD / DATE_SUB) + Spec (years 0..9999)

All calendar fields are `Int` so that `omega` applies directly.
-/
namespace Gms.Cal

/-! ## 1. Calendar -/

def isLeap (y : Int) : Bool := y % 4 == 0 && (y % 100 != 0 || y % 400 == 0)

/-- days in month `m` (1..12) of year `y` -/
def dim (y m : Int) : Int :=
  if m = 2 then (if isLeap y then 29 else 28)
  else if m = 4 ∨ m = 6 ∨ m = 9 ∨ m = 11 then 30 else 31

/-- month number counted from March -/
def mpOf (m : Int) : Int := if m > 2 then m - 3 else m + 9

/-- Spec side: days from 1970-01-01 to the civil date (any `d`; `1 ≤ m ≤ 12`). -/
def dfc (y m d : Int) : Int :=
  let y' := if m ≤ 2 then y - 1 else y
  (y' / 400) * 146097 + (y' % 400) * 365 + (y' % 400) / 4 - (y' % 400) / 100
    + (153 * mpOf m + 2) / 5 + (d - 1) - 719468

/-- Position of a day inside the 400-year cycle: era, century, 4-year group, year, day of the
March-based year. -/
structure Stage where
  era : Int
  c : Int
  q : Int
  r : Int
  doy : Int
deriving DecidableEq, Repr

def stage (z : Int) : Stage :=
  let z' := z + 719468
  let era := z' / 146097
  let doe := z' % 146097
  let c := min (doe / 36524) 3
  let d1 := doe - 36524 * c
  let q := d1 / 1461
  let d2 := d1 - 1461 * q
  let r := min (d2 / 365) 3
  { era := era, c := c, q := q, r := r, doy := d2 - 365 * r }

def Stage.days (s : Stage) : Int :=
  s.era * 146097 + 36524 * s.c + 1461 * s.q + 365 * s.r + s.doy - 719468

def cfdOf (s : Stage) : Int × Int × Int :=
  let mp := (5 * s.doy + 2) / 153
  let d := s.doy - (153 * mp + 2) / 5 + 1
  let m := if mp < 10 then mp + 3 else mp - 9
  (100 * s.c + 4 * s.q + s.r + 400 * s.era + (if m ≤ 2 then 1 else 0), m, d)

/-- civil date (y, m, d) of day number `z` -/
def cfd (z : Int) : Int × Int × Int := cfdOf (stage z)

/-- Sunday = 0 … Saturday = 6 (1970-01-01 was a Thursday). -/
def weekday (z : Int) : Int := (z + 4) % 7

/-- 1-based day of the year -/
def yearDay (y m d : Int) : Int := dfc y m d - dfc y 1 1 + 1

/-! ## 2. Go `time` (UTC): an instant is an `Int` of nanoseconds since 1970-01-01T00:00:00Z -/

structure Fields where
  y : Int
  mo : Int
  d : Int
  h : Int
  mi : Int
  s : Int
  ns : Int
deriving DecidableEq, Repr

def nsSec : Int := 1000000000
def nsMin : Int := 60000000000
def nsHour : Int := 3600000000000
def nsDay : Int := 86400000000000

/-- Go: `time.Date(y, mo, d, h, mi, s, ns, time.UTC)` — every field is normalised (month 13 is
January of the next year, day 0 the last day of the previous month, hour 25 the next day …). -/
def goDate (f : Fields) : Int :=
  let m0 := f.mo - 1
  let y := f.y + m0 / 12
  let m := m0 % 12 + 1
  (dfc y m 1 + (f.d - 1)) * nsDay + f.h * nsHour + f.mi * nsMin + f.s * nsSec + f.ns

/-- Go: `t.Date()`, `t.Clock()`, `t.Nanosecond()` -/
def fieldsOf (t : Int) : Fields :=
  let c := cfd (t / nsDay)
  let r := t % nsDay
  { y := c.1, mo := c.2.1, d := c.2.2, h := r / nsHour, mi := r % nsHour / nsMin,
    s := r % nsMin / nsSec, ns := r % nsSec }

def validFields (f : Fields) : Prop :=
  1 ≤ f.mo ∧ f.mo ≤ 12 ∧ 1 ≤ f.d ∧ f.d ≤ dim f.y f.mo ∧ 0 ≤ f.h ∧ f.h ≤ 23 ∧ 0 ≤ f.mi ∧ f.mi ≤ 59 ∧
    0 ≤ f.s ∧ f.s ≤ 59 ∧ 0 ≤ f.ns ∧ f.ns ≤ 999999999

instance (f : Fields) : Decidable (validFields f) := by unfold validFields; infer_instance

def maxDur : Int := 9223372036854775807
def minDur : Int := -9223372036854775808

/-- Go: `t.Sub(u)` — a `time.Duration` (int64 nanoseconds), saturating. -/
def goSub (t u : Int) : Int :=
  let d := t - u
  if d > maxDur then maxDur else if d < minDur then minDur else d

/-- round half away from zero of `a / b`, `b > 0` (Go: `math.Round(float)` on the exact quotient) -/
def roundDiv (a b : Int) : Int :=
  if a ≥ 0 then (2 * a + b) / (2 * b) else -((2 * (-a) + b) / (2 * b))

/-! ## 3. `TimeDelta.apply` (sql/expression/interval.go) -/

structure Delta where
  years : Int
  months : Int
  days : Int
  hours : Int
  minutes : Int
  seconds : Int
  micros : Int
deriving DecidableEq, Repr

def Delta.duration (td : Delta) (sign : Int) : Int :=
  td.hours * sign * nsHour + td.minutes * sign * nsMin + td.seconds * sign * nsSec + td.micros * sign * 1000

/-- Go: the `if td.Years != 0 { … }` block -/
def applyYears (td : Delta) (sign : Int) (t : Int) : Int :=
  if td.years ≠ 0 then
    let f := fieldsOf t
    let targetYear := f.y + td.years * sign
    if f.mo = 2 ∧ f.d = 29 ∧ ¬ isLeap targetYear then goDate { f with y := targetYear, mo := 2, d := 28 }
    else goDate { f with y := targetYear }
  else t

/-- Go: the `if td.Months != 0 { … }` block -/
def applyMonths (td : Delta) (sign : Int) (t : Int) : Int :=
  if td.months ≠ 0 then
    let f := fieldsOf t
    let totalMonths := f.mo - 1 + td.months * sign
    let targetYear := f.y + totalMonths / 12          -- Go spells the floor division by hand
    let targetMonth := totalMonths % 12 + 1
    let maxDays := dim targetYear targetMonth
    let targetDay := if f.d > maxDays then maxDays else f.d
    goDate { f with y := targetYear, mo := targetMonth, d := targetDay }
  else t

/-- Go: `t.AddDate(0, 0, n)` -/
def addDays (t n : Int) : Int :=
  let f := fieldsOf t
  goDate { f with d := f.d + n }

def applyDays (td : Delta) (sign : Int) (t : Int) : Int :=
  if td.days ≠ 0 then addDays t (td.days * sign) else t

/-- Impl model of `TimeDelta.apply(t, sign)` (no int64 overflow of the duration is assumed). -/
def applyDelta (td : Delta) (sign : Int) (t : Int) : Int :=
  let t := applyYears td sign t
  let t := applyMonths td sign t
  let t := applyDays td sign t
  t + td.duration sign

/-- Spec (MySQL): years and months are one month count added to `12·y + (m-1)`; the day is clamped
to the length of the target month once; days and the sub-day part are exact. -/
def specDelta (td : Delta) (sign : Int) (t : Int) : Int :=
  let f := fieldsOf t
  let tm := 12 * f.y + (f.mo - 1) + sign * (12 * td.years + td.months)
  let y := tm / 12
  let m := tm % 12 + 1
  let d := if f.d > dim y m then dim y m else f.d
  goDate { f with y := y, mo := m, d := d } + td.days * sign * nsDay + td.duration sign

/-- Region: the only path on which `applyDelta` differs from `specDelta` — a delta with both a year
and a month part (not expressible in SQL: the parser has no YEAR_MONTH unit) applied to Feb 29 with
a non-leap intermediate year. -/
def intermediateFeb29 (td : Delta) (sign : Int) (t : Int) : Bool :=
  let f := fieldsOf t
  td.years ≠ 0 ∧ td.months ≠ 0 ∧ f.mo = 2 ∧ f.d = 29 ∧ ¬ isLeap (f.y + td.years * sign)

/-- "an end-of-month clamp occurs" when `td` is applied with `sign` to `t` (Spec notion). -/
def clamps (td : Delta) (sign : Int) (t : Int) : Bool :=
  let f := fieldsOf t
  let tm := 12 * f.y + (f.mo - 1) + sign * (12 * td.years + td.months)
  f.d > dim (tm / 12) (tm % 12 + 1)

/-- a delta with a calendar part (years/months) *and* an exact part (days … microseconds): no SQL
interval unit produces one, and undoing it would need the opposite order of application -/
def mixedDelta (td : Delta) : Bool :=
  (td.years ≠ 0 ∨ td.months ≠ 0) ∧ (td.days ≠ 0 ∨ td.duration 1 ≠ 0)

/-! ## 4. DATEDIFF / TIMESTAMPDIFF (function/time_math.go) -/

/-- Impl: both arguments are cut to their date, subtracted as Go durations (saturating at
±2^63 ns ≈ 292.47 years), converted to hours/24 and rounded. -/
def dateDiffImpl (t1 t2 : Int) : Int :=
  let d1 := (t1 / nsDay) * nsDay
  let d2 := (t2 / nsDay) * nsDay
  roundDiv (goSub d1 d2) nsDay

/-- Spec: difference of the day numbers. -/
def dateDiffSpec (t1 t2 : Int) : Int := t1 / nsDay - t2 / nsDay

/-- Region: the two dates are more than 106752 days (≈ 292.27 years) apart. -/
def datediff_saturates (t1 t2 : Int) : Bool :=
  decide (t1 / nsDay - t2 / nsDay > 106752 ∨ t1 / nsDay - t2 / nsDay < -106752)

/-- Go: `t.UnixMicro()` -/
def unixMicro (t : Int) : Int := t / 1000

/-- Go: `microsecondsDiff(time1, time2)` -/
def microsDiff (t1 t2 : Int) : Int := unixMicro t2 - unixMicro t1

/-- Go: `sql.SecondsPerMinute = int64(time.Second / time.Minute)` — an integer division of the
smaller by the larger duration: the constant is 0 (regenerated fact `secondsPerMinute`). -/
def secondsPerMinuteImpl : Int := 0

/-- Go: `monthsDiff(time1, time2)`; `spm` is the value of `sql.SecondsPerMinute`. -/
def monthsDiffWith (spm : Int) (t1 t2 : Int) : Int :=
  let swap := t1 > t2
  let before := if swap then t2 else t1
  let after := if swap then t1 else t2
  let b := fieldsOf before
  let a := fieldsOf after
  let yearDiff := a.y - b.y
  let monthDiff := a.mo - b.mo
  let secondDiff := (a.h - b.h) * 3600 + (a.mi - b.mi) * spm + (a.s - b.s)
  let monthDiff :=
    if b.d > a.d then monthDiff - 1
    else if b.d = a.d then
      (if secondDiff < 0 then monthDiff - 1
       else if secondDiff = 0 ∧ b.ns > a.ns then monthDiff - 1 else monthDiff)
    else monthDiff
  (if swap then -1 else 1) * (yearDiff * 12 + monthDiff)

/-- Impl model of `monthsDiff` -/
def monthsDiff (t1 t2 : Int) : Int := monthsDiffWith secondsPerMinuteImpl t1 t2

/-- Spec: the number of complete months between the two instants: calendar-month difference,
minus one when the later instant's (day, time of day) is earlier than the earlier instant's. -/
def monthsDiffSpec (t1 t2 : Int) : Int :=
  let swap := t1 > t2
  let before := if swap then t2 else t1
  let after := if swap then t1 else t2
  let b := fieldsOf before
  let a := fieldsOf after
  let full := (a.y - b.y) * 12 + (a.mo - b.mo)
  let short := a.d < b.d ∨ (a.d = b.d ∧ after % nsDay < before % nsDay)
  (if swap then -1 else 1) * (if short then full - 1 else full)

/-- Region: equal day of month and different minute fields — the only inputs on which the
minute term (multiplied by `sql.SecondsPerMinute` = 0) can matter. -/
def monthsdiff_minutes_ignored (t1 t2 : Int) : Bool :=
  (fieldsOf t1).d = (fieldsOf t2).d ∧ (fieldsOf t1).mi ≠ (fieldsOf t2).mi

inductive TsUnit where
  | microsecond | second | minute | hour | day | week | month | quarter | year
deriving DecidableEq, Repr

def TsUnit.ofName? : String → Option TsUnit
  | "microsecond" => some .microsecond | "second" => some .second | "minute" => some .minute
  | "hour" => some .hour | "day" => some .day | "week" => some .week | "month" => some .month
  | "quarter" => some .quarter | "year" => some .year | _ => none

/-- Go: the `switch unit` of `TimestampDiff.Eval` (Go `/` truncates toward zero). -/
def tsDiffImpl (u : TsUnit) (t1 t2 : Int) : Int :=
  match u with
  | .microsecond => microsDiff t1 t2
  | .second => (microsDiff t1 t2).tdiv 1000000
  | .minute => (microsDiff t1 t2).tdiv 60000000
  | .hour => (microsDiff t1 t2).tdiv 3600000000
  | .day => (microsDiff t1 t2).tdiv 86400000000
  | .week => (microsDiff t1 t2).tdiv 604800000000
  | .month => monthsDiff t1 t2
  | .quarter => (monthsDiff t1 t2).tdiv 3
  | .year => (monthsDiff t1 t2).tdiv 12

/-- Spec of TIMESTAMPDIFF: truncated quotient of the exact microsecond difference; complete
months for the calendar units. -/
def tsDiffSpec (u : TsUnit) (t1 t2 : Int) : Int :=
  match u with
  | .month => monthsDiffSpec t1 t2
  | .quarter => (monthsDiffSpec t1 t2).tdiv 3
  | .year => (monthsDiffSpec t1 t2).tdiv 12
  | u => tsDiffImpl u t1 t2

def TsUnit.isCalendar : TsUnit → Bool
  | .month => true | .quarter => true | .year => true | _ => false

/-! ## 5. `dateparse.ParseDateWithFormat` (STR_TO_DATE) -/

abbrev Str := List UInt8

def isDigit (b : UInt8) : Bool := 48 ≤ b.toNat && b.toNat ≤ 57
def isSpace (b : UInt8) : Bool := b.toNat == 32
/-- ASCII part of `unicode.IsSpace` (`strings.TrimSpace`) -/
def isTrimSpace (b : UInt8) : Bool := b.toNat == 32 || (9 ≤ b.toNat && b.toNat ≤ 13)
def toLower (b : UInt8) : UInt8 := if 65 ≤ b && b ≤ 90 then b + 32 else b
def lower (s : Str) : Str := s.map toLower
def ofString (s : String) : Str := s.toUTF8.data.toList

/-- Go: `takeAtMost(n, str, isNumeral)` -/
def takeDigits : Nat → Str → Str × Str
  | 0, s => ([], s)
  | _ + 1, [] => ([], [])
  | n + 1, b :: s => if isDigit b then ((takeDigits n s).1.cons b, (takeDigits n s).2) else ([], b :: s)

/-- Go: `takeAll(str, isNumeral)` -/
def takeAllDigits (s : Str) : Str × Str := takeDigits s.length s

/-- Go: `takeAllSpaces` -/
def dropSpaces : Str → Str
  | [] => []
  | b :: s => if isSpace b then dropSpaces s else b :: s

def trimLeft : Str → Str
  | [] => []
  | b :: s => if isTrimSpace b then trimLeft s else b :: s

/-- Go: `strings.TrimSpace` on ASCII input -/
def trimSpace (s : Str) : Str := (trimLeft (trimLeft s).reverse).reverse

def valOf (s : Str) : Nat := s.foldl (fun a b => a * 10 + (b.toNat - 48)) 0

/-- Go: `strconv.ParseUint(s, 10, 32)` on a digit string -/
def parseUint32 (s : Str) : Option Int :=
  if s.isEmpty then none
  else if valOf s ≥ 4294967296 then none else some (valOf s)

/-- Go: `takeNumberAtMostNChars(n, chars)` -/
def takeNumberAtMost (n : Nat) (s : Str) : Option (Int × Str) :=
  let p := takeDigits n s
  (parseUint32 p.1).map fun v => (v, p.2)

/-- Go: `takeNumber(chars)` -/
def takeNumber (s : Str) : Option (Int × Str) :=
  let p := takeAllDigits s
  (parseUint32 p.1).map fun v => (v, p.2)

/-- Go: `trimPrefix(count, str)` -/
def trimPrefix (n : Nat) (s : Str) : Str := s.drop n

/-- Go: `dateparse.datetime` (the never-assigned fields weekOfYear, milliseconds, nanoseconds are
omitted: they are always nil) -/
structure PDT where
  day : Option Int := none
  month : Option Int := none
  year : Option Int := none
  dayOfYear : Option Int := none
  weekday : Option Int := none
  am : Option Bool := none
  hours : Option Int := none
  minutes : Option Int := none
  seconds : Option Int := none
  micros : Option Int := none
deriving DecidableEq, Repr

def PDT.isEmpty (p : PDT) : Bool :=
  p.day.isNone && p.month.isNone && p.year.isNone && p.dayOfYear.isNone && p.weekday.isNone &&
  p.am.isNone && p.hours.isNone && p.minutes.isNone && p.seconds.isNone && p.micros.isNone

inductive PErr where
  | format      -- parsersFromFormatString failed (stray %, unknown or unsupported specifier)
  | ampm24      -- 24-hour specifier together with %p
  | literal     -- ParseLiteralErr
  | specifier   -- ParseSpecifierErr
  | crash       -- index out of range inside literalParser
deriving DecidableEq, Repr

abbrev P := PDT → Str → Except PErr (PDT × Str)

/-- Go: `literalParser(literal)` -/
def literalP (lit : UInt8) (e : PErr) : P := fun dt chars =>
  if chars.isEmpty && lit != 32 then .error e
  else
    let chars := dropSpaces chars
    if lit == 32 then .ok (dt, chars)
    else match chars with
      | [] => .error .crash
      | c :: rest => if c != lit then .error e else .ok (dt, rest)

def numP (take : Str → Option (Int × Str)) (set : PDT → Int → PDT) : P := fun dt chars =>
  match take chars with
  | none => .error .specifier
  | some (v, rest) => .ok (set dt v, rest)

def weekdayAbbrevs : List Str := ["sun", "mon", "tue", "wed", "thu", "fri", "sat"].map ofString
def monthAbbrevs : List Str :=
  ["jan", "feb", "mar", "apr", "may", "jun", "jul", "aug", "sep", "oct", "nov", "dec"].map ofString
def monthNames : List String :=
  ["January", "February", "March", "April", "May", "June", "July", "August", "September",
   "October", "November", "December"]
def weekdayNames : List String :=
  ["Sunday", "Monday", "Tuesday", "Wednesday", "Thursday", "Friday", "Saturday"]

def indexOf? (x : Str) : List Str → Nat → Option Nat
  | [], _ => none
  | y :: ys, i => if x = y then some i else indexOf? x ys (i + 1)

/-- Go: `parseAmPm` -/
def ampmP : P := fun dt chars =>
  if chars.length < 2 then .error .specifier
  else
    let w := lower (chars.take 2)
    if w = ofString "am" then .ok ({ dt with am := some true }, trimPrefix 2 chars)
    else if w = ofString "pm" then .ok ({ dt with am := some false }, trimPrefix 2 chars)
    else .error .specifier

/-- Go: `parseWeekdayAbbreviation` -/
def weekdayAbbrP : P := fun dt chars =>
  if chars.length < 3 then .error .specifier
  else match indexOf? (lower (chars.take 3)) weekdayAbbrevs 0 with
    | some i => .ok ({ dt with weekday := some i }, trimPrefix 3 chars)
    | none => .error .specifier

/-- Go: `parseMonthAbbreviation` -/
def monthAbbrP : P := fun dt chars =>
  if chars.length < 3 then .error .specifier
  else match indexOf? (lower (chars.take 3)) monthAbbrevs 0 with
    | some i => .ok ({ dt with month := some (i + 1) }, trimPrefix 3 chars)
    | none => .error .specifier

def isPrefix : Str → Str → Bool
  | [], _ => true
  | _ :: _, [] => false
  | a :: p, b :: s => a == b && isPrefix p s

def monthNameFind (name : Str) : List String → Nat → Option (Nat × Nat)
  | [], _ => none
  | m :: ms, i =>
    if isPrefix (lower (ofString m)) (lower name) then some (i, (ofString m).length)
    else monthNameFind name ms (i + 1)

/-- Go: `parseMonthName` -/
def monthNameP : P := fun dt chars =>
  match monthNameFind chars monthNames 1 with
  | some (m, n) => .ok ({ dt with month := some m }, trimPrefix n chars)
  | none => .error .specifier

/-- Go: `parseMonth2DigitNumeric` -/
def month2P : P := fun dt chars =>
  match takeNumberAtMost 2 chars with
  | none => .error .specifier
  | some (v, rest) => if v < 1 ∨ v > 12 then .error .specifier else .ok ({ dt with month := some v }, rest)

/-- Go: `parseDayOfMonth2DigitNumeric` -/
def day2P : P := fun dt chars =>
  match takeNumberAtMost 2 chars with
  | none => .error .specifier
  | some (v, rest) => if v < 1 ∨ v > 31 then .error .specifier else .ok ({ dt with day := some v }, rest)

/-- Go: `parseYear2DigitNumeric` -/
def year2P : P := fun dt chars =>
  match takeNumberAtMost 2 chars with
  | none => .error .specifier
  | some (v, rest) => .ok ({ dt with year := some (if v ≥ 70 then v + 1900 else v + 2000) }, rest)

/-- Go: `parseYear4DigitNumeric` -/
def year4P : P := fun dt chars =>
  if chars.length < 4 then .error .specifier
  else match takeNumberAtMost 4 chars with
    | none => .error .specifier
    | some (v, rest) => .ok ({ dt with year := some v }, rest)

/-- Go: `parseDayNumericWithEnglishSuffix` -/
def daySuffixP : P := fun dt chars =>
  match takeNumber chars with
  | none => .error .specifier
  | some (v, rest) => .ok ({ dt with day := some v }, trimPrefix 2 rest)

def bindE {α β : Type} (x : Except PErr α) (f : α → Except PErr β) : Except PErr β :=
  match x with
  | .error e => .error e
  | .ok a => f a

def optE {α : Type} (x : Option α) : Except PErr α :=
  match x with
  | none => .error .specifier
  | some a => .ok a

/-- Go: `parse24HourTimestamp` (with12 = false) / `parse12HourTimestamp` (with12 = true) -/
def clockP (with12 : Bool) : P := fun dt chars =>
  bindE (optE (takeNumberAtMost 2 chars)) fun (hour, rest) =>
  bindE (literalP 58 .specifier dt rest) fun (_, rest) =>
  bindE (optE (takeNumberAtMost 2 rest)) fun (minute, rest) =>
  bindE (literalP 58 .specifier dt rest) fun (_, rest) =>
  bindE (optE (takeNumberAtMost 2 rest)) fun (sec, rest) =>
  if with12 then
    bindE (ampmP dt (dropSpaces rest)) fun (dt, rest) =>
    .ok ({ dt with seconds := some sec, minutes := some minute, hours := some hour }, rest)
  else .ok ({ dt with hours := some hour, minutes := some minute, seconds := some sec }, rest)

inductive SpecP where
  | unknown | unsupported | p (f : P)

/-- Go: the `formatSpecifiers` map of sql/planbuilder/dateparse/date.go, in source order, as
(specifier byte ↦ name of the Go parser function; "nil" for the entries that are present but nil;
"literal" for `'%': literalParser('%')`). `facts_match` re-proves on every run that this is the
table regenerated from the source (`Generated.C31.parseSpecifiers`). -/
def parseSpecTable : List (Nat × String) :=
  [(97, "parseWeekdayAbbreviation"), (98, "parseMonthAbbreviation"), (99, "parseMonthNumeric"),
   (68, "parseDayNumericWithEnglishSuffix"), (100, "parseDayOfMonth2DigitNumeric"),
   (101, "parseDayOfMonthNumeric"), (102, "parseMicrosecondsNumeric"), (72, "parse24HourNumeric"),
   (104, "parse12HourNumeric"), (73, "parse12HourNumeric"), (105, "parseMinuteNumeric"),
   (106, "parseDayOfYearNumeric"), (107, "parse24HourNumeric"), (108, "parse12HourNumeric"),
   (77, "parseMonthName"), (109, "parseMonth2DigitNumeric"), (112, "parseAmPm"),
   (114, "parse12HourTimestamp"), (83, "parseSecondsNumeric"), (115, "parseSecondsNumeric"),
   (84, "parse24HourTimestamp"), (85, "nil"), (117, "nil"), (86, "nil"), (118, "nil"), (87, "nil"),
   (119, "nil"), (88, "nil"), (120, "nil"), (89, "parseYear4DigitNumeric"),
   (121, "parseYear2DigitNumeric"), (37, "literal")]

/-- Go: `formatSpecifiers[c]` ("" when the key is absent) -/
def specName (c : UInt8) : String :=
  match parseSpecTable.find? (·.1 == c.toNat) with
  | some e => e.2
  | none => ""

/-- The model of each Go parser function, by name. -/
def parserOfName : String → SpecP
  | "parseWeekdayAbbreviation" => .p weekdayAbbrP
  | "parseMonthAbbreviation" => .p monthAbbrP
  | "parseMonthNumeric" => .p (numP takeNumber fun dt v => { dt with month := some v })
  | "parseDayNumericWithEnglishSuffix" => .p daySuffixP
  | "parseDayOfMonth2DigitNumeric" => .p day2P
  | "parseDayOfMonthNumeric" => .p (numP takeNumber fun dt v => { dt with day := some v })
  | "parseMicrosecondsNumeric" => .p (numP takeNumber fun dt v => { dt with micros := some v })
  | "parse24HourNumeric" => .p (numP takeNumber fun dt v => { dt with hours := some v })
  | "parse12HourNumeric" => .p (numP takeNumber fun dt v => { dt with hours := some v })
  | "parseMinuteNumeric" => .p (numP takeNumber fun dt v => { dt with minutes := some v })
  | "parseDayOfYearNumeric" => .p (numP takeNumber fun dt v => { dt with dayOfYear := some v })
  | "parseMonthName" => .p monthNameP
  | "parseMonth2DigitNumeric" => .p month2P
  | "parseAmPm" => .p ampmP
  | "parse12HourTimestamp" => .p (clockP true)
  | "parseSecondsNumeric" => .p (numP takeNumber fun dt v => { dt with seconds := some v })
  | "parse24HourTimestamp" => .p (clockP false)
  | "parseYear4DigitNumeric" => .p year4P
  | "parseYear2DigitNumeric" => .p year2P
  | "literal" => .p (literalP 37 .specifier)
  | "nil" => .unsupported
  | _ => .unknown

/-- Go: lookup in the `formatSpecifiers` map -/
def formatSpecifier (c : UInt8) : SpecP := parserOfName (specName c)

/-- One element of a compiled format: the parser and (for specifiers) the specifier byte. -/
structure Step where
  run : P
  spec : Option UInt8

/-- Go: `parsersFromFormatString` -/
def compileFormat : Str → Except PErr (List Step)
  | [] => .ok []
  | c :: rest =>
    if c == 37 then
      match rest with
      | [] => .error .format
      | sp :: rest' =>
        match formatSpecifier sp with
        | .unknown => .error .format
        | .unsupported => .error .format
        | .p f => bindE (compileFormat rest') fun l => .ok ({ run := f, spec := some sp } :: l)
    else bindE (compileFormat rest) fun l => .ok ({ run := literalP c .literal, spec := none } :: l)

/-- Go: `timeSpecifiers` = "fHhIiklprSsT", `dateSpecifiers` = "abcDdejMmUuVvWwXxYy" (bytes) -/
def timeSpecifiers : Str := [102, 72, 104, 73, 105, 107, 108, 112, 114, 83, 115, 84]
def dateSpecifiers : Str := [97, 98, 99, 68, 100, 101, 106, 77, 109, 85, 117, 86, 118, 87, 119, 88, 120, 89, 121]

/-- Go: the am/pm validation loop of `ParseDateWithFormat`: only the *first* time specifier (in
the order of `timeSpecifiers`) that occurs in the format is examined. -/
def ampm24Check (specs : Str) : Bool :=
  match timeSpecifiers.find? (fun s => specs.contains s) with
  | some s => (s == 72 || s == 107 || s == 84) && specs.contains 112
  | none => false

/-- Go: the parser loop -/
def runSteps : List Step → PDT → Str → Except PErr PDT
  | [], dt, _ => .ok dt
  | st :: rest, dt, target =>
    match st.run dt (dropSpaces target) with
    | .error e => .error e
    | .ok (dt', target') => runSteps rest dt' target'

def getD (o : Option Int) : Int := o.getD 0

/-- Go: the tail of `ParseDateWithFormat`: fields → `time.Date` (with the `%j` override). -/
def assemble (dt : PDT) : Int :=
  let year := getD dt.year
  let md : Int × Int :=
    match dt.dayOfYear with
    | some n =>
      let f := fieldsOf (goDate { y := year, mo := 1, d := 0 + n, h := 0, mi := 0, s := 0, ns := 0 })
      (f.mo, f.d)
    | none => (getD dt.month, getD dt.day)
  goDate { y := year, mo := md.1, d := md.2, h := getD dt.hours, mi := getD dt.minutes,
           s := getD dt.seconds, ns := getD dt.micros * 1000 }

/-- Parsed fields before `time.Date` normalises them. -/
def parseFields (date format : Str) : Except PErr PDT :=
  match compileFormat format with
  | .error e => .error e
  | .ok steps =>
    let specs := steps.filterMap (·.spec)
    if ampm24Check specs then .error .ampm24
    else runSteps steps {} (trimSpace date)

/-- Impl model of `ParseDateWithFormat(date, format)`: error, `nil` (none) or an instant. -/
def parseImpl (date format : Str) : Except PErr (Option Int) :=
  match parseFields date format with
  | .error e => .error e
  | .ok dt => if dt.isEmpty then .ok none else .ok (some (assemble dt))

/-- The raw (un-normalised) civil fields a parse result denotes, with AM/PM applied (Spec). -/
def specFields (dt : PDT) : Fields :=
  let h := getD dt.hours
  let h := match dt.am with
    | some true => if h = 12 then 0 else h
    | some false => if h < 12 then h + 12 else h
    | none => h
  { y := getD dt.year, mo := getD dt.month, d := getD dt.day, h := h, mi := getD dt.minutes,
    s := getD dt.seconds, ns := getD dt.micros * 1000 }

def hasDatePart (dt : PDT) : Bool := dt.year.isSome || dt.month.isSome || dt.day.isSome

/-- Spec validity of a parse result: a date part, if any field of it was given, is a real calendar
date; the clock is a real clock; with AM/PM the hour is 1..12. -/
def specValid (dt : PDT) : Bool :=
  let f := specFields dt
  let h := getD dt.hours
  (if hasDatePart dt then decide (1 ≤ f.mo ∧ f.mo ≤ 12 ∧ 1 ≤ f.d ∧ f.d ≤ dim f.y f.mo) else true) &&
  decide (0 ≤ h ∧ h ≤ 23 ∧ 0 ≤ f.mi ∧ f.mi ≤ 59 ∧ 0 ≤ f.s ∧ f.s ≤ 59 ∧ 0 ≤ f.ns ∧ f.ns ≤ 999999999) &&
  (if dt.am.isSome then decide (1 ≤ h ∧ h ≤ 12) else true)

/-- Spec of STR_TO_DATE on formats without `%j`: what the parsed text denotes, or rejection
(`none`) when it denotes no calendar date/clock ("rejected rather than silently shifted"). A
parse without a date part denotes a clock on Go's zero date. -/
def parseSpec (date format : Str) : Except PErr (Option (Option Int)) :=
  match parseFields date format with
  | .error e => .error e
  | .ok dt =>
    if dt.isEmpty then .ok (some none)
    else if specValid dt then
      let f := specFields dt
      .ok (some (some (goDate f)))
    else .ok none

/-- Region: the text parses but names a day/month/clock value that does not exist; the
implementation lets `time.Date` carry it into the next unit (Feb 30 ↦ Mar 2, month 13 ↦ January,
hour 25 ↦ next day, month 0 / day 0 ↦ previous month). -/
def str_to_date_invalid_shifted (dt : PDT) : Bool :=
  !dt.isEmpty && !specValid dt

/-- Region: `%p` / `%r` read AM/PM into the record but `ParseDateWithFormat` never uses it. -/
def str_to_date_ampm_ignored (dt : PDT) : Bool :=
  !dt.isEmpty && specValid dt &&
  (match dt.am with
   | some true => getD dt.hours = 12
   | some false => getD dt.hours < 12
   | none => false)

/-! ## 6. `formatDate` (DATE_FORMAT) -/

def digit (n : Nat) : UInt8 := UInt8.ofNat (48 + n % 10)

/-- exactly `w` decimal digits of `v` (the low ones) -/
def padW : Nat → Nat → Str
  | 0, _ => []
  | w + 1, v => padW w (v / 10) ++ [digit v]

def showNatAux : Nat → Nat → Str
  | 0, _ => []
  | fuel + 1, v => if v < 10 then [digit v] else showNatAux fuel (v / 10) ++ [digit v]

/-- `%d` of a natural number -/
def showNat (v : Nat) : Str := showNatAux (v + 1) v

/-- `%0wd`: at least `w` digits -/
def padShow (w v : Nat) : Str := if v < 10 ^ w then padW w v else showNat v

def nameOf (l : List String) (i : Int) : Str := ofString (l.getD i.toNat "")

def twelveHour (h : Int) : Int := if h % 12 = 0 then 12 else h % 12
def ampmStr (h : Int) : Str := ofString (if h ≥ 12 then "PM" else "AM")

def daySuffix (day : Int) : Str :=
  ofString (if day < 4 ∨ day > 20 then
    (if day % 10 = 1 then "st" else if day % 10 = 2 then "nd" else if day % 10 = 3 then "rd" else "th")
  else "th")

def isLetter (c : UInt8) : Bool := (65 ≤ c && c ≤ 90) || (97 ≤ c && c ≤ 122)

/-- One specifier of DATE_FORMAT for an instant with year 0..9999. `none`: the week-number
specifiers (`%U %u %V %v %X %x`), which this model does not cover. -/
def formatSpec (c : UInt8) (t : Int) : Option Str :=
  let f := fieldsOf t
  let wd := weekday (t / nsDay)
  match Char.ofNat c.toNat with
  | 'a' => some ((nameOf weekdayNames wd).take 3)
  | 'b' => some ((nameOf monthNames (f.mo - 1)).take 3)
  | 'c' => some (showNat f.mo.toNat)
  | 'D' => some (showNat f.d.toNat ++ daySuffix f.d)
  | 'd' => some (padShow 2 f.d.toNat)
  | 'e' => some (showNat f.d.toNat)
  | 'f' => some (padShow 6 (f.ns / 1000).toNat)
  | 'H' => some (padShow 2 f.h.toNat)
  | 'h' => some (padShow 2 (twelveHour f.h).toNat)
  | 'I' => some (padShow 2 (twelveHour f.h).toNat)
  | 'i' => some (padShow 2 f.mi.toNat)
  | 'j' => some (padShow 3 (yearDay f.y f.mo f.d).toNat)
  | 'k' => some (showNat f.h.toNat)
  | 'l' => some (showNat (twelveHour f.h).toNat)
  | 'M' => some (nameOf monthNames (f.mo - 1))
  | 'm' => some (padShow 2 f.mo.toNat)
  | 'p' => some (ampmStr f.h)
  | 'r' => some (padShow 2 (twelveHour f.h).toNat ++ [58] ++ padShow 2 f.mi.toNat ++ [58] ++
                 padShow 2 f.s.toNat ++ [32] ++ ampmStr f.h)
  | 'S' => some (padShow 2 f.s.toNat)
  | 's' => some (padShow 2 f.s.toNat)
  | 'T' => some (padShow 2 f.h.toNat ++ [58] ++ padShow 2 f.mi.toNat ++ [58] ++ padShow 2 f.s.toNat)
  | 'U' => none | 'u' => none | 'V' => none | 'v' => none | 'X' => none | 'x' => none
  | 'W' => some (nameOf weekdayNames wd)
  | 'w' => some (showNat wd.toNat)
  | 'Y' => some (padShow 4 f.y.toNat)
  | 'y' => some (showNat (f.y % 100).toNat)
  | '%' => some [37]
  | _ => if isLetter c then some [c] else none

inductive FErr where
  | stray       -- `%` at the end of the pattern
  | lookup      -- specifier not in the specification set (non-letter after %)
  | unmodelled  -- week-number specifiers / `%-` `%#` flags: outside this model
deriving DecidableEq, Repr

def hasSub (w : Str) : Str → Bool
  | [] => w.isEmpty
  | b :: s => isPrefix w (b :: s) || hasSub w s

/-- strftime `canCombine(verbatim)`: no decimal digit and none of the excluded words -/
def canCombine (s : Str) : Bool :=
  !s.any isDigit && !(["Mon", "Jan", "MST", "PM", "pm"].any fun w => hasSub (ofString w) s)

def isLower (c : UInt8) : Bool := 97 ≤ c && c ≤ 122

/-- `%a` / `%b` are strftime's `StdlibFormat("Mon")` / `StdlibFormat("Jan")`. strftime merges such an
appender with an adjacent combinable verbatim chunk into *one* Go layout string, and Go's layout
scanner does not read `Mon`/`Jan` as a field when a lower-case letter follows (`Monat` is a
literal; `Monday`/`January` are the long names). Result: (text, verbatim bytes consumed). -/
def stdlibName (lit3 long : Str) (tail : Str) (rest : Str) : Str × Nat :=
  let chunk := rest.takeWhile (· != 37)
  if canCombine chunk then
    if isPrefix tail chunk then (long, tail.length)
    else match chunk with
      | c :: _ => if isLower c then (lit3, 0) else (long.take 3, 0)
      | [] => (long.take 3, 0)
  else (long.take 3, 0)

/-- `skip`: verbatim bytes already consumed by a long-name layout (`%a` + "day", `%b` + "uary"). -/
def formatAux (t : Int) : Nat → Str → Except FErr Str
  | _, [] => .ok []
  | skip + 1, _ :: rest => formatAux t skip rest
  | 0, c :: rest =>
    if c == 37 then
      match rest with
      | [] => .error .stray
      | sp :: rest' =>
        if sp == 45 || sp == 35 then .error .unmodelled
        else if sp == 97 || sp == 98 then
          let f := fieldsOf t
          let r := if sp == 97 then stdlibName (ofString "Mon") (nameOf weekdayNames (weekday (t / nsDay))) (ofString "day") rest'
                   else stdlibName (ofString "Jan") (nameOf monthNames (f.mo - 1)) (ofString "uary") rest'
          match formatAux t r.2 rest' with
          | .ok out => .ok (r.1 ++ out)
          | .error e => .error e
        else match formatSpec sp t with
          | some s => (match formatAux t 0 rest' with
                       | .ok r => .ok (s ++ r)
                       | .error e => .error e)
          | none => if isLetter sp then .error .unmodelled else .error .lookup
    else match formatAux t 0 rest with
      | .ok r => .ok (c :: r)
      | .error e => .error e

/-- Impl model of `formatDate(format, t)` (strftime compile + append). -/
def formatImpl (t : Int) (fmt : Str) : Except FErr Str := formatAux t 0 fmt

/-! ## 7. The grammar of complete formats used by the round-trip theorem -/

inductive Item where
  | Y | m | d | H | i | s | f
  | lit (c : UInt8)
deriving DecidableEq, Repr

/-- the specifier byte of a non-literal item -/
def Item.spec? : Item → Option UInt8
  | .Y => some 89 | .m => some 109 | .d => some 100 | .H => some 72 | .i => some 105
  | .s => some 115 | .f => some 102 | .lit _ => none

/-- text of the item inside a format string -/
def Item.text (it : Item) : Str :=
  match it with
  | .lit c => [c]
  | it => [37, (it.spec?).getD 0]

def renderItems (l : List Item) : Str := l.flatMap Item.text

/-- literal bytes of the grammar: printable ASCII except `%` and the digits -/
def litOk (c : UInt8) : Bool := 33 ≤ c.toNat && c.toNat ≤ 126 && c.toNat != 37 && !isDigit c

def Item.ofSpec? (c : UInt8) : Option Item :=
  if c == 89 then some .Y else if c == 109 then some .m else if c == 100 then some .d
  else if c == 72 then some .H else if c == 105 then some .i else if c == 115 then some .s
  else if c == 102 then some .f else none

/-- read a format string as an item list (`none`: outside the grammar) -/
def itemsOf? : Str → Option (List Item)
  | [] => some []
  | c :: rest =>
    if c == 37 then
      match rest with
      | [] => none
      | sp :: rest' =>
        match Item.ofSpec? sp, itemsOf? rest' with
        | some it, some l => some (it :: l)
        | _, _ => none
    else if litOk c then (itemsOf? rest).map (Item.lit c :: ·) else none

/-- the parsers of `%H %i %s %f` take *all* following digits -/
def Item.greedy : Item → Bool
  | .H => true | .i => true | .s => true | .f => true | _ => false

def Item.isLit : Item → Bool
  | .lit _ => true | _ => false

/-- every greedy numeric item is followed by a literal or ends the format -/
def greedyOk : List Item → Bool
  | [] => true
  | [_] => true
  | a :: b :: rest => (!a.greedy || b.isLit) && greedyOk (b :: rest)

def litsOk (l : List Item) : Bool := l.all fun it => match it with | .lit c => litOk c | _ => true

/-- A complete format: year, month and day are all present, literals are harmless, no two numeric
fields run into each other. -/
def completeItems (l : List Item) : Bool :=
  l.contains .Y && l.contains .m && l.contains .d && greedyOk l && litsOk l

/-- the fields a format mentions; the others are zero; sub-microsecond digits are not printed -/
def maskFields (l : List Item) (f : Fields) : Fields :=
  { y := f.y, mo := f.mo, d := f.d,
    h := if l.contains .H then f.h else 0,
    mi := if l.contains .i then f.mi else 0,
    s := if l.contains .s then f.s else 0,
    ns := if l.contains .f then f.ns / 1000 * 1000 else 0 }

/-! ## 8. The SQL text of a DATE / DATETIME value (sql/types: `datetimeType.SQL`)

What a client is sent for a temporal result (`appendDateFormat`, `appendDatetimeFormat` of
sql/types/datetime.go, `appendTimeFormat` / `appendMicroseconds` of sql/types/time.go). The Spec is
the text of the canonical format `%Y-%m-%d[ %H:%i:%s[.%f]]`, i.e. what DATE_FORMAT gives and what
reads back as the same value. -/

/-- Go: `strconv.AppendInt(dest, v, 10)` -/
def showInt (v : Int) : Str := if v < 0 then 45 :: showNat (-v).toNat else showNat v.toNat

/-- `types.ZeroTime = time.Date(0, 0, 0, 0, 0, 0, 0, time.UTC)` (30 November of the year −1) -/
def zeroTime : Int := goDate ⟨0, 0, 0, 0, 0, 0, 0⟩

/-- `appendDateFormat` after the ZeroTime test: the year is written by `strconv.AppendInt` —
*without padding* — except that year 0 is written `0000`; month and day as two digits. -/
def sqlDateImplF (f : Fields) : Str :=
  (if f.y = 0 then [48, 48, 48, 48] else showInt f.y) ++
    [45, digit (f.mo.toNat / 10), digit f.mo.toNat, 45, digit (f.d.toNat / 10), digit f.d.toNat]

/-- the zero-padding loop of `appendMicroseconds`: `for cmp > 1 && subSeconds < cmp { '0'; cmp /= 10 }` -/
def microZeros : Nat → Nat → Nat → Str
  | 0, _, _ => []
  | fuel + 1, cmp, sub => if cmp > 1 ∧ sub < cmp then 48 :: microZeros fuel (cmp / 10) sub else []

/-- `appendMicroseconds(dest, microseconds, precision)`, precision 0..6 -/
def sqlMicrosImpl (us prec : Nat) : Str :=
  if prec = 0 then []
  else
    let sub := us / 10 ^ (6 - prec)
    46 :: (microZeros prec (10 ^ (prec - 1)) sub ++ showNat sub)

/-- `appendTimeFormat(dest, h, m, s, ms, msPrecision)` -/
def sqlTimeImplF (f : Fields) (prec : Nat) : Str :=
  (if f.h < 10 then [48] else []) ++ showInt f.h ++
    [58, digit (f.mi.toNat / 10), digit f.mi.toNat, 58, digit (f.s.toNat / 10), digit f.s.toNat] ++
    sqlMicrosImpl (f.ns / 1000).toNat prec

/-- Impl model of `datetimeType.SQL` for base type DATE -/
def sqlDateImpl (t : Int) : Str :=
  if t = zeroTime then ofString "0000-00-00" else sqlDateImplF (fieldsOf t)

/-- Impl model of `datetimeType.SQL` for base type DATETIME / TIMESTAMP of precision `prec` -/
def sqlDatetimeImpl (t : Int) (prec : Nat) : Str :=
  if t = zeroTime then
    ofString "0000-00-00 00:00:00" ++ (if prec = 0 then [] else 46 :: List.replicate prec 48)
  else sqlDateImplF (fieldsOf t) ++ [32] ++ sqlTimeImplF (fieldsOf t) prec

/-- Spec: `%Y-%m-%d` — a four-digit year (years 0..9999) -/
def sqlDateSpecF (f : Fields) : Str :=
  padShow 4 f.y.toNat ++ [45] ++ padShow 2 f.mo.toNat ++ [45] ++ padShow 2 f.d.toNat

/-- Spec: `%H:%i:%s` and, for a type with fraction digits, `.` and exactly `prec` digits -/
def sqlTimeSpecF (f : Fields) (prec : Nat) : Str :=
  padShow 2 f.h.toNat ++ [58] ++ padShow 2 f.mi.toNat ++ [58] ++ padShow 2 f.s.toNat ++
    (if prec = 0 then [] else 46 :: padW prec ((f.ns / 1000).toNat / 10 ^ (6 - prec)))

def sqlDateSpec (t : Int) : Str := sqlDateSpecF (fieldsOf t)

def sqlDatetimeSpec (t : Int) (prec : Nat) : Str :=
  sqlDateSpecF (fieldsOf t) ++ [32] ++ sqlTimeSpecF (fieldsOf t) prec

/-- Region: the value's year is 1..999 (the year is written with fewer than four digits) -/
def datetime_text_year_below_1000 (t : Int) : Bool :=
  decide (1 ≤ (fieldsOf t).y) && decide ((fieldsOf t).y ≤ 999)

/-- The temporal result types of the `sqlx` correspondence stream -/
inductive SqlKind where
  | date | datetime (prec : Nat)
deriving DecidableEq, Repr

/-- the harness' names of the types (`types.Date`, `types.Datetime`, `types.Datetime3`, `types.DatetimeMaxPrecision`) -/
def SqlKind.ofName? : String → Option SqlKind
  | "date" => some .date
  | "datetime" => some (.datetime 0)
  | "datetime3" => some (.datetime 3)
  | "datetime6" => some (.datetime 6)
  | _ => none

def sqlTextImpl (k : SqlKind) (t : Int) : Str :=
  match k with
  | .date => sqlDateImpl t
  | .datetime p => sqlDatetimeImpl t p

def sqlTextSpec (k : SqlKind) (t : Int) : Str :=
  match k with
  | .date => sqlDateSpec t
  | .datetime p => sqlDatetimeSpec t p

/-! ### the result range of DATE_ADD / DATE_SUB (`types.ValidateTime`, function/time_math.go) -/

/-- `datetimeMaxTime = time.Date(9999, 12, 31, 23, 59, 59, 999999000, time.UTC)` -/
def maxTime : Int := goDate ⟨9999, 12, 31, 23, 59, 59, 999999000⟩

/-- the first instant of the year 0 (`0000-01-01 00:00:00`) -/
def yearZeroStart : Int := goDate ⟨0, 1, 1, 0, 0, 0, 0⟩

/-- Impl model of `types.ValidateTime`: `nil` when `t.Before(datetimeMinTime) || t.After(datetimeMaxTime)`,
where `datetimeMinTime = ZeroTime` — Go's rendering of MySQL's `0000-00-00`, which is 30 November of
the year −1. -/
def validateTime (t : Int) : Option Int := if t < zeroTime ∨ t > maxTime then none else some t

/-- Spec: a temporal result exists iff it is an instant of the years 0..9999
(`0000-01-01 00:00:00` … `9999-12-31 23:59:59.999999`); otherwise the result is NULL. -/
def validateTimeSpec (t : Int) : Option Int := if t < yearZeroStart ∨ t > maxTime then none else some t

/-- Region: the result falls into the 32 days between `ZeroTime` and the start of the year 0 -/
def dateadd_result_before_year_zero (t : Int) : Bool := decide (zeroTime ≤ t) && decide (t < yearZeroStart)

/-- `INTERVAL n UNIT` as a `TimeDelta` (expression.Interval.EvalDelta, single-unit intervals) -/
def sqlUnitDelta (unit : String) (n : Int) : Option Delta :=
  match unit with
  | "YEAR" => some { years := n, months := 0, days := 0, hours := 0, minutes := 0, seconds := 0, micros := 0 }
  | "QUARTER" => some { years := 0, months := 3 * n, days := 0, hours := 0, minutes := 0, seconds := 0, micros := 0 }
  | "MONTH" => some { years := 0, months := n, days := 0, hours := 0, minutes := 0, seconds := 0, micros := 0 }
  | "WEEK" => some { years := 0, months := 0, days := 7 * n, hours := 0, minutes := 0, seconds := 0, micros := 0 }
  | "DAY" => some { years := 0, months := 0, days := n, hours := 0, minutes := 0, seconds := 0, micros := 0 }
  | "HOUR" => some { years := 0, months := 0, days := 0, hours := n, minutes := 0, seconds := 0, micros := 0 }
  | "MINUTE" => some { years := 0, months := 0, days := 0, hours := 0, minutes := n, seconds := 0, micros := 0 }
  | "SECOND" => some { years := 0, months := 0, days := 0, hours := 0, minutes := 0, seconds := n, micros := 0 }
  | "MICROSECOND" => some { years := 0, months := 0, days := 0, hours := 0, minutes := 0, seconds := 0, micros := n }
  | _ => none

end Gms.Cal
