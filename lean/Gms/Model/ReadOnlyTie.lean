/-
C42 — the model instantiated with the regenerated facts (shared by Props/C42 and Drivers/C42; core-only).
-/
import Gms.Model.ReadOnlyKinds
import Gms.Generated.C42
namespace Gms.ReadOnly
open Gms.Generated

/-- The regenerated kind table. -/
def tbl : Table := C42.kinds

def armKinds (arms : List (List String × String)) (action : String) : List String :=
  (arms.filter (fun a => a.2 == action)).flatMap (·.1)

def actTxSearchRoot := "search node temporaryTableSearch; return false"
def actTxSearchDest := "search n.Destination temporaryTableSearch; return false"
def actTxReject := "valid = false; return false"
def actTxTempCreate := "if n.Temporary() { valid = false }; return false"
def actTxDefault := "if plan.IsDDLNode(n) { valid = true return false }; return valid"
def actDbSearchRoot := "search node readOnlyDBSearch; return false"
def actDbSearchDest := "search n.Destination readOnlyDBSearch; return false"
def actDbOwn := "if ro, ok := n.Database().(sql.ReadOnlyDatabase); ok { if ro.IsReadOnly() { readOnlyDB = ro valid = false } else if enforceReadOnly { valid = false } }; return false"
def actDbDefault := "if plan.IsDDLNode(n) { transform.InspectWithOpaque(ctx, n, readOnlyDBSearch) return false }"

/-- The rules' kind switches, read from the regenerated arms by their (normalised) actions. -/
def facts : RuleFacts where
  ddl := C42.ddlKinds
  txSearchRoot := armKinds C42.roTxArms actTxSearchRoot
  txSearchDest := armKinds C42.roTxArms actTxSearchDest
  txReject := armKinds C42.roTxArms actTxReject
  txTempCreate := armKinds C42.roTxArms actTxTempCreate
  dbSearchRoot := armKinds C42.roDbArms actDbSearchRoot
  dbSearchDest := armKinds C42.roDbArms actDbSearchDest
  dbOwn := armKinds C42.roDbArms actDbOwn

/-- Kinds that may violate `kindOk`: the two placeholder nodes whose method panics (they are
replaced before analysis). -/
def kindExceptions : List String := ["plan.ExecuteQuery", "plan.StrExpr"]

/-- The table the expectation demands: today's table with every unsound entry replaced by the
canonical shape (identical to `tbl` while `table_sound` holds). The driver decides the Spec of a
tree that is not well-formed over `tbl` over this table, so that a kind whose method went wrong
in the source yields failing inputs instead of silencing the Spec. -/
def tblR : Table := repair tbl expect kindExceptions

mutual
/-- Does the tree hold a node of one of these kinds? -/
def hasKind (ks : List String) : Node → Bool
  | .mk _ k _ _ cs => ks.contains k || hasKindL ks cs
def hasKindL (ks : List String) : List Node → Bool
  | [] => false
  | c :: cs => hasKind ks c || hasKindL ks cs
end

/-- Spec-determined although not well-formed over the source's table: well-formed over the
repaired table and free of the placeholder kinds whose method panics. -/
def wfSpecOnly (n : Node) : Bool :=
  !wf tbl expect n && wf tblR expect n && !hasKind kindExceptions n

/-! ### What the property demands of each observation (used by the driver) -/

def resStr : Res → String
  | .ok true => "T"
  | .ok false => "F"
  | .panic => "panic"
  | .unknown => "unknown"

def gateStr : Gate → String
  | .pass => "pass" | .errReadOnly => "errReadOnly" | .errLocked => "errLocked" | .panic => "panic" | .unknown => "unknown"

def outStr : Outcome → String
  | .pass => "pass" | .reject => "reject" | .panic => "panic"

def gates (r : Res) : String :=
  ",".intercalate ([(false, false), (false, true), (true, false), (true, true)].map fun (ro, l) => gateStr (engineGate ro l r))

/-- Spec of `plan.IsReadOnly` on a well-formed tree: determined by the verdict unless the
property is silent. -/
def specRes (n : Node) (impl : Res) : Res :=
  match verdict expect n with
  | .allow => .ok true
  | .block => .ok false
  | .free => impl

def txSlots : List (Tx × Bool) := [(.none, false), (.none, true), (.rw, false), (.rw, true), (.ro, false), (.ro, true)]

def callKind : String := "plan.Call"

def dmlRoot (n : Node) : Bool := facts.txSearchRoot.contains n.kind || facts.txSearchDest.contains n.kind

/-- Spec of validateReadOnlyTransaction on one slot: reads pass; a schema/data modifying DDL root
must be rejected; a panic is never an acceptable way of rejecting. -/
def specTx (n : Node) (tx : Tx) (enforce : Bool) (impl : Outcome) : Outcome :=
  if tx == .none || (tx != .ro && !enforce) then impl
  else match verdict expect n with
    | .allow => .pass
    | .block =>
      if facts.ddl.contains n.kind || n.kind == callKind then .reject
      else if impl == .panic && dmlRoot n then .reject else impl
    | .free => impl

def regionTx (n : Node) (impl spec : Outcome) : String :=
  if impl == spec then "-"
  else if impl == .panic && dmlRoot n then "rotx_table_without_temporary_iface_panics"
  else if impl == .pass && facts.ddl.contains n.kind then "rotx_ddl_passes"
  else if impl == .pass && n.kind == callKind then "rotx_call_not_checked"
  else "-"

/-- The statement names its own database (sql.Databaser) and that database is read-only. -/
def ownDbReadOnly (n : Node) : Bool := n.attr.roIface && n.attr.roDb

/-- Spec of validateReadOnlyDatabase: a modifying statement whose own database is read-only is
rejected; reads pass (a top-level `Block` is treated by the code as
the wrapper of a multi-clause ALTER TABLE: the property is silent about a `Block` of reads). -/
def specDb (n : Node) (impl : Outcome) : Outcome :=
  match verdict expect n with
  | .allow => if facts.ddl.contains n.kind then impl else .pass
  | .block => if ownDbReadOnly n then .reject else impl
  | .free => impl

def regionDb (n : Node) (impl spec : Outcome) : String :=
  if impl == spec then "-"
  else if impl == .pass && ownDbReadOnly n then "rodb_statement_without_resolved_table_passes"
  else "-"

end Gms.ReadOnly
