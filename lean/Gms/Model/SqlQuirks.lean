/-
Known-defect regions of the engine with respect to the SQL reference semantics (core-only).

For engine-level properties there is no Impl model of the whole engine; the driver answers
`implModelObs = specObs` except on cases that fall into a *region*: a narrow feature class decided
on the case (query term + spelling features reported by the SQL printer), on which the engine is
known to deviate in a way that a term rewrite reproduces (`implRewrite`). Outside the regions
`implRewrite` is the identity (`implRewrite_of_no_region`), so a deviation of the engine there is a
violation, not a known finding.

Regions (each is a top-level shape; the generators keep the whole surrounding feature class out
of their envelope, the corpus holds one witness per region):

* `in_subquery_null_literal` — `WHERE [NOT] x IN (SELECT NULL FROM …)`: the engine evaluates the
  IN to FALSE instead of NULL when the subquery selects a bare NULL literal, so
  `x NOT IN (… NULL …)` is TRUE.
* `exists_left_join_const_false` — `WHERE [NOT] EXISTS (SELECT … FROM a LEFT JOIN b ON 0)`: the
  engine treats the left join with a constant-false condition as empty (it has one row per row of
  `a`).
* `setop_offset_before_sort` — `a UNION|INTERSECT|EXCEPT b ORDER BY … LIMIT n OFFSET m` spelled as
  one statement (printer feature `setop_offset`): the engine applies the OFFSET to the unsorted
  result of the set operation and sorts afterwards.
-/
import Gms.Model.Rel

namespace Gms.Quirks
open Gms.Sql Gms.Rel

inductive Region where
  | inSubqueryNullLiteral
  | existsLeftJoinConstFalse
  | setopOffsetBeforeSort
  deriving DecidableEq, Repr

def Region.name : Region → String
  | .inSubqueryNullLiteral => "in_subquery_null_literal"
  | .existsLeftJoinConstFalse => "exists_left_join_const_false"
  | .setopOffsetBeforeSort => "setop_offset_before_sort"

/-- `x IN (SELECT NULL FROM s)` -/
def isInSubNull : Expr → Bool
  | .inSub _ (.project [.lit .null] _) => true
  | _ => false

/-- `EXISTS (SELECT … FROM l LEFT JOIN r ON 0)` -/
def isExistsLeftFalse : Expr → Bool
  | .exists (.join .left (.lit (.int 0)) _ _) => true
  | _ => false

/-- The defective value of the predicate forms above. -/
def quirkPred : Expr → Expr
  | .inSub e (.project [.lit .null] s) => .and (.exists s) (.cmp .ne e e)
  | .exists (.join .left (.lit (.int 0)) _ _) => .lit (.int 0)
  | e => e

/-- Region of a case: the query term plus the spelling features of its SQL text. -/
def region (feats : List String) : Query → Option Region
  | .filter (.not p) _ =>
    if isInSubNull p then some .inSubqueryNullLiteral
    else if isExistsLeftFalse p then some .existsLeftJoinConstFalse else none
  | .filter p _ =>
    if isInSubNull p then some .inSubqueryNullLiteral
    else if isExistsLeftFalse p then some .existsLeftJoinConstFalse else none
  | .limit _ off (.orderBy _ _ (.setop _ _ _ _)) =>
    if off > 0 ∧ feats.contains "setop_offset" then some .setopOffsetBeforeSort else none
  | _ => none

/-- The term whose reference evaluation is what the engine returns on a case of a region. -/
def implRewrite (feats : List String) (q : Query) : Query :=
  match region feats q with
  | none => q
  | some _ =>
    match q with
    | .filter (.not p) b => .filter (.not (quirkPred p)) b
    | .filter p b => .filter (quirkPred p) b
    | .limit n off (.orderBy ks d s) => .limit n 0 (.orderBy ks d (.limit 1000000 off s))
    | q => q

/-- The Impl model of the engine on a case: the reference semantics of the rewritten term. -/
def implEval (db : Db) (feats : List String) (q : Query) : List Row := eval db (implRewrite feats q)

end Gms.Quirks
