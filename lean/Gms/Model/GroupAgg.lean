/-
C08 — model of the GROUP BY aggregation buffers (core-only).

sql/expression/function/aggregation/unary_agg_buffers.go: countBuffer, sumBuffer, avgBuffer,
minBuffer, maxBuffer, bitAndBuffer, bitOrBuffer, bitXorBuffer, countDistinctBuffer, jsonArrayBuffer;
group_concat.go: groupConcatBuffer. `Update` is a fold step over the rows of the group in input
order, `Eval` reads the state. Values are integers (NULL = none); integer sums are exact in the
engine's float64 as long as they stay below 2^53 (recorded assumption).
-/
import Gms.Model.Window
namespace Gms.GroupAgg
open Gms.Window

inductive GFn where
  | countStar | count | sum | avg | min | max
  | bitAnd | bitOr | bitXor
  | gcId          -- GROUP_CONCAT(x ORDER BY id)
  | gcDesc        -- GROUP_CONCAT(x ORDER BY x DESC SEPARATOR '|')
  | gcDistinct    -- GROUP_CONCAT(DISTINCT x ORDER BY x)
  | jsonArray     -- JSON_ARRAYAGG(x)
  | countDistinct -- COUNT(DISTINCT x)
  deriving Repr, DecidableEq, Inhabited

def fnOfName : String → Option GFn
  | "count_star" => some .countStar | "count" => some .count | "sum" => some .sum | "avg" => some .avg
  | "min" => some .min | "max" => some .max | "bit_and" => some .bitAnd | "bit_or" => some .bitOr
  | "bit_xor" => some .bitXor | "gc_id" => some .gcId | "gc_desc" => some .gcDesc
  | "gc_distinct" => some .gcDistinct | "json_arrayagg" => some .jsonArray
  | "count_distinct" => some .countDistinct
  | _ => none

inductive GOut where
  | null
  | int (v : Int)
  | rat (n : Int) (d : Nat)
  | text (parts : List Int) (sep : String)
  | json (vs : List Val)
  deriving Repr, DecidableEq, Inhabited

def allOnes : Nat := 2 ^ 64 - 1

/-! ## Impl: buffers -/

structure SumBuf where
  sum : Int := 0
  isnil : Bool := true
  deriving Repr, DecidableEq

/-- `sumBuffer.Update` / `PerformSum` (default branch: integer value converted to float64). -/
def SumBuf.update (b : SumBuf) (v : Val) : SumBuf :=
  match v with
  | none => b
  | some n => { sum := (if b.isnil then 0 else b.sum) + n, isnil := false }

def SumBuf.eval (b : SumBuf) : GOut := if b.isnil then .null else .int b.sum

structure AvgBuf where
  sum : SumBuf := {}
  rows : Nat := 0
  deriving Repr, DecidableEq

def AvgBuf.update (b : AvgBuf) (v : Val) : AvgBuf :=
  match v with
  | none => b
  | some _ => { sum := b.sum.update v, rows := b.rows + 1 }

/-- `avgBuffer.Eval`: `sum.Eval()` is nil when no value was seen (the type switch then falls
through to `return nil, nil`); otherwise `s / float64(rows)` (with the `rows == 0` guards). -/
def AvgBuf.eval (b : AvgBuf) : GOut :=
  if b.sum.isnil then .null
  else if b.sum.sum = 0 ∧ b.rows = 0 then .null
  else if b.rows = 0 then .int 0
  else .rat b.sum.sum b.rows

/-- `maxBuffer.Update`: `if m.val == nil { m.val = v } else if cmp == 1 { m.val = v }` -/
def maxUpdate (m : Val) (v : Val) : Val :=
  match v with
  | none => m
  | some y => match m with
    | none => some y
    | some mm => if y > mm then some y else some mm

def minUpdate (m : Val) (v : Val) : Val :=
  match v with
  | none => m
  | some y => match m with
    | none => some y
    | some mm => if y < mm then some y else some mm

/-- `Uint64.Convert` of a non-negative int (the generator keeps bit aggregates on x ≥ 0). -/
def toU64 (n : Int) : Nat := n.toNat % 2 ^ 64

def bitUpdate (op : Nat → Nat → Nat) (acc : Nat) (v : Val) : Nat :=
  match v with
  | none => acc
  | some n => op acc (toU64 n)

/-- `groupConcatBuffer.Update`: NULL skipped, DISTINCT keeps the first occurrence. -/
def gcUpdate (distinct : Bool) (rows : List Int) (v : Val) : List Int :=
  match v with
  | none => rows
  | some n => if distinct ∧ rows.contains n then rows else rows ++ [n]

def insertBy (lt : Int → Int → Bool) (x : Int) : List Int → List Int
  | [] => [x]
  | y :: ys => if lt x y then x :: y :: ys else y :: insertBy lt x ys

/-- `sort.Stable` with the ORDER BY of the GROUP_CONCAT -/
def sortBy (lt : Int → Int → Bool) (xs : List Int) : List Int :=
  xs.foldl (fun acc x => insertBy lt x acc) []

def implEval (f : GFn) (xs : List Val) : GOut :=
  match f with
  | .countStar => .int (xs.foldl (fun (c : Int) _ => c + 1) 0)
  | .count => .int (xs.foldl (fun (c : Int) v => if v.isSome then c + 1 else c) 0)
  | .sum => (xs.foldl SumBuf.update {}).eval
  | .avg => (xs.foldl AvgBuf.update {}).eval
  | .min => match xs.foldl minUpdate none with | none => .null | some v => .int v
  | .max => match xs.foldl maxUpdate none with | none => .null | some v => .int v
  | .bitAnd => .int ((xs.foldl (bitUpdate Nat.land) allOnes : Nat) : Int)
  | .bitOr => .int ((xs.foldl (bitUpdate Nat.lor) 0 : Nat) : Int)
  | .bitXor => .int ((xs.foldl (bitUpdate Nat.xor) 0 : Nat) : Int)
  | .gcId => match xs.foldl (gcUpdate false) [] with | [] => .null | l => .text l ","
  | .gcDesc => match xs.foldl (gcUpdate false) [] with | [] => .null | l => .text (sortBy (fun a b => a > b) l) "|"
  | .gcDistinct => match xs.foldl (gcUpdate true) [] with | [] => .null | l => .text (sortBy (fun a b => a < b) l) ","
  | .jsonArray => .json xs          -- `jsonArrayBuffer.Eval` never returns NULL
  | .countDistinct => .int (xs.foldl (gcUpdate true) []).length

/-! ## Spec: definitions over the list of input values of the group -/

def dedup : List Int → List Int
  | [] => []
  | x :: xs => x :: (dedup xs).filter (· ≠ x)

def specEval (f : GFn) (xs : List Val) : GOut :=
  let nn := nonNull xs
  match f with
  | .countStar => .int xs.length
  | .count => .int nn.length
  | .sum => match nn with | [] => .null | l => .int l.sum
  | .avg => match nn with | [] => .null | l => .rat l.sum l.length
  | .min => match listMin nn with | none => .null | some v => .int v
  | .max => match listMax nn with | none => .null | some v => .int v
  | .bitAnd => .int ((nn.foldl (fun (a : Nat) n => Nat.land a (toU64 n)) allOnes : Nat) : Int)
  | .bitOr => .int ((nn.foldl (fun (a : Nat) n => Nat.lor a (toU64 n)) 0 : Nat) : Int)
  | .bitXor => .int ((nn.foldl (fun (a : Nat) n => Nat.xor a (toU64 n)) 0 : Nat) : Int)
  | .gcId => match nn with | [] => .null | l => .text l ","
  | .gcDesc => match nn with | [] => .null | l => .text (sortBy (fun a b => a > b) l) "|"
  | .gcDistinct => match nn with | [] => .null | l => .text (sortBy (fun a b => a < b) (dedup l)) ","
  | .jsonArray => match xs with | [] => .null | l => .json l   -- NULL when there are no rows
  | .countDistinct => .int (dedup nn).length

/-! ## Grouping (`groupByGroupingIter`: one buffer per distinct key, NULL keys form one group;
`groupByIter` without keys: exactly one output row, also on empty input) -/

def addToGroup (key : Val) (x : Val) : List (Val × List Val) → List (Val × List Val)
  | [] => [(key, [x])]
  | (k, xs) :: rest => if k = key then (k, xs ++ [x]) :: rest else (k, xs) :: addToGroup key x rest

def groups (rows : List (Val × Val)) : List (Val × List Val) :=
  rows.foldl (fun acc r => addToGroup r.1 r.2 acc) []

def implQuery (f : GFn) (byP : Bool) (rows : List (Val × Val)) : List (Val × GOut) :=
  if byP then (groups rows).map fun (k, xs) => (k, implEval f xs)
  else [(none, implEval f (rows.map (·.2)))]

def specQuery (f : GFn) (byP : Bool) (rows : List (Val × Val)) : List (Val × GOut) :=
  if byP then (groups rows).map fun (k, xs) => (k, specEval f xs)
  else [(none, specEval f (rows.map (·.2)))]

/-- known-defect class: JSON_ARRAYAGG over an empty input is `[]`, not NULL -/
def region (f : GFn) (byP : Bool) (rows : List (Val × Val)) : String :=
  if f = .jsonArray ∧ ¬ byP ∧ rows.isEmpty then "json_arrayagg_empty_input" else "-"

/-! ## rendering (driver only) -/

def showVal : Val → String
  | none => "null"
  | some v => toString v

def showGOut : GOut → String
  | .null => "null"
  | .int v => toString v
  | .rat n d => if d = 0 then "nan" else "r" ++ toString ((2 * n * 1000000 + d) / (2 * (d : Int)))
  | .text parts sep => "t:" ++ sep.intercalate (parts.map toString)
  | .json vs => "j:[" ++ ",".intercalate (vs.map showVal) ++ "]"

def insertStr (x : String) : List String → List String
  | [] => [x]
  | y :: ys => if x < y then x :: y :: ys else y :: insertStr x ys

def showOut (rs : List (Val × GOut)) : String :=
  let items := rs.map fun (k, v) => showVal k ++ "=" ++ showGOut v
  " ".intercalate (items.foldl (fun acc s => insertStr s acc) [])

end Gms.GroupAgg
