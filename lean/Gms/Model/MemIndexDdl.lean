/-
`MemIndexDdl` — how the in-memory table names its indexes and their storage (core-only).

`TableData` keeps two maps: `indexes : map[string]sql.Index` keyed by the **lower-cased** index
name, and `secondaryIndexStorage : map[indexName][]sql.Row` keyed by `Index.ID()` = the name **as
written**. The functions below transliterate every place where one of the two keys is formed:

* memory/table.go       `CreateIndex`  `data.indexes[strings.ToLower(index.ID())] = index`
                        `DropIndex`    `delete(data.indexes, idxName); delete(data.secondaryIndexStorage, indexName(idxName))`
                                       (`idxName` is the *map key*, i.e. lower case)
                        `RenameIndex`  re-keys `indexes`, sets `idx.Name`, leaves the storage map alone
                        `PartitionRows` (index scan) reads `secondaryIndexStorage[indexName(isp.index.Name)]`
* memory/table_editor.go `addRowToIndexes` / `deleteRowFromIndexes` use `indexName(memIdx.ID())`
* memory/table_data.go  `sortSecondaryIndexes` ranges over the *storage* map and does
                        `td.indexes[strings.ToLower(string(idxName))].(*Index)` — a storage key
                        without an index is a nil-interface panic; `truncate` starts a fresh storage map

Index contents are abstracted to a list of opaque entries; names are `List Char`.
-/
namespace Gms.MemIndexDdl

abbrev Name := List Char

def lower (n : Name) : Name := n.map Char.toLower

structure Tbl where
  indexes : List (Name × Name)          -- map key ↦ `Index.Name`
  storage : List (Name × List Nat)      -- storage key ↦ storage rows (opaque)
  deriving DecidableEq, Repr, Inhabited

def aErase {β : Type} (l : List (Name × β)) (k : Name) : List (Name × β) := l.filter (fun e => e.1 != k)

def aSet {β : Type} (l : List (Name × β)) (k : Name) (v : β) : List (Name × β) := aErase l k ++ [(k, v)]

def aGet {β : Type} (l : List (Name × β)) (k : Name) : Option β := (l.find? (fun e => e.1 == k)).map (·.2)

/-- Go: `CreateIndex` (the name is free). -/
def createIndex (t : Tbl) (name : Name) : Tbl := { t with indexes := aSet t.indexes (lower name) name }

/-- Go: what a rebuild (`truncate` + re-insert of `rows` rows through `addRowToIndexes`) leaves:
a fresh storage map with one key `ID()` per index — no key at all when the table is empty. -/
def rebuild (t : Tbl) (rows : List Nat) : Tbl :=
  { t with storage := if rows.isEmpty then [] else t.indexes.map (fun e => (e.2, rows)) }

/-- Go: `DropIndex(name)`: every map key equal to `name` up to case is removed from `indexes`, and
the *same string* (the lower-case map key) is removed from the storage map. -/
def dropIndex (t : Tbl) (name : Name) : Tbl :=
  match t.indexes.find? (fun e => lower e.1 == lower name) with
  | none => t
  | some e => { indexes := aErase t.indexes e.1, storage := aErase t.storage e.1 }

/-- Go: `RenameIndex(old, new)`. -/
def renameIndex (t : Tbl) (old new : Name) : Tbl :=
  if old = new then t
  else match aGet t.indexes (lower old) with
    | none => t
    | some _ => { t with indexes := aSet (aErase t.indexes (lower old)) (lower new) new }

/-- Go: the storage an index scan over the index registered under `key` reads. -/
def scanStorage (t : Tbl) (key : Name) : Option (List Nat) :=
  match aGet t.indexes key with
  | none => none
  | some nm => aGet t.storage nm

/-- Go: `sortSecondaryIndexes` does not panic: every storage key has an index under its lower-cased name. -/
def sortOk (t : Tbl) : Bool := t.storage.all (fun s => (aGet t.indexes (lower s.1)).isSome)

/-- Spec: the two maps agree — every index finds its storage (when there are rows) and there is
no storage without an index. -/
def wf (t : Tbl) (rows : List Nat) : Bool :=
  t.indexes.all (fun e => e.1 == lower e.2 && (rows.isEmpty || aGet t.storage e.2 == some rows)) &&
  t.storage.all (fun s => t.indexes.any (fun e => e.2 == s.1))

end Gms.MemIndexDdl
