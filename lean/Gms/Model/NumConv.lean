/-
Shared model (core-only) of value conversion and comparison for the numeric SQL types —
sql/types/number.go (`convertToInt64`, `convertToUint64`, `NumberTypeImpl_.Convert`,
`NumberTypeImpl_.Compare`), sql/types/decimal.go (`ConvertToDecimal`, `BoundsCheck`, `Convert`,
`Compare`), sql/types/year.go, sql/types/bit.go, sql/types/conversion.go (`CompareNulls`).

Used by C26 (comparison is a consistent total order) and C27 (storing keeps the value or reports).

Values are Go dynamic values: `i` = signed Go integer (any width, value in the int64 range),
`u` = unsigned Go integer (uint64 range), `d` = `*apd.Decimal` (coefficient, scale ≥ 0), `s` = Go
string (bytes). Floats, times, JSON are not modelled.
-/
import Gms.Model.Num
namespace Gms.Conv
open Gms.Num

inductive Val where
  | null
  | i (v : Int)
  | u (v : Int)
  | d (coeff : Int) (scale : Nat)
  | s (bytes : List UInt8)
  deriving DecidableEq, Repr, Inhabited

/-- Well-formedness of a value as a Go value. -/
def Val.WF : Val → Prop
  | .i v => inI64 v
  | .u v => inU64 v
  | _ => True

instance (v : Val) : Decidable v.WF := by unfold Val.WF; cases v <;> infer_instance

/-- `sql.ConvertInRange` -/
inductive Flag where
  | inRange | overflow | underflow
  deriving DecidableEq, Repr, Inhabited

/-- error returned beside the value: none, `sql.ErrTruncatedIncorrect` (the value is still
meaningful), or a fatal one (`ErrInvalidValue`, `ErrConvertToDecimalLimit`, …). -/
inductive Err where
  | none | truncated | fatal
  deriving DecidableEq, Repr, Inhabited

structure Res where
  val : Int
  flag : Flag
  err : Err
  deriving DecidableEq, Repr, Inhabited

/-! ## Rounding of a decimal to an integer (`DecimalRound(v, 0)`, half away from zero) -/

def roundHalfAway (c : Int) (scale : Nat) : Int :=
  let p : Nat := 10 ^ scale
  let q := (2 * c.natAbs + p) / (2 * p)
  if c < 0 then -(q : Int) else (q : Int)

/-- round to `target` fractional digits (`DecimalRound(v, target)`), as a coefficient at scale `target` -/
def roundToScale (c : Int) (scale target : Nat) : Int :=
  if scale ≤ target then c * 10 ^ (target - scale) else roundHalfAway c (scale - target)

/-! ## Strings: `TruncateStringToInt`, `strconv.ParseInt/ParseUint` -/

def isDigit (b : UInt8) : Bool := 48 ≤ b && b ≤ 57
def isIntCut (b : UInt8) : Bool := b == 32 || b == 9       -- " \t"

def trimLeft (p : UInt8 → Bool) : List UInt8 → List UInt8
  | [] => []
  | b :: bs => if p b then trimLeft p bs else b :: bs

def trim (p : UInt8 → Bool) (bs : List UInt8) : List UInt8 :=
  (trimLeft p (trimLeft p bs).reverse).reverse

/-- the scanning loop of `TruncateStringToInt`: returns (prefix length, seenDigit) -/
def scanInt : List UInt8 → Nat → Bool → Nat × Bool
  | [], i, seen => (i, seen)
  | c :: rest, i, seen =>
    if isDigit c then scanInt rest (i + 1) true
    else if i = 0 ∧ (c = 45 ∨ c = 43) then scanInt rest (i + 1) seen
    else (i, seen)

/-- `TruncateStringToInt`: (truncated string, didTruncate) -/
def truncateStringToInt (bs : List UInt8) : List UInt8 × Bool :=
  let t := trim isIntCut bs
  let (i, seen) := scanInt t 0 false
  if !seen then ([48], i != t.length) else (t.take i, i != t.length)

def digitsVal : List UInt8 → Nat → Nat
  | [], acc => acc
  | c :: rest, acc => digitsVal rest (acc * 10 + (c.toNat - 48))

/-- the exact integer denoted by `[sign] digits+` (what `ParseInt`/`ParseUint` parse before their range check) -/
def signedVal (bs : List UInt8) : Int :=
  match bs with
  | 45 :: ds => -(digitsVal ds 0 : Int)
  | 43 :: ds => (digitsVal ds 0 : Int)
  | ds => (digitsVal ds 0 : Int)

/-! ## `convertToInt64` / `convertToUint64` (truncate mode) -/

def decGt (c : Int) (scale : Nat) (bound : Int) : Bool := c > bound * 10 ^ scale
def decLt (c : Int) (scale : Nat) (bound : Int) : Bool := c < bound * 10 ^ scale

def convertToInt64 : Val → Res
  | .null => ⟨0, .inRange, .none⟩
  | .i v => ⟨v, .inRange, .none⟩
  | .u v => if v > maxI64 then ⟨maxI64, .overflow, .none⟩ else ⟨v, .inRange, .none⟩
  | .d c sc =>
    if decGt c sc maxI64 then ⟨maxI64, .overflow, .none⟩
    else if decLt c sc minI64 then ⟨minI64, .underflow, .none⟩
    else ⟨roundHalfAway c sc, .inRange, .none⟩
  | .s bs =>
    let (t, trunc) := truncateStringToInt bs
    let v := signedVal t
    -- strconv.ParseInt range error ⇒ ErrInvalidValue (fatal), value 0
    if v < minI64 ∨ v > maxI64 then ⟨0, .inRange, .fatal⟩
    else ⟨v, .inRange, if trunc then .truncated else .none⟩

def wrapU64 (v : Int) : Int := v % 2 ^ 64

/-- the sign handling of `convertToUint64` on the truncated string -/
def splitSign : List UInt8 → Bool × List UInt8
  | 43 :: ds => (false, ds)
  | 45 :: ds => (true, ds)
  | ds => (false, ds)

def convertToUint64 : Val → Res
  | .null => ⟨0, .inRange, .none⟩
  | .i v => if v < 0 then ⟨v + 2 ^ 64, .underflow, .none⟩ else ⟨v, .inRange, .none⟩
  | .u v => ⟨v, .inRange, .none⟩
  | .d c sc =>
    if decGt c sc maxU64 then ⟨maxU64, .overflow, .none⟩
    else if c < 0 then
      -- `Sub(newVal, DecimalMaxUint64, v)` then `DecimalIntPartUint64`: rounded, low 64 bits
      ⟨wrapU64 (roundHalfAway (maxU64 * 10 ^ sc - c) sc), .underflow, .none⟩
    else ⟨roundHalfAway c sc, .inRange, .none⟩
  | .s bs =>
    let (t, trunc) := truncateStringToInt bs
    let e : Err := if trunc then .truncated else .none
    let (neg, ds) := splitSign t
    -- a sign alone cannot happen (`seenDigit`); a second sign makes ParseUint fail with a syntax error ⇒ i = 0
    let m := digitsVal ds 0
    if (m : Int) > maxU64 then ⟨maxU64, .overflow, .none⟩
    else if neg then ⟨wrapU64 (maxU64 - m + 1), .underflow, e⟩
    else ⟨m, .inRange, e⟩

/-! ## SQL types -/

inductive Ty where
  | int (t : ITy)
  | dec (prec scale : Nat) (column : Bool)
  | year
  | bit (n : Nat)
  deriving DecidableEq, Repr, Inhabited

/-- Result of `Type.Convert`: the stored value (`none` = SQL NULL / nil), flag and error. A stored
decimal is a coefficient at `scale`. -/
inductive Stored where
  | null
  | int (v : Int)
  | dec (coeff : Int) (scale : Nat)
  deriving DecidableEq, Repr, Inhabited

structure CRes where
  val : Stored
  flag : Flag
  err : Err
  deriving DecidableEq, Repr, Inhabited

/-- `NumberTypeImpl_.Convert` for an integer base type. -/
def convertInt (t : ITy) (v : Val) : CRes :=
  match v with
  | .null => ⟨.null, .inRange, .none⟩
  | v =>
    match t with
    | .i64 => let r := convertToInt64 v; ⟨.int r.val, r.flag, r.err⟩
    | .u64 => let r := convertToUint64 v; ⟨.int r.val, r.flag, r.err⟩
    | t =>
      let r := convertToInt64 v
      if r.err = .fatal then ⟨.int (wrapTo t r.val), r.flag, .fatal⟩
      else if r.val > t.hi then ⟨.int t.hi, .overflow, .none⟩
      else if r.val < t.lo then
        -- signed: clamp to the minimum; unsigned: `uintN(MaxUintN + num + 1)` wraps
        ⟨.int (if t.unsigned then wrapTo t (t.hi + r.val + 1) else t.lo), .underflow, .none⟩
      else ⟨.int r.val, .inRange, r.err⟩
where
  /-- Go conversion `intN(x)` / `uintN(x)` of an int64 (24-bit types are held in 32-bit Go integers) -/
  wrapTo (t : ITy) (x : Int) : Int :=
    let bits := if t.bits = 24 then 32 else t.bits
    if t.unsigned then x % 2 ^ bits else (BitVec.ofInt bits x).toInt

/-- `DecimalType_.ConvertToDecimal` on the modelled values: coefficient and scale, or failure. -/
def toDecimal (scale : Nat) (column : Bool) : Val → Option (Int × Nat)
  | .i v | .u v =>
    -- integers become `*apd.Decimal` (exponent 0) and are re-dispatched: a column type rescales them
    if column ∧ 0 ≠ scale then some (roundToScale v 0 scale, scale) else some (v, 0)
  | .d c sc => if column ∧ sc ≠ scale then some (roundToScale c sc scale, scale) else some (c, sc)
  | _ => none

/-- `DecimalType_.Convert`: `ConvertToDecimal` then `BoundsCheck`. -/
def convertDec (prec scale : Nat) (column : Bool) (v : Val) : CRes :=
  match v with
  | .null => ⟨.null, .inRange, .none⟩
  | v =>
    match toDecimal scale column v with
    | none => ⟨.null, .inRange, .fatal⟩
    | some (c, sc) =>
      let (c', sc') := if sc > scale then (roundToScale c sc scale, scale) else (c, sc)
      if c'.natAbs ≥ 10 ^ (prec - scale) * 10 ^ sc' then ⟨.null, .inRange, .fatal⟩
      else ⟨.dec c' sc', .inRange, .none⟩

def yearOfInt (v : Int) : Option Int :=
  if v = 0 then some 0
  else if 1 ≤ v ∧ v ≤ 69 then some (v + 2000)
  else if 70 ≤ v ∧ v ≤ 99 then some (v + 1900)
  else if 1901 ≤ v ∧ v ≤ 2155 then some v
  else none

/-- `YearType_.Convert` (integers and decimals; `uint64 → int64` is Go's wrapping conversion). -/
def convertYear (v : Val) : CRes :=
  let ofInt (x : Int) : CRes := match yearOfInt x with
    | some y => ⟨.int y, .inRange, .none⟩
    | none => ⟨.null, .inRange, .fatal⟩
  match v with
  | .null => ⟨.null, .inRange, .none⟩
  | .i x => ofInt x
  | .u x => ofInt (BitVec.ofInt 64 x).toInt
  | .d c sc =>
    -- `DecimalRoundedIntPart`: `v.Int64()` fails (ignored, 0) when the rounded value leaves the int64 range
    let r := roundHalfAway c sc
    ofInt (if inI64 r then r else 0)
  | .s _ => ⟨.null, .inRange, .fatal⟩    -- not modelled

/-- `BitType_.Convert` -/
def convertBit (n : Nat) (v : Val) : CRes :=
  let fin (x : Int) : CRes := if x > 2 ^ n - 1 then ⟨.null, .overflow, .fatal⟩ else ⟨.int x, .inRange, .none⟩
  match v with
  | .null => ⟨.null, .inRange, .none⟩
  | .i x => fin (x % 2 ^ 64)
  | .u x => fin x
  | .d c sc =>
    let r := roundHalfAway c sc
    if r > maxU64 then ⟨.null, .overflow, .fatal⟩
    else if r < minI64 then ⟨.null, .underflow, .fatal⟩
    else fin (r.natAbs % 2 ^ 64)              -- `val.Coeff.Uint64()`: the sign is dropped
  | .s bs =>
    if bs.length > 8 then ⟨.null, .overflow, .fatal⟩
    else fin (bs.foldl (fun acc b => acc * 256 + b.toNat) (0 : Nat))

def convert : Ty → Val → CRes
  | .int t, v => convertInt t v
  | .dec p s c, v => convertDec p s c v
  | .year, v => convertYear v
  | .bit n, v => convertBit n v

/-! ## `Type.Compare` -/

/-- outcome of a comparison: -1 / 0 / +1, or an error -/
inductive Cmp where
  | lt | eq | gt | err
  deriving DecidableEq, Repr, Inhabited

def cmpInt (a b : Int) : Cmp := if a = b then .eq else if a < b then .lt else .gt

/-- `CompareNulls` as written: `(nil, x) ↦ +1`, `(x, nil) ↦ -1`. -/
def compareNulls (a b : Val) : Option Cmp :=
  match a, b with
  | .null, .null => some .eq
  | .null, _ => some .gt
  | _, .null => some .lt
  | _, _ => none

/-- compare two decimals given as coefficient/scale, exactly -/
def cmpDec (a b : Int × Nat) : Cmp := cmpInt (a.1 * 10 ^ b.2) (b.1 * 10 ^ a.2)

def storedKey : Stored → Option (Int × Nat)
  | .null => none
  | .int v => some (v, 0)
  | .dec c s => some (c, s)

/-- `Type.Compare` of the modelled types, path by path. -/
def implCompare (t : Ty) (a b : Val) : Cmp :=
  match compareNulls a b with
  | some r => r
  | none =>
    match t with
    | .int it =>
      if it.unsigned then
        let ca := convertToUint64 a
        if ca.err ≠ .none then .err else
        let cb := convertToUint64 b
        if cb.err ≠ .none then .err else
        cmpInt ca.val cb.val
      else
        let ca := convertToInt64 a
        let va := if ca.err ≠ .none then 0 else ca.val     -- `if err != nil { ca = 0 }`
        let cb := convertToInt64 b
        let vb := if cb.err ≠ .none then 0 else cb.val
        cmpInt va vb
    | .dec _ s c =>
      match toDecimal s c a, toDecimal s c b with
      | some x, some y => cmpDec x y
      | _, _ => .err
    | .year | .bit _ =>
      let ca := convert t a
      if ca.err ≠ .none then .err else
      let cb := convert t b
      if cb.err ≠ .none then .err else
      match storedKey ca.val, storedKey cb.val with
      | some x, some y => cmpDec x y
      | _, _ => .err

/-- Spec: NULL first, then compare the values after converting them to the type (`none` when a
conversion reports an error — fatal or truncation: the property does not determine the outcome). -/
def specCompare (t : Ty) (a b : Val) : Option Cmp :=
  match a, b with
  | .null, .null => some .eq
  | .null, _ => some .lt
  | _, .null => some .gt
  | a, b =>
    let ca := convert t a
    let cb := convert t b
    if ca.err ≠ .none ∨ cb.err ≠ .none then none
    else
      match storedKey ca.val, storedKey cb.val with
      | some x, some y => some (cmpDec x y)
      | _, _ => none

/-! ## Regions (C26) -/

/-- exactly one side is NULL: `CompareNulls` orders NULL *after* every non-NULL value. -/
def null_sorts_last (a b : Val) : Prop := (a = .null ∧ b ≠ .null) ∨ (a ≠ .null ∧ b = .null)

instance (a b : Val) : Decidable (null_sorts_last a b) := by unfold null_sorts_last; infer_instance


/-- a signed integer type compares a value whose conversion reports an error (malformed or
out-of-range string) as if it were 0. Only relevant together with `specCompare = none`; listed for
completeness of the description of the Impl model. -/
def signed_compare_error_as_zero (t : Ty) (a b : Val) : Prop :=
  match t with
  | .int it => it.unsigned = false ∧ ((convertToInt64 a).err ≠ .none ∨ (convertToInt64 b).err ≠ .none)
  | _ => False

/-- an operand is outside the range of the (narrow) type: `Compare` orders by the 64-bit conversion,
`Convert` would clamp (flag ≠ InRange). -/
def operand_out_of_type_range (t : Ty) (a b : Val) : Prop :=
  (convert t a).flag ≠ .inRange ∨ (convert t b).flag ≠ .inRange

def Val.negative : Val → Bool
  | .i v => v < 0
  | .d c _ => c < 0
  | .s bs => (truncateStringToInt bs).1.head? == some 45     -- the parsed prefix starts with '-'
  | _ => false

/-- an unsigned integer type compares a negative operand through `convertToUint64`, which wraps it
to a huge value, while `Convert` goes through `convertToInt64` (narrow types) and rounds or clamps. -/
def unsigned_compare_negative_operand (t : Ty) (a b : Val) : Prop :=
  match t with
  | .int it => it.unsigned = true ∧ (a.negative = true ∨ b.negative = true)
  | _ => False

instance (t a b) : Decidable (unsigned_compare_negative_operand t a b) := by
  unfold unsigned_compare_negative_operand; cases t <;> infer_instance

/-- DECIMAL: an operand has more fractional digits than the type: `Compare` uses the exact value,
`Convert` would round it to the type's scale. -/
def decimal_rounded_by_convert (t : Ty) (a b : Val) : Prop :=
  match t with
  | .dec _ s _ =>
    (match a with | .d _ sa => sa > s | _ => False) ∨ (match b with | .d _ sb => sb > s | _ => False)
  | _ => False

instance (t a b) : Decidable (signed_compare_error_as_zero t a b) := by
  unfold signed_compare_error_as_zero; cases t <;> infer_instance
instance (t a b) : Decidable (operand_out_of_type_range t a b) := by
  unfold operand_out_of_type_range; infer_instance
instance (t a b) : Decidable (decimal_rounded_by_convert t a b) := by
  unfold decimal_rounded_by_convert
  cases t <;> cases a <;> cases b <;> infer_instance

/-! ## Order laws on observed results (stream B of the C26 harness: any type, no model) -/

def Cmp.flip : Cmp → Cmp
  | .lt => .gt | .gt => .lt | .eq => .eq | .err => .err

def Cmp.le (c : Cmp) : Bool := c == .lt || c == .eq
def Cmp.ok (c : Cmp) : Bool := c != .err

/-- the nine pairwise results on a triple (a, b, c) -/
structure Tri where
  ab : Cmp
  ba : Cmp
  bc : Cmp
  cb : Cmp
  ac : Cmp
  ca : Cmp
  aa : Cmp
  bb : Cmp
  cc : Cmp
  deriving DecidableEq, Repr, Inhabited

/-- reflexivity, on the pairs that did not raise an error -/
def Tri.refl (t : Tri) : Bool :=
  (!t.aa.ok || t.aa == .eq) && (!t.bb.ok || t.bb == .eq) && (!t.cc.ok || t.cc == .eq)

/-- antisymmetry: `cmp x y = -cmp y x` (an error on one side must be an error on the other) -/
def Tri.antisymm (t : Tri) : Bool :=
  t.ab == t.ba.flip && t.bc == t.cb.flip && t.ac == t.ca.flip

/-- transitivity of `≤` with strictness, through `b` (and, by antisymmetry, of `≥`), when none of the
three results is an error -/
def Tri.trans (t : Tri) : Bool :=
  if t.ab.ok && t.bc.ok && t.ac.ok then
    (!(t.ab.le && t.bc.le) || (t.ac.le && (!(t.ab == .lt || t.bc == .lt) || t.ac == .lt))) &&
    (!(t.ba.le && t.cb.le) || (t.ca.le && (!(t.ba == .lt || t.cb == .lt) || t.ca == .lt)))
  else true

/-- NULL first: a NULL compared with a non-NULL is `lt` -/
def Tri.nullFirst (t : Tri) (na nb nc : Bool) : Bool :=
  let chk (nx ny : Bool) (xy yx : Cmp) : Bool :=
    (!(nx && !ny) || (xy == .lt && yx == .gt)) && (!(ny && !nx) || (xy == .gt && yx == .lt)) &&
    (!(nx && ny) || (xy == .eq && yx == .eq))
  chk na nb t.ab t.ba && chk nb nc t.bc t.cb && chk na nc t.ac t.ca

end Gms.Conv
