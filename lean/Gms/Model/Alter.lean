/-
C21 — model of ALTER TABLE on the in-memory backend (core-only).

Go sources transliterated here:

* `sql/rowexec/ddl_iters.go`  `modifyColumnIter.rewriteTable` (rewrite decision, `projectRowWithTypes`,
  `validateNullability`, rewrite editor), `modifyColumnInSchema` (the two-index loop that builds
  `oldToNewIdxMapping`, the new schema and the projections), `addColumnToSchema` / `addColumnIter`,
  `dropColumnFromSchema` / `dropColumnIter`, `createPkIter` / `dropPkIter`
* `memory/table.go`           `ShouldRewriteTable` (`orderChanged`), `ModifyColumn` (in-place path:
  `TypeAwareConversion` + splice), `AddColumn` / `insertValueInRows`
* `sql/types/conversion.go`   `TypeAwareConversion`; `Type.Convert` of the integer, VARCHAR and ENUM types

Envelope: one table; column types TINYINT / INT / BIGINT / VARCHAR(n) / ENUM(labels); literal
defaults; no generated columns, no secondary indexes in the model (they do not carry data); string
values are canonical decimal integers or words that do not start like a number.
-/
namespace Gms.Alter

inductive Ty where
  | tiny | int | big
  | str (n : Nat)
  | enum (labels : List (List Char))
  deriving DecidableEq, Repr, Inhabited

inductive Val where
  | null
  | int (i : Int)
  | str (s : List Char)
  | en (k : Nat)          -- stored ENUM index (1-based; 0 is the error value)
  deriving DecidableEq, Repr, Inhabited

structure Col where
  name : Nat
  ty : Ty
  nullable : Bool
  dflt : Option Val
  deriving DecidableEq, Repr, Inhabited

abbrev Schema := List Col
abbrev Row := List Val

structure Table where
  schema : Schema
  pk : List Nat            -- names of the primary-key columns, in key order (`Column.PrimaryKey` flags)
  key : List Nat           -- names of the columns `PkOrdinals` points at (what uniqueness is checked on)
  rows : List Row
  deriving DecidableEq, Repr, Inhabited

inductive Pos where
  | keep                   -- no FIRST / AFTER clause (`order == nil`)
  | first
  | after (name : Nat)
  deriving DecidableEq, Repr, Inhabited

inductive Err where
  | dup                    -- 1062
  | nullNN                 -- 1048
  | other
  deriving DecidableEq, Repr, Inhabited

inductive Op where
  | add (c : Col) (p : Pos)
  | drop (name : Nat)
  | modify (name : Nat) (c : Col) (p : Pos)      -- MODIFY / CHANGE COLUMN (`c.name` is the new name)
  | addPk (names : List Nat)
  | dropPk
  | renameTable
  deriving DecidableEq, Repr, Inhabited

-- ---------------------------------------------------------------------------------------------
-- Lists

def insertAt {α : Type} (l : List α) (i : Nat) (x : α) : List α := l.take i ++ x :: l.drop i

/-- Remove position `c`, then insert `x` at position `k` of what is left. -/
def moveAt {α : Type} (l : List α) (c k : Nat) (x : α) : List α := insertAt (l.eraseIdx c) k x

def idxOf (sch : Schema) (name : Nat) : Option Nat :=
  match sch.findIdx? (fun c => c.name == name) with
  | some i => some i
  | none => none

def hasName (sch : Schema) (name : Nat) : Bool := sch.any (fun c => c.name == name)

-- ---------------------------------------------------------------------------------------------
-- Conversions

def Ty.isText : Ty → Bool
  | .str _ => true
  | _ => false

def Ty.intRange : Ty → Option (Int × Int)
  | .tiny => some (-128, 127)
  | .int => some (-2147483648, 2147483647)
  | .big => some (-9223372036854775808, 9223372036854775807)
  | _ => none

def showInt (i : Int) : List Char :=
  if i < 0 then '-' :: Nat.toDigits 10 i.natAbs else Nat.toDigits 10 i.toNat

def digitVal (c : Char) : Option Nat :=
  if '0' ≤ c ∧ c ≤ '9' then some (c.toNat - '0'.toNat) else none

def parseNat : List Char → Nat → Option Nat
  | [], acc => some acc
  | c :: cs, acc => match digitVal c with
    | some d => parseNat cs (acc * 10 + d)
    | none => none

/-- Canonical decimal integers only (the envelope of the generator): `parseInt (showInt i) = i`
and nothing else parses. -/
def parseInt (s : List Char) : Option Int :=
  let r : Option Int := match s with
    | [] => none
    | '-' :: ds => if ds.isEmpty then none else (parseNat ds 0).map fun n => -(Int.ofNat n)
    | ds => (parseNat ds 0).map Int.ofNat
  match r with
  | some i => if showInt i == s then some i else none
  | none => none

/-- Go `EnumType.At(k)`: index 0 is the error value `''`. -/
def enumAt (ls : List (List Char)) (k : Nat) : Option (List Char) := if k = 0 then some [] else ls[k - 1]?

def textOf : Val → List Char
  | .int i => showInt i
  | .str s => s
  | .en k => showInt (Int.ofNat k)
  | .null => []

/-- `spec = true` is what the property demands: the empty string is not a number (the Go code turns
it into 0 without an error). -/
def intOf (spec : Bool) : Val → Option Int
  | .int i => some i
  | .str s => if s.isEmpty && !spec then some 0 else parseInt s
  | .en k => some (Int.ofNat k)
  | .null => none

def toStr (n : Nat) (v : Val) : Except Err Val :=
  if (textOf v).length ≤ n then .ok (.str (textOf v)) else .error .other

def toEnum (ls : List (List Char)) : Val → Except Err Val
  | .str s => match ls.idxOf? s with
    | some i => .ok (.en (i + 1))
    | none =>      -- Go `IndexOf`: a numeric string that is no label is taken as an index
      match parseInt s with
      | some i => if 0 ≤ i ∧ (enumAt ls i.toNat).isSome then .ok (.en i.toNat) else .error .other
      | none => .error .other
  | .en k => if (enumAt ls k).isSome then .ok (.en k) else .error .other
  | .int i => if 0 < i ∧ (enumAt ls i.toNat).isSome then .ok (.en i.toNat) else .error .other
  | .null => .ok .null

def toInt (spec : Bool) (t : Ty) (v : Val) : Except Err Val :=
  match intOf spec v, t.intRange with
  | some i, some (lo, hi) => if lo ≤ i ∧ i ≤ hi then .ok (.int i) else .error .other
  | _, _ => .error .other

/-- Go `Type.Convert` of the target type. -/
def convertTo (spec : Bool) (new : Ty) (v : Val) : Except Err Val :=
  if v = .null then .ok .null else
  match new with
  | .str n => toStr n v
  | .enum ls => toEnum ls v
  | .tiny => toInt spec .tiny v
  | .int => toInt spec .int v
  | .big => toInt spec .big v

/-- Go `types.TypeAwareConversion(val, originalType, convertedType)`: an ENUM index is turned into
its label only when the *original type it is given* is that ENUM and the target is a text type. -/
def convAware (spec : Bool) (orig new : Ty) (v : Val) : Except Err Val :=
  let v' := match orig, new.isText, v with
    | .enum ls, true, .en k => Val.str ((enumAt ls k).getD [])
    | _, _, v => v
  convertTo spec new v'

def zeroOf : Ty → Val
  | .str _ => .str []
  | .enum _ => .en 0
  | _ => .int 0

-- ---------------------------------------------------------------------------------------------
-- MODIFY COLUMN, rewrite path (`modifyColumnInSchema`, `projectRowWithTypes`)

/-- Go: `for j < len(schema) || i < len(schema) { … }` building `oldToNewIdxMapping`
(a Go map: absent keys read as 0). `c` = `currIdx`, `k` = `newIdx`. -/
def goMapLoop (n c k : Nat) : Nat → Nat → Nat → (Nat → Nat) → (Nat → Nat)
  | 0, _, _, m => m
  | f + 1, i, j, m =>
    if j < n ∨ i < n then
      if i = c then goMapLoop n c k f (i + 1) j (fun x => if x = i then k else m x)
      else if j = k then goMapLoop n c k f i (j + 1) m
      else goMapLoop n c k f (i + 1) (j + 1) (fun x => if x = i then j else m x)
    else m

def goMapping (n c k : Nat) : Nat → Nat := goMapLoop n c k (2 * n + 1) 0 0 (fun _ => 0)

/-- Go: `newIdx` of `modifyColumnInSchema`. -/
def goNewIdx (sch : Schema) (c : Nat) : Pos → Option Nat
  | .keep => some c
  | .first => some 0
  | .after a =>
    match idxOf sch a with
    | some k => some (if k < c then k + 1 else k)
    | none => none

/-- Go: `for i := range schema { j := mapping[i]; newSch[j] = …; projections[j] = GetField(i) }`. -/
def goBuild (sch : Schema) (c k : Nat) (col : Col) : Schema × List Nat :=
  let m := goMapping sch.length c k
  (List.range sch.length).foldl
    (fun (acc : Schema × List Nat) i =>
      let j := m i
      (acc.1.set j (if j = k then col else sch.getD i default), acc.2.set j i))
    (List.replicate sch.length default, List.replicate sch.length 0)

/-- Go: `projectRowWithTypes(targetSchema, newSch, projections, r)` — NB the original type handed
to `TypeAwareConversion` is `oldSchema[i].Type` with `i` the *new* position. `spec = true`
is the Spec: the type of the column the value comes from. -/
def rewriteRow (spec : Bool) (old new : Schema) (proj : List Nat) (r : Row) : Except Err Row :=
  (List.range new.length).mapM fun j =>
    let src := proj.getD j 0
    let orig := (old.getD (if spec then src else j) default).ty
    convAware spec orig (new.getD j default).ty (r.getD src .null)

def nullViolation (sch : Schema) (r : Row) : Bool :=
  (List.range sch.length).any fun j => !(sch.getD j default).nullable && r.getD j .null == .null

def keyOf (sch : Schema) (pk : List Nat) (r : Row) : List Val :=
  pk.map fun n => match idxOf sch n with | some i => r.getD i .null | none => .null

def hasDupKey (sch : Schema) (pk : List Nat) (rows : List Row) : Bool :=
  !pk.isEmpty && !((rows.map (keyOf sch pk)).Nodup)

-- ---------------------------------------------------------------------------------------------
-- MODIFY COLUMN, in-place path (`memory.Table.ModifyColumn`)

/-- Go: `newIdx` of `memory.Table.ModifyColumn`. -/
def memNewIdx (sch : Schema) (c : Nat) : Pos → Nat
  | .keep => c
  | .first => 0
  | .after a =>
    match idxOf (sch.eraseIdx c) a with
    | some i => i + 1
    | none => 0

/-- Go: `oldRowWithoutVal[:newIdx] ++ newVal ++ oldRowWithoutVal[newIdx:]` with the value converted
by `TypeAwareConversion(row[oldIdx], oldType, column.Type)`. -/
def inplaceRow (spec : Bool) (oldTy newTy : Ty) (c k : Nat) (r : Row) : Except Err Row :=
  match convAware spec oldTy newTy (r.getD c .null) with
  | .ok v => .ok (moveAt r c k v)
  | .error e => .error e

/-- Go: the tail of `memory.Table.ModifyColumn` that recomputes `PkOrdinals`: `pkNameToOrdIdx` is
keyed by the *old* column names, so a renamed key column is looked up under a name the map does
not hold and lands on key position 0 (the zero value), and its own position keeps ordinal 0. -/
def goKeyInplace (newSch : Schema) (oldKey flags : List Nat) : List Nat :=
  let ords := (List.range newSch.length).foldl
    (fun (ords : List Nat) ord =>
      let nm := (newSch.getD ord default).name
      if flags.contains nm then ords.set ((oldKey.idxOf? nm).getD 0) ord else ords)
    (List.replicate oldKey.length 0)
  ords.map fun o => (newSch.getD o default).name

-- ---------------------------------------------------------------------------------------------
-- The statements

def renamePk (pk : List Nat) (old new : Nat) : List Nat := pk.map fun n => if n = old then new else n

/-- `spec = false`: the Go code (positional original type; CHANGE COLUMN to an existing name is not
rejected). `spec = true`: what the property demands. -/
def modify (spec : Bool) (t : Table) (name : Nat) (col : Col) (p : Pos) : Except Err Table :=
  match idxOf t.schema name with
  | none => .error .other
  | some c =>
    let afterOk := match p with
      | .after a => a != name && hasName t.schema a
      | _ => true
    if !afterOk then .error .other else
    if spec && col.name != name && hasName t.schema col.name then .error .other else
    let oldCol := t.schema.getD c default
    let col : Col := { col with nullable := col.nullable && !t.pk.contains name }
    match goNewIdx t.schema c p with
    | none => .error .other
    | some k =>
      let rewrite := (oldCol.nullable && !col.nullable) || k != c
      let pk' := renamePk t.pk name col.name
      let key' := renamePk t.key name col.name
      if rewrite then
        let (newSch, proj) := goBuild t.schema c k col
        match t.rows.mapM (rewriteRow spec t.schema newSch proj) with
        | .error e => .error e
        | .ok rows' =>
          if rows'.any (nullViolation newSch) then .error .nullNN
          else if hasDupKey newSch key' rows' then .error .dup
          else .ok { schema := newSch, pk := pk', key := key', rows := rows' }
      else
        let k' := memNewIdx t.schema c p
        let newSch := moveAt t.schema c k' col
        match t.rows.mapM (inplaceRow spec oldCol.ty col.ty c k') with
        | .error e => .error e
        | .ok rows' =>
          .ok { schema := newSch, pk := pk', key := if spec then key' else goKeyInplace newSch t.key pk', rows := rows' }

def addIdx (sch : Schema) : Pos → Option Nat
  | .keep => some sch.length
  | .first => some 0
  | .after a => (idxOf sch a).map (· + 1)

def addValue (c : Col) : Val :=
  match c.dflt with
  | some d => d
  | none => if c.nullable then .null else zeroOf c.ty

def alter (spec : Bool) (t : Table) : Op → Except Err Table
  | .add c p =>
    if hasName t.schema c.name then .error .other else
    match addIdx t.schema p with
    | none => .error .other
    | some i => .ok { t with schema := insertAt t.schema i c, rows := t.rows.map fun r => insertAt r i (addValue c) }
  | .drop name =>
    match idxOf t.schema name with
    | none => .error .other
    | some i =>
      if t.pk.contains name then .error .other else      -- outside the envelope (the engine panics)
      .ok { t with schema := t.schema.eraseIdx i, rows := t.rows.map fun r => r.eraseIdx i }
  | .modify name c p => modify spec t name c p
  | .addPk names =>
    if !t.pk.isEmpty || names.isEmpty || !names.Nodup || !(names.all (hasName t.schema)) then .error .other else
    if t.rows.any (fun r => (keyOf t.schema names r).contains .null) then .error .nullNN
    else if hasDupKey t.schema names t.rows then .error .dup
    else .ok { t with pk := names, key := names,
                      schema := t.schema.map fun c => if names.contains c.name then { c with nullable := false } else c }
  | .dropPk => if t.pk.isEmpty then .error .other else .ok { t with pk := [], key := [] }
  | .renameTable => .ok t

def step (spec : Bool) (t : Table) (op : Op) : Table × Option Err :=
  match alter spec t op with
  | .ok t' => (t', none)
  | .error e => (t, some e)

-- ---------------------------------------------------------------------------------------------
-- Defect regions (decided on the table and the statement)

/-- Region `enum_text_reorder`: a MODIFY / CHANGE that takes the rewrite path changes an ENUM column
to a text type and some position of the new layout receives an ENUM index while the column that
*used to be* at that position is not that same ENUM (so the index is not turned into its label),
or the value of another column lands on a position formerly held by a different ENUM. Decided as:
rewrite path, and for some new position `j` whose target type is text the source column's type is
an ENUM different from the type of the old column at position `j`. -/
def enumTextReorder (t : Table) : Op → Bool
  | .modify name col p =>
    match idxOf t.schema name with
    | none => false
    | some c =>
      match goNewIdx t.schema c p with
      | none => false
      | some k =>
        let oldCol := t.schema.getD c default
        let coln : Bool := col.nullable && !t.pk.contains name
        let rewrite := (oldCol.nullable && !coln) || k != c
        let (newSch, proj) := goBuild t.schema c k col
        rewrite && (List.range newSch.length).any fun j =>
          let srcTy := (t.schema.getD (proj.getD j 0) default).ty
          (newSch.getD j default).ty.isText &&
            (match srcTy with | .enum _ => true | _ => false) && srcTy != (t.schema.getD j default).ty
  | _ => false

/-- Region `empty_string_becomes_zero`: a MODIFY / CHANGE turns a text column that holds `''` into an
integer column. -/
def emptyStringToInt (t : Table) : Op → Bool
  | .modify name col _ =>
    match idxOf t.schema name with
    | none => false
    | some c =>
      (t.schema.getD c default).ty.isText && col.ty.intRange.isSome && t.rows.any fun r => r.getD c .null == .str []
  | _ => false

/-- Region `change_to_existing_name`: CHANGE COLUMN renames a column to the name of another column. -/
def changeToExistingName (t : Table) : Op → Bool
  | .modify name col _ => col.name != name && hasName t.schema col.name && hasName t.schema name
  | _ => false

/-- Region `rename_key_column_in_place`: CHANGE COLUMN renames a primary-key column without moving it
(in-place path) and the recomputed `PkOrdinals` no longer point at the key columns. -/
def renameKeyInplace (t : Table) (op : Op) : Bool :=
  match op with
  | .modify name col _ =>
    col.name != name && t.pk.contains name &&
      (match alter false t op, alter true t op with
       | .ok ti, .ok ts => ti.key != ts.key
       | _, _ => false)
  | _ => false

/-- Region `modify_after_itself`: MODIFY / CHANGE COLUMN c … AFTER c. The engine panics and loses the
column; the model (like the Spec) rejects the statement, the harness reports the engine's
behaviour through its oracle only. -/
def afterItself : Op → Bool
  | .modify name _ (.after a) => a == name
  | _ => false

-- ---------------------------------------------------------------------------------------------
-- Well-formedness

def Val.fits : Ty → Val → Bool
  | _, .null => true
  | .str n, .str s => decide (s.length ≤ n)
  | .enum ls, .en k => (enumAt ls k).isSome
  | t, .int i => match t.intRange with | some (lo, hi) => decide (lo ≤ i ∧ i ≤ hi) | none => false
  | _, _ => false

def rowFits (sch : Schema) (r : Row) : Bool :=
  r.length == sch.length && (List.range sch.length).all fun j => (r.getD j .null).fits (sch.getD j default).ty

def Table.wf (t : Table) : Bool :=
  (t.schema.map (·.name)).Nodup && t.rows.all (rowFits t.schema) && t.pk.all (hasName t.schema) && t.key == t.pk

end Gms.Alter
