/-
M2 — shared SQL reference semantics, part 2 (core-only): evaluation of expressions and queries
over a database of bags of rows ("the SQL definition"), plus the static discipline `check`.

* A table is a *list* of rows (a bag with an incidental order). The order of the result of
  `evalQ` is meaningful only directly under `orderBy` (and `limit` over it); everything else is to
  be compared up to `List.Perm`. `orderBy` is a stable sort, NULLs lowest.
* `env : List Row` is the stack of rows of the enclosing query blocks; every construct that
  evaluates an expression on a row pushes that row (`row :: env`), so `col 0 i` is the current
  row and `col (k+1) i` reaches the k-th enclosing row (correlated subqueries).
* The relational operators are ordinary list functions (`innerJoin`, `leftJoin`, `groupRows`,
  `intersectAll`, …) so that theorems can be stated about them directly; `evalQ` only plugs
  expression evaluation into them.
-/
import Gms.Model.Sql

namespace Gms.Rel
open Gms.Sql

structure Table where
  width : Nat
  rows : List Row
  deriving Repr, Inhabited

abbrev Db := List Table
abbrev Env := List Row

def nulls (n : Nat) : Row := List.replicate n Value.null

/-! ## Relational operators on lists of rows -/

def innerJoin (m : Row → Row → Bool) (L R : List Row) : List Row :=
  L.flatMap (fun a => (R.filter (m a)).map (a ++ ·))

/-- Left outer join: a left row without partner is padded with `rw` NULLs. -/
def leftJoin (m : Row → Row → Bool) (rw : Nat) (L R : List Row) : List Row :=
  L.flatMap (fun a =>
    let ms := R.filter (m a)
    if ms.isEmpty then [a ++ nulls rw] else ms.map (a ++ ·))

def rightJoin (m : Row → Row → Bool) (lw : Nat) (L R : List Row) : List Row :=
  R.flatMap (fun b =>
    let ms := L.filter (fun a => m a b)
    if ms.isEmpty then [nulls lw ++ b] else ms.map (· ++ b))

/-- Semi-join and anti-join (not query constructors: the forms IN / EXISTS are equivalent to). -/
def semiJoin (m : Row → Row → Bool) (L R : List Row) : List Row := L.filter (fun a => R.any (m a))
def antiJoin (m : Row → Row → Bool) (L R : List Row) : List Row := L.filter (fun a => !R.any (m a))

/-- Bag intersection: each row as often as in both. -/
def intersectAll : List Row → List Row → List Row
  | [], _ => []
  | a :: l, r => if a ∈ r then a :: intersectAll l (r.erase a) else intersectAll l r

/-- Bag difference. -/
def exceptAll : List Row → List Row → List Row
  | [], _ => []
  | a :: l, r => if a ∈ r then exceptAll l (r.erase a) else a :: exceptAll l r

def setOp (op : SetOp) (all : Bool) (L R : List Row) : List Row :=
  match op, all with
  | .union, true => L ++ R
  | .union, false => dedup (L ++ R)
  | .intersect, true => intersectAll L R
  | .intersect, false => dedup (L.filter (fun a => a ∈ R))
  | .except, true => exceptAll L R
  | .except, false => dedup (L.filter (fun a => a ∉ R))

/-- The groups of `rows` under the key function: one `(key, members)` per distinct key, in order
of first appearance; without grouping keys there is exactly one group (possibly empty). -/
def groupRows (hasKeys : Bool) (key : Row → Row) (rows : List Row) : List (Row × List Row) :=
  if hasKeys then (dedup (rows.map key)).map (fun k => (k, rows.filter (fun r => key r = k)))
  else [([], rows)]

/-- Lexicographic comparison of two key tuples with per-key direction. -/
def keysCmp : List Bool → Row → Row → Ordering
  | d :: ds, a :: as, b :: bs =>
    match a.ord b with
    | .eq => keysCmp ds as bs
    | o => if d then o.swap else o
  | [], a :: as, b :: bs =>   -- missing direction = ASC
    match a.ord b with
    | .eq => keysCmp [] as bs
    | o => o
  | _, _, _ => .eq

/-- Stable insertion sort by a key function. -/
def insertBy {α : Type} (le : α → α → Bool) (x : α) : List α → List α
  | [] => [x]
  | y :: ys => if le x y then x :: y :: ys else y :: insertBy le x ys

def sortBy {α : Type} (le : α → α → Bool) : List α → List α
  | [] => []
  | x :: xs => insertBy le x (sortBy le xs)

def orderRows (desc : List Bool) (key : Row → Row) (rows : List Row) : List Row :=
  sortBy (fun a b => keysCmp desc (key a) (key b) != .gt) rows

def limitRows (n off : Nat) (rows : List Row) : List Row := (rows.drop off).take n

/-! ## Static width -/

def tableWidth (db : Db) (n : Nat) : Nat :=
  match db[n]? with
  | some t => t.width
  | none => 0

def _root_.Gms.Sql.Query.width (db : Db) : Query → Nat
  | .table n => tableWidth db n
  | .filter _ q => q.width db
  | .project es _ => es.length
  | .join _ _ l r => l.width db + r.width db
  | .group ks fns _ _ => ks.length + fns.length
  | .distinct q => q.width db
  | .setop _ _ l _ => l.width db
  | .orderBy _ _ q => q.width db
  | .limit _ _ q => q.width db

/-! ## Evaluation -/

def lookup (env : Env) (d i : Nat) : Value :=
  match env[d]? with
  | some r => r.getD i .null
  | none => .null

def firstCol (rows : List Row) : List Value := rows.map (fun r => r.headD .null)

mutual
def evalE (db : Db) (env : Env) : Expr → Value
  | .lit v => v
  | .col d i => lookup env d i
  | .neg e => negate (evalE db env e)
  | .arith op a b => arith op (evalE db env a) (evalE db env b)
  | .cmp op a b => (cmpTri op (evalE db env a) (evalE db env b)).toValue
  | .and a b => (Tri.and (evalE db env a).truth (evalE db env b).truth).toValue
  | .or a b => (Tri.or (evalE db env a).truth (evalE db env b).truth).toValue
  | .xor a b => (Tri.xor (evalE db env a).truth (evalE db env b).truth).toValue
  | .not e => (Tri.not (evalE db env e).truth).toValue
  | .isNull e => (Tri.ofBool (evalE db env e).isNull).toValue
  | .isTruth want e =>
    (Tri.ofBool ((evalE db env e).truth == (if want then Tri.t else Tri.f))).toValue
  | .inList e es => (inTri (evalE db env e) (evalEs db env es)).toValue
  | .between e lo hi => (betweenTri (evalE db env e) (evalE db env lo) (evalE db env hi)).toValue
  | .ite c a b => if (evalE db env c).truth = .t then evalE db env a else evalE db env b
  | .coalesce a b => if (evalE db env a).isNull then evalE db env b else evalE db env a
  | .exists q => (Tri.ofBool (!(evalQ db env q).isEmpty)).toValue
  | .inSub e q => (inTri (evalE db env e) (firstCol (evalQ db env q))).toValue
  | .scalar q => ((evalQ db env q).headD []).headD .null

def evalEs (db : Db) (env : Env) : List Expr → List Value
  | [] => []
  | e :: es => evalE db env e :: evalEs db env es

/-- The aggregate values of one group (`fns` and `args` are parallel). -/
def evalAggs (db : Db) (env : Env) (rows : List Row) : List AggFn → List Expr → List Value
  | f :: fs, a :: as =>
    aggregate f (rows.map (fun r => evalE db (r :: env) a)) :: evalAggs db env rows fs as
  | _, _ => []

def evalQ (db : Db) (env : Env) : Query → List Row
  | .table n =>
    match db[n]? with
    | some t => t.rows
    | none => []
  | .filter p q => (evalQ db env q).filter (fun r => (evalE db (r :: env) p).truth = .t)
  | .project es q => (evalQ db env q).map (fun r => evalEs db (r :: env) es)
  | .join k on l r =>
    let m := fun (a b : Row) => decide ((evalE db ((a ++ b) :: env) on).truth = .t)
    match k with
    | .inner => innerJoin m (evalQ db env l) (evalQ db env r)
    | .left => leftJoin m (r.width db) (evalQ db env l) (evalQ db env r)
    | .right => rightJoin m (l.width db) (evalQ db env l) (evalQ db env r)
  | .group ks fns args q =>
    let rows := evalQ db env q
    (groupRows (!ks.isEmpty) (fun r => evalEs db (r :: env) ks) rows).map (fun g =>
      g.1 ++ evalAggs db env g.2 fns args)
  | .distinct q => dedup (evalQ db env q)
  | .setop op all l r => setOp op all (evalQ db env l) (evalQ db env r)
  | .orderBy ks desc q => orderRows desc (fun r => evalEs db (r :: env) ks) (evalQ db env q)
  | .limit n off q => limitRows n off (evalQ db env q)
end

/-- Top-level evaluation. -/
def eval (db : Db) (q : Query) : List Row := evalQ db [] q

/-! ## Static discipline

`check` accepts the terms on which the total `evalQ` is the SQL definition: column references in
range, operand types compatible (integers with integers, strings with strings, NULL literals with
anything), arithmetic / logic / SUM on integers only, equal widths and compatible types under set
operations, `IN`-subqueries of width 1, scalar subqueries of width 1 that are *syntactically*
single-row (an aggregate without grouping keys, or `LIMIT 1`). -/

inductive Ty where
  | int | str | any
  deriving DecidableEq, Repr, Inhabited

def Ty.join : Ty → Ty → Option Ty
  | .any, t => some t
  | t, .any => some t
  | .int, .int => some .int
  | .str, .str => some .str
  | _, _ => none

def Ty.isInt : Ty → Bool
  | .str => false
  | _ => true

def tysJoin : List Ty → List Ty → Option (List Ty)
  | [], [] => some []
  | a :: as, b :: bs =>
    match a.join b, tysJoin as bs with
    | some t, some ts => some (t :: ts)
    | _, _ => none
  | _, _ => none

def _root_.Gms.Sql.Value.ty : Value → Ty
  | .null => .any
  | .int _ => .int
  | .str _ => .str

/-- At most one row, syntactically. -/
def _root_.Gms.Sql.Query.single : Query → Bool
  | .group ks _ _ _ => ks.isEmpty
  | .limit n _ _ => n ≤ 1
  | .filter _ q => q.single
  | .project _ q => q.single
  | .distinct q => q.single
  | .orderBy _ _ q => q.single
  | _ => false

abbrev TEnv := List (List Ty)

def aggTy (fn : AggFn) (t : Ty) : Option Ty :=
  match fn with
  | .countStar | .count | .countDistinct => some .int
  | .sum => if t.isInt then some .int else none
  | .min | .max => some t

def aggTys : List AggFn → List Ty → Option (List Ty)
  | [], [] => some []
  | f :: fs, t :: ts =>
    match aggTy f t, aggTys fs ts with
    | some a, some as => some (a :: as)
    | _, _ => none
  | _, _ => none

mutual
def checkE (tabs : List (List Ty)) (tenv : TEnv) : Expr → Option Ty
  | .lit v => some v.ty
  | .col d i =>
    match tenv[d]? with
    | some r => r[i]?
    | none => none
  | .neg e =>
    match checkE tabs tenv e with
    | some t => if t.isInt then some .int else none
    | none => none
  | .arith _ a b =>
    match checkE tabs tenv a, checkE tabs tenv b with
    | some ta, some tb => if ta.isInt && tb.isInt then some .int else none
    | _, _ => none
  | .cmp _ a b =>
    match checkE tabs tenv a, checkE tabs tenv b with
    | some ta, some tb => (ta.join tb).map (fun _ => .int)
    | _, _ => none
  | .and a b | .or a b | .xor a b =>
    match checkE tabs tenv a, checkE tabs tenv b with
    | some ta, some tb => if ta.isInt && tb.isInt then some .int else none
    | _, _ => none
  | .not e | .isTruth _ e =>
    match checkE tabs tenv e with
    | some t => if t.isInt then some .int else none
    | none => none
  | .isNull e => (checkE tabs tenv e).map (fun _ => .int)
  | .inList e es =>
    match checkE tabs tenv e, checkEs tabs tenv es with
    | some t, some ts =>
      if ts.isEmpty then none
      else if ts.all (fun u => (t.join u).isSome) then some .int else none
    | _, _ => none
  | .between e lo hi =>
    match checkE tabs tenv e, checkE tabs tenv lo, checkE tabs tenv hi with
    | some t, some a, some b => if (t.join a).isSome && (t.join b).isSome then some .int else none
    | _, _, _ => none
  | .ite c a b =>
    match checkE tabs tenv c, checkE tabs tenv a, checkE tabs tenv b with
    | some tc, some ta, some tb => if tc.isInt then ta.join tb else none
    | _, _, _ => none
  | .coalesce a b =>
    match checkE tabs tenv a, checkE tabs tenv b with
    | some ta, some tb => ta.join tb
    | _, _ => none
  | .exists q => (checkQ tabs tenv q).map (fun _ => .int)
  | .inSub e q =>
    match checkE tabs tenv e, checkQ tabs tenv q with
    | some t, some [u] => (t.join u).map (fun _ => .int)
    | _, _ => none
  | .scalar q =>
    match checkQ tabs tenv q with
    | some [u] => if q.single then some u else none
    | _ => none

def checkEs (tabs : List (List Ty)) (tenv : TEnv) : List Expr → Option (List Ty)
  | [] => some []
  | e :: es =>
    match checkE tabs tenv e, checkEs tabs tenv es with
    | some t, some ts => some (t :: ts)
    | _, _ => none

def checkQ (tabs : List (List Ty)) (tenv : TEnv) : Query → Option (List Ty)
  | .table n => tabs[n]?
  | .filter p q =>
    match checkQ tabs tenv q with
    | some ts =>
      match checkE tabs (ts :: tenv) p with
      | some t => if t.isInt then some ts else none
      | none => none
    | none => none
  | .project es q =>
    match checkQ tabs tenv q with
    | some ts => if es.isEmpty then none else checkEs tabs (ts :: tenv) es
    | none => none
  | .join _ on l r =>
    match checkQ tabs tenv l, checkQ tabs tenv r with
    | some tl, some tr =>
      match checkE tabs ((tl ++ tr) :: tenv) on with
      | some t => if t.isInt then some (tl ++ tr) else none
      | none => none
    | _, _ => none
  | .group ks fns args q =>
    match checkQ tabs tenv q with
    | some ts =>
      match checkEs tabs (ts :: tenv) ks, checkEs tabs (ts :: tenv) args with
      | some tk, some ta =>
        if (ks.isEmpty && fns.isEmpty) then none
        else (aggTys fns ta).map (fun tf => tk ++ tf)
      | _, _ => none
    | none => none
  | .distinct q => checkQ tabs tenv q
  | .setop _ _ l r =>
    match checkQ tabs tenv l, checkQ tabs tenv r with
    | some tl, some tr => tysJoin tl tr
    | _, _ => none
  | .orderBy ks desc q =>
    match checkQ tabs tenv q with
    | some ts =>
      match checkEs tabs (ts :: tenv) ks with
      | some _ => if ks.length = desc.length then some ts else none
      | none => none
    | none => none
  | .limit _ _ q => checkQ tabs tenv q
end

/-- Do the stored rows fit the declared column types? -/
def rowFits : List Ty → Row → Bool
  | [], [] => true
  | t :: ts, v :: vs => (t.join v.ty).isSome && rowFits ts vs
  | _, _ => false

/-- Top-level check of a closed query against the table types. -/
def check (tabs : List (List Ty)) (db : Db) (q : Query) : Bool :=
  tabs.length == db.length
    && (tabs.zip db).all (fun p => p.1.length == p.2.width && p.2.rows.all (rowFits p.1))
    && (checkQ tabs [] q).isSome

end Gms.Rel
