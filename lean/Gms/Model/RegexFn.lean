/-
C33 — model of the SQL regular-expression functions (core-only).

Layers, top to bottom:

* **SQL layer** (`evalCall`; /repo: sql/expression/function/regexp_like.go, regexp_instr.go,
  regexp_substr.go, regexp_replace.go): arity defaults of the constructors, `compileRegex`
  (pattern NULL / ill-formed / empty / invalid, flags NULL / ill-formed / unknown character), then
  `Eval`'s evaluation order: NULL checks, `Int32.Convert` clamping, REPLACE's position checks.
* **Wrapper layer** (`wMatches`, `wIndexOf`, `wSubstring`, `wReplace`; go-icu-regex `regex.go` and
  its `replace()` C++ helper, reached through internal/regex): `uregex_find(start)` followed by
  `occurrence-1` times `uregex_findNext`, 1-based results, the splice of REPLACE, and the
  string ↔ UTF-16 conversion of `UCharStr` (`encodeUtf16`, `decodeUtf16`).
* **The matcher** (ICU) is a *parameter*: `Matcher = Nat → List (Nat × Nat)`, the successive
  matches `[start, end)` in UTF-16 code units that `find(i)`, `findNext`, … deliver. The agreement
  theorems hold for every matcher (some need the well-formedness `WF`).
-/
namespace Gms.RegexFn

abbrev Match := Nat × Nat
abbrev Matcher := Nat → List Match

/-! ## UTF-16 (Go `unicode/utf16`, used by `UCharStr.SetString` / `GetString`) -/

def isSurrogate (r : Nat) : Bool := 0xD800 ≤ r && r < 0xE000

/-- `utf16.Encode`. -/
def encodeUtf16 : List Nat → List Nat
  | [] => []
  | r :: rs =>
    if r < 0x10000 then (if isSurrogate r then 0xFFFD else r) :: encodeUtf16 rs
    else if r < 0x110000 then (0xD800 + (r - 0x10000) / 1024) :: (0xDC00 + (r - 0x10000) % 1024) :: encodeUtf16 rs
    else 0xFFFD :: encodeUtf16 rs

/-- `utf16.Decode`: a high surrogate followed by a low one is a pair; a lone surrogate is U+FFFD. -/
def decodeUtf16 : List Nat → List Nat
  | [] => []
  | [u] => [if isSurrogate u then 0xFFFD else u]
  | u :: v :: rest =>
    if 0xD800 ≤ u ∧ u < 0xDC00 ∧ 0xDC00 ≤ v ∧ v < 0xE000 then
      (0x10000 + (u - 0xD800) * 1024 + (v - 0xDC00)) :: decodeUtf16 rest
    else (if isSurrogate u then 0xFFFD else u) :: decodeUtf16 (v :: rest)

/-! ## Wrapper layer (go-icu-regex) -/

/-- `uregex_find(regexp, startIndex)`: `-1` continues from the (reset) matcher = from 0; an index
outside `[0, len]` is `U_INDEX_OUTOFBOUNDS_ERROR` (no match, error code set). -/
def findFrom (m : Matcher) (len : Nat) (start : Int) : Option (List Match) :=
  if start = -1 then some (m 0)
  else if start < 0 ∨ start > len then none
  else some (m start.toNat)

/-- `find` then `occurrence-1` × `findNext`: the occurrence-th match (`occurrence ≤ 1` ↦ first). -/
def nth (ms : List Match) (occ : Int) : Option Match := ms[(occ - 1).toNat]?

/-- `privateRegex.Matches(ctx, start, occurrence)` (start is passed to ICU as is). -/
def wMatches (m : Matcher) (len : Nat) (start occ : Int) : Bool :=
  match findFrom m len start with
  | some ms => (nth ms occ).isSome
  | none => false

/-- `privateRegex.IndexOf(ctx, start, occurrence, endIndex)`. -/
def wIndexOf (m : Matcher) (len : Nat) (start occ : Int) (endIndex : Bool) : Int :=
  match findFrom m len (start - 1) with
  | some ms =>
    match nth ms occ with
    | some (s, e) => (if endIndex then e else s) + 1
    | none => 0
  | none => 0

/-- `privateRegex.Substring(ctx, start, occurrence)`: the UTF-16 slice, decoded. -/
def wSubstring (m : Matcher) (units : List Nat) (start occ : Int) : Option (List Nat) :=
  match findFrom m units.length (start - 1) with
  | some ms =>
    match nth ms occ with
    | some (s, e) => some (decodeUtf16 ((units.drop s).take (e - s)))
    | none => none
  | none => none

/-- `uregex_appendReplacement` for each selected match, starting at append position `p`, then
`uregex_appendTail`. -/
def spliceFrom (units rep : List Nat) : Nat → List Match → List Nat
  | p, [] => units.drop p
  | p, (s, e) :: rest => (units.drop p).take (s - p) ++ rep ++ spliceFrom units rep e rest

/-- The C++ helper `replace()` behind `privateRegex.Replace(ctx, replacement, start, occurrence)`
(replacement text without `$`/`\`): not found ⇒ the original; a failed `uregex_find` (index out of
bounds) leaves every later ICU call failing ⇒ the **empty** string. -/
def wReplace (m : Matcher) (units rep : List Nat) (start occ : Int) : List Nat :=
  match findFrom m units.length (start - 1) with
  | none => []
  | some ms =>
    let k := (occ - 1).toNat
    match ms.drop k with
    | [] => units
    | hit :: rest =>
      -- `tryToAppendReplacement`: `if (m_replace_buffer.empty()) return 0;` — the buffer was sized to
      -- the original text, so for an empty text nothing is ever appended
      if units.isEmpty then [] else
      let endPrev := if k = 0 then 0 else (ms[k - 1]?.map (·.2)).getD 0
      let h := max endPrev (start - 1).toNat
      units.take h ++ spliceFrom units rep h (if occ = 0 then hit :: rest else [hit])

/-! ## Spec of the splice -/

/-- What REPLACE must produce for the selected matches: the text with exactly those intervals
replaced. -/
def spliceSpec (units rep : List Nat) (sel : List Match) : List Nat := spliceFrom units rep 0 sel

/-- Matches are in order, inside the text, non-overlapping, with strictly increasing starts, and
none starts before `lo`. -/
def WFfrom (len : Nat) : Nat → List Match → Prop
  | _, [] => True
  | lo, (s, e) :: rest => lo ≤ s ∧ s ≤ e ∧ e ≤ len ∧ WFfrom len (max e (s + 1)) rest

def wfFrom (len : Nat) : Nat → List Match → Bool
  | _, [] => true
  | lo, (s, e) :: rest => decide (lo ≤ s) && decide (s ≤ e) && decide (e ≤ len) && wfFrom len (max e (s + 1)) rest

/-! ## SQL layer -/

inductive StrArg where
  | null
  | badUtf8
  | ok (runes : List Nat) (byteLen : Nat)
  deriving Repr, DecidableEq

inductive PatArg where
  | null | badUtf8 | empty | invalid | ok
  deriving Repr, DecidableEq

inductive FlagArg where
  | absent | null | badUtf8 | badChar | ok
  deriving Repr, DecidableEq

inductive IntArg where
  | null
  | int (i : Int)
  deriving Repr, DecidableEq

inductive Fn where
  | like | instr | substr | replace
  deriving Repr, DecidableEq

inductive Res where
  | null
  | int (i : Int)
  | str (runes : List Nat)
  | err (cls : String)
  deriving Repr, DecidableEq

def clamp32 (i : Int) : Int := if i > 2147483647 then 2147483647 else if i < -2147483648 then -2147483648 else i

/-- `compileRegex`: `none` = a usable regex, `some r` = the call's result is already decided. -/
def compile (pat : PatArg) (flags : FlagArg) : Option Res :=
  match pat with
  | .null => some .null
  | .badUtf8 => some (.err "charset")
  | .empty => some (.err "illegal")
  | .invalid | .ok =>
    match flags with
    | .null => some .null
    | .badUtf8 => some (.err "charset")
    | .badChar => some (.err "invalidarg")
    | .absent | .ok => if pat = .invalid then some (.err "invalidregex") else none

/-- The integer arguments after the constructor's defaults (`NewRegexpInstr`, `NewRegexpSubstr`,
`NewRegexpReplace`): position 1, occurrence 1 (0 for REPLACE), return_option 0. -/
def defaults (fn : Fn) (ints : List IntArg) : List IntArg :=
  match fn, ints with
  | .instr, [] => [.int 1, .int 1, .int 0]
  | .instr, [p] => [p, .int 1, .int 0]
  | .instr, [p, o] => [p, o, .int 0]
  | .substr, [] => [.int 1, .int 1]
  | .substr, [p] => [p, .int 1]
  | .replace, [] => [.int 1, .int 0]
  | .replace, [p] => [p, .int 0]
  | _, l => l

/-- One call: the text, the replacement (REPLACE only), the integer arguments actually written,
the pattern/flags classes and the matcher for this pattern, flags and text. -/
structure Call where
  fn : Fn
  text : StrArg
  pat : PatArg
  flags : FlagArg
  rep : StrArg
  ints : List IntArg
  m : Matcher

/-- The occurrence argument (after defaults) when it is an integer. -/
def Call.defaults2 (c : Call) : Option Int :=
  match defaults c.fn c.ints with
  | [_, .int o] => some o
  | _ => none

/-- `Eval` of the four functions. -/
def evalCall (c : Call) : Res :=
  match compile c.pat c.flags with
  | some r => r
  | none =>
    match c.text with
    | .null => .null
    | .badUtf8 => .err "charset"
    | .ok runes byteLen =>
      let units := encodeUtf16 runes
      match c.fn, defaults c.fn c.ints with
      | .like, [] => .int (if wMatches c.m units.length 0 0 then 1 else 0)
      | .instr, [p, o, r] =>
        (match p with
        | .null => .null
        | .int p => match o with
          | .null => .null
          | .int o => match r with
            | .null => .null
            | .int r => .int (wIndexOf c.m units.length (clamp32 p) (clamp32 o) (clamp32 r == 1)))
      | .substr, [p, o] =>
        (match p with
        | .null => .null
        | .int p => match o with
          | .null => .null
          | .int o => match wSubstring c.m units (clamp32 p) (clamp32 o) with
            | some s => .str s
            | none => .null)
      | .replace, [p, o] =>
        (match c.rep with
        | .null => .null
        | .badUtf8 => .err "charset"
        | .ok rep _ =>
          match p with
          | .null => .null
          | .int p =>
            let p := clamp32 p
            if p ≤ 0 then .err "invalidargdetails"
            else if byteLen ≠ 0 ∧ p > byteLen then .err "oob"
            else match o with
              | .null => .null
              | .int o => .str (decodeUtf16 (wReplace c.m units (encodeUtf16 rep) p (clamp32 o))))
      | _, _ => .err "badargs"

/-! ## Region and Spec -/

/-- The 1-based position points at the low half of a surrogate pair. -/
def splitsPair (units : List Nat) (pos : Int) : Bool :=
  let idx := pos - 1
  if idx < 1 then false
  else match units[idx.toNat]?, units[idx.toNat - 1]? with
    | some lo, some hi => decide (0xDC00 ≤ lo ∧ lo < 0xE000 ∧ 0xD800 ≤ hi ∧ hi < 0xDC00)
    | _, _ => false

/-- A position that splits a surrogate pair is handed to ICU as is (ICU's behaviour is then
undefined: wrong matches, out-of-bounds reads, SIGSEGV — the matcher parameter cannot describe it).
REPLACE validates the position against the length in **bytes**; a position that passes that
check but lies beyond the end of the UTF-16 text makes the result the empty string. -/
def region (c : Call) : Option String :=
  match c.fn, compile c.pat c.flags, c.text, c.rep, defaults c.fn c.ints with
  | .instr, none, .ok runes _, _, .int p :: _ | .substr, none, .ok runes _, _, .int p :: _ =>
    if splitsPair (encodeUtf16 runes) (clamp32 p) then some "pos_splits_surrogate_pair" else none
  | .replace, none, .ok runes byteLen, .ok _ _, [.int p, .int _] =>
    let p := clamp32 p
    if splitsPair (encodeUtf16 runes) p then some "pos_splits_surrogate_pair"
    else if runes.isEmpty ∧ p = 1 then
      (match c.defaults2 with
        | some o => if ((c.m 0).drop (clamp32 o - 1).toNat).isEmpty then none else some "replace_empty_text_drops_replacement"
        | none => none)
    else if 0 < p ∧ ¬ (byteLen ≠ 0 ∧ p > byteLen) ∧ p - 1 > (encodeUtf16 runes).length then
      some "replace_pos_beyond_text_empties" else none
  | _, _, _, _, _ => none

/-- What the property demands: as the code, except that a REPLACE position beyond the end of the
text is the "index out of bounds" error the code raises for single-byte text. -/
def spec (c : Call) : Res :=
  match region c with
  | some "replace_pos_beyond_text_empties" => .err "oob"
  | some "replace_empty_text_drops_replacement" =>
    (match c.rep, c.defaults2 with
      | .ok rep _, some o =>
        let ms := (c.m 0).drop (clamp32 o - 1).toNat
        .str (decodeUtf16 (spliceSpec [] (encodeUtf16 rep) (if clamp32 o = 0 then ms else ms.take 1)))
      | _, _ => evalCall c)
  | _ => evalCall c

/-! ## One expression node evaluated on the successive rows of a statement

The four `Regexp*` structs keep state between the `Eval` calls of one statement: `compileOnce`,
`cacheRegex`, `cacheVal`, the compiled regex `re` / `compileErr`, and `cachedVal`. When pattern or
match_type are not constants (`canBeCached` false: a column, a user variable…) the regex is
re-compiled for every row. The model below is the transliteration of `compile` + the head and
tail of `Eval`, parametrised by a *caching discipline* (may the regex compiled from the key `o`
be kept for a row whose pattern/flags are `n`?) so that the discipline of the code (`perRow`:
never), the sound optimisation (`keyed`: iff pattern **and** flags are unchanged) and unsound
ones (`patternOnly`, `flagsOnly`) are instances. -/

/-- What a regex is compiled from: the pattern value and the match_type value, each as its class
(NULL, ill-formed, …) and an identity (equal identities = equal values). -/
abbrev Key := (PatArg × Nat) × (FlagArg × Nat)

/-- The argument values of one row. -/
structure Row where
  text : StrArg
  pat : PatArg × Nat
  flags : FlagArg × Nat
  rep : StrArg
  ints : List IntArg
  deriving DecidableEq

def Row.key (r : Row) : Key := (r.pat, r.flags)

/-- The matcher as a parameter: what ICU delivers for the regex compiled from `k` on a text. -/
abbrev World := Key → StrArg → Matcher

/-- Which arguments are constants of the statement (`canBeCached`: no GetField / UserVar /
SystemVar / ProcedureParam below them); `rest` = position, occurrence, return_option, replacement. -/
structure Modes where
  textConst : Bool
  patConst : Bool
  flagsConst : Bool
  restConst : Bool
  deriving DecidableEq

/-- `r.cacheRegex = canBeCached(ctx, r.Pattern, r.Flags)`. -/
def Modes.cacheRegex (md : Modes) : Bool := md.patConst && md.flagsConst
/-- `r.cacheVal = r.cacheRegex && canBeCached(ctx, r.Text, r.Position, …)`. -/
def Modes.cacheVal (md : Modes) : Bool := md.cacheRegex && md.textConst && md.restConst

/-- The state of a node that survives from row to row. `compiled` stands for `re`/`compileErr`:
the outcome of `compileRegex` is a function of the (pattern, flags) values it read, so the state
records those values. -/
structure Node where
  once : Bool
  cacheRegex : Bool
  cacheVal : Bool
  compiled : Option Key
  cachedVal : Option Res
  deriving DecidableEq

def Node.fresh : Node := ⟨false, false, false, none, none⟩

/-- `Eval` from the point after `compile`, with the regex that was compiled from `k`: the compile
outcome (NULL / error / usable) is `k`'s, the text, positions and replacement are the row's. -/
def evalCompiled (W : World) (fn : Fn) (k : Key) (r : Row) : Res :=
  evalCall { fn, text := r.text, pat := k.1.1, flags := k.2.1, rep := r.rep, ints := r.ints, m := W k r.text }

/-- The row evaluated on a node of its own (what the property demands of every row). -/
def evalFresh (W : World) (fn : Fn) (r : Row) : Res := evalCompiled W fn r.key r

/-- `d o n = true`: the regex compiled from `o` is kept for a row whose pattern/flags are `n`. -/
abbrev Discipline := Key → Key → Bool

/-- The code: `if !r.cacheRegex { close; r.re, r.compileErr = compileRegex(…) }` on every row. -/
def Discipline.perRow : Discipline := fun _ _ => false
/-- Re-compile iff the pattern or the flags changed. -/
def Discipline.keyed : Discipline := fun o n => decide (o = n)
/-- Keyed on the pattern value alone (unsound). -/
def Discipline.patternOnly : Discipline := fun o n => decide (o.1 = n.1)
/-- Keyed on the flags value alone (unsound). -/
def Discipline.flagsOnly : Discipline := fun o n => decide (o.2 = n.2)

def Discipline.Sound (d : Discipline) : Prop := ∀ o n, d o n = true → o = n

/-- `cachedVal != nil` can only hold for a value (NULL and errors are never cached). -/
def Res.isValue : Res → Bool
  | .int _ => true
  | .str _ => true
  | _ => false

/-- `if r.cacheVal { r.cachedVal = … }` exists in LIKE, INSTR, SUBSTR; REPLACE never fills it. -/
def cachesResult : Fn → Bool
  | .replace => false
  | _ => true

/-- The key of the regex `compile` leaves in `r.re` for this row. -/
def pickKey (d : Discipline) (cacheRegex : Bool) (compiled : Option Key) (rk : Key) : Key :=
  if cacheRegex then compiled.getD rk
  else match compiled with
    | some k0 => if d k0 rk then k0 else rk
    | none => rk

/-- `r.compileOnce.Do(…)`: decides `cacheRegex` / `cacheVal`, and compiles from the current row
when the regex can be cached. -/
def onceBlock (md : Modes) (n : Node) (rk : Key) : Node :=
  if n.once then n else
    { n with once := true, cacheRegex := md.cacheRegex, cacheVal := md.cacheVal,
             compiled := if md.cacheRegex then some rk else n.compiled }

/-- One `Eval` on a node: `cachedVal` short cut, `compile` (once-block, then the per-row branch),
evaluation, `cachedVal` update. -/
def step (d : Discipline) (W : World) (fn : Fn) (md : Modes) (n : Node) (r : Row) : Node × Res :=
  match n.cachedVal with
  | some v => (n, v)
  | none =>
    let n1 := onceBlock md n r.key
    let k := pickKey d n1.cacheRegex n1.compiled r.key
    let res := evalCompiled W fn k r
    ({ n1 with compiled := some k,
               cachedVal := if n1.cacheVal && cachesResult fn && res.isValue then some res else none }, res)

/-- The rows of a statement, in evaluation order, through one node. -/
def runRows (d : Discipline) (W : World) (fn : Fn) (md : Modes) : Node → List Row → List Res
  | _, [] => []
  | n, r :: rs => (step d W fn md n r).2 :: runRows d W fn md (step d W fn md n r).1 rs

/-- Constant arguments have the same value in every row. -/
def Respects (md : Modes) (rows : List Row) : Prop :=
  (md.textConst = true → ∀ x ∈ rows, ∀ y ∈ rows, x.text = y.text) ∧
  (md.patConst = true → ∀ x ∈ rows, ∀ y ∈ rows, x.pat = y.pat) ∧
  (md.flagsConst = true → ∀ x ∈ rows, ∀ y ∈ rows, x.flags = y.flags) ∧
  (md.restConst = true → ∀ x ∈ rows, ∀ y ∈ rows, x.rep = y.rep ∧ x.ints = y.ints)

instance (md : Modes) (rows : List Row) : Decidable (Respects md rows) := by
  unfold Respects; infer_instance

def Row.call (W : World) (fn : Fn) (r : Row) : Call :=
  { fn, text := r.text, pat := r.pat.1, flags := r.flags.1, rep := r.rep, ints := r.ints, m := W r.key r.text }

/-- Spec of a statement: every row as demanded by the single-call Spec. -/
def specRows (W : World) (fn : Fn) (rows : List Row) : List Res := rows.map fun r => spec (r.call W fn)

/-- The first defect region a row of the statement falls into. -/
def regionRows (W : World) (fn : Fn) (rows : List Row) : Option String :=
  rows.findSome? fun r => region (r.call W fn)

end Gms.RegexFn
