/-
C33 — model of the SQL regular-expression functions (core-only).

Layers, top to bottom:

* **SQL layer** (`evalCall`; /repo: sql/expression/function/regexp_like.go, regexp_instr.go,
  regexp_substr.go, regexp_replace.go): arity defaults of the constructors, `compileRegex`
  (pattern NULL / ill-formed / empty / invalid, flags NULL / ill-formed / unknown character), then
  `Eval`'s evaluation order: NULL checks, `Int32.Convert` clamping, REPLACE's position checks.
* **Wrapper layer** (`wMatches`, `wIndexOf`, `wSubstring`, `wReplace`; go-icu-regex `regex.go` and
  its `replace()` C++ helper, reached through internal/regex): `uregex_find(start)` followed by
  `occurrence-1` times `uregex_findNext`, 1-based results, the splice of REPLACE, and the
  string ↔ UTF-16 conversion of `UCharStr` (`encodeUtf16`, `decodeUtf16`).
* **The matcher** (ICU) is a *parameter*: `Matcher = Nat → List (Nat × Nat)`, the successive
  matches `[start, end)` in UTF-16 code units that `find(i)`, `findNext`, … deliver. The agreement
  theorems hold for every matcher (some need the well-formedness `WF`).
-/
namespace Gms.RegexFn

abbrev Match := Nat × Nat
abbrev Matcher := Nat → List Match

/-! ## UTF-16 (Go `unicode/utf16`, used by `UCharStr.SetString` / `GetString`) -/

def isSurrogate (r : Nat) : Bool := 0xD800 ≤ r && r < 0xE000

/-- `utf16.Encode`. -/
def encodeUtf16 : List Nat → List Nat
  | [] => []
  | r :: rs =>
    if r < 0x10000 then (if isSurrogate r then 0xFFFD else r) :: encodeUtf16 rs
    else if r < 0x110000 then (0xD800 + (r - 0x10000) / 1024) :: (0xDC00 + (r - 0x10000) % 1024) :: encodeUtf16 rs
    else 0xFFFD :: encodeUtf16 rs

/-- `utf16.Decode`: a high surrogate followed by a low one is a pair; a lone surrogate is U+FFFD. -/
def decodeUtf16 : List Nat → List Nat
  | [] => []
  | [u] => [if isSurrogate u then 0xFFFD else u]
  | u :: v :: rest =>
    if 0xD800 ≤ u ∧ u < 0xDC00 ∧ 0xDC00 ≤ v ∧ v < 0xE000 then
      (0x10000 + (u - 0xD800) * 1024 + (v - 0xDC00)) :: decodeUtf16 rest
    else (if isSurrogate u then 0xFFFD else u) :: decodeUtf16 (v :: rest)

/-! ## Wrapper layer (go-icu-regex) -/

/-- `uregex_find(regexp, startIndex)`: `-1` continues from the (reset) matcher = from 0; an index
outside `[0, len]` is `U_INDEX_OUTOFBOUNDS_ERROR` (no match, error code set). -/
def findFrom (m : Matcher) (len : Nat) (start : Int) : Option (List Match) :=
  if start = -1 then some (m 0)
  else if start < 0 ∨ start > len then none
  else some (m start.toNat)

/-- `find` then `occurrence-1` × `findNext`: the occurrence-th match (`occurrence ≤ 1` ↦ first). -/
def nth (ms : List Match) (occ : Int) : Option Match := ms[(occ - 1).toNat]?

/-- `privateRegex.Matches(ctx, start, occurrence)` (start is passed to ICU as is). -/
def wMatches (m : Matcher) (len : Nat) (start occ : Int) : Bool :=
  match findFrom m len start with
  | some ms => (nth ms occ).isSome
  | none => false

/-- `privateRegex.IndexOf(ctx, start, occurrence, endIndex)`. -/
def wIndexOf (m : Matcher) (len : Nat) (start occ : Int) (endIndex : Bool) : Int :=
  match findFrom m len (start - 1) with
  | some ms =>
    match nth ms occ with
    | some (s, e) => (if endIndex then e else s) + 1
    | none => 0
  | none => 0

/-- `privateRegex.Substring(ctx, start, occurrence)`: the UTF-16 slice, decoded. -/
def wSubstring (m : Matcher) (units : List Nat) (start occ : Int) : Option (List Nat) :=
  match findFrom m units.length (start - 1) with
  | some ms =>
    match nth ms occ with
    | some (s, e) => some (decodeUtf16 ((units.drop s).take (e - s)))
    | none => none
  | none => none

/-- `uregex_appendReplacement` for each selected match, starting at append position `p`, then
`uregex_appendTail`. -/
def spliceFrom (units rep : List Nat) : Nat → List Match → List Nat
  | p, [] => units.drop p
  | p, (s, e) :: rest => (units.drop p).take (s - p) ++ rep ++ spliceFrom units rep e rest

/-- The C++ helper `replace()` behind `privateRegex.Replace(ctx, replacement, start, occurrence)`
(replacement text without `$`/`\`): not found ⇒ the original; a failed `uregex_find` (index out of
bounds) leaves every later ICU call failing ⇒ the **empty** string. -/
def wReplace (m : Matcher) (units rep : List Nat) (start occ : Int) : List Nat :=
  match findFrom m units.length (start - 1) with
  | none => []
  | some ms =>
    let k := (occ - 1).toNat
    match ms.drop k with
    | [] => units
    | hit :: rest =>
      -- `tryToAppendReplacement`: `if (m_replace_buffer.empty()) return 0;` — the buffer was sized to
      -- the original text, so for an empty text nothing is ever appended
      if units.isEmpty then [] else
      let endPrev := if k = 0 then 0 else (ms[k - 1]?.map (·.2)).getD 0
      let h := max endPrev (start - 1).toNat
      units.take h ++ spliceFrom units rep h (if occ = 0 then hit :: rest else [hit])

/-! ## Spec of the splice -/

/-- What REPLACE must produce for the selected matches: the text with exactly those intervals
replaced. -/
def spliceSpec (units rep : List Nat) (sel : List Match) : List Nat := spliceFrom units rep 0 sel

/-- Matches are in order, inside the text, non-overlapping, with strictly increasing starts, and
none starts before `lo`. -/
def WFfrom (len : Nat) : Nat → List Match → Prop
  | _, [] => True
  | lo, (s, e) :: rest => lo ≤ s ∧ s ≤ e ∧ e ≤ len ∧ WFfrom len (max e (s + 1)) rest

def wfFrom (len : Nat) : Nat → List Match → Bool
  | _, [] => true
  | lo, (s, e) :: rest => decide (lo ≤ s) && decide (s ≤ e) && decide (e ≤ len) && wfFrom len (max e (s + 1)) rest

/-! ## SQL layer -/

inductive StrArg where
  | null
  | badUtf8
  | ok (runes : List Nat) (byteLen : Nat)
  deriving Repr, DecidableEq

inductive PatArg where
  | null | badUtf8 | empty | invalid | ok
  deriving Repr, DecidableEq

inductive FlagArg where
  | absent | null | badUtf8 | badChar | ok
  deriving Repr, DecidableEq

inductive IntArg where
  | null
  | int (i : Int)
  deriving Repr, DecidableEq

inductive Fn where
  | like | instr | substr | replace
  deriving Repr, DecidableEq

inductive Res where
  | null
  | int (i : Int)
  | str (runes : List Nat)
  | err (cls : String)
  deriving Repr, DecidableEq

def clamp32 (i : Int) : Int := if i > 2147483647 then 2147483647 else if i < -2147483648 then -2147483648 else i

/-- `compileRegex`: `none` = a usable regex, `some r` = the call's result is already decided. -/
def compile (pat : PatArg) (flags : FlagArg) : Option Res :=
  match pat with
  | .null => some .null
  | .badUtf8 => some (.err "charset")
  | .empty => some (.err "illegal")
  | .invalid | .ok =>
    match flags with
    | .null => some .null
    | .badUtf8 => some (.err "charset")
    | .badChar => some (.err "invalidarg")
    | .absent | .ok => if pat = .invalid then some (.err "invalidregex") else none

/-- The integer arguments after the constructor's defaults (`NewRegexpInstr`, `NewRegexpSubstr`,
`NewRegexpReplace`): position 1, occurrence 1 (0 for REPLACE), return_option 0. -/
def defaults (fn : Fn) (ints : List IntArg) : List IntArg :=
  match fn, ints with
  | .instr, [] => [.int 1, .int 1, .int 0]
  | .instr, [p] => [p, .int 1, .int 0]
  | .instr, [p, o] => [p, o, .int 0]
  | .substr, [] => [.int 1, .int 1]
  | .substr, [p] => [p, .int 1]
  | .replace, [] => [.int 1, .int 0]
  | .replace, [p] => [p, .int 0]
  | _, l => l

/-- One call: the text, the replacement (REPLACE only), the integer arguments actually written,
the pattern/flags classes and the matcher for this pattern, flags and text. -/
structure Call where
  fn : Fn
  text : StrArg
  pat : PatArg
  flags : FlagArg
  rep : StrArg
  ints : List IntArg
  m : Matcher

/-- The occurrence argument (after defaults) when it is an integer. -/
def Call.defaults2 (c : Call) : Option Int :=
  match defaults c.fn c.ints with
  | [_, .int o] => some o
  | _ => none

/-- `Eval` of the four functions. -/
def evalCall (c : Call) : Res :=
  match compile c.pat c.flags with
  | some r => r
  | none =>
    match c.text with
    | .null => .null
    | .badUtf8 => .err "charset"
    | .ok runes byteLen =>
      let units := encodeUtf16 runes
      match c.fn, defaults c.fn c.ints with
      | .like, [] => .int (if wMatches c.m units.length 0 0 then 1 else 0)
      | .instr, [p, o, r] =>
        (match p with
        | .null => .null
        | .int p => match o with
          | .null => .null
          | .int o => match r with
            | .null => .null
            | .int r => .int (wIndexOf c.m units.length (clamp32 p) (clamp32 o) (clamp32 r == 1)))
      | .substr, [p, o] =>
        (match p with
        | .null => .null
        | .int p => match o with
          | .null => .null
          | .int o => match wSubstring c.m units (clamp32 p) (clamp32 o) with
            | some s => .str s
            | none => .null)
      | .replace, [p, o] =>
        (match c.rep with
        | .null => .null
        | .badUtf8 => .err "charset"
        | .ok rep _ =>
          match p with
          | .null => .null
          | .int p =>
            let p := clamp32 p
            if p ≤ 0 then .err "invalidargdetails"
            else if byteLen ≠ 0 ∧ p > byteLen then .err "oob"
            else match o with
              | .null => .null
              | .int o => .str (decodeUtf16 (wReplace c.m units (encodeUtf16 rep) p (clamp32 o))))
      | _, _ => .err "badargs"

/-! ## Region and Spec -/

/-- The 1-based position points at the low half of a surrogate pair. -/
def splitsPair (units : List Nat) (pos : Int) : Bool :=
  let idx := pos - 1
  if idx < 1 then false
  else match units[idx.toNat]?, units[idx.toNat - 1]? with
    | some lo, some hi => decide (0xDC00 ≤ lo ∧ lo < 0xE000 ∧ 0xD800 ≤ hi ∧ hi < 0xDC00)
    | _, _ => false

/-- A position that splits a surrogate pair is handed to ICU as is (ICU's behaviour is then
undefined: wrong matches, out-of-bounds reads, SIGSEGV — the matcher parameter cannot describe it).
REPLACE validates the position against the length in **bytes**; a position that passes that
check but lies beyond the end of the UTF-16 text makes the result the empty string. -/
def region (c : Call) : Option String :=
  match c.fn, compile c.pat c.flags, c.text, c.rep, defaults c.fn c.ints with
  | .instr, none, .ok runes _, _, .int p :: _ | .substr, none, .ok runes _, _, .int p :: _ =>
    if splitsPair (encodeUtf16 runes) (clamp32 p) then some "pos_splits_surrogate_pair" else none
  | .replace, none, .ok runes byteLen, .ok _ _, [.int p, .int _] =>
    let p := clamp32 p
    if splitsPair (encodeUtf16 runes) p then some "pos_splits_surrogate_pair"
    else if runes.isEmpty ∧ p = 1 then
      (match c.defaults2 with
        | some o => if ((c.m 0).drop (clamp32 o - 1).toNat).isEmpty then none else some "replace_empty_text_drops_replacement"
        | none => none)
    else if 0 < p ∧ ¬ (byteLen ≠ 0 ∧ p > byteLen) ∧ p - 1 > (encodeUtf16 runes).length then
      some "replace_pos_beyond_text_empties" else none
  | _, _, _, _, _ => none

/-- What the property demands: as the code, except that a REPLACE position beyond the end of the
text is the "index out of bounds" error the code raises for single-byte text. -/
def spec (c : Call) : Res :=
  match region c with
  | some "replace_pos_beyond_text_empties" => .err "oob"
  | some "replace_empty_text_drops_replacement" =>
    (match c.rep, c.defaults2 with
      | .ok rep _, some o =>
        let ms := (c.m 0).drop (clamp32 o - 1).toNat
        .str (decodeUtf16 (spliceSpec [] (encodeUtf16 rep) (if clamp32 o = 0 then ms else ms.take 1)))
      | _, _ => evalCall c)
  | _ => evalCall c

end Gms.RegexFn
