/-
C12 — prepared statements across schema changes: the cached statement AST and the implicit lists
the binder expands against the catalog (core-only).

What the Go code does. A prepared statement *is* its parsed AST (`sqlparser.Statement`), stored in the
session (`BaseSession.preparedQueries`) under the statement text (API / binary protocol) or its name
(SQL `PREPARE`). Every execution hands that same AST object to `planbuilder.Builder.BindOnly`, which
resolves it against the catalog *of that moment*. Three lists are implicit in the text and expanded
by the binder from the current table schema:

  * the column list of `INSERT INTO t VALUES (…)`          (`buildInsert`: local `columns`),
  * the select list `*`                                     (`buildSelect`/star expansion),
  * the USING list of a `NATURAL JOIN`                      (`buildUsingJoin`).

The first two are recomputed at every bind. The third is **written back into the AST**
(`te.Condition.Using = append(te.Condition.Using, …)`, guarded by `len(te.Condition.Using) == 0`), so
the cached statement keeps the common-column list of its first bind — a defect of the unchanged tree
(finding `natural_join_using_memoised`): after `ALTER TABLE … ADD/DROP COLUMN` the prepared statement
joins on the stale list while the statement text joins on the current one.

Model. Table `t` has the logical columns 0 `id` (primary key), 1 `k`, 2 `s` and optionally 3 `c`
(`INT DEFAULT 7`); its *physical* column order is `Db.ord` (changed by `ALTER TABLE … MODIFY COLUMN …
FIRST/AFTER`, `ADD COLUMN`, `DROP COLUMN`). Rows are kept in logical layout so that statements which
name their columns (`Stmt` of Gms/Model/Prepared.lean) run unchanged. Table `u(k, c, w)` is the fixed
right side of the natural join (logical ids 1, 3, 4). `SStmt` adds the statements whose meaning depends
on the physical order; `bindAst` is what one pass of the binder leaves behind in the cached AST; `execS`
is one execution of the cached AST, `execSInlined` the statement text with the values inlined, parsed
afresh.
-/
import Gms.Model.Prepared
namespace Gms.PreparedSchema
open Gms.Sql Gms.Prepared

/-- the catalog + data the statements of this layer see -/
structure Db where
  /-- physical column order of `t` (logical column ids) -/
  ord : List Nat
  /-- rows of `t` in logical layout `[id, k, s]` / `[id, k, s, c]`, sorted by id -/
  rows : Table
  /-- rows of `u` as `[k, c, w]`, sorted by `w` (unique, not NULL) -/
  u : Table
  deriving Repr, DecidableEq, Inhabited

/-! ## Schema changes -/

inductive Ddl where
  /-- `ALTER TABLE t MODIFY COLUMN c <type> FIRST` -/
  | moveFirst (c : Nat)
  /-- `ALTER TABLE t MODIFY COLUMN c <type> AFTER a` -/
  | moveAfter (c a : Nat)
  /-- `ALTER TABLE t ADD COLUMN c INT DEFAULT 7 [FIRST | AFTER a]` (`none`: last, `some none`: FIRST) -/
  | addCol (pos : Option (Option Nat))
  /-- `ALTER TABLE t DROP COLUMN c` -/
  | dropCol
  deriving Repr, DecidableEq, Inhabited

def insertAfter (c a : Nat) : List Nat → List Nat
  | [] => [c]
  | x :: xs => if x == a then x :: c :: xs else x :: insertAfter c a xs

def place (c : Nat) (pos : Option (Option Nat)) (ord : List Nat) : List Nat :=
  match pos with
  | none => ord ++ [c]
  | some none => c :: ord
  | some (some a) => insertAfter c a ord

/-- a schema change; one whose precondition fails (moving an absent column, adding `c` twice, …) is
rejected by the engine and changes nothing -/
def Ddl.apply (d : Ddl) (db : Db) : Db :=
  match d with
  | .moveFirst c => if db.ord.contains c then { db with ord := c :: db.ord.erase c } else db
  | .moveAfter c a =>
    if db.ord.contains c && db.ord.contains a && c != a then { db with ord := insertAfter c a (db.ord.erase c) } else db
  | .addCol pos =>
    if db.ord.contains 3 then db
    else { db with ord := place 3 pos db.ord, rows := db.rows.map fun r => r.take 3 ++ [.int 7] }
  | .dropCol =>
    if db.ord.contains 3 then { db with ord := db.ord.erase 3, rows := db.rows.map fun r => r.take 3 } else db

/-! ## Statements whose meaning depends on the catalog -/

inductive SStmt where
  /-- a statement that names every column it touches (SELECT id, e… / UPDATE / DELETE of `Stmt`) -/
  | plain (st : Stmt)
  /-- `INSERT INTO t VALUES (a…)`: **implicit** column list = all columns in physical order -/
  | insertAll (vals : List Atom)
  /-- `INSERT INTO t (cols…) VALUES (a…)`: explicit column list -/
  | insertCols (cols : List Nat) (vals : List Atom)
  /-- `SELECT * FROM t WHERE w ORDER BY id`: **implicit** select list -/
  | selectStar (w : PExpr)
  /-- `SELECT * FROM t NATURAL JOIN u WHERE w ORDER BY id, w`: **implicit** USING list. The text always
  has `usingL = []`; the cached AST holds whatever `buildUsingJoin` wrote into `te.Condition.Using`. -/
  | natJoin (usingL : List Nat) (w : PExpr)
  deriving Repr, Inhabited

def SStmt.params : SStmt → List Nat
  | .plain st => st.params
  | .insertAll vals => vals.flatMap Atom.params
  | .insertCols _ vals => vals.flatMap Atom.params
  | .selectStar w => w.params
  | .natJoin _ w => w.params

def SStmt.subst (σ : Bindings) : SStmt → SStmt
  | .plain st => .plain (st.subst σ)
  | .insertAll vals => .insertAll (vals.map (Atom.subst σ))
  | .insertCols cols vals => .insertCols cols (vals.map (Atom.subst σ))
  | .selectStar w => .selectStar (w.subst σ)
  | .natJoin l w => .natJoin l (w.subst σ)

def SStmt.isNatJoin : SStmt → Bool
  | .natJoin _ _ => true
  | _ => false

/-- the statement as its text has it: no USING list on a natural join -/
def SStmt.strip : SStmt → SStmt
  | .natJoin _ w => .natJoin [] w
  | s => s

inductive SOutcome where
  | base (o : Outcome)
  | errCount          -- "number of values does not match number of columns provided" (1105)
  | errUnknownCol     -- 1054 unknown column
  deriving Repr, DecidableEq, Inhabited

/-! ## Expansion of the implicit lists against the current catalog -/

/-- columns `t` and `u` have in common, in the order they appear in the left table -/
def common (ord : List Nat) : List Nat := ord.filter fun c => c == 1 || c == 3

/-- the USING list in effect: the one recorded in the AST, or (empty) the current common columns -/
def effUsing (db : Db) (l : List Nat) : List Nat := if l.isEmpty then common db.ord else l

/-- what one pass of the binder leaves in the AST it was given (`buildUsingJoin` fills the USING list of
a natural join when it is empty; nothing else is written) -/
def bindAst (db : Db) : SStmt → SStmt
  | .natJoin l w => .natJoin (effUsing db l) w
  | s => s

def defaultOf (j : Nat) : Value := if j == 3 then .int 7 else .null

def width (db : Db) : Nat := if db.ord.contains 3 then 4 else 3

/-- the logical row an INSERT with column list `cols` and values `vs` stores -/
def rowOf (w : Nat) (cols : List Nat) (vs : List Value) : Row :=
  (List.range w).map fun j => if cols.idxOf j < cols.length then vs.getD (cols.idxOf j) .null else defaultOf j

def insertRow (db : Db) (cols : List Nat) (vs : List Value) : SOutcome × Db :=
  if cols.any (fun c => !db.ord.contains c) then (.errUnknownCol, db)
  else if cols.length != vs.length then (.errCount, db)
  else
    let r := rowOf (width db) cols vs
    if (keyOf r).isNull then (.base .errNullKey, db)
    else if db.rows.any (fun x => keyOf x == keyOf r) then (.base .errDup, db)
    else (.base (.ok 1), { db with rows := insertSorted r db.rows })

/-- position of a logical column in a row of `u` -/
def uIdx (j : Nat) : Nat := if j == 1 then 0 else if j == 3 then 1 else 2

def joinMatch (l : List Nat) (r q : Row) : Bool :=
  l.all fun c => cmpTri .eq (r.getD c .null) (q.getD (uIdx c) .null) == .t

/-- `SELECT *` over a USING join: common columns (left order), rest of left, rest of right -/
def joinRow (l ord : List Nat) (r q : Row) : Row :=
  (ord.filter fun c => l.contains c).map (fun c => r.getD c .null) ++
  (ord.filter fun c => !l.contains c).map (fun c => r.getD c .null) ++
  ([1, 3, 4].filter fun c => !l.contains c).map (fun c => q.getD (uIdx c) .null)

/-- reference semantics of a statement (placeholders resolved through `σ`) against the catalog `db` -/
def runS (σ : Bindings) (st : SStmt) (db : Db) : SOutcome × Db :=
  match st with
  | .plain s => (.base (run σ s db.rows).1, { db with rows := (run σ s db.rows).2 })
  | .insertAll vals => insertRow db db.ord (vals.map (Atom.eval σ))
  | .insertCols cols vals => insertRow db cols (vals.map (Atom.eval σ))
  | .selectStar w =>
    (.base (.rows ((db.rows.filter fun r => (w.eval σ r).truth == .t).map fun r => db.ord.map fun j => r.getD j .null)), db)
  | .natJoin l w =>
    if (effUsing db l).any (fun c => !db.ord.contains c) then (.errUnknownCol, db)
    else (.base (.rows (db.rows.flatMap fun r => db.u.filterMap fun q =>
      if joinMatch (effUsing db l) r q && (w.eval σ r).truth == .t then some (joinRow (effUsing db l) db.ord r q) else none)), db)

def missing (σ : Bindings) (st : SStmt) : Bool := st.params.any fun i => (lookup σ i).isNone
def unused (σ : Bindings) (st : SStmt) : Bool :=
  (List.range σ.length).any fun i => (lookup σ i).isSome && !st.params.contains i

/-- errors the binder raises while resolving the statement against the catalog (column list of an INSERT,
USING list of a join): they come before any placeholder is looked up -/
def planErr (db : Db) : SStmt → Option SOutcome
  | .insertAll vals => if db.ord.length != vals.length then some .errCount else none
  | .insertCols cols vals =>
    if cols.any (fun c => !db.ord.contains c) then some .errUnknownCol
    else if cols.length != vals.length then some .errCount else none
  | .natJoin l _ => if (effUsing db l).any (fun c => !db.ord.contains c) then some .errUnknownCol else none
  | _ => none

/-- Impl model of one execution of a **cached** statement AST, parameterised by what the binder writes
into the AST (`b`): bind it against the current catalog (catalog errors first, then a missing binding
at a placeholder node), after planning reject a binding that was never looked up, run; returns the AST
as the execution leaves it in the session. -/
def execG (b : Db → SStmt → SStmt) (σ : Bindings) (cached : SStmt) (db : Db) : SOutcome × Db × SStmt :=
  match planErr db (b db cached) with
  | some e => (e, db, b db cached)
  | none =>
    if missing σ cached then (.base .errMissing, db, b db cached)
    else if unused σ cached then (.base .errUnused, db, b db cached)
    else ((runS σ (b db cached) db).1, (runS σ (b db cached) db).2, b db cached)

/-- the unchanged tree -/
def execS := execG bindAst

/-- Spec: the statement text with the values written as literals, parsed afresh, no bindings -/
def execSInlined (σ : Bindings) (text : SStmt) (db : Db) : SOutcome × Db := runS [] (text.subst σ) db

def WellBoundS (σ : Bindings) (st : SStmt) : Prop :=
  (∀ i ∈ st.params, (lookup σ i).isSome) ∧ (∀ i, i < σ.length → (lookup σ i).isSome → i ∈ st.params)

/-! ## Sessions: a pool of statement texts, the cache of their ASTs, histories with schema changes -/

inductive Step where
  /-- execute statement number `i` of the pool with bindings `σ` (prepared on first use) -/
  | exec (i : Nat) (σ : Bindings)
  | ddl (d : Ddl)
  deriving Repr, Inhabited

inductive Obs where
  | out (o : SOutcome)
  | ddl
  deriving Repr, DecidableEq, Inhabited

/-- statement number → the AST the session holds for it -/
abbrev Cache := List (Nat × SStmt)

def dflt : SStmt := .insertAll []

def textOf (texts : List SStmt) (i : Nat) : SStmt := texts.getD i dflt

def cachedOf (texts : List SStmt) (c : Cache) (i : Nat) : SStmt :=
  match c.lookup i with
  | some s => s
  | none => textOf texts i

/-- Impl: every execution runs the AST the session holds and leaves it as the binder left it -/
def implAllG (b : Db → SStmt → SStmt) (texts : List SStmt) : List Step → Db → Cache → List Obs
  | [], _, _ => []
  | .ddl d :: rest, db, c => .ddl :: implAllG b texts rest (d.apply db) c
  | .exec i σ :: rest, db, c =>
    .out (execG b σ (cachedOf texts c i) db).1 ::
      implAllG b texts rest (execG b σ (cachedOf texts c i) db).2.1 ((i, (execG b σ (cachedOf texts c i) db).2.2) :: c)

def implAll := implAllG bindAst

/-- the statement cache of the session after the history -/
def finalCacheG (b : Db → SStmt → SStmt) (texts : List SStmt) : List Step → Db → Cache → Cache
  | [], _, c => c
  | .ddl d :: rest, db, c => finalCacheG b texts rest (d.apply db) c
  | .exec i σ :: rest, db, c =>
    finalCacheG b texts rest (execG b σ (cachedOf texts c i) db).2.1 ((i, (execG b σ (cachedOf texts c i) db).2.2) :: c)

/-- the cached AST is no longer the parse of its text (observable: `String(cached) ≠ String(parse text)`) -/
def drifted : SStmt → Bool
  | .natJoin l _ => !l.isEmpty
  | _ => false

/-- the statements of the pool whose cached AST has drifted from its text at the end of the history -/
def driftedStmts (texts : List SStmt) (c : Cache) : List Nat :=
  (List.range texts.length).filter fun i => match c.lookup i with
    | some s => drifted s
    | none => false

/-- Spec: every execution is the inlined text, parsed afresh against the catalog of that moment -/
def specAll (texts : List SStmt) : List Step → Db → List Obs
  | [], _ => []
  | .ddl d :: rest, db => .ddl :: specAll texts rest (d.apply db)
  | .exec i σ :: rest, db =>
    .out (execSInlined σ (textOf texts i) db).1 :: specAll texts rest (execSInlined σ (textOf texts i) db).2

/-- Region `natural_join_using_memoised`: the cached AST of a natural join carries a USING list that is
not the list of columns the two tables have in common now. -/
def stale (db : Db) : SStmt → Bool
  | .natJoin l _ => !l.isEmpty && l != common db.ord
  | _ => false

/-- no execution of the history runs a stale AST (decided along the Impl run) -/
def staleFree (texts : List SStmt) : List Step → Db → Cache → Bool
  | [], _, _ => true
  | .ddl d :: rest, db, c => staleFree texts rest (d.apply db) c
  | .exec i σ :: rest, db, c =>
    !stale db (cachedOf texts c i) &&
      staleFree texts rest (execS σ (cachedOf texts c i) db).2.1 ((i, (execS σ (cachedOf texts c i) db).2.2) :: c)

/-- every cached AST is its text up to the recorded USING list -/
def CacheOk (texts : List SStmt) (c : Cache) : Prop :=
  ∀ i s, c.lookup i = some s → s.strip = textOf texts i

def StepsWellBound (texts : List SStmt) (steps : List Step) : Prop :=
  ∀ st ∈ steps, match st with
    | .exec i σ => WellBoundS σ (textOf texts i)
    | .ddl _ => True

/-! ## The class of the seeded change: the binder also records the expanded INSERT column list -/

/-- a binder that writes the expanded column list of `INSERT INTO t VALUES (…)` back into the AST
("walk the destination schema once per statement rather than once per bind") -/
def bindMemoInsert (db : Db) : SStmt → SStmt
  | .insertAll vals => .insertCols db.ord vals
  | s => bindAst db s

end Gms.PreparedSchema
