/-
C17 — model of the transaction layer of the in-memory backend (core-only).

Impl model (transliteration, defects included) of
  * engine.go                         `beginTransaction` (start one iff the session has none)      → `beginTx`
  * memory/session.go                 `Session.tables` (working copy made at first touch:
                                       `tableData`), `StartTransaction` (clear), `CommitTransaction`
                                       (`putTable` of *every* entry of `tables` into the base
                                       database), `Rollback` (clear)                               → `touch`, `publish`
  * memory/database.go                `GetTableInsensitive` (copy of the base table, then the
                                       session's data)                                            → `touch`
  * sql/rowexec/transaction.go        `buildStartTransaction` (commit pending work, start, set
                                       ignoreAutoCommit), `buildCommit`, `buildRollback`           → `.begin`, `.commit`, `.rollback`
  * sql/rowexec/transaction_iters.go  `TransactionCommittingIter.Close` (commit when the statement
                                       is DDL, or @@autocommit and not ignoreAutoCommit)           → `closeTx`
  * sql/analyzer/validation_rules.go  `validateReadOnlyTransaction` (nil dereference for a table that
                                       is not a TemporaryTable; runs on the *resolved* plan, i.e.
                                       after `tableData` registered the working copy)             → `.write` in a READ ONLY transaction = touch, then crash
Statement failures at execution time (duplicate key) restore the working copy (C15) and the
statement still ends with the autocommit commit (`accumulatorIter.Close` returns nil).

Spec (`specStep`): the same machine with what the property demands where the code differs:
COMMIT publishes exactly the tables the transaction wrote; a DDL statement ends the explicit
transaction; a write in a READ ONLY transaction is an error. Region flags mark the steps on
which Impl ≠ Spec.

A table value is a list of row keys (kept in insertion order; observations are sorted).
-/
namespace Gms.Txn

abbrev TV := List Nat

inductive W where
  | ins (n : Nat)
  | del (n : Nat)
  deriving Repr, DecidableEq

/-- A write on a table value; `none` = the statement fails (duplicate key) and changes nothing. -/
def W.app : W → TV → Option TV
  | .ins n, v => if v.contains n then none else some (v ++ [n])
  | .del n, v => some (v.filter (fun x => x != n))

def W.affected : W → TV → Nat
  | .ins _, _ => 1
  | .del n, v => if v.contains n then 1 else 0

structure Sess where
  /-- `Session.tables`: working copies, keyed by table -/
  tables : List (Nat × TV)
  /-- ghost: tables written by a successful DML statement since the copies were made -/
  written : List Nat
  /-- `ctx.GetTransaction() != nil` -/
  tx : Bool
  /-- `ignoreAutoCommit`: inside START TRANSACTION … COMMIT/ROLLBACK -/
  explicit : Bool
  /-- the transaction object is READ ONLY -/
  readOnly : Bool
  /-- @@autocommit -/
  autocommit : Bool
  deriving Repr

def Sess.init : Sess := ⟨[], [], false, false, false, true⟩

structure St where
  base : Nat → TV
  sess : Nat → Sess

def St.init : St := ⟨fun _ => [], fun _ => Sess.init⟩

def lookup (l : List (Nat × TV)) (t : Nat) : Option TV :=
  match l with
  | [] => none
  | (k, v) :: r => if k = t then some v else lookup r t

def store (l : List (Nat × TV)) (t : Nat) (v : TV) : List (Nat × TV) :=
  match l with
  | [] => [(t, v)]
  | (k, w) :: r => if k = t then (k, v) :: r else (k, w) :: store r t v

/-- Go: `Session.tableData`: the session's copy, made from the base table at first touch. -/
def touch (base : Nat → TV) (se : Sess) (t : Nat) : Sess × TV :=
  match lookup se.tables t with
  | some v => (se, v)
  | none => ({ se with tables := store se.tables t (base t) }, base t)

/-- Go: `CommitTransaction`: every entry of `Session.tables` is put into the base database. -/
def publish (base : Nat → TV) (tables : List (Nat × TV)) : Nat → TV :=
  fun t => match lookup tables t with
    | some v => v
    | none => base t

/-- Spec: only the tables the transaction wrote are published. -/
def publishWritten (base : Nat → TV) (tables : List (Nat × TV)) (written : List Nat) : Nat → TV :=
  fun t => if written.contains t then (match lookup tables t with | some v => v | none => base t) else base t

/-- Go: `beginTransaction`: `StartTransaction` (which clears the session's tables) iff no
transaction is in flight. -/
def beginTx (se : Sess) : Sess :=
  if se.tx then se else { se with tables := [], written := [], tx := true, readOnly := false }

inductive Kind where
  | read (t : Nat)
  | write (t : Nat) (w : W)
  | begin (ro : Bool)
  | commit
  | rollback
  | setAC (b : Bool)
  | ddl
  deriving Repr

structure Op where
  s : Nat
  k : Kind
  deriving Repr

inductive Obs where
  | rows (v : TV)
  | ok (affected : Nat)
  | err
  | crash
  | done
  deriving Repr, DecidableEq

inductive Region where
  /-- COMMIT also writes back tables the transaction only read, erasing what other sessions
  committed to them since the snapshot -/
  | commit_overwrites_read_table
  /-- a DDL statement inside START TRANSACTION commits but leaves the session in explicit mode:
  later statements are not autocommitted -/
  | ddl_keeps_explicit_mode
  /-- DML in a READ ONLY transaction panics instead of being rejected -/
  | readonly_txn_write_panics
  deriving Repr, DecidableEq

def Region.name : Region → String
  | .commit_overwrites_read_table => "commit_overwrites_read_table"
  | .ddl_keeps_explicit_mode => "ddl_keeps_explicit_mode"
  | .readonly_txn_write_panics => "readonly_txn_write_panics"

/-- Some table that was touched but not written differs from the committed version now. -/
def staleRead (base : Nat → TV) (se : Sess) : Bool :=
  se.tables.any (fun p => !se.written.contains p.1 && p.2 != base p.1)

/-- Go: `TransactionCommittingIter.Close`. `implicit` = the statement is DDL. Returns the new
base and session. `pub` is the publish function (Impl: all touched tables). -/
def closeTx (pub : (Nat → TV) → Sess → (Nat → TV)) (implicit : Bool) (base : Nat → TV) (se : Sess) :
    (Nat → TV) × Sess :=
  if se.tx && (implicit || (!se.explicit && se.autocommit)) then (pub base se, { se with tx := false })
  else (base, se)

def setSess (f : Nat → Sess) (s : Nat) (v : Sess) : Nat → Sess := fun x => if x = s then v else f x

/-- One statement. `pub` = publish function, `spec` = use the Spec's choices. -/
def stepWith (spec : Bool) (st : St) (o : Op) : St × Obs × List Region :=
  let pub : (Nat → TV) → Sess → (Nat → TV) :=
    if spec then (fun b se => publishWritten b se.tables se.written) else (fun b se => publish b se.tables)
  let se0 := beginTx (st.sess o.s)
  match o.k with
  | .read t =>
    let (se1, v) := touch st.base se0 t
    let (b, se2) := closeTx pub false st.base se1
    let fl := if se1.tx && (!se1.explicit && se1.autocommit) && staleRead st.base se1
              then [Region.commit_overwrites_read_table] else []
    (⟨b, setSess st.sess o.s se2⟩, .rows v, fl)
  | .write t w =>
    if se0.readOnly then
      -- validateReadOnlyTransaction: Impl panics (nil TemporaryTable), Spec rejects. The rule runs
      -- after the table has been resolved (planbuilder → GetTableInsensitive → `tableData`), so the
      -- statement has already registered its working copy of `t` in `Session.tables` (`touch`),
      -- exactly as a read does; nothing else changes, and there is no commit at close (the
      -- statement never reaches TransactionCommittingIter; the session is explicit anyway).
      let (se1, _) := touch st.base se0 t
      (⟨st.base, setSess st.sess o.s se1⟩, if spec then .err else .crash, [Region.readonly_txn_write_panics])
    else
      let (se1, v) := touch st.base se0 t
      match w.app v with
      | some v' =>
        let se1' := { se1 with tables := store se1.tables t v',
                               written := if se1.written.contains t then se1.written else t :: se1.written }
        let (b, se2) := closeTx pub false st.base se1'
        let fl := if se1'.tx && (!se1'.explicit && se1'.autocommit) && staleRead st.base se1'
                  then [Region.commit_overwrites_read_table] else []
        (⟨b, setSess st.sess o.s se2⟩, .ok (w.affected v), fl)
      | none =>
        let (b, se2) := closeTx pub false st.base se1
        let fl := if se1.tx && (!se1.explicit && se1.autocommit) && staleRead st.base se1
                  then [Region.commit_overwrites_read_table] else []
        (⟨b, setSess st.sess o.s se2⟩, .err, fl)
  | .begin ro =>
    -- buildStartTransaction: commit pending work (there is always a transaction here), start a new one
    let fl := if staleRead st.base se0 then [Region.commit_overwrites_read_table] else []
    let b := pub st.base se0
    let se1 : Sess := { se0 with tables := [], written := [], tx := true, explicit := true, readOnly := ro }
    (⟨b, setSess st.sess o.s se1⟩, .done, fl)
  | .commit =>
    let fl := if staleRead st.base se0 then [Region.commit_overwrites_read_table] else []
    let b := pub st.base se0
    let se1 : Sess := { se0 with tx := false, explicit := false }
    (⟨b, setSess st.sess o.s se1⟩, .done, fl)
  | .rollback =>
    let se1 : Sess := { se0 with tables := [], written := [], tx := false, explicit := false }
    (⟨st.base, setSess st.sess o.s se1⟩, .done, [])
  | .setAC bval =>
    let se1 : Sess := { se0 with autocommit := bval }
    let fl := if se1.tx && (!se1.explicit && se1.autocommit) && staleRead st.base se1
              then [Region.commit_overwrites_read_table] else []
    let (b, se2) := closeTx pub false st.base se1
    (⟨b, setSess st.sess o.s se2⟩, .ok 0, fl)
  | .ddl =>
    -- a DDL statement on an unrelated table: implicit commit at close
    let fl1 := if staleRead st.base se0 then [Region.commit_overwrites_read_table] else []
    let fl2 := if se0.explicit then [Region.ddl_keeps_explicit_mode] else []
    let (b, se1) := closeTx pub true st.base se0
    let se2 : Sess := if spec then { se1 with explicit := false } else se1
    (⟨b, setSess st.sess o.s se2⟩, .ok 0, fl1 ++ fl2)

/-- Impl model of one statement. -/
def step (st : St) (o : Op) : St × Obs × List Region := stepWith false st o

/-- Spec of one statement. -/
def specStep (st : St) (o : Op) : St × Obs × List Region := stepWith true st o

def run : St → List Op → St × List Obs × List Region
  | st, [] => (st, [], [])
  | st, o :: os =>
    let r := step st o
    let r' := run r.1 os
    (r'.1, r.2.1 :: r'.2.1, r.2.2 ++ r'.2.2)

def specRun : St → List Op → St × List Obs
  | st, [] => (st, [])
  | st, o :: os =>
    let r := specStep st o
    let r' := specRun r.1 os
    (r'.1, r.2.1 :: r'.2)

/-- What a read of table `t` by session `s` would return now (without executing it). -/
def readVal (st : St) (s t : Nat) : TV :=
  let se := beginTx (st.sess s)
  match lookup se.tables t with
  | some v => v
  | none => st.base t

end Gms.Txn
