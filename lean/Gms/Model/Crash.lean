/-
C10 — the cores whose memory safety is modelled for "no SQL input crashes the engine" (core-only).

"The Go code panics" is an explicit outcome of each model (`crash`); the theorems of
Gms/Props/C10.lean say when it can be reached.

* character-set conversion (`sql/encodings/rangemap.go`): the loops of Gms.RangeMap, with the
  length guard of `Encode`'s search loop as a parameter — `guard` is re-read from the source on
  every run (`Generated.C10.encodeHasLengthGuard`), so the model follows the code whether or not
  the guard is present;
* `internal/strings.Unquote` (JSON_UNQUOTE): Gms.JsonQuote.unquote (Impl) / unquoteSpec;
* `mysql_db.validateMysqlNativePassword`: the byte loop `for i := range scramble { scramble[i] ^=
  authResponse[i] }` over the 20-byte SHA-1 with the checks that precede it (emptiness, hex, and —
  since the repair d3c438db7 — `len(authResponse) != len(scramble)`); the pre-fix code is kept as
  `nativePasswordPreFix`.
-/
import Gms.Model.RangeMap
import Gms.Model.JsonQuote

namespace Gms.Crash
open Gms.RangeMap

/-- Go: `RangeMap.Encode`, `guard` = its search loop has `if n > len(str) { return nil, false }`. -/
def encodeG (guard : Bool) (rm : RangeMap) (s : List Nat) : Res :=
  convLoop (encodeRune rm) guard rm.inE.length [] (s.length + 1) s

/-- Outcome class of a conversion call. -/
def resClass : Res → String
  | .ok _ => "ok"
  | .fail => "fail"
  | .crash => "crash"

/-! ### mysql_native_password -/

/-- Go: `for i := range scramble { scramble[i] ^= authResponse[i] }`; `none` = index out of range. -/
def xorLoop : List Nat → List Nat → Option (List Nat)
  | [], _ => some []
  | s :: ss, r :: rs => (xorLoop ss rs).map (fun t => (s ^^^ r) :: t)
  | _ :: _, [] => none

inductive Auth where
  | rejected     -- returns false before the byte loop
  | compared     -- reaches `bytes.Equal(candidateHash2, hash)` (accept or reject by the hash)
  | crash        -- index out of range in the byte loop
  deriving DecidableEq, Repr

/-- Go: `validateMysqlNativePassword(authResponse, salt, stored)` (as repaired by commit d3c438db7:
a response whose length differs from the scramble's is rejected before the byte loop).
`scramble` = SHA1(salt ‖ hash) (always 20 bytes; a parameter here), `hashOk` = the stored string
is non-empty hex. -/
def nativePassword (scramble resp : List Nat) (hashOk : Bool) : Auth :=
  if resp.isEmpty then .rejected
  else if !hashOk then .rejected
  else if resp.length ≠ scramble.length then .rejected
  else match xorLoop scramble resp with
    | some _ => .compared
    | none => .crash

/-- The code before the repair: no length check in front of the byte loop. Kept only to state
`C10.fixed_native_password_short_response`. -/
def nativePasswordPreFix (scramble resp : List Nat) (hashOk : Bool) : Auth :=
  if resp.isEmpty then .rejected
  else if !hashOk then .rejected
  else match xorLoop scramble resp with
    | some _ => .compared
    | none => .crash

/-- Spec: only a response of exactly the scramble's length is compared; nothing panics. -/
def nativePasswordSpec (scramble resp : List Nat) (hashOk : Bool) : Auth :=
  if resp.isEmpty then .rejected
  else if !hashOk then .rejected
  else if resp.length ≠ scramble.length then .rejected
  else .compared

def authClass : Auth → String
  | .rejected => "rejected"
  | .compared => "compared"
  | .crash => "crash"

/-! ### Unquote -/

def unquoteClass : JsonQuote.Res → String
  | .ok _ => "ok"
  | .errUnicode => "err"
  | .errHex => "err"
  | .crash => "crash"

end Gms.Crash
