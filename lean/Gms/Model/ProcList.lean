/-
C37 — model of processlist.go (package sqle, type `ProcessList`) (core-only).

Every method of `ProcessList` runs under `pl.mu.Lock()`, so a method call is one atomic step
(`step`). A Go map is an association list (`lookup` / `insert` / `erase`); a `context.CancelFunc`
is a token (a `Nat`, numbered in order of creation) and calling it puts the token into the set
`cancelled`; the two status variables `Threads_connected` / `Threads_running` are the integer
fields `connected` / `running` (the real ones are `uint64` that wrap; the harness prints the signed
difference to the value at the start of the history).

* `step`   – Impl model: the Go code path by path, including the missing decrement in
             `RemoveConnection`, the fresh `Process` struct of `ConnectionReady` (drops `Kill`), and
             the `p.Kill()` nil call in `EndQuery` (a crash with the state half updated).
             `BeginQuery` increments `Threads_running` *below* its two error returns (the repair of
             finding F-C37-a, `begin_query_error_path`).
* `stepPreFix` – `step` with the `BeginQuery` of the code before that repair (increment first, then
             the two error returns). Kept only to state the witness `Gms.C37.fixed_begin_query_error_path`.
* `astep`  – Spec: the abstract machine the property demands. Its state holds only the sessions
             with their current work and the cancelled tokens; the counters and the pid index are
             *derived* (`aConnected`, `aRunning`, `aByPid`). `none` = the event is outside the
             calling protocol of `sql.ProcessList` at this state (the Spec says nothing).
-/
namespace Gms.ProcList

/-! ### Go maps as association lists -/

def lookup {β : Type} : List (Nat × β) → Nat → Option β
  | [], _ => none
  | (k', v) :: m, k => if k' = k then some v else lookup m k

/-- `m[k] = v`: replace in place, or append. -/
def insert {β : Type} : List (Nat × β) → Nat → β → List (Nat × β)
  | [], k, v => [(k, v)]
  | (k', v') :: m, k, v => if k' = k then (k, v) :: m else (k', v') :: insert m k v

/-- `delete(m, k)`. -/
def erase {β : Type} : List (Nat × β) → Nat → List (Nat × β)
  | [], _ => []
  | (k', v') :: m, k => if k' = k then erase m k else (k', v') :: erase m k

def keys {β : Type} (m : List (Nat × β)) : List Nat := m.map (·.1)

/-- Sum of `f` over the values. -/
def cnt {β : Type} (f : β → Nat) : List (Nat × β) → Nat
  | [] => 0
  | (_, v) :: m => f v + cnt f m

/-! ### State -/

inductive Cmd where
  | connect | sleep | query
  deriving DecidableEq, Repr, Inhabited

/-- `sql.Process`, the fields the property talks about. `pid` = `QueryPid`, `kill` = the token of
the `Kill` cancel func (`none` = nil), `query` = `Query` (`none` = ""; the harness uses the text
`q<pid>`). -/
structure Proc where
  cmd : Cmd
  pid : Nat
  kill : Option Nat
  query : Option Nat
  deriving DecidableEq, Repr, Inhabited

structure St where
  procs : List (Nat × Proc)
  byPid : List (Nat × Nat)
  connected : Int
  running : Int
  cancelled : List Nat
  nextTok : Nat
  deriving Repr, Inhabited

def St.init : St := { procs := [], byPid := [], connected := 0, running := 0, cancelled := [], nextTok := 0 }

inductive Ev where
  | add (c : Nat)
  | ready (c : Nat)
  | remove (c : Nat)
  | beginQ (c pid : Nat)
  | endQ (c pid : Nat)
  | beginOp (c : Nat)
  | endOp (c : Nat)
  | kill (c : Nat)
  deriving DecidableEq, Repr, Inhabited

def Ev.conn : Ev → Nat
  | .add c | .ready c | .remove c | .beginQ c _ | .endQ c _ | .beginOp c | .endOp c | .kill c => c

inductive Res where
  | done
  | ok (tok : Nat)
  | errNotRegistered
  | errPidUsed
  | errBusy
  | crash
  deriving DecidableEq, Repr, Inhabited

/-- Calling a cancel func: idempotent. -/
def cancel (l : List Nat) (t : Nat) : List Nat := if t ∈ l then l else t :: l

def cancelOpt (l : List Nat) : Option Nat → List Nat
  | none => l
  | some t => cancel l t

def isQuery (p : Proc) : Nat := if p.cmd = .query then 1 else 0

/-! ### Impl model -/

/-- One method call of `ProcessList` (atomic: the whole body runs under `pl.mu`). -/
def step (s : St) : Ev → St × Res
  -- AddConnection: counter first, then `pl.procs[id] = &Process{Command: Connect}` unconditionally
  | .add c =>
    ({ s with connected := s.connected + 1,
              procs := insert s.procs c { cmd := .connect, pid := 0, kill := none, query := none } }, .done)
  -- ConnectionReady: `pl.procs[id] = &Process{Command: Sleep}` unconditionally (fresh struct)
  | .ready c =>
    ({ s with procs := insert s.procs c { cmd := .sleep, pid := 0, kill := none, query := none } }, .done)
  -- RemoveConnection
  | .remove c =>
    match lookup s.procs c with
    | none => (s, .done)
    | some p =>
      ({ s with connected := s.connected - 1,
                cancelled := cancelOpt s.cancelled p.kill,
                byPid := erase s.byPid p.pid,
                procs := erase s.procs c }, .done)
  -- BeginQuery: the two error returns come first and change nothing; `Threads_running`+1 only on the
  -- path that registers the query
  | .beginQ c pid =>
    match lookup s.procs c with
    | none => (s, .errNotRegistered)
    | some _ =>
      match lookup s.byPid pid with
      | some _ => (s, .errPidUsed)
      | none =>
        let tok := s.nextTok
        ({ s with running := s.running + 1,
                  nextTok := tok + 1,
                  procs := insert s.procs c { cmd := .query, pid := pid, kill := some tok, query := some pid },
                  byPid := insert s.byPid pid c }, .ok tok)
  -- EndQuery: `delete(byQueryPid, pid)` first; `p.Kill()` is called without a nil check
  | .endQ c pid =>
    let s := { s with byPid := erase s.byPid pid }
    match lookup s.procs c with
    | none => (s, .done)
    | some p =>
      if p.pid = pid then
        let s := { s with running := s.running - 1 }
        match p.kill with
        | none =>
          -- nil func call panics after Command/Query were reset; Kill/QueryPid/… are not reached
          ({ s with procs := insert s.procs c { p with cmd := .sleep, query := none } }, .crash)
        | some t =>
          ({ s with cancelled := cancel s.cancelled t,
                    procs := insert s.procs c { cmd := .sleep, pid := 0, kill := none, query := none } }, .done)
      else (s, .done)
  -- BeginOperation
  | .beginOp c =>
    match lookup s.procs c with
    | none => (s, .errNotRegistered)
    | some p =>
      match p.kill with
      | some _ => (s, .errBusy)
      | none =>
        let tok := s.nextTok
        ({ s with nextTok := tok + 1, procs := insert s.procs c { p with kill := some tok } }, .ok tok)
  -- EndOperation
  | .endOp c =>
    match lookup s.procs c with
    | none => (s, .done)
    | some p =>
      match p.kill with
      | none => (s, .done)
      | some t =>
        ({ s with cancelled := cancel s.cancelled t, procs := insert s.procs c { p with kill := none } }, .done)
  -- Kill
  | .kill c =>
    match lookup s.procs c with
    | none => (s, .done)
    | some p => ({ s with cancelled := cancelOpt s.cancelled p.kill }, .done)

/-- Run a history; the trace of (state after the event, result) in order. -/
def run : St → List Ev → List (St × Res)
  | _, [] => []
  | s, e :: es => let r := step s e; r :: run r.1 es

def exec (s : St) (es : List Ev) : St := es.foldl (fun s e => (step s e).1) s

/-- `ProcessList` before the repair of F-C37-a: `BeginQuery` did `Threads_running`+1 *before* its two
error returns, so a failed `BeginQuery` left the counter one too high. Every other method is `step`.
Not the model of the code that exists; used by `Gms.C37.fixed_begin_query_error_path` only. -/
def stepPreFix (s : St) : Ev → St × Res
  | .beginQ c pid =>
    let s := { s with running := s.running + 1 }
    match lookup s.procs c with
    | none => (s, .errNotRegistered)
    | some _ =>
      match lookup s.byPid pid with
      | some _ => (s, .errPidUsed)
      | none =>
        let tok := s.nextTok
        ({ s with nextTok := tok + 1,
                  procs := insert s.procs c { cmd := .query, pid := pid, kill := some tok, query := some pid },
                  byPid := insert s.byPid pid c }, .ok tok)
  | e => step s e

def execPreFix (s : St) (es : List Ev) : St := es.foldl (fun s e => (stepPreFix s e).1) s

/-- The cancel func currently registered for connection `c`. -/
def held (procs : List (Nat × Proc)) (c : Nat) : Option Nat := (lookup procs c).bind (·.kill)

/-! ### Spec: the abstract machine -/

structure ASt where
  procs : List (Nat × Proc)
  cancelled : List Nat
  nextTok : Nat
  deriving Repr, Inhabited

def ASt.init : ASt := { procs := [], cancelled := [], nextTok := 0 }

/-- Derived: `Threads_connected`. -/
def aConnected (a : ASt) : Nat := a.procs.length
/-- Derived: `Threads_running`. -/
def aRunning (a : ASt) : Nat := cnt isQuery a.procs
/-- Derived: the connection running query `pid`. -/
def pidOwner : List (Nat × Proc) → Nat → Option Nat
  | [], _ => none
  | (c, p) :: m, pid => if p.cmd = .query ∧ p.pid = pid then some c else pidOwner m pid

def idleProc (cmd : Cmd) : Proc := { cmd := cmd, pid := 0, kill := none, query := none }

/-- The Spec step. `none`: the call is outside the protocol of `sql.ProcessList` here (connection
added twice; ready/query before the connection exists or while a query runs; query ids are ≥ 1;
a second Begin on a busy connection; EndQuery of another connection's query; EndOperation while a
query runs). Everything else — including every error path and the calls the server really makes
(double `EndQuery`, `ConnectionReady` inside `SetDB`'s operation, `KILL` of any id, removal of a
busy connection) — has a demanded outcome. -/
def astep (a : ASt) : Ev → Option (ASt × Res)
  | .add c =>
    match lookup a.procs c with
    | some _ => none
    | none => some ({ a with procs := insert a.procs c (idleProc .connect) }, .done)
  | .ready c =>
    match lookup a.procs c with
    | none => none
    | some p =>
      if p.cmd = .query then none
      else
        -- the session info is refreshed; a registered operation stays registered
        some ({ a with procs := insert a.procs c { p with cmd := .sleep } }, .done)
  | .remove c =>
    match lookup a.procs c with
    | none => some (a, .done)
    | some p => some ({ a with cancelled := cancelOpt a.cancelled p.kill, procs := erase a.procs c }, .done)
  | .beginQ c pid =>
    if pid = 0 then none else
    match lookup a.procs c with
    | none => some (a, .errNotRegistered)           -- an error has no effect
    | some p =>
      match pidOwner a.procs pid with
      | some _ => some (a, .errPidUsed)             -- an error has no effect
      | none =>
        if p.cmd ≠ .sleep ∨ p.kill ≠ none then none
        else
          let tok := a.nextTok
          some ({ a with nextTok := tok + 1,
                         procs := insert a.procs c { cmd := .query, pid := pid, kill := some tok, query := some pid } },
                .ok tok)
  | .endQ c pid =>
    if pid = 0 then none else
    match pidOwner a.procs pid with
    | some c' =>
      if c' ≠ c then none
      else
        match lookup a.procs c with
        | none => none  -- unreachable: the owner is in the map
        | some p =>
          some ({ a with cancelled := cancelOpt a.cancelled p.kill, procs := insert a.procs c (idleProc .sleep) }, .done)
    | none => some (a, .done)                        -- second EndQuery / query already gone: no-op
  | .beginOp c =>
    match lookup a.procs c with
    | none => some (a, .errNotRegistered)
    | some p =>
      if p.cmd = .query ∨ p.kill ≠ none then some (a, .errBusy)
      else
        let tok := a.nextTok
        some ({ a with nextTok := tok + 1, procs := insert a.procs c { p with kill := some tok } }, .ok tok)
  | .endOp c =>
    match lookup a.procs c with
    | none => some (a, .done)
    | some p =>
      if p.cmd = .query then none
      else some ({ a with cancelled := cancelOpt a.cancelled p.kill, procs := insert a.procs c { p with kill := none } }, .done)
  | .kill c =>
    match lookup a.procs c with
    | none => some (a, .done)
    | some p => some ({ a with cancelled := cancelOpt a.cancelled p.kill }, .done)

/-! ### Regions: the calls on which the code that exists departs from the Spec -/

/-- The call class of the *repaired* defect F-C37-a: `BeginQuery` takes one of its two error returns.
No longer a region (`inRegion` / `regionName` do not mention it): the code now agrees with the Spec
on these calls (`Gms.C37.beginQuery_refines`), so a disagreement there is a violation again. -/
def beginQueryErrorCall (a : ASt) : Ev → Bool
  | .beginQ c pid => pid ≠ 0 ∧ ((lookup a.procs c).isNone ∨ (pidOwner a.procs pid).isSome)
  | _ => false

/-- F-C37-b: `RemoveConnection` of a connection whose query is still registered. -/
def regionRemoveDuringQuery (a : ASt) : Ev → Bool
  | .remove c => match lookup a.procs c with
    | some p => p.cmd = .query
    | none => false
  | _ => false

/-- `ConnectionReady` while an operation is registered (what `SessionManager.SetDB` does): the
fresh `Process` struct drops the operation's cancel func. -/
def regionReadyDuringOperation (a : ASt) : Ev → Bool
  | .ready c => match lookup a.procs c with
    | some p => p.cmd ≠ .query ∧ p.kill ≠ none
    | none => false
  | _ => false

def inRegion (a : ASt) (e : Ev) : Bool :=
  regionRemoveDuringQuery a e || regionReadyDuringOperation a e

def regionName (a : ASt) (e : Ev) : String :=
  if regionRemoveDuringQuery a e then "remove_during_query"
  else if regionReadyDuringOperation a e then "ready_during_operation"
  else "-"

/-- Ground truth of "connection `c` is running query `pid`". -/
def Owner (procs : List (Nat × Proc)) (pid c : Nat) : Prop :=
  ∃ p, lookup procs c = some p ∧ p.cmd = .query ∧ p.pid = pid

/-- The refinement relation: the Impl state is the Spec state plus *correct* redundant data
(the two counters and the `byQueryPid` index). -/
structure Sim (s : St) (a : ASt) : Prop where
  procs : s.procs = a.procs
  cancelled : s.cancelled = a.cancelled
  nextTok : s.nextTok = a.nextTok
  connected : s.connected = (aConnected a : Int)
  running : s.running = (aRunning a : Int)
  byPid : ∀ pid c, lookup s.byPid pid = some c ↔ Owner a.procs pid c

/-- The counter effects the model attributes to each method (compared with the regenerated fact). -/
def counterEffects : List (String × String × Int) :=
  [("AddConnection", "Threads_connected", 1),
   ("RemoveConnection", "Threads_connected", -1),
   ("BeginQuery", "Threads_running", 1),
   ("EndQuery", "Threads_running", -1)]

end Gms.ProcList
