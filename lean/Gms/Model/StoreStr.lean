/-
C27 — strings written into integer columns (core-only model).

* Spec for string inputs: a text whose trimmed form is `[+-]? digit+` denotes that integer and is
  treated like the integer; any other text is malformed and has to be reported (strict: rejected;
  IGNORE: the numeric prefix, clamped, with a warning).
* Impl model of the *insert* path for string values: `NumberTypeImpl_.ConvertRound` →
  `convertToInt64/convertToUint64(…, ShouldRound)` (`TruncateStringToDouble`, `strconv.ParseInt/ParseUint`,
  fallback `strconv.ParseFloat` + the float64 branch of the converter), restricted to texts over the
  alphabet digits, `+`, `-`, blank, tab and letters other than `e`/`E` (no `.`, no exponent, no `\n\r`):
  on these `TruncateStringToDouble` coincides with `TruncateStringToInt` (`truncateStringToInt`).
-/
import Gms.Model.Store
namespace Gms.Conv
open Gms.Num

/-- `[+-]? digit+` -/
def isIntBody : List UInt8 → Bool
  | 43 :: ds => !ds.isEmpty && ds.all isDigit
  | 45 :: ds => !ds.isEmpty && ds.all isDigit
  | ds => !ds.isEmpty && ds.all isDigit

/-- nothing but an optional sign: `""`, `"+"`, `"-"` -/
def isSignOnly : List UInt8 → Bool
  | [] => true
  | [43] => true
  | [45] => true
  | _ => false

end Gms.Conv

namespace Gms.Store
open Gms.Num Gms.Conv

/-- the integer a string denotes: its text, trimmed of blanks and tabs, is `[+-]? digit+` -/
def strNum (bs : List UInt8) : Option Int :=
  let t := trim isIntCut bs
  if isIntBody t then some (signedVal t) else none

/-- the texts the round-mode model covers (see the header) -/
def roundModelled (bs : List UInt8) : Bool :=
  bs.all (fun b => isDigit b || b == 43 || b == 45 || b == 32 || b == 9 ||
    ((97 ≤ b && b ≤ 122) && b != 101))

/-! ## Spec for strings at the `Convert` level -/

/-- the numeric part of `acceptableConvert`, for the number `x` -/
def acceptNum (t : Ty) (x : Int × Nat) (r : CRes) : Option Bool :=
  let tg := target t x
  if t = .year ∧ 1 ≤ tg ∧ tg ≤ 99 then none
  else if t.storable tg then
    if exactInBounds t x then
      some (r.err == Err.none && r.flag == Flag.inRange && storedCoeff t r.val == some tg)
    else some (r.err == Err.fatal || storedCoeff t r.val == some tg)
  else
    some (!(conversionOk r) &&
      (r.err == Err.fatal || storedCoeff t r.val == some (nearest t tg)))

/-- `acceptableConvert` extended to string inputs of the integer types: integer text is treated as
the integer it denotes, any other text has to be reported. -/
def acceptableConvertS (t : Ty) (v : Val) (r : CRes) : Option Bool :=
  match t, v with
  | .int _, .s bs =>
    match strNum bs with
    | some n => acceptNum t (n, 0) r
    | none => some (!(conversionOk r))
  | t, v => acceptableConvert t v r

/-- a text that is nothing but an optional sign (`''`, `'-'`, `'+'`, blanks) is read as 0 without
any report: `TruncateStringToInt/Double` return `"0", false` when they have not seen a digit and
the scan reached the end of the text. -/
def sign_only_or_empty_string_as_zero (t : Ty) (v : Val) : Prop :=
  match t, v with
  | .int _, .s bs => isSignOnly (trim isIntCut bs) = true
  | _, _ => False

instance (t v) : Decidable (sign_only_or_empty_string_as_zero t v) := by
  unfold sign_only_or_empty_string_as_zero; split <;> infer_instance

/-! ## Impl model of the insert path for strings (`ConvertRound`) -/

/-- number of binary digits of `n` (structural, so that `decide` can evaluate it; `n < 2^1100`) -/
def bitLenAux : Nat → Nat → Nat
  | 0, _ => 0
  | fuel + 1, n => if n = 0 then 0 else bitLenAux fuel (n / 2) + 1

def bitLen (n : Nat) : Nat := bitLenAux 1100 n

/-- the float64 nearest to the natural number `n` (round half to even), as an exact number
(`strconv.ParseFloat` on integer text; `n < 2^1024`) -/
def f64OfNat (n : Nat) : Nat :=
  let bl := bitLen n
  if bl ≤ 53 then n
  else
    let e := bl - 53
    let q := n / 2 ^ e
    let r := n % 2 ^ e
    let half := 2 ^ (e - 1)
    let q' := if r > half ∨ (r = half ∧ q % 2 = 1) then q + 1 else q
    q' * 2 ^ e

/-- `convertToInt64(t, v string, ShouldRound)` -/
def convertToInt64R (bs : List UInt8) : Res :=
  let (t, trunc) := truncateStringToInt bs
  let e : Err := if trunc then .truncated else .none
  let v := signedVal t
  if inI64 v then ⟨v, .inRange, e⟩                    -- strconv.ParseInt succeeds
  else
    -- ParseFloat, then the float64 branch: `v > float64(MaxInt64)` / `v < float64(MinInt64)` compare
    -- with ±2^63; the float 2^63 itself passes and `int64(2^63)` is MinInt64 on amd64
    let f := f64OfNat v.natAbs
    if v > 0 then (if f > 2 ^ 63 then ⟨maxI64, .overflow, e⟩ else ⟨minI64, .inRange, e⟩)
    else (if f > 2 ^ 63 then ⟨minI64, .underflow, e⟩ else ⟨minI64, .inRange, e⟩)

/-- `convertToUint64(t, v string, ShouldRound)`; negative texts are modelled up to 2^53 in magnitude -/
def convertToUint64R (bs : List UInt8) : Res :=
  let (t, trunc) := truncateStringToInt bs
  let e : Err := if trunc then .truncated else .none
  let (neg, ds) := splitSign t
  let signed := t.head? == some 43 || t.head? == some 45
  let m := digitsVal ds 0
  if !signed ∧ (m : Int) ≤ maxU64 then ⟨m, .inRange, e⟩     -- strconv.ParseUint succeeds (it takes no sign)
  else
    let f := f64OfNat m
    if neg ∧ m ≠ 0 then ⟨wrapU64 (maxU64 - (f - 1)), .underflow, e⟩   -- `MaxUint64 - uint(-v-1)`
    else if (f : Int) ≥ 2 ^ 64 then ⟨maxU64, .overflow, e⟩            -- `v >= float64(MaxUint64)`
    else ⟨f, .inRange, e⟩

/-- `NumberTypeImpl_.ConvertRound` on a string: the narrow types return early on ANY error,
truncation included, with the unchecked `intN(num)` -/
def convertIntR (t : ITy) (bs : List UInt8) : CRes :=
  match t with
  | .i64 => let r := convertToInt64R bs; ⟨.int r.val, r.flag, r.err⟩
  | .u64 => let r := convertToUint64R bs; ⟨.int r.val, r.flag, r.err⟩
  | t =>
    let r := convertToInt64R bs
    if r.err ≠ .none then ⟨.int (convertInt.wrapTo t r.val), r.flag, r.err⟩
    else if r.val > t.hi then ⟨.int t.hi, .overflow, .none⟩
    else if r.val < t.lo then
      ⟨.int (if t.unsigned then convertInt.wrapTo t (t.hi + r.val + 1) else t.lo), .underflow, .none⟩
    else ⟨.int r.val, .inRange, .none⟩

/-- the insert policy of `insertIter.Next` on a conversion result (integer types never return nil) -/
def policy (ignore : Bool) (r : CRes) : Outcome :=
  if conversionOk r then .stored r.val false
  else if ignore then .stored r.val true else .rejected

def insertStr (ignore : Bool) (t : ITy) (bs : List UInt8) : Outcome := policy ignore (convertIntR t bs)

/-! ## Spec for `INSERT [IGNORE]` of a string into an integer column -/

def acceptNumOutcome (ignore : Bool) (t : Ty) (x : Int × Nat) (o : Outcome) : Bool :=
  let tg := target t x
  match o with
  | .rejected => !ignore && !(t.storable tg && exactInBounds t x)
  | .stored s w =>
    if t.storable tg then storedCoeff t s == some tg
    else ignore && w && storedCoeff t s == some (nearest t tg)

/-- integer text: as the integer. Malformed text: strict mode rejects; IGNORE stores the numeric
prefix (what `TruncateStringToInt` keeps), clamped to the type, with a warning. -/
def acceptableStrOutcome (ignore : Bool) (t : ITy) (bs : List UInt8) (o : Outcome) : Bool :=
  match strNum bs with
  | some n => acceptNumOutcome ignore (.int t) (n, 0) o
  | none =>
    match o with
    | .rejected => !ignore
    | .stored s w =>
      ignore && w && storedCoeff (.int t) s == some (clamp (.int t) (signedVal (truncateStringToInt bs).1))

/-! ## Regions of the string insert path -/

/-- the text is refused by `strconv.ParseInt/ParseUint` (beyond the 64-bit range, or — unsigned
column — it carries a sign) and goes through `ParseFloat`: the float64 that equals 2^63 passes the
`v > float64(MaxInt64)` guard and becomes MinInt64; a `+`-signed text above 2^53 is stored as the
rounded float — in both cases InRange, without error. -/
def string_via_float64 (t : ITy) (bs : List UInt8) : Prop :=
  let tt := (truncateStringToInt bs).1
  match t with
  | .u64 => (tt.head? == some 43 || tt.head? == some 45 || ¬ ((digitsVal (splitSign tt).2 0 : Nat) : Int) ≤ maxU64) = true
  | _ => ¬ inI64 (signedVal tt)

/-- a malformed text whose numeric prefix is outside the (narrow) type: `ConvertRound` returns
`intN(num)` unchecked together with the truncation error, and IGNORE stores that wrapped value -/
def truncated_string_skips_range_check (t : ITy) (bs : List UInt8) : Prop :=
  t ≠ .i64 ∧ t ≠ .u64 ∧ (truncateStringToInt bs).2 = true ∧
    ¬ (t.lo ≤ signedVal (truncateStringToInt bs).1 ∧ signedVal (truncateStringToInt bs).1 ≤ t.hi)

instance (t bs) : Decidable (string_via_float64 t bs) := by
  unfold string_via_float64; cases t <;> infer_instance
instance (t bs) : Decidable (truncated_string_skips_range_check t bs) := by
  unfold truncated_string_skips_range_check; infer_instance

end Gms.Store
