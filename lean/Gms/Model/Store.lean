/-
C27 — storing a value: model of the insert-time conversion policy (sql/rowexec/insert.go
`insertIter.Next`: `Convert`/`ConvertRound`, `inRange != InRange ⇒ ErrValueOutOfRange`,
`ErrTruncatedIncorrect ⇒ ErrInvalidValue`, strict ⇒ reject, IGNORE ⇒ keep the converted value (or the
type's zero) and warn) on top of `Gms.Conv.convert` (= `sql.Type.Convert`, Gms/Model/NumConv.lean),
and the Spec the property demands.
-/
import Gms.Model.NumConv
namespace Gms.Store
open Gms.Num Gms.Conv

/-- the stored value handed back to `Convert` as a Go value of the type's `ValueType` -/
def inject (t : Ty) : Stored → Val
  | .null => .null
  | .int v =>
    match t with
    | .int it => if it.unsigned then .u v else .i v
    | .year => .i v
    | .bit _ => .u v
    | .dec _ _ _ => .i v
  | .dec c s => .d c s

/-- well-formed SQL types: DECIMAL scale ≤ precision, BIT width ≤ 64 -/
def _root_.Gms.Conv.Ty.WF : Ty → Prop
  | .dec p s _ => s ≤ p
  | .bit n => n ≤ 64
  | _ => True

instance (t : Ty) : Decidable t.WF := by cases t <;> unfold Ty.WF <;> infer_instance

/-! ## Insert policy -/

inductive Outcome where
  | rejected
  | stored (v : Stored) (warned : Bool)
  deriving DecidableEq, Repr, Inhabited

/-- `Type.Zero()` of the modelled types -/
def zeroOf : Ty → Stored
  | .dec _ s _ => .dec 0 s      -- `decimal.Zero` rendered at the column scale
  | _ => .int 0

def conversionOk (r : CRes) : Bool := r.err == Err.none && r.flag == Flag.inRange

/-- strict mode: any conversion error or a flag other than `InRange` rejects the row -/
def insertStrict (t : Ty) (v : Val) : Outcome :=
  let r := convert t v
  if conversionOk r then .stored r.val false else .rejected

/-- `INSERT IGNORE`: the converted value (the type's zero when `Convert` returned nil) is stored and a warning is added -/
def insertIgnore (t : Ty) (v : Val) : Outcome :=
  let r := convert t v
  if conversionOk r then .stored r.val false
  else .stored (if r.val = .null ∧ v ≠ .null then zeroOf t else r.val) true

/-! ## Spec -/

/-- scale of the type's values -/
def _root_.Gms.Conv.Ty.scale : Ty → Nat
  | .dec _ s _ => s
  | _ => 0

/-- the exact number denoted by a (numeric, non-string) value, as coefficient/scale -/
def numOf : Val → Option (Int × Nat)
  | .i v | .u v => some (v, 0)
  | .d c s => some (c, s)
  | _ => none

/-- the given number rounded (half away from zero) to the type's scale: the value SQL assignment asks to store -/
def target (t : Ty) (x : Int × Nat) : Int := roundToScale x.1 x.2 t.scale

/-- bounds of the type at its scale (coefficients) -/
def _root_.Gms.Conv.Ty.lo : Ty → Int
  | .int it => it.lo
  | .dec p _ _ => -((10 : Int) ^ p - 1)
  | .year => 0
  | .bit _ => 0

def _root_.Gms.Conv.Ty.hi : Ty → Int
  | .int it => it.hi
  | .dec p _ _ => (10 : Int) ^ p - 1
  | .year => 2155
  | .bit n => 2 ^ n - 1

/-- the set of storable coefficients (YEAR has holes: 0 and 1901..2155; two-digit years are an input convention) -/
def _root_.Gms.Conv.Ty.storable (t : Ty) (c : Int) : Bool :=
  match t with
  | .year => c == 0 || (1901 ≤ c && c ≤ 2155)
  | t => t.lo ≤ c && c ≤ t.hi

def storedCoeff (t : Ty) : Stored → Option Int
  | .null => none
  | .int v => some v
  | .dec c s => some (c * 10 ^ (t.scale - s))

/-- nearest storable value (clamp) -/
def clamp (t : Ty) (c : Int) : Int := if c < t.lo then t.lo else if c > t.hi then t.hi else c

/-- the exact (unrounded) value lies within the bounds of the type. For DECIMAL the bound is on the
rounded value only (always `true` here). -/
def exactInBounds (t : Ty) (x : Int × Nat) : Bool :=
  match t with
  | .dec _ _ _ => true
  | t => decide (t.lo * 10 ^ x.2 ≤ x.1 ∧ x.1 ≤ t.hi * 10 ^ x.2)

/-- the value IGNORE mode has to store for a value that is not storable: the nearest bound; for
YEAR, MySQL's documented `0000`. -/
def nearest (t : Ty) (tg : Int) : Int :=
  match t with
  | .year => 0
  | t => clamp t tg

/-- What the property demands of `Convert` on a numeric value `v` (`none`: not determined — strings,
YEAR two-digit inputs). With `tg` = the value rounded (half away from zero) to the type's scale:
* `tg` storable and the exact value within the type's bounds: the stored value is `tg`, `InRange`, no error;
* `tg` storable but the exact value beyond a bound (`MaxInt64 + 0.3` rounds onto the bound): `tg`
  with or without a report, or a fatal error;
* `tg` not storable: a report (flag ≠ InRange or an error) and — if a value is returned for IGNORE
  mode — the nearest storable one. -/
def acceptableConvert (t : Ty) (v : Val) (r : CRes) : Option Bool :=
  match v with
  | .null => some (r == (⟨.null, .inRange, .none⟩ : CRes))
  | v =>
    match numOf v with
    | none => none
    | some x =>
      let tg := target t x
      if t = .year ∧ 1 ≤ tg ∧ tg ≤ 99 then none
      else if t.storable tg then
        if exactInBounds t x then
          some (r.err == Err.none && r.flag == Flag.inRange && storedCoeff t r.val == some tg)
        else some (r.err == Err.fatal || storedCoeff t r.val == some tg)
      else
        some (!(conversionOk r) &&
          (r.err == Err.fatal || storedCoeff t r.val == some (nearest t tg)))

/-- What the property demands of the row that `INSERT` (strict) / `INSERT IGNORE` leaves behind. -/
def acceptableOutcome (ignore : Bool) (t : Ty) (v : Val) (o : Outcome) : Option Bool :=
  match v with
  | .null => some (o == .stored .null false)
  | v =>
    match numOf v with
    | none => none
    | some x =>
      let tg := target t x
      if t = .year ∧ 1 ≤ tg ∧ tg ≤ 99 then none
      else
        match o with
        | .rejected =>
          -- strict mode rejects what is not storable (or beyond a bound); IGNORE never rejects
          some (!ignore && !(t.storable tg && exactInBounds t x))
        | .stored s w =>
          if t.storable tg then some (storedCoeff t s == some tg)          -- exact: warning optional
          else some (ignore && w && storedCoeff t s == some (nearest t tg)) -- changed ⇒ IGNORE, warned, nearest

/-! ## Regions (C27) -/

/-- a negative value converted to an unsigned integer type: the result wraps (`uintN(MaxUintN + num + 1)`,
`MaxUint64 - uint(-v-1)`) instead of clamping to 0 — flagged `Underflow`, so strict mode rejects it,
but IGNORE stores the wrapped value. -/
def unsigned_underflow_wraps (t : Ty) (v : Val) : Prop :=
  match t with
  | .int it => it.unsigned = true ∧ v.negative = true
  | _ => False

/-- YEAR: a decimal whose rounded value leaves the int64 range is silently stored as year 0
(`DecimalRoundedIntPart` ignores the failure of `Int64()`). -/
def year_decimal_beyond_int64_becomes_zero (t : Ty) (v : Val) : Prop :=
  match t, v with
  | .year, .d c s => ¬ inI64 (roundHalfAway c s)
  | _, _ => False

/-- BIT: a negative integer is reinterpreted as unsigned (accepted silently by BIT(64)), a negative
decimal loses its sign. -/
def bit_negative_reinterpreted (t : Ty) (v : Val) : Prop :=
  match t, numOf v with
  | .bit _, some x => x.1 < 0
  | _, _ => False

/-- `INSERT IGNORE` of a value that `Convert` refuses with an error and no value (DECIMAL beyond the
precision, YEAR outside 1901..2155, BIT beyond the width): the type's zero is stored instead of the
nearest storable value. For YEAR zero *is* the demanded value, so YEAR is not in the region. -/
def ignore_stores_zero_not_nearest (t : Ty) (v : Val) : Prop :=
  (convert t v).err = .fatal ∧ v ≠ .null ∧ t ≠ .year

instance (t v) : Decidable (unsigned_underflow_wraps t v) := by
  unfold unsigned_underflow_wraps; split <;> infer_instance
instance (t v) : Decidable (year_decimal_beyond_int64_becomes_zero t v) := by
  unfold year_decimal_beyond_int64_becomes_zero; split <;> infer_instance
instance (t v) : Decidable (bit_negative_reinterpreted t v) := by
  unfold bit_negative_reinterpreted; split <;> infer_instance
instance (t v) : Decidable (ignore_stores_zero_not_nearest t v) := by
  unfold ignore_stores_zero_not_nearest; infer_instance

end Gms.Store
