/-
C40 — histories of account changes interleaved with logins (core-only).

"A login is decided against the CURRENT account table": the model runs a history of account-changing
statements — through every path the engine offers: CREATE USER / CREATE ROLE / ALTER USER / DROP USER / GRANT
(the `Editor` path, `sql/rowexec/ddl.go`, `priv.go`) and INSERT / UPDATE / DELETE on `mysql.user` (the
`in_mem_table` editors, `sql/in_mem_table/multimapeditors.go`) — and answers every login from the state the
statements before it have produced. Nothing else is state: `login` is a function of the current table
(`Gms.C40.login_reads_current_table`).

* `stepI` — Impl model of the statements' effect on the `users` indexed set (entries in `Put` order: the
  secondary index `GetUsersByUsername` is a slice per name in that order), defects included:
    - `buildCreateUser` stores `Locked: false` whatever the statement says (`ACCOUNT LOCK` is parsed into
      `plan.CreateUser.Locked` and dropped) — region `create_user_account_lock_ignored`;
    - `in_mem_table.Update` removes the old entry by *equality with the entry rebuilt from the old row*
      (`UserFromRow`, which only carries global privileges): for an account holding database/table-level
      privileges the rebuilt entry is not equal to the stored one, nothing is removed, and the updated entry is
      `Put` next to the old one — region `dml_update_keeps_old_row_of_scoped_account`: logins keep being
      checked against the OLD row (first in the slice), and a login whose (user, host) is that key literally
      panics in `Reader.GetUser` ("too many matching users");
    - `buildDropUser` looks the account up with `MySQLDb.GetUser` (pattern matching, loopback normalisation).
* `stepS` — Spec: what the statement says (the lock option is honoured, UPDATE replaces the row, DROP USER
  removes exactly the named account).
* `Cached…` — a generic read-through cache in front of a lookup, keyed by a generation counter: transparent
  iff every state-changing operation bumps the counter (`Gms.C40.cache_coherent`); with DML on `mysql.user`
  not bumping it (only `Editor.Close` does) a cached login diverges (`Gms.C40.stale_cache_diverges`).
-/
import Gms.Model.Auth

namespace Gms.AuthHist
open Gms.Priv Gms.Auth

abbrev Key := String × String   -- (user name, host pattern)

/-- A stored account and whether it holds database/table/routine-level privileges (which a `mysql.user` row
does not carry). -/
structure Entry where
  a : Acct
  subPriv : Bool := false
  deriving Repr, DecidableEq, Inhabited

def Entry.key (e : Entry) : Key := (e.a.name, e.a.host)

def hasKey (es : List Entry) (k : Key) : Bool := es.any (fun e => e.key == k)
def withKey (es : List Entry) (k : Key) : List Entry := es.filter (fun e => e.key == k)
def eraseKey (es : List Entry) (k : Key) : List Entry := es.filter (fun e => e.key != k)
def acctsOf (es : List Entry) : List Acct := es.map (·.a)

/-- `UPDATE mysql.user SET <column> = … WHERE User = … AND Host = …`. -/
inductive Upd where
  | lock (b : Bool)             -- account_locked
  | auth (s : List Char)        -- authentication_string
  | plugin (p : String)         -- plugin
  deriving Repr, DecidableEq

def Upd.apply (u : Upd) (a : Acct) : Acct :=
  match u with
  | .lock b => { a with locked := b }
  | .auth s => { a with auth := s }
  | .plugin p => { a with plugin := p }

inductive Op where
  | createUser (k : Key) (plugin : String) (auth : List Char) (lock : Bool)
  | createRole (n : String)
  | alterUser (k : Key) (plugin : String) (auth : List Char)
  | dropUser (k : Key)
  | grantGlobal (k : Key)
  | grantScoped (k : Key)
  | flush
  | dmlUpdate (k : Key) (u : Upd)
  | dmlDelete (k : Key)
  | dmlInsert (k : Key) (plugin : String) (auth : List Char) (lock : Bool)
  deriving Repr, DecidableEq

def mkEntry (k : Key) (plugin : String) (auth : List Char) (locked : Bool) : Entry :=
  { a := { name := k.1, host := k.2, plugin := plugin, auth := auth, locked := locked }, subPriv := false }

def roleEntry (n : String) : Entry := mkEntry (n, "%") "mysql_native_password" [] true

/-- Go: `MySQLDb.GetUser(editor, name, host, false)` on the current entries. -/
def chooseEntry (es : List Entry) (user host : String) : Option Entry :=
  (getUserIdx (es.map (·.key)) user host false).bind (fun i => es[i]?)

/-- **Impl model** of one statement. -/
def stepI (es : List Entry) : Op → List Entry
  | .createUser k pl au _ => if hasKey es k then es else es ++ [mkEntry k pl au false]
  | .createRole n => if hasKey es (n, "%") then es else es ++ [roleEntry n]
  | .alterUser k pl au =>
    match withKey es k with
    | e :: _ => eraseKey es k ++ [{ e with a := { e.a with plugin := pl, auth := au } }]
    | [] => es
  | .dropUser k =>
    match chooseEntry es k.1 k.2 with
    | some e => eraseKey es e.key
    | none => es
  | .grantGlobal _ => es
  | .grantScoped k => es.map (fun e => if e.key == k then { e with subPriv := true } else e)
  | .flush => es
  | .dmlUpdate k u =>
    match withKey es k with
    | [] => es
    | [e] =>
      if u.apply e.a = e.a then es                                         -- unchanged rows are not written
      else if e.subPriv then es ++ [{ a := u.apply e.a, subPriv := false }]  -- Remove(old) finds nothing
      else eraseKey es k ++ [{ a := u.apply e.a, subPriv := false }]
    | many => eraseKey es k ++ many.map (fun e => { a := u.apply e.a, subPriv := false })  -- outside the envelope
  | .dmlDelete k => eraseKey es k
  | .dmlInsert k pl au lock => if hasKey es k then es else es ++ [mkEntry k pl au lock]

/-- **Spec** of one statement. -/
def stepS (es : List Entry) : Op → List Entry
  | .createUser k pl au lock => if hasKey es k then es else es ++ [mkEntry k pl au lock]
  | .createRole n => if hasKey es (n, "%") then es else es ++ [roleEntry n]
  | .alterUser k pl au =>
    match withKey es k with
    | e :: _ => eraseKey es k ++ [{ e with a := { e.a with plugin := pl, auth := au } }]
    | [] => es
  | .dropUser k => eraseKey es k
  | .grantGlobal _ => es
  | .grantScoped k => es.map (fun e => if e.key == k then { e with subPriv := true } else e)
  | .flush => es
  | .dmlUpdate k u =>
    match withKey es k with
    | [] => es
    | e :: _ =>
      if u.apply e.a = e.a then es
      else eraseKey es k ++ [{ a := u.apply e.a, subPriv := false }]
  | .dmlDelete k => eraseKey es k
  | .dmlInsert k pl au lock => if hasKey es k then es else es ++ [mkEntry k pl au lock]

/-- Go: `Reader.GetUser` panics ("too many matching users") when the primary key holds two entries. -/
def dupKey (es : List Entry) (user host : String) : Bool := 1 < (withKey es (user, normHost host)).length

/-- **Impl model** of a native-password login attempt: `userValidator.HandleUser` for
`mysql_native_password` (is the method eligible?), then `UserEntryWithHash`. -/
inductive LoginOut where
  | noMethod
  | out (o : Out)
  deriving Repr, DecidableEq, Inhabited

def loginI (H : Bytes → Bytes) (es : List Entry) (user host : String) (salt resp : Bytes) : LoginOut :=
  if dupKey es user host then .out .crash
  else if !handleUser true (acctsOf es) defaultAuthMethod user host then .noMethod
  else .out (authNative H true (acctsOf es) user host salt resp)

/-- Spec of the same attempt (`none`: the Spec's account choice is not determined). -/
def loginS (H : Bytes → Bytes) (es : List Entry) (user host : String) (salt resp : Bytes) : Option LoginOut :=
  match chooseSpec (acctsOf es) user host with
  | some none => none
  | none => some (.out .deny)        -- unknown login: offered the default method, fails inside it
  | some (some a) =>
    if a.plugin ≠ defaultAuthMethod then some .noMethod
    else (authNativeSpec H (acctsOf es) user host salt resp).map .out

inductive Ev where
  | op (o : Op)
  | login (user host : String) (salt resp : Bytes)
  deriving Repr, DecidableEq

/-- State after the statements of a history (logins change nothing). -/
def stateI (es : List Entry) : List Ev → List Entry
  | [] => es
  | .op o :: r => stateI (stepI es o) r
  | .login .. :: r => stateI es r

def stateS (es : List Entry) : List Ev → List Entry
  | [] => es
  | .op o :: r => stateS (stepS es o) r
  | .login .. :: r => stateS es r

/-- The login observations of a history, in order. -/
def runI (H : Bytes → Bytes) (es : List Entry) : List Ev → List LoginOut
  | [] => []
  | .op o :: r => runI H (stepI es o) r
  | .login u h s p :: r => loginI H es u h s p :: runI H es r

def runS (H : Bytes → Bytes) (es : List Entry) : List Ev → List (Option LoginOut)
  | [] => []
  | .op o :: r => runS H (stepS es o) r
  | .login u h s p :: r => loginS H es u h s p :: runS H es r

/-! ## regions (known defects of the unchanged tree, decided per account key) -/

def regionLock : String := "create_user_account_lock_ignored"
def regionDup : String := "dml_update_keeps_old_row_of_scoped_account"

/-- Which account keys a statement taints (Impl state and Spec state may differ for that key from here on)
and which it clears. `es` is the Impl state before the statement. -/
def taintStep (es : List Entry) (ts : List (Key × String)) : Op → List (Key × String)
  | .createUser k _ _ true => if hasKey es k then ts else ts ++ [(k, regionLock)]
  | .dmlUpdate k u =>
    match withKey es k with
    | [e] => if e.subPriv && u.apply e.a != e.a then ts ++ [(k, regionDup)] else ts
    | _ => ts
  | .dropUser k => ts.filter (fun t => t.1 != k)
  | .dmlDelete k => ts.filter (fun t => t.1 != k)
  | _ => ts

def taintOf (ts : List (Key × String)) (k : Key) : Option String := (ts.find? (fun t => t.1 == k)).map (·.2)

/-- The statement is inside the envelope in which Impl and Spec agree. -/
def okOp (es : List Entry) : Op → Bool
  | .createUser _ _ _ lock => !lock
  | .dropUser k => hasKey es k && k.2 != "127.0.0.1" && k.2 != "::1"
  | .dmlUpdate k u =>
    match withKey es k with
    | [] => true
    | [e] => !e.subPriv || u.apply e.a == e.a
    | _ => false
  | _ => true

def okHist (es : List Entry) : List Ev → Bool
  | [] => true
  | .op o :: r => okOp es o && okHist (stepS es o) r
  | .login .. :: r => okHist es r

/-! ## a read-through cache keyed by a generation counter -/
section Cache
variable {σ ο κ ν : Type} [DecidableEq κ]

inductive CEv (ο κ : Type) where
  | op (o : ο)
  | ask (k : κ)

structure Cached (σ κ ν : Type) where
  st : σ
  gen : Nat
  cache : List (κ × ν × Nat)

def cacheGet (c : List (κ × ν × Nat)) (k : κ) (gen : Nat) : Option ν :=
  match c.find? (fun e => e.1 = k) with
  | some (_, v, g) => if g = gen then some v else none
  | none => none

/-- Answers without a cache. -/
def runU (step : σ → ο → σ) (look : σ → κ → Option ν) : σ → List (CEv ο κ) → List (Option ν)
  | _, [] => []
  | s, .op o :: r => runU step look (step s o) r
  | s, .ask k :: r => look s k :: runU step look s r

/-- Answers with the cache: a hit is an entry of the current generation; only successful lookups are
remembered; `bumps o` says whether operation `o` advances the generation. -/
def runC (step : σ → ο → σ) (look : σ → κ → Option ν) (bumps : ο → Bool) :
    Cached σ κ ν → List (CEv ο κ) → List (Option ν)
  | _, [] => []
  | c, .op o :: r => runC step look bumps { c with st := step c.st o, gen := if bumps o then c.gen + 1 else c.gen } r
  | c, .ask k :: r =>
    match cacheGet c.cache k c.gen with
    | some v => some v :: runC step look bumps c r
    | none =>
      match look c.st k with
      | some v => some v :: runC step look bumps { c with cache := (k, v, c.gen) :: c.cache } r
      | none => none :: runC step look bumps c r

end Cache

/-- Which statements go through an `Editor` (whose `Close` bumps `MySQLDb.updateCounter`): everything but
DML on `mysql.user`. -/
def bumpsEditor : Op → Bool
  | .dmlUpdate .. => false
  | .dmlDelete .. => false
  | .dmlInsert .. => false
  | _ => true

end Gms.AuthHist
