/-
C32 (part 3) — JSON numbers: how a number literal is held by a document (sql/types/json.go
`convertJsonNumbers`: float64 / int64 / uint64), how a held number is printed
(sql/types/json_encode.go `writeMarshalledValue`, cases float64 / int64 / uint64) and what the
printed text is held as when it is parsed again. Core-only.

Covered: literals whose value is an INTEGER of any magnitude below 10^308 — plain digit strings
(`18446744073709551616`), and literals with a decimal point / exponent whose value is integral
(`1e19`, `6.02214076e23`, `1.5e3`, `-0.0`, `12.0`). Non-integral values (0.5, 1e-3) are outside this
model (the harness evaluates their round trip on the real code only).

A literal is structured (sign, decimal mantissa, decimal exponent ≥ 0, "text contains . e E"); the
harness renders it to text, so the digit-level scanners (encoding/json, strconv.ParseInt/ParseUint/
ParseFloat) are tied by correspondence only. `strconv.ParseFloat` is modelled by its contract
(nearest double, ties to even: `roundF64`), `strconv.FormatFloat(x, 'f', -1, 64)` by its contract for
integral x (the shortest digit string that parses back to x, closest to x, zero padded: `shortest`).
The float64 → int64 conversion is the amd64 one (CVTTSD2SQ: out of range ↦ -2^63).
-/
namespace Gms.JsonNum

/-- `strconv.ParseFloat` of an integer value `n` (< 2^1024): the nearest double, ties to even. The
result is again an integer, returned as a `Nat`. -/
def roundF64 (n : Nat) : Nat :=
  if n < 2 ^ 53 then n
  else
    let s := n.log2 - 52
    let q := n / 2 ^ s
    let r := n % 2 ^ s
    let half := 2 ^ (s - 1)
    (if r > half ∨ (r = half ∧ q % 2 = 1) then q + 1 else q) * 2 ^ s

/-- A number literal with an integral value `mant · 10^exp10`; `floaty`: the text contains one of
`.`, `e`, `E`. -/
structure Lit where
  neg : Bool
  mant : Nat
  exp10 : Nat
  floaty : Bool
  deriving DecidableEq, Repr

def Lit.mag (l : Lit) : Nat := l.mant * 10 ^ l.exp10

/-- A number as the Go document holds it. `f64 neg mag`: the double ±mag (`f64 true 0` = -0.0). -/
inductive Num
  | f64 (neg : Bool) (mag : Nat)
  | i64 (v : Int)
  | u64 (v : Nat)
  deriving DecidableEq, Repr

/-- The exact numeric value (what "equal document" compares). -/
def Num.val : Num → Int
  | .f64 neg mag => if neg then -(mag : Int) else (mag : Int)
  | .i64 v => v
  | .u64 v => (v : Int)

/-- Values a held number can have: a double is its own rounding, int64 / uint64 are in range. -/
def Num.wf : Num → Prop
  | .f64 _ mag => roundF64 mag = mag
  | .i64 v => -(2 ^ 63 : Int) ≤ v ∧ v < 2 ^ 63
  | .u64 v => v < 2 ^ 64

def fitsI64 (v : Int) : Bool := decide (-(2 ^ 63 : Int) ≤ v) && decide (v < 2 ^ 63)

def signed (neg : Bool) (m : Nat) : Int := if neg then -(m : Int) else (m : Int)

/-- Go: `convertJsonNumbers`, case json.Number. -/
def convert (l : Lit) : Num :=
  let f := roundF64 l.mag                       -- f, _ := val.Float64()
  if l.floaty then .f64 l.neg f                 -- strings.ContainsAny(s, ".eE")
  else if f < 2 ^ 53 then .f64 l.neg f          -- math.Abs(f) < (1 << 53)
  else if fitsI64 (signed l.neg l.mag) then .i64 (signed l.neg l.mag)   -- val.Int64()
  else if !l.neg && decide (l.mag < 2 ^ 64) then .u64 l.mag             -- strconv.ParseUint(s, 10, 64)
  else .f64 l.neg f

/-- Go on amd64: `int64(x)` for an integral double x. -/
def toInt64 (v : Int) : Int := if fitsI64 v then v else -(2 ^ 63 : Int)

def ndigits (n : Nat) : Nat := (Nat.toDigits 10 n).length

/-- The `d`-digit decimals next to `mag` (zero padded to the length of `mag`) that parse back to `mag`;
the closer one if both do. -/
def shortestAt (mag d : Nat) : Option Nat :=
  let k := ndigits mag - d
  let lo := mag / 10 ^ k * 10 ^ k
  let hi := lo + 10 ^ k
  let okLo := roundF64 lo == mag
  let okHi := roundF64 hi == mag
  if okLo && okHi then some (if mag - lo ≤ hi - mag then lo else hi)
  else if okLo then some lo
  else if okHi then some hi
  else none

/-- `strconv.FormatFloat(x, 'f', -1, 64)` for an integral double x = mag: the fewest significant
digits (1..17) that still parse back to x, then zeros. -/
def shortest (mag : Nat) : Nat :=
  match (List.range 17).findSome? (fun d => shortestAt mag (d + 1)) with
  | some c => c
  | none => mag

/-- Go: `writeMarshalledValue`, cases float64 / int64 / uint64. The printed text of an integral number
is an optional `-` and decimal digits; returned as (sign, magnitude). -/
def printNum : Num → Bool × Nat
  | .f64 neg mag =>
    let v := signed neg mag
    let c := toInt64 v
    if v = c then (decide (c < 0), c.natAbs)      -- val == float64(int64(val)) → FormatInt(int64(val))
    else (neg, shortest mag)                      -- FormatFloat(val, 'f', -1, 64)
  | .i64 v => (decide (v < 0), v.natAbs)
  | .u64 v => (false, v)

/-- The printed text read as a literal: plain digits. -/
def reLit (p : Bool × Nat) : Lit := ⟨p.1, p.2, 0, false⟩

/-- parse ∘ print. -/
def reparse (n : Num) : Num := convert (reLit (printNum n))

/-- Defect class of the unchanged code: a double outside the int64 range is printed with the
shortest digits (not its exact value), and that text is then held as an exact int64 / uint64 — a
different number. (Inhabited by positive doubles in [2^63, 2^64) that are not short decimals.) -/
def bigFloatReparsedAsInteger : Num → Bool
  | .f64 neg mag =>
    let v := signed neg mag
    let c := shortest mag
    decide (v ≠ toInt64 v) && decide (c ≠ mag) && (fitsI64 (signed neg c) || (!neg && decide (c < 2 ^ 64)))
  | _ => false

/-- Spec: the printed text denotes the same number. -/
def specText (n : Num) : Bool × Nat := (decide (n.val < 0), n.val.natAbs)

def showText (p : Bool × Nat) : String := (if p.1 then "-" else "") ++ toString p.2

def Num.kind : Num → String
  | .f64 _ _ => "f" | .i64 _ => "i" | .u64 _ => "u"

end Gms.JsonNum
