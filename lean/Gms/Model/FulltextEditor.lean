/-
C51 — Impl model of sql/fulltext/fulltext_editor.go: how `TableEditor.Insert` / `Delete` / `Update`
maintain the four pseudo-index tables, and the Spec the tables must satisfy as functions of the
parent table's rows (core-only).

Each pseudo-index table has a primary key, so its contents are modelled as a total function from the
key to the stored value, `0` / `false` meaning "no entry" (the order of rows in a table is not part of
the property; the correspondence run compares sorted dumps):

  ROW_COUNT     (row hash)                → copies            `rc : Row → Nat`   (hash = row content)
  DOC_COUNT     (word class, row key)     → occurrences       `dc : κ → ρ → Nat`
  GLOBAL_COUNT  (word class)              → number of rows    `gc : κ → Nat`
  POSITION      (word, row key, position) → present           `pos : Word → ρ → Nat → Bool`

`κ` = classes of the collation hash (`key`), `ρ` = what identifies a row in DOC_COUNT / POSITION
(`rk`: the primary-key columns for a keyed table, the row hash for a keyless one).
ROW_COUNT's third column (unique-word count) is a function of the row content and is not modelled.
-/
import Gms.Model.Fulltext
namespace Gms.Fulltext

section editor
variable {κ : Type} [DecidableEq κ] {ρ : Type} [DecidableEq ρ]
variable (key : Word → κ) (rk : Row → ρ) (minLen maxLen : Nat)

structure Idx (κ ρ : Type) where
  rc : Row → Nat
  dc : κ → ρ → Nat
  gc : κ → Nat
  pos : Word → ρ → Nat → Bool

def Idx.empty : Idx κ ρ := ⟨fun _ => 0, fun _ _ => 0, fun _ => 0, fun _ _ _ => false⟩

/-- Go: `parser.unique` with `parser.DocumentCount`: (first spelling, class, count), all words. -/
def uniq (r : Row) : List (Word × κ × Nat) := uniqOf key minLen r

/-- The entries `Insert` writes: `if len(word) > maxWordLength { continue }`. -/
def stor (r : Row) : List (Word × κ × Nat) := (uniq key minLen r).filter fun e => bytes e.1 ≤ maxLen

def hasClass (l : List (Word × κ × Nat)) (k : κ) : Bool := l.any fun e => e.2.1 = k

/-- Count recorded for class `k` (0 when absent). -/
def cntOf (k : κ) : List (Word × κ × Nat) → Nat
  | [] => 0
  | (_, k', n) :: rest => if k' = k then n else cntOf k rest

/-- A POSITION entry of row `r`: word occurrence `(w, p)` with `len(w) <= maxWordLength`. -/
def hasPos (r : Row) (w : Word) (p : Nat) : Bool :=
  (tokenize minLen (docOf r)).any fun t => t.1 = w && t.2 = p && bytes t.1 ≤ maxLen

/-- Go: `TableEditor.Insert`. `rowCount >= 1` (an identical row exists): bump ROW_COUNT and the
GLOBAL_COUNT of every storable unique word. Otherwise: new ROW_COUNT entry, POSITION entries,
DOC_COUNT entries (duplicate-key errors are ignored: an existing entry stays), GLOBAL_COUNT + 1. -/
def edInsert (ix : Idx κ ρ) (r : Row) : Idx κ ρ :=
  let st := stor key minLen maxLen r
  let gc' := fun k => ix.gc k + (if hasClass st k then 1 else 0)
  if ix.rc r ≥ 1 then { ix with rc := fun x => if x = r then ix.rc r + 1 else ix.rc x, gc := gc' }
  else
    { rc := fun x => if x = r then 1 else ix.rc x
      pos := fun w q p => ix.pos w q p || (decide (q = rk r) && hasPos minLen maxLen r w p)
      dc := fun k q =>
        if q = rk r ∧ hasClass st k = true then (if ix.dc k q ≠ 0 then ix.dc k q else cntOf k st) else ix.dc k q
      gc := gc' }

/-- Go: `TableEditor.Delete`; `none` = the statement fails. `rowCount == 0`: nothing. `> 1`:
ROW_COUNT - 1 and GLOBAL_COUNT - 1 for every unique word — no length guard; a class without entry
stays absent. `== 1`: ROW_COUNT entry removed, POSITION entries of the storable words removed,
then for every unique word — no length guard — the DOC_COUNT entry is deleted (a word longer than
the key column makes this an error) and GLOBAL_COUNT decremented. -/
def edDelete (ix : Idx κ ρ) (r : Row) : Option (Idx κ ρ) :=
  let us := uniq key minLen r
  let gc' := fun k => ix.gc k - (if hasClass us k then 1 else 0)
  if ix.rc r = 0 then some ix
  else if ix.rc r > 1 then some { ix with rc := fun x => if x = r then ix.rc r - 1 else ix.rc x, gc := gc' }
  else if us.any (fun e => bytes e.1 > maxLen) then none
  else some
    { rc := fun x => if x = r then 0 else ix.rc x
      pos := fun w q p => ix.pos w q p && !(decide (q = rk r) && hasPos minLen maxLen r w p)
      dc := fun k q => if q = rk r ∧ hasClass us k = true then 0 else ix.dc k q
      gc := gc' }

/-- Go: `TableEditor.Update` = `Delete(old)` then `Insert(new)`. -/
def edUpdate (ix : Idx κ ρ) (old new : Row) : Option (Idx κ ρ) :=
  (edDelete key rk minLen maxLen ix old).map fun ix' => edInsert key rk minLen maxLen ix' new

/-! ### Spec: the tables as functions of the parent table's rows -/

def rcSpec (rows : List Row) (r : Row) : Nat := rows.count r

/-- GLOBAL_COUNT: number of rows (with multiplicity) containing a storable word of the class. -/
def gcSpec (rows : List Row) (k : κ) : Nat :=
  (rows.filter fun r => hasClass (stor key minLen maxLen r) k).length

/-- DOC_COUNT: occurrences of the class in the document of the row with that key. -/
def dcSpec (rows : List Row) (k : κ) (q : ρ) : Nat :=
  match rows.find? (fun r => rk r = q) with
  | some r => if hasClass (stor key minLen maxLen r) k then cntOf k (stor key minLen maxLen r) else 0
  | none => 0

def posSpec (rows : List Row) (w : Word) (q : ρ) (p : Nat) : Bool :=
  rows.any fun r => decide (rk r = q) && hasPos minLen maxLen r w p

/-- The index describes exactly the rows. -/
def Sync (rows : List Row) (ix : Idx κ ρ) : Prop :=
  (∀ r, ix.rc r = rcSpec rows r) ∧ (∀ k q, ix.dc k q = dcSpec key rk minLen maxLen rows k q) ∧
  (∀ k, ix.gc k = gcSpec key minLen maxLen rows k) ∧ (∀ w q p, ix.pos w q p = posSpec rk minLen maxLen rows w q p)

/-- Row keys identify rows (PRIMARY KEY uniqueness for keyed tables; trivially true for the row hash). -/
def KeysOK (rows : List Row) : Prop := ∀ a ∈ rows, ∀ b ∈ rows, rk a = rk b → a = b

/-- Row-level editor calls of a statement. -/
inductive EdOp where
  | ins (r : Row)
  | del (r : Row)
  | upd (old new : Row)

/-- The parent table under a row-level call (as a multiset: order is irrelevant). -/
def tblStep (rows : List Row) : EdOp → List Row
  | .ins r => r :: rows
  | .del r => rows.erase r
  | .upd o n => n :: rows.erase o

def edStep (ix : Idx κ ρ) : EdOp → Option (Idx κ ρ)
  | .ins r => some (edInsert key rk minLen maxLen ix r)
  | .del r => edDelete key rk minLen maxLen ix r
  | .upd o n => edUpdate key rk minLen maxLen ix o n

/-- The call is admissible on the table: deleted rows exist, inserted rows do not break key
uniqueness. -/
def opOK (rows : List Row) : EdOp → Prop
  | .ins r => KeysOK rk (r :: rows)
  | .del r => r ∈ rows
  | .upd o n => o ∈ rows ∧ KeysOK rk (n :: rows.erase o)

/-- No word of the row's document is longer than `maxWordLength`. -/
def noLong (r : Row) : Prop := hasLong minLen maxLen r = false

def opNoLong : EdOp → Prop
  | .ins _ => True
  | .del r => noLong minLen maxLen r
  | .upd o _ => noLong minLen maxLen o

end editor

end Gms.Fulltext
