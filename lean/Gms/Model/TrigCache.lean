/-
C11 — subquery caches inside a statement whose data changes while it runs: trigger bodies (core-only).

Go code modelled:
  sql/plan/subquery.go         Subquery.Eval / EvalMultiple / HashMultiple: the first result is kept in the node (`cache`,
                               `resultsCached`) and served to every later evaluation when `canCacheResults()`, i.e.
                               `correlated.Empty() && !volatile`; HasResultRow (EXISTS) reads the cell but never fills it
  sql/planbuilder/scalar.go    every subquery built while a trigger body is planned is marked `WithVolatile()`
  sql/plan/trigger executor    the body is planned once per statement and executed once per affected row

The trigger bodies of the fragment read and write a side table `log(x INT)`:

    CREATE TRIGGER … BEFORE INSERT|UPDATE ON t FOR EACH ROW BEGIN
      [SET new.k = (SELECT COALESCE(AGG(x), 0) FROM log [WHERE x < operand]);]
      [IF test THEN SET new.s = 'seen'; END IF;]
      INSERT INTO log VALUES (operand);
    END

so the data a subquery of the body reads changes between two executions of the body inside one statement.
`SubCell` (Gms/Model/QueryCache.lean) is the cell of one subquery node; a statement has one cell per
subquery of the body, shared by all rows the statement touches.
-/
import Gms.Model.QueryCache
namespace Gms.TrigCache
open Gms.Sql Gms.QueryCache

/-- the side table -/
abbrev Log := List Int

/-- the row the trigger runs for: `new.id`, `new.k`, and whether `new.s` was set to 'seen' -/
structure NewRow where
  id : Int
  k : Int
  seen : Bool := false
  deriving Repr, DecidableEq, Inhabited

inductive Operand where
  | const (c : Int)
  | newId
  | newK
  deriving Repr, DecidableEq, Inhabited

def Operand.eval (r : NewRow) : Operand → Int
  | .const c => c
  | .newId => r.id
  | .newK => r.k

/-- an operand that mentions the row makes the subquery correlated -/
def Operand.correlated : Operand → Bool
  | .const _ => false
  | _ => true

inductive Agg where
  | count | max | sum
  deriving Repr, DecidableEq, Inhabited

def Agg.eval (a : Agg) (xs : List Int) : Int :=
  match a with
  | .count => xs.length
  | .max => match xs with
    | [] => 0
    | x :: rest => rest.foldl (fun m y => if y > m then y else m) x
  | .sum => xs.foldl (· + ·) 0

/-- `(SELECT COALESCE(AGG(x), 0) FROM log [WHERE x < operand])` -/
structure SubQ where
  agg : Agg
  below : Option Operand := none
  deriving Repr, DecidableEq, Inhabited

def SubQ.correlated (q : SubQ) : Bool :=
  match q.below with
  | some o => o.correlated
  | none => false

/-- the rows the subquery yields now (one row, one column) -/
def SubQ.rows (q : SubQ) (r : NewRow) (log : Log) : List Value :=
  match q.below with
  | none => [.int (q.agg.eval log)]
  | some o => [.int (q.agg.eval (log.filter (· < o.eval r)))]

def scalarOf (rows : List Value) : Int :=
  match rows with
  | .int i :: _ => i
  | _ => 0

inductive Test where
  /-- `operand IN (SELECT x FROM log)` -/
  | inLog (o : Operand)
  /-- `(SELECT …) > c` -/
  | subGt (q : SubQ) (c : Int)
  /-- `EXISTS (SELECT 1 FROM log WHERE x = operand)` — HasResultRow: never fills the cell -/
  | existsEq (o : Operand)
  deriving Repr, DecidableEq, Inhabited

/-- the IN subquery is uncorrelated: the operand is on the left of IN, outside the subquery -/
def Test.correlated : Test → Bool
  | .inLog _ => false
  | .subGt q _ => q.correlated
  | .existsEq o => o.correlated

def Test.rows (t : Test) (r : NewRow) (log : Log) : List Value :=
  match t with
  | .inLog _ => log.map .int
  | .subGt q _ => q.rows r log
  | .existsEq o => (log.filter (· == o.eval r)).map .int

def Test.decide (t : Test) (r : NewRow) (rows : List Value) : Bool :=
  match t with
  | .inLog o => rows.contains (.int (o.eval r))
  | .subGt _ c => scalarOf rows > c
  | .existsEq _ => !rows.isEmpty

/-- does evaluating the test fill the cell? (`HasResultRow` does not) -/
def Test.fills : Test → Bool
  | .existsEq _ => false
  | _ => true

structure Body where
  setK : Option SubQ := none
  mark : Option Test := none
  logs : Operand := .newId
  deriving Repr, DecidableEq, Inhabited

/-- the cells of the body's two subquery nodes -/
structure Cells where
  c1 : SubCell := {}
  c2 : SubCell := {}
  deriving Repr, DecidableEq, Inhabited

/-- `canCacheResults()` of a subquery of a trigger body; `volatile` is the mark the plan builder sets -/
def cacheable (volatile correlated : Bool) : Bool := !correlated && !volatile

/-- Impl model: one execution of the body for one row. Returns the row as it is stored, the log and the cells. -/
def execRow (volatile : Bool) (b : Body) (cs : Cells) (log : Log) (r : NewRow) : NewRow × Log × Cells :=
  let (r1, c1) := match b.setK with
    | none => (r, cs.c1)
    | some q =>
      let (rows, c) := cs.c1.eval (cacheable volatile q.correlated) (q.rows r log)
      ({ r with k := scalarOf rows }, c)
  let (r2, c2) := match b.mark with
    | none => (r1, cs.c2)
    | some t =>
      let (rows, c) := cs.c2.eval (t.fills && cacheable volatile t.correlated) (t.rows r1 log)
      (if t.decide r1 rows then { r1 with seen := true } else r1, c)
  (r2, log ++ [b.logs.eval r2], { c1 := c1, c2 := c2 })

/-- one statement: the body runs for every row in turn with the same cells -/
def execRows (volatile : Bool) (b : Body) : Cells → Log → List NewRow → List NewRow × Log
  | _, log, [] => ([], log)
  | cs, log, r :: rest =>
    let (r', log', cs') := execRow volatile b cs log r
    let (out, logN) := execRows volatile b cs' log' rest
    (r' :: out, logN)

/-- Spec: every subquery of the body is evaluated on the data as it is when the body runs -/
def specRow (b : Body) (log : Log) (r : NewRow) : NewRow × Log :=
  let r1 := match b.setK with
    | none => r
    | some q => { r with k := scalarOf (q.rows r log) }
  let r2 := match b.mark with
    | none => r1
    | some t => if t.decide r1 (t.rows r1 log) then { r1 with seen := true } else r1
  (r2, log ++ [b.logs.eval r2])

def specRows (b : Body) : Log → List NewRow → List NewRow × Log
  | log, [] => ([], log)
  | log, r :: rest =>
    let (r', log') := specRow b log r
    let (out, logN) := specRows b log' rest
    (r' :: out, logN)

/-- the statement as the engine runs it: fresh cells, subqueries of the body marked volatile -/
def implStmt (b : Body) (log : Log) (rows : List NewRow) : List NewRow × Log := execRows true b {} log rows

/-- the variant the tie must exclude (the class of the seeded change): the mark is lost -/
def implStmtUnmarked (b : Body) (log : Log) (rows : List NewRow) : List NewRow × Log := execRows false b {} log rows

end Gms.TrigCache
