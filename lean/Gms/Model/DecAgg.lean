/-
C08 — aggregation buffers over *shared value objects* (core-only).

A DECIMAL cell of a table is a `*apd.Decimal`: evaluating the column on a row hands the buffer the very
object the table stores, and `apd.Decimal` is mutable (`DecimalCtx.Add(cur, cur, n)` adds in place).
`Gms.GroupAgg` folds over *values* and therefore cannot express an aggregate that keeps or mutates the
object it was handed. This model keeps the objects:

* `Heap` — the DECIMAL objects stored in the table (one cell per non-NULL value, in hundredths);
* `Obj`  — what a buffer holds: `own v` (an object the buffer allocated itself: `apd.New(0,0)`, nobody
  else has the pointer) or `cell r` (the pointer a row evaluation returned = the stored object);
* `Policy` — how `sumBuffer.PerformSum` starts the running sum on the first non-NULL `*apd.Decimal`:
  `fresh` = allocate a zero and add into it (the code at the pin), `adopt` = keep the row's object as the
  accumulator (the class of change this model exists to express; the run-time fact `aggAlias` decides
  which one the compiled code has);
* a statement `SELECT [p,] F1(d), …, Fk(d) FROM t [GROUP BY p]` runs row-major over the buffers of the
  row's group (sql/plan/group_by.go, groupByIter / groupByGroupingIter: `for each row { for each buffer
  { Update } }`, `Eval` of every buffer after the last row), a *script* is a sequence of such read-only
  statements over the same table, each followed by a dump of the stored column.

Groups are processed group-major (the rows of a group touch the cells of that group only, so the
interleaving of different groups is unobservable for both policies).
-/
import Gms.Model.Window
import Gms.Model.GroupAgg
namespace Gms.DecAgg
open Gms.Window Gms.GroupAgg

abbrev Heap := List Int

def rd (h : Heap) (r : Nat) : Int := h.getD r 0
def wr (h : Heap) (r : Nat) (v : Int) : Heap := h.set r v

inductive Policy where
  | fresh | adopt
  deriving Repr, DecidableEq, Inhabited

inductive Fn where
  | count | sum | avg | min | max | anyv
  deriving Repr, DecidableEq, Inhabited

def fnOfName : String → Option Fn
  | "count" => some .count | "sum" => some .sum | "avg" => some .avg
  | "min" => some .min | "max" => some .max | "anyv" => some .anyv
  | _ => none

inductive Obj where
  | own (v : Int)
  | cell (r : Nat)
  deriving Repr, DecidableEq, Inhabited

def Obj.val (h : Heap) : Obj → Int
  | .own v => v
  | .cell r => rd h r

structure Buf where
  fn : Fn
  obj : Option Obj := none
  cnt : Nat := 0
  deriving Repr, DecidableEq, Inhabited

/-- `sql.DecimalCtx.Add(curSum, curSum, n)`: the receiver is overwritten in place -/
def addInto (h : Heap) (o : Obj) (n : Int) : Heap × Obj :=
  match o with
  | .own v => (h, .own (v + n))
  | .cell r => (wr h r (rd h r + n), .cell r)

/-- `sumBuffer.PerformSum`, branch `case *apd.Decimal` -/
def sumStep (pol : Policy) (h : Heap) (o : Option Obj) (r : Nat) : Heap × Option Obj :=
  match o with
  | none =>
    match pol with
    | .fresh => (h, some (.own (0 + rd h r)))   -- m.sum = apd.New(0, 0); Add(m.sum, m.sum, n)
    | .adopt => (h, some (.cell r))             -- m.sum = n
  | some a =>
    let (h', a') := addInto h a (rd h r)
    (h', some a')

/-- `Update` of one buffer on one row value (`none` = NULL is skipped by every buffer here) -/
def Buf.update (pol : Policy) (h : Heap) (b : Buf) : Option Nat → Heap × Buf
  | none => (h, b)
  | some r =>
    match b.fn with
    | .count => (h, { b with cnt := b.cnt + 1 })
    | .sum | .avg =>
      let (h', o) := sumStep pol h b.obj r
      (h', { b with obj := o, cnt := b.cnt + 1 })
    | .min =>
      (h, match b.obj with
          | none => { b with obj := some (.cell r) }
          | some m => if rd h r < m.val h then { b with obj := some (.cell r) } else b)
    | .max =>
      (h, match b.obj with
          | none => { b with obj := some (.cell r) }
          | some m => if rd h r > m.val h then { b with obj := some (.cell r) } else b)
    | .anyv =>
      (h, match b.obj with
          | none => { b with obj := some (.cell r) }
          | some _ => b)

/-- `Eval`, read when the result row is built (after the last row of the statement) -/
def Buf.eval (h : Heap) (b : Buf) : GOut :=
  match b.fn with
  | .count => .int b.cnt
  | .avg =>
    match b.obj with
    | none => .null                               -- sum.Eval() = nil: the type switch falls through
    | some o =>
      if o.val h = 0 ∧ b.cnt = 0 then .null       -- `s.IsZero() && a.rows == 0`
      else if b.cnt = 0 then .int 0
      else .rat (o.val h) b.cnt                   -- DecimalDiv(s, rows, scale+4)
  | _ => match b.obj with | none => .null | some o => .int (o.val h)

/-- one row through all buffers of its group, in SELECT order -/
def stepBufs (pol : Policy) (h : Heap) : List Buf → Option Nat → Heap × List Buf
  | [], _ => (h, [])
  | b :: bs, v =>
    let (h1, b1) := b.update pol h v
    let (h2, bs2) := stepBufs pol h1 bs v
    (h2, b1 :: bs2)

def runGroup (pol : Policy) (h : Heap) (bufs : List Buf) : List (Option Nat) → Heap × List Buf
  | [] => (h, bufs)
  | v :: vs =>
    let (h1, b1) := stepBufs pol h bufs v
    runGroup pol h1 b1 vs

def initBufs (fns : List Fn) : List Buf := fns.map fun f => { fn := f }

def runGroups (pol : Policy) (h : Heap) (fns : List Fn) :
    List (Val × List (Option Nat)) → Heap × List (Val × List Buf)
  | [] => (h, [])
  | (k, vs) :: rest =>
    let (h1, bs) := runGroup pol h (initBufs fns) vs
    let (h2, out) := runGroups pol h1 fns rest
    (h2, (k, bs) :: out)

/-! ## table, statements, scripts -/

/-- a row of `t (id, p, d)`: `d` is a reference into the heap -/
structure TRow where
  id : Int
  p : Val
  d : Option Nat
  deriving Repr, DecidableEq

/-- lay the payload rows `(id, p, d)` out: one heap cell per non-NULL `d`, in row order -/
def mkTable : List (Int × Val × Val) → Heap → Heap × List TRow
  | [], h => (h, [])
  | (i, p, none) :: rest, h =>
    let (h', rows) := mkTable rest h
    (h', { id := i, p := p, d := none } :: rows)
  | (i, p, some v) :: rest, h =>
    let (h', rows) := mkTable rest (h ++ [v])
    (h', { id := i, p := p, d := some h.length } :: rows)

def addTo (key : Val) (x : Option Nat) : List (Val × List (Option Nat)) → List (Val × List (Option Nat))
  | [] => [(key, [x])]
  | (k, xs) :: rest => if k = key then (k, xs ++ [x]) :: rest else (k, xs) :: addTo key x rest

def groupsOf (rows : List TRow) : List (Val × List (Option Nat)) :=
  rows.foldl (fun acc r => addTo r.p r.d acc) []

structure Stmt where
  byP : Bool
  fns : List Fn
  deriving Repr, DecidableEq

/-- the groups a statement aggregates: GROUP BY p, or one group of all rows (also when there are none) -/
def stmtGroups (st : Stmt) (rows : List TRow) : List (Val × List (Option Nat)) :=
  if st.byP then groupsOf rows else [(none, rows.map (·.d))]

/-- Impl: heap after the statement and its result rows (read from the final heap) -/
def runStmt (pol : Policy) (h : Heap) (rows : List TRow) (st : Stmt) : Heap × List (Val × List GOut) :=
  let (h', gs) := runGroups pol h st.fns (stmtGroups st rows)
  (h', gs.map fun (k, bs) => (k, bs.map (Buf.eval h')))

def dump (h : Heap) (rows : List TRow) : List (Int × Val) :=
  rows.map fun r => (r.id, r.d.map (rd h))

/-- a script: every statement is followed by `SELECT id, d FROM t` -/
def runScript (pol : Policy) (h : Heap) (rows : List TRow) : List Stmt → List (List (Val × List GOut) × List (Int × Val))
  | [] => []
  | st :: rest =>
    let (h', res) := runStmt pol h rows st
    (res, dump h' rows) :: runScript pol h' rows rest

/-! ## Spec: every statement is a function of the table's *values*, the table never changes -/

def firstNonNull : List Val → Val
  | [] => none
  | none :: xs => firstNonNull xs
  | some v :: _ => some v

def toG : Fn → GFn
  | .count => .count | .sum => .sum | .avg => .avg | .min => .min | .max => .max | .anyv => .min

def specFn (f : Fn) (xs : List Val) : GOut :=
  match f with
  | .anyv => match firstNonNull xs with | none => .null | some v => .int v
  | f => specEval (toG f) xs

def specStmt (h : Heap) (rows : List TRow) (st : Stmt) : List (Val × List GOut) :=
  (stmtGroups st rows).map fun (k, vs) => (k, st.fns.map fun f => specFn f (vs.map (Option.map (rd h))))

def specScript (h : Heap) (rows : List TRow) (sts : List Stmt) : List (List (Val × List GOut) × List (Int × Val)) :=
  sts.map fun st => (specStmt h rows st, dump h rows)

/-! ## the unit-level probe (regenerated fact `aggAlias`): three distinct objects 1.50, 2.25, 10.00
through one buffer; were the inputs changed, and which object does `Eval` return? -/

def probeHeap : Heap := [150, 225, 1000]

def originOf (f : Fn) (o : Option Obj) : String :=
  match f, o with
  | .count, _ => "scalar"
  | _, none => "nil"
  | .avg, some _ => "fresh"       -- avgBuffer.Eval returns the quotient, a new object
  | _, some (.own _) => "fresh"
  | _, some (.cell r) => "input" ++ toString r

def fnName : Fn → String
  | .count => "count" | .sum => "sum" | .avg => "avg" | .min => "min" | .max => "max" | .anyv => "anyv"

def allFns : List Fn := [.anyv, .avg, .count, .max, .min, .sum]

/-- micro-units of a result (COUNT as is) — what the extractor prints -/
def microOut (f : Fn) : GOut → Int
  | .int v => if f = .count then v else v * 10000
  | .rat n d => if d = 0 then 0 else (2 * n * 10000 + d) / (2 * (d : Int))
  | _ => 0

def probe (pol : Policy) (f : Fn) : String × Bool × String × Int :=
  let (h', bs) := runGroup pol probeHeap [{ fn := f }] [some 0, some 1, some 2]
  match bs with
  | [b] => (fnName f, h' != probeHeap, originOf f b.obj, microOut f (b.eval h'))
  | _ => (fnName f, true, "?", 0)

def probeTable (pol : Policy) : List (String × Bool × String × Int) := allFns.map (probe pol)

/-- the policy a probe table exhibits (`none`: neither shape) -/
def policyOf (t : List (String × Bool × String × Int)) : Option Policy :=
  if t = probeTable .fresh then some .fresh
  else if t = probeTable .adopt then some .adopt
  else none

/-! ## rendering (driver only): decimal values in micro-units -/

def showD : GOut → String
  | .null => "null"
  | .int v => "m" ++ toString (v * 10000)
  | .rat n d => if d = 0 then "nan" else "m" ++ toString ((2 * n * 10000 + d) / (2 * (d : Int)))
  | _ => "?"

def showCell (f : Fn) (o : GOut) : String :=
  match f, o with
  | .count, .int v => "c" ++ toString v
  | _, o => showD o

def showResult (fns : List Fn) (rs : List (Val × List GOut)) : String :=
  let items := rs.map fun (k, os) => showVal k ++ "=" ++ "/".intercalate ((fns.zip os).map fun (f, o) => showCell f o)
  "R[" ++ " ".intercalate (items.foldl (fun acc s => insertStr s acc) []) ++ "]"

def showDump (d : List (Int × Val)) : String :=
  "T[" ++ " ".intercalate (d.map fun (i, v) => toString i ++ "=" ++ (match v with | none => "null" | some x => "m" ++ toString (x * 10000))) ++ "]"

def showScript (sts : List Stmt) (out : List (List (Val × List GOut) × List (Int × Val))) : String :=
  " ; ".intercalate ((sts.zip out).map fun (st, (r, d)) => showResult st.fns r ++ " " ++ showDump d)

end Gms.DecAgg
