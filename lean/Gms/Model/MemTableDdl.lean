/-
M5 `MemTableDdl` — schema changes of the in-memory table between DML statements, and how every
new `tableEditor` finds the columns of the unique indexes afterwards (core-only, executable; used
by C14 only, on top of Gms/Model/MemTable.lean).

Sources modelled:
* memory/table_data.go   `TableData.indexColsForTableEditor` (the unique indexes of the table, their
                         columns resolved BY NAME against the current schema with
                         `columnIndexes` → `Schema.IndexOf`; an index with a missing name is skipped),
                         `columnIndexes`
* memory/table.go        `addColumnToSchema` (ADD COLUMN … [FIRST | AFTER c]: the column is spliced
                         into the schema, `PkOrdinals` at or after the position are bumped, the index
                         definitions are NOT touched), `AddColumn` (`insertValueInRows`: every stored
                         row gets the default at that position), `DropColumn` (non-key column),
                         `ModifyColumn` as used by RENAME COLUMN (the index definitions follow the
                         new name)
* memory/database.go     `RenameTable` (the index expressions are rebuilt; names unchanged)

An index is kept as `TableData.indexes` keeps it: its column NAMES and prefix lengths. The field
ordinals stored inside the index expressions (`GetField.Index()`) are deliberately not part of the
state: ADD COLUMN … FIRST/AFTER leaves them stale and RENAME TABLE overwrites them with positions
inside the index, and the code never reads them when it builds an editor (fact
`indexColsForTableEditor` in Gms/Generated/C14.lean). Column names are numbers (`c<id>` in SQL).
-/
import Gms.Model.MemTable
namespace Gms.MemTable

/-- the table definition with column names: `names[i]` is the name of the column at ordinal `i`;
`idx` are the unique indexes as (column names, prefix lengths). -/
structure NSchema where
  names : List Nat
  cols : List Col
  pk : List Nat                          -- `schema.PkOrdinals`
  idx : List (List Nat × List Nat)
  deriving Repr, Inhabited

/-- Go: `Schema.IndexOf(name, source)`: the ordinal of the (first) column with that name, -1 if none. -/
def indexOf : List Nat → Nat → Option Nat
  | [], _ => none
  | m :: ms, n => if m = n then some 0 else (indexOf ms n).map (· + 1)

/-- Go: `TableData.columnIndexes(colNames)`: the ordinals of the named columns; an error when one
of them is not in the schema. -/
def columnIndexes (names : List Nat) : List Nat → Option (List Nat)
  | [] => some []
  | n :: ns =>
    match indexOf names n, columnIndexes names ns with
    | some i, some is => some (i :: is)
    | _, _ => none

/-- Go: `TableData.indexColsForTableEditor`: (column ordinals, prefix lengths) of every unique
index, resolved by name against the current schema; an index with a missing column is omitted. -/
def indexColsForTableEditor (ns : NSchema) : List (List Nat × List Nat) :=
  ns.idx.filterMap (fun ix => (columnIndexes ns.names ix.1).map (fun cs => (cs, ix.2)))

/-- the ordinal-based schema a `tableEditor` created now works with. -/
def NSchema.resolve (ns : NSchema) : Schema :=
  { cols := ns.cols, pk := ns.pk, uniques := indexColsForTableEditor ns }

/-- CREATE TABLE: column `i` is named `i`; an index over ordinals is an index over these names. -/
def NSchema.ofSchema (s : Schema) : NSchema :=
  { names := List.range s.cols.length, cols := s.cols, pk := s.pk, idx := s.uniques }

/-! ## schema changes -/

inductive Ddl where
  | addCol (p : Nat) (name : Nat) (c : Col)   -- ADD COLUMN name … at ordinal p (0 = FIRST, p = AFTER the column at p-1)
  | dropCol (c : Nat)                         -- DROP COLUMN <the column at ordinal c> (not a key column)
  | renCol (c : Nat) (name : Nat)             -- RENAME COLUMN <the column at ordinal c> TO name
  | renTab                                    -- RENAME TABLE
  deriving Repr, Inhabited

/-- splice `a` in at position `p` (`p ≤ length`; appended otherwise). -/
def insAt {α : Type} : Nat → α → List α → List α
  | 0, a, l => a :: l
  | _ + 1, a, [] => [a]
  | p + 1, a, x :: l => x :: insAt p a l

/-- an ordinal after a column was spliced in at `p`. -/
def bump (p o : Nat) : Nat := if p ≤ o then o + 1 else o

/-- an ordinal after the column at `c` was removed. -/
def unbump (c o : Nat) : Nat := if c < o then o - 1 else o

def renameIn (old new : Nat) (ix : List Nat × List Nat) : List Nat × List Nat :=
  (ix.1.map (fun n => if n = old then new else n), ix.2)

def ddlSchema (ns : NSchema) : Ddl → NSchema
  | .addCol p name c =>
    { names := insAt p name ns.names, cols := insAt p c ns.cols, pk := ns.pk.map (bump p), idx := ns.idx }
  | .dropCol c =>
    { names := ns.names.eraseIdx c, cols := ns.cols.eraseIdx c, pk := ns.pk.map (unbump c), idx := ns.idx }
  | .renCol c name =>
    { ns with names := ns.names.set c name, idx := ns.idx.map (renameIn (ns.names.getD c 0) name) }
  | .renTab => ns

/-- what the schema change does to a stored row (a new column holds NULL: no DEFAULT). -/
def ddlRow : Ddl → Row → Row
  | .addCol p _ _, r => insAt p .null r
  | .dropCol c, r => r.eraseIdx c
  | .renCol _ _, r => r
  | .renTab, r => r

/-- the statement is applicable (MySQL accepts it, and it is inside the model). -/
def ddlOk (ns : NSchema) : Ddl → Bool
  | .addCol p name _ => decide (p ≤ ns.names.length) && !ns.names.contains name
  | .dropCol c =>
    decide (c < ns.names.length) && !ns.pk.contains c &&
      ns.idx.all (fun ix => !ix.1.contains (ns.names.getD c 0))
  | .renCol c name => decide (c < ns.names.length) && !ns.names.contains name
  | .renTab => true

/-- the schema change rewrites the table (Go: `rewriteTable` … `RewriteInserter`): DROP COLUMN does,
ADD COLUMN / RENAME COLUMN / RENAME TABLE on the in-memory table do not. -/
def ddlRewrites : Ddl → Bool
  | .dropCol _ => true
  | _ => false

/-- A rewrite inserts every stored row into the new table through a `tableEditor`, so it fails with
a duplicate-key error (and leaves the table as it was) when two stored rows agree on the primary key
or on a unique index under the Impl's comparison `columnsMatch`. On a table that satisfies the
Spec invariant this happens only inside a defect region (`prefix_bytes_vs_chars`: two strings with
different first characters that share their first byte). -/
def implDup (sch : Schema) (t : List Row) : Bool :=
  anyPair (fun r1 r2 =>
    (!sch.keyless && columnsMatch sch.pk [] r1 r2) ||
      sch.uniques.any (fun u => !hasNullForAnyCols r2 u.1 && columnsMatch u.1 u.2 r1 r2)) t

/-- well-formed table definition: distinct column names, one `Col` per name, every index column and
every key ordinal exists. -/
def NSchema.wf (ns : NSchema) : Bool :=
  decide ns.names.Nodup && decide (ns.cols.length = ns.names.length) &&
    ns.idx.all (fun ix => ix.1.all (fun n => ns.names.contains n)) &&
    ns.pk.all (fun o => decide (o < ns.names.length))

end Gms.MemTable
