/-
C11 — result caches of the executor and their ownership (core-only).

Go code modelled:
  sql/plan/cached_results.go   CachedResults {cachedResults, finalized}, SetCachedResults, WithChildren (copies the cell)
  sql/rowexec/cache.go         buildCachedResults (finalized ⇒ serve the cached rows), cachedResultsIter.Next
                               (rows are saved in the node only when the child reaches io.EOF)
  sql/plan/subquery.go         Subquery {cache, resultsCached}: an uncorrelated, non-volatile subquery is evaluated once
                               per *node instance*; Dispose does not clear it
  engine.go                    QueryWithBindings → bindQuery builds a fresh plan (fresh cells) for every execution; the
                               session's prepared-statement cache holds the parsed AST only

`den s` is what the child plan yields on the data visible now (state `s`); the property says that
every query result is `den` of the *current* state.
-/
import Gms.Model.Prepared
namespace Gms.QueryCache
open Gms.Sql

/-- `plan.CachedResults`: the cache cell of one node instance -/
structure Cell where
  cached : List Row := []
  finalized : Bool := false
  deriving Repr, DecidableEq, Inhabited

/-- One `RowIter` over the node while its child yields `child`; `demand` = how many rows the parent
pulls before closing the iterator (`none`: until io.EOF). Returns the rows served and the cell. -/
def Cell.iter (c : Cell) (child : List Row) (demand : Option Nat) : List Row × Cell :=
  if c.finalized then
    (match demand with | none => c.cached | some n => c.cached.take n, c)
  else
    match demand with
    | none => (child, { cached := child, finalized := true })
    | some n =>
      if n > child.length then (child, { cached := child, finalized := true })   -- io.EOF was reached
      else (child.take n, c)                                                        -- closed early: nothing saved

/-- what the parent is entitled to see: the first `demand` rows of the child's current result -/
def served (rows : List Row) : Option Nat → List Row
  | none => rows
  | some n => rows.take n

/-- `plan.Subquery`: `Eval` on a cacheable (uncorrelated, non-volatile) subquery -/
structure SubCell where
  cache : List Value := []
  resultsCached : Bool := false
  deriving Repr, DecidableEq, Inhabited

def SubCell.eval (c : SubCell) (cacheable : Bool) (now : List Value) : List Value × SubCell :=
  if c.resultsCached then (c.cache, c)
  else if cacheable then (now, { cache := now, resultsCached := true })
  else (now, c)

/-- several iterations of one node inside one statement (inner side of a nested-loop join: once per
outer row); the data does not change while a read-only statement runs -/
def iters (c : Cell) (child : List Row) : List (Option Nat) → List (List Row) × Cell
  | [] => ([], c)
  | d :: ds =>
    let (r, c') := c.iter child d
    let (rs, c'') := iters c' child ds
    (r :: rs, c'')

/-! ## Histories -/

/-- a step of a history over an abstract state `σ`: a write, or a query (denotation `den`) whose
cached node is iterated with the given demands -/
inductive Step (σ : Type) where
  | write (f : σ → σ)
  | query (den : σ → List Row) (demands : List (Option Nat))

/-- Impl model, as built: every statement execution plans afresh (`bindQuery`), so the cell of a
query step starts empty. Observations: the rows served per iteration. -/
def runFresh {σ : Type} : List (Step σ) → σ → List (List (List Row))
  | [], _ => []
  | .write f :: rest, s => runFresh rest (f s)
  | .query den ds :: rest, s => (iters {} (den s) ds).1 :: runFresh rest s

/-- Spec: every iteration of every query sees the rows of the current state -/
def runSpec {σ : Type} : List (Step σ) → σ → List (List (List Row))
  | [], _ => []
  | .write f :: rest, s => runSpec rest (f s)
  | .query den ds :: rest, s => (ds.map (served (den s))) :: runSpec rest s

/-- the variant the tie must exclude: one plan instance (one cell) kept across executions -/
def runShared {σ : Type} : List (Step σ) → σ → Cell → List (List (List Row))
  | [], _, _ => []
  | .write f :: rest, s, c => runShared rest (f s) c
  | .query den ds :: rest, s, c => (iters c (den s) ds).1 :: runShared rest s (iters c (den s) ds).2

end Gms.QueryCache
