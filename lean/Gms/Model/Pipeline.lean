/-
C35 — model of the reader / batcher / sender pipeline of `Handler.resultForDefaultIter`
(server/handler.go), as a labelled transition system over bounded FIFO channels (core-only).

  reader : iter.Next → rowChan (cap `capR` = 512); closes rowChan at EOF
  batcher: rowChan → current result `cur`; when `cur` has `B` (= rowsBatch = 128) rows it must be
           sent to resChan (cap `capS` = 4) before anything else; closes resChan when rowChan is
           closed and drained; the last partial batch stays in `cur` and is *returned* to the caller
  sender : resChan → callback (delivered to the client)
  fail   : any goroutine returns an error / the context is cancelled: everything stops

Go's `select` among ready branches and goroutine scheduling are abstracted to "any enabled step".
-/
namespace Gms.Pipeline

structure Cfg where
  B : Nat      -- rowsBatch
  capR : Nat   -- cap(rowChan)
  capS : Nat   -- cap(resChan)

structure St (α : Type) where
  remaining : List α           -- rows the iterator has not produced yet
  rowChan : List α
  readerDone : Bool
  cur : List α                 -- rows of the result being filled
  resChan : List (List α)
  batcherDone : Bool
  delivered : List (List α)    -- batches handed to the callback, in order
  senderDone : Bool
  failed : Bool

def init {α : Type} (input : List α) : St α :=
  { remaining := input, rowChan := [], readerDone := false, cur := [], resChan := [],
    batcherDone := false, delivered := [], senderDone := false, failed := false }

inductive Step {α : Type} (c : Cfg) : St α → St α → Prop where
  | read (s : St α) (r : α) (rest : List α) :
      s.failed = false → s.remaining = r :: rest → s.rowChan.length < c.capR →
      Step c s { s with remaining := rest, rowChan := s.rowChan ++ [r] }
  | readerClose (s : St α) :
      s.failed = false → s.remaining = [] → s.readerDone = false →
      Step c s { s with readerDone := true }
  | take (s : St α) (r : α) (rc : List α) :
      s.failed = false → s.rowChan = r :: rc → s.cur.length < c.B →
      Step c s { s with rowChan := rc, cur := s.cur ++ [r] }
  | flush (s : St α) :
      s.failed = false → s.cur.length = c.B → s.resChan.length < c.capS →
      Step c s { s with cur := [], resChan := s.resChan ++ [s.cur] }
  | batcherClose (s : St α) :
      s.failed = false → s.rowChan = [] → s.readerDone = true → s.cur.length < c.B →
      s.batcherDone = false →
      Step c s { s with batcherDone := true }
  | send (s : St α) (b : List α) (rs : List (List α)) :
      s.failed = false → s.resChan = b :: rs →
      Step c s { s with resChan := rs, delivered := s.delivered ++ [b] }
  | senderClose (s : St α) :
      s.failed = false → s.resChan = [] → s.batcherDone = true → s.senderDone = false →
      Step c s { s with senderDone := true }
  | fail (s : St α) :
      s.failed = false → s.senderDone = false →
      Step c s { s with failed := true }

inductive Reach {α : Type} (c : Cfg) (input : List α) : St α → Prop where
  | init : Reach c input (init input)
  | step (s s' : St α) : Reach c input s → Step c s s' → Reach c input s'

/-- All three goroutines have returned without error. -/
def Final {α : Type} (s : St α) : Prop :=
  s.failed = false ∧ s.readerDone = true ∧ s.batcherDone = true ∧ s.senderDone = true

/-- What the client has received when the function returns normally: the delivered batches, then
the returned last result. -/
def clientRows {α : Type} (s : St α) : List α := s.delivered.flatten ++ s.cur

/-- The `callback` invocations the client sees (`Handler.doQuery`): every delivered batch, then
the returned last result — unless that one is empty and at least one batch was already sent. -/
def clientCallbacks {α : Type} (s : St α) : List (List α) :=
  if s.cur.isEmpty && !s.delivered.isEmpty then s.delivered else s.delivered ++ [s.cur]

/-! ### Executable scheduler, for the correspondence driver -/

/-- Deterministic run under a schedule given as a list of preferences (0 = reader, 1 = batcher,
2 = sender): at each tick the preferred goroutine moves if it can, otherwise the first that can.
Returns (delivered batch sizes, final result size, client rows). -/
def tick {α : Type} (c : Cfg) (s : St α) (pref : Nat) : Option (St α) :=
  let reader : Option (St α) :=
    match s.remaining with
    | r :: rest => if s.rowChan.length < c.capR then some { s with remaining := rest, rowChan := s.rowChan ++ [r] } else none
    | [] => if s.readerDone then none else some { s with readerDone := true }
  let batcher : Option (St α) :=
    if s.cur.length = c.B then
      (if s.resChan.length < c.capS then some { s with cur := [], resChan := s.resChan ++ [s.cur] } else none)
    else match s.rowChan with
      | r :: rc => some { s with rowChan := rc, cur := s.cur ++ [r] }
      | [] => if s.readerDone && !s.batcherDone then some { s with batcherDone := true } else none
  let sender : Option (St α) :=
    match s.resChan with
    | b :: rs => some { s with resChan := rs, delivered := s.delivered ++ [b] }
    | [] => if s.batcherDone && !s.senderDone then some { s with senderDone := true } else none
  let order := match pref % 3 with
    | 0 => [reader, batcher, sender]
    | 1 => [batcher, sender, reader]
    | _ => [sender, reader, batcher]
  order.findSome? id

def runSched {α : Type} (c : Cfg) (s : St α) : List Nat → Nat → St α
  | _, 0 => s
  | [], fuel + 1 => match tick c s 0 with
    | some s' => runSched c s' [] fuel
    | none => s
  | p :: ps, fuel + 1 => match tick c s p with
    | some s' => runSched c s' ps fuel
    | none => s

end Gms.Pipeline
