/-
Lemmas about the conflict-detection model `Gms/Model/JoinConflict.lean` (C01, finding
`inner_conjunct_lost_by_conflict_rule`): in a plan tree over distinct tables an edge's filter is put
at AT MOST one join node — the lowest node that covers the edge's TES — and it is put there iff the
edge's conflict rules hold for that node's tables.
-/
import Gms.Model.JoinConflict

namespace Gms.JoinConflict

theorem subset_iff (a b : VSet) : subset a b = true ↔ ∀ x ∈ a, x ∈ b := by
  simp [subset, List.all_eq_true]

theorem meets_iff (a b : VSet) : meets a b = true ↔ ∃ x, x ∈ a ∧ x ∈ b := by
  simp [meets, List.any_eq_true]

/-- The lowest node of the plan that covers the TES of the edge. -/
def lowestCover (e : Edge) : PTree → PTree
  | .leaf v => .leaf v
  | .node l r =>
    if subset e.tes l.verts then lowestCover e l
    else if subset e.tes r.verts then lowestCover e r
    else .node l r

/-- Below a node that does not cover the TES the edge is applied nowhere. -/
theorem count_zero_of_not_cover (e : Edge) (t : PTree) (h : subset e.tes t.verts = false) :
    countApplied e t = 0 := by
  induction t with
  | leaf v => rfl
  | node l r ihl ihr =>
    have hl : subset e.tes l.verts = false := by
      cases hs : subset e.tes l.verts with
      | false => rfl
      | true =>
        have : subset e.tes (PTree.node l r).verts = true := by
          rw [subset_iff] at hs ⊢
          intro x hx; simp [PTree.verts, hs x hx]
        rw [this] at h; cases h
    have hr : subset e.tes r.verts = false := by
      cases hs : subset e.tes r.verts with
      | false => rfl
      | true =>
        have : subset e.tes (PTree.node l r).verts = true := by
          rw [subset_iff] at hs ⊢
          intro x hx; simp [PTree.verts, hs x hx]
        rw [this] at h; cases h
    have happ : applicable e l.verts r.verts = false := by
      simp only [PTree.verts] at h
      simp [applicable, h]
    simp [countApplied, happ, ihl hl, ihr hr]

/-- The number of join nodes that get the edge's filter: one when the conflict rules hold at the
lowest node covering the TES, none otherwise. -/
theorem applied_count (e : Edge) (t : PTree) (hnd : t.verts.Nodup)
    (hcov : subset e.tes t.verts = true) (h2 : ∃ a b, a ∈ e.tes ∧ b ∈ e.tes ∧ a ≠ b) :
    countApplied e t = if rulesOk e (lowestCover e t).verts then 1 else 0 := by
  induction t with
  | leaf v =>
    obtain ⟨a, b, ha, hb, hab⟩ := h2
    rw [subset_iff] at hcov
    have h1 := hcov a ha
    have h3 := hcov b hb
    simp [PTree.verts] at h1 h3
    exact absurd (h1.trans h3.symm) hab
  | node l r ihl ihr =>
    simp only [PTree.verts] at hnd hcov
    have hndl : l.verts.Nodup := (List.nodup_append.mp hnd).1
    have hndr : r.verts.Nodup := (List.nodup_append.mp hnd).2.1
    have hdisj : ∀ x, x ∈ l.verts → x ∈ r.verts → False := by
      intro x hx hy
      exact (List.nodup_append.mp hnd).2.2 x hx x hy rfl
    obtain ⟨a, b, ha, hb, hab⟩ := h2
    by_cases hl : subset e.tes l.verts = true
    · -- the TES lies in the left input
      have hnr : subset e.tes r.verts = false := by
        cases hs : subset e.tes r.verts with
        | false => rfl
        | true =>
          rw [subset_iff] at hl hs
          exact (hdisj a (hl a ha) (hs a ha)).elim
      have hm : meets e.tes r.verts = false := by
        cases hs : meets e.tes r.verts with
        | false => rfl
        | true =>
          rw [meets_iff] at hs
          obtain ⟨x, hx, hy⟩ := hs
          rw [subset_iff] at hl
          exact (hdisj x (hl x hx) hy).elim
      have happ : applicable e l.verts r.verts = false := by simp [applicable, hm]
      simp [countApplied, happ, lowestCover, hl, count_zero_of_not_cover e r hnr,
        ihl hndl hl]
    · have hl' : subset e.tes l.verts = false := by simpa using hl
      by_cases hr : subset e.tes r.verts = true
      · have hm : meets e.tes l.verts = false := by
          cases hs : meets e.tes l.verts with
          | false => rfl
          | true =>
            rw [meets_iff] at hs
            obtain ⟨x, hx, hy⟩ := hs
            rw [subset_iff] at hr
            exact (hdisj x hy (hr x hx)).elim
        have happ : applicable e l.verts r.verts = false := by simp [applicable, hm]
        simp [countApplied, happ, lowestCover, hl', hr, count_zero_of_not_cover e l hl',
          ihr hndr hr]
      · have hr' : subset e.tes r.verts = false := by simpa using hr
        -- the TES meets both inputs: this node is the lowest cover
        have hml : meets e.tes l.verts = true := by
          cases hs : meets e.tes l.verts with
          | true => rfl
          | false =>
            have : subset e.tes r.verts = true := by
              rw [subset_iff] at hcov ⊢
              intro x hx
              have := hcov x hx
              rcases List.mem_append.mp this with h | h
              · have : meets e.tes l.verts = true := (meets_iff _ _).mpr ⟨x, hx, h⟩
                rw [hs] at this; cases this
              · exact h
            rw [hr'] at this; cases this
        have hmr : meets e.tes r.verts = true := by
          cases hs : meets e.tes r.verts with
          | true => rfl
          | false =>
            have : subset e.tes l.verts = true := by
              rw [subset_iff] at hcov ⊢
              intro x hx
              have := hcov x hx
              rcases List.mem_append.mp this with h | h
              · exact h
              · have : meets e.tes r.verts = true := (meets_iff _ _).mpr ⟨x, hx, h⟩
                rw [hs] at this; cases this
            rw [hl'] at this; cases this
        simp [countApplied, applicable, lowestCover, hl', hr', hml, hmr, hcov, PTree.verts,
          count_zero_of_not_cover e l hl', count_zero_of_not_cover e r hr']

theorem rulesOk_nil (e : Edge) (h : e.rules = []) (s : VSet) : rulesOk e s = true := by
  simp [rulesOk, h]

end Gms.JoinConflict
