/-
Lemmas about Go's UTF-8 coding (Gms/Model/Utf8.lean): `decodeRunes ∘ encodeRunes = id` on scalar
values, well-formedness of encodings, ASCII strings.
-/
import Gms.Model.Utf8
namespace Gms.Utf8

theorem isScalar_iff (r : Nat) : isScalar r = true ↔ (r < 0xD800 ∨ (0xE000 ≤ r ∧ r < 0x110000)) := by
  simp [isScalar]

theorem decodeRune1_ascii (r : Nat) (h : r < 0x80) (t : Bytes) : decodeRune1 r t = (r, 1) := by
  simp [decodeRune1, h]

theorem decodeRune1_two (r : Nat) (h1 : 0x80 ≤ r) (h2 : r < 0x800) (t : Bytes) :
    decodeRune1 (0xC0 + r / 64) ((0x80 + r % 64) :: t) = (r, 2) := by
  have a : ¬ (0xC0 + r / 64 < 0x80) := by omega
  have b : leadInfo (0xC0 + r / 64) = (2, 0x80, 0xBF) := by
    unfold leadInfo
    have : (0xC2 ≤ 0xC0 + r / 64 && 0xC0 + r / 64 ≤ 0xDF) = true := by
      simp only [Bool.and_eq_true, decide_eq_true_eq]; omega
    rw [if_pos this]
  unfold decodeRune1
  rw [if_neg a, b]
  have c : (0x80 ≤ 0x80 + r % 64 && 0x80 + r % 64 ≤ 0xBF) = true := by
    simp only [Bool.and_eq_true, decide_eq_true_eq]; omega
  simp only []
  rw [if_pos c]
  have e : (0xC0 + r / 64 - 0xC0) * 64 + (0x80 + r % 64 - 0x80) = r := by omega
  rw [e]

/-- The lead-byte classification of a three-byte encoding. -/
theorem leadInfo_three (r : Nat) (h1 : 0x800 ≤ r) (h2 : r < 0x10000) (hs : ¬ (0xD800 ≤ r ∧ r < 0xE000)) :
    ∃ lo hi, leadInfo (0xE0 + r / 4096) = (3, lo, hi) ∧ lo ≤ 0x80 + r / 64 % 64 ∧ 0x80 + r / 64 % 64 ≤ hi := by
  unfold leadInfo
  have n2 : ¬ ((0xC2 ≤ 0xE0 + r / 4096 && 0xE0 + r / 4096 ≤ 0xDF) = true) := by
    simp only [Bool.and_eq_true, decide_eq_true_eq]; omega
  rw [if_neg n2]
  by_cases e0 : 0xE0 + r / 4096 = 0xE0
  · rw [if_pos e0]; exact ⟨_, _, rfl, by omega, by omega⟩
  · rw [if_neg e0]
    by_cases ed : 0xE0 + r / 4096 = 0xED
    · rw [if_pos ed]; exact ⟨_, _, rfl, by omega, by omega⟩
    · rw [if_neg ed]
      have : (0xE1 ≤ 0xE0 + r / 4096 && 0xE0 + r / 4096 ≤ 0xEF) = true := by
        simp only [Bool.and_eq_true, decide_eq_true_eq]; omega
      rw [if_pos this]; exact ⟨_, _, rfl, by omega, by omega⟩

theorem decodeRune1_three (r : Nat) (h1 : 0x800 ≤ r) (h2 : r < 0x10000) (hs : ¬ (0xD800 ≤ r ∧ r < 0xE000))
    (t : Bytes) :
    decodeRune1 (0xE0 + r / 4096) ((0x80 + r / 64 % 64) :: (0x80 + r % 64) :: t) = (r, 3) := by
  obtain ⟨lo, hi, hl, hlo, hhi⟩ := leadInfo_three r h1 h2 hs
  have a : ¬ (0xE0 + r / 4096 < 0x80) := by omega
  unfold decodeRune1
  rw [if_neg a, hl]
  have c : (lo ≤ 0x80 + r / 64 % 64 && 0x80 + r / 64 % 64 ≤ hi && isCont (0x80 + r % 64)) = true := by
    simp only [isCont, Bool.and_eq_true, decide_eq_true_eq]; omega
  simp only []
  rw [if_pos c]
  have e : (0xE0 + r / 4096 - 0xE0) * 4096 + (0x80 + r / 64 % 64 - 0x80) * 64 + (0x80 + r % 64 - 0x80) = r := by
    omega
  rw [e]

theorem leadInfo_four (r : Nat) (h1 : 0x10000 ≤ r) (h2 : r < 0x110000) :
    ∃ lo hi, leadInfo (0xF0 + r / 262144) = (4, lo, hi) ∧ lo ≤ 0x80 + r / 4096 % 64 ∧ 0x80 + r / 4096 % 64 ≤ hi := by
  unfold leadInfo
  have n2 : ¬ ((0xC2 ≤ 0xF0 + r / 262144 && 0xF0 + r / 262144 ≤ 0xDF) = true) := by
    simp only [Bool.and_eq_true, decide_eq_true_eq]; omega
  have n3 : ¬ (0xF0 + r / 262144 = 0xE0) := by omega
  have n4 : ¬ (0xF0 + r / 262144 = 0xED) := by omega
  have n5 : ¬ ((0xE1 ≤ 0xF0 + r / 262144 && 0xF0 + r / 262144 ≤ 0xEF) = true) := by
    simp only [Bool.and_eq_true, decide_eq_true_eq]; omega
  rw [if_neg n2, if_neg n3, if_neg n4, if_neg n5]
  by_cases e0 : 0xF0 + r / 262144 = 0xF0
  · rw [if_pos e0]; exact ⟨_, _, rfl, by omega, by omega⟩
  · rw [if_neg e0]
    by_cases e4 : 0xF0 + r / 262144 = 0xF4
    · rw [if_pos e4]; exact ⟨_, _, rfl, by omega, by omega⟩
    · rw [if_neg e4]
      have : (0xF1 ≤ 0xF0 + r / 262144 && 0xF0 + r / 262144 ≤ 0xF3) = true := by
        simp only [Bool.and_eq_true, decide_eq_true_eq]; omega
      rw [if_pos this]; exact ⟨_, _, rfl, by omega, by omega⟩

theorem decodeRune1_four (r : Nat) (h1 : 0x10000 ≤ r) (h2 : r < 0x110000) (t : Bytes) :
    decodeRune1 (0xF0 + r / 262144)
      ((0x80 + r / 4096 % 64) :: (0x80 + r / 64 % 64) :: (0x80 + r % 64) :: t) = (r, 4) := by
  obtain ⟨lo, hi, hl, hlo, hhi⟩ := leadInfo_four r h1 h2
  have a : ¬ (0xF0 + r / 262144 < 0x80) := by omega
  unfold decodeRune1
  rw [if_neg a, hl]
  have c : (lo ≤ 0x80 + r / 4096 % 64 && 0x80 + r / 4096 % 64 ≤ hi && isCont (0x80 + r / 64 % 64)
      && isCont (0x80 + r % 64)) = true := by
    simp only [isCont, Bool.and_eq_true, decide_eq_true_eq]; omega
  simp only []
  rw [if_pos c]
  have e : (0xF0 + r / 262144 - 0xF0) * 262144 + (0x80 + r / 4096 % 64 - 0x80) * 4096
      + (0x80 + r / 64 % 64 - 0x80) * 64 + (0x80 + r % 64 - 0x80) = r := by
    omega
  rw [e]

/-- One step: an encoded scalar followed by anything decodes to that scalar, then the rest. The
same step for validity and for CHAR_LENGTH's loop is obtained through `stepOf`. -/
theorem encodeRune_cases (r : Nat) (h : isScalar r = true) :
    (r < 0x80 ∧ encodeRune r = [r]) ∨
    (0x80 ≤ r ∧ r < 0x800 ∧ encodeRune r = [0xC0 + r / 64, 0x80 + r % 64]) ∨
    (0x800 ≤ r ∧ r < 0x10000 ∧ ¬ (0xD800 ≤ r ∧ r < 0xE000) ∧
      encodeRune r = [0xE0 + r / 4096, 0x80 + r / 64 % 64, 0x80 + r % 64]) ∨
    (0x10000 ≤ r ∧ r < 0x110000 ∧
      encodeRune r = [0xF0 + r / 262144, 0x80 + r / 4096 % 64, 0x80 + r / 64 % 64, 0x80 + r % 64]) := by
  rw [isScalar_iff] at h
  unfold encodeRune
  by_cases c1 : r < 0x80
  · left; simp [c1]
  · by_cases c2 : r < 0x800
    · right; left; simp [c1, c2]; omega
    · have ns : ¬ (((0xD800 ≤ r && r < 0xE000) || 0x110000 ≤ r) = true) := by
        simp only [Bool.or_eq_true, Bool.and_eq_true, decide_eq_true_eq]; omega
      by_cases c3 : r < 0x10000
      · right; right; left
        rw [if_neg c1, if_neg c2, if_neg ns, if_pos c3]
        exact ⟨by omega, c3, by omega, rfl⟩
      · right; right; right
        rw [if_neg c1, if_neg c2, if_neg ns, if_neg c3]
        exact ⟨by omega, by omega, rfl⟩

theorem decodeAux_encodeRune (r : Nat) (h : isScalar r = true) (t : Bytes) :
    decodeAux 0 (encodeRune r ++ t) = r :: decodeAux 0 t := by
  rcases encodeRune_cases r h with ⟨h1, e⟩ | ⟨h1, h2, e⟩ | ⟨h1, h2, h3, e⟩ | ⟨h1, h2, e⟩
  · rw [e]; simp [decodeAux, decodeRune1_ascii r h1]
  · rw [e]; simp [decodeAux, decodeRune1_two r h1 h2]
  · rw [e]; simp [decodeAux, decodeRune1_three r h1 h2 h3]
  · rw [e]; simp [decodeAux, decodeRune1_four r h1 h2]

theorem decode_encode (rs : List Nat) (h : ∀ r ∈ rs, isScalar r = true) :
    decodeRunes (encodeRunes rs) = rs := by
  induction rs with
  | nil => rfl
  | cons r rs ih =>
    have hr := h r (by simp)
    have ht : ∀ x ∈ rs, isScalar x = true := fun x hx => h x (by simp [hx])
    unfold decodeRunes at ih ⊢
    simp only [encodeRunes]
    rw [decodeAux_encodeRune r hr, ih ht]

theorem encodeRunes_append (a b : List Nat) : encodeRunes (a ++ b) = encodeRunes a ++ encodeRunes b := by
  induction a with
  | nil => rfl
  | cons r a ih => simp [encodeRunes, ih]

theorem validAux_encodeRune (r : Nat) (h : isScalar r = true) (t : Bytes) :
    validAux 0 (encodeRune r ++ t) = validAux 0 t := by
  have hs := (isScalar_iff r).mp h
  rcases encodeRune_cases r h with ⟨h1, e⟩ | ⟨h1, h2, e⟩ | ⟨h1, h2, h3, e⟩ | ⟨h1, h2, e⟩
  · have ne : ¬ r = runeError := by unfold runeError; omega
    rw [e]; simp [validAux, decodeRune1_ascii r h1, ne]
  · rw [e]; simp [validAux, decodeRune1_two r h1 h2]
  · rw [e]; simp [validAux, decodeRune1_three r h1 h2 h3]
  · rw [e]; simp [validAux, decodeRune1_four r h1 h2]

/-- Every encoding of scalar values is well-formed UTF-8. -/
theorem valid_encode (rs : List Nat) (h : ∀ r ∈ rs, isScalar r = true) :
    validUtf8 (encodeRunes rs) = true := by
  induction rs with
  | nil => rfl
  | cons r rs ih =>
    have hr := h r (by simp)
    have ht : ∀ x ∈ rs, isScalar x = true := fun x hx => h x (by simp [hx])
    unfold validUtf8 at ih ⊢
    simp only [encodeRunes]
    rw [validAux_encodeRune r hr, ih ht]

/-! ### ASCII strings -/

theorem isAscii_cons (b : Nat) (s : Bytes) : isAscii (b :: s) = (decide (b < 0x80) && isAscii s) := by
  simp [isAscii]

theorem ascii_scalar (s : Bytes) (h : isAscii s = true) : ∀ r ∈ s, isScalar r = true := by
  intro r hr
  have : r < 0x80 := by
    have := List.all_eq_true.mp h r hr
    simpa using this
  rw [isScalar_iff]; omega

theorem encodeRunes_ascii (s : Bytes) (h : isAscii s = true) : encodeRunes s = s := by
  induction s with
  | nil => rfl
  | cons b s ih =>
    rw [isAscii_cons] at h
    simp only [Bool.and_eq_true, decide_eq_true_eq] at h
    simp [encodeRunes, encodeRune, h.1, ih h.2]

theorem decodeRunes_ascii (s : Bytes) (h : isAscii s = true) : decodeRunes s = s := by
  have := decode_encode s (ascii_scalar s h)
  rwa [encodeRunes_ascii s h] at this

theorem valid_ascii (s : Bytes) (h : isAscii s = true) : validUtf8 s = true := by
  have := valid_encode s (ascii_scalar s h)
  rwa [encodeRunes_ascii s h] at this

end Gms.Utf8
