/-
C31 — lemmas for the DATE_FORMAT / STR_TO_DATE round trip over the item grammar.
-/
import Gms.Lemmas.Cal

namespace Gms.Cal

/-! ### digits -/

def headNonDigit : Str → Prop
  | [] => True
  | b :: _ => isDigit b = false

theorem takeDigits_append (ds tl : Str) (n : Nat) (hall : ∀ b ∈ ds, isDigit b = true)
    (hn : ds.length ≤ n) (hstop : n = ds.length ∨ headNonDigit tl) :
    takeDigits n (ds ++ tl) = (ds, tl) := by
  induction ds generalizing n with
  | nil =>
    cases n with
    | zero => simp [takeDigits]
    | succ n =>
      have : headNonDigit tl := by
        rcases hstop with h | h
        · simp at h
        · exact h
      cases tl with
      | nil => simp [takeDigits]
      | cons b tl => simp [takeDigits, headNonDigit] at this ⊢; simp [this]
  | cons d ds ih =>
    cases n with
    | zero => simp at hn
    | succ n =>
      have hd : isDigit d = true := hall d (by simp)
      have hstop' : n = ds.length ∨ headNonDigit tl := by
        rcases hstop with h | h
        · left; simpa using h
        · right; exact h
      have := ih n (fun b hb => hall b (by simp [hb])) (by simpa using hn) hstop' 
      simp [takeDigits, hd, this]

theorem digit_isDigit (n : Nat) : isDigit (digit n) = true := by
  have h : n % 10 < 10 := Nat.mod_lt _ (by decide)
  generalize hk : n % 10 = k at h
  simp only [digit, hk]
  have : k = 0 ∨ k = 1 ∨ k = 2 ∨ k = 3 ∨ k = 4 ∨ k = 5 ∨ k = 6 ∨ k = 7 ∨ k = 8 ∨ k = 9 := by omega
  rcases this with rfl | rfl | rfl | rfl | rfl | rfl | rfl | rfl | rfl | rfl <;> decide

theorem digit_val (n : Nat) : (digit n).toNat - 48 = n % 10 := by
  have h : n % 10 < 10 := Nat.mod_lt _ (by decide)
  generalize hk : n % 10 = k at h
  simp only [digit, hk]
  have : k = 0 ∨ k = 1 ∨ k = 2 ∨ k = 3 ∨ k = 4 ∨ k = 5 ∨ k = 6 ∨ k = 7 ∨ k = 8 ∨ k = 9 := by omega
  rcases this with rfl | rfl | rfl | rfl | rfl | rfl | rfl | rfl | rfl | rfl <;> decide

theorem padW_length (w v : Nat) : (padW w v).length = w := by
  induction w generalizing v with
  | zero => rfl
  | succ w ih => simp [padW, ih]

theorem padW_digits (w v : Nat) : ∀ b ∈ padW w v, isDigit b = true := by
  induction w generalizing v with
  | zero => simp [padW]
  | succ w ih =>
    intro b hb
    simp only [padW, List.mem_append, List.mem_singleton] at hb
    rcases hb with hb | rfl
    · exact ih _ b hb
    · exact digit_isDigit v

theorem valOf_snoc (s : Str) (d : UInt8) : valOf (s ++ [d]) = valOf s * 10 + (d.toNat - 48) := by
  simp [valOf, List.foldl_append]

theorem valOf_padW (w v : Nat) : valOf (padW w v) = v % 10 ^ w := by
  induction w generalizing v with
  | zero => simp [padW, valOf, Nat.mod_one]
  | succ w ih =>
    rw [padW, valOf_snoc, ih, digit_val, Nat.pow_succ, Nat.mul_comm (10 ^ w) 10, Nat.mod_mul]
    omega

theorem parseUint32_padW (w v : Nat) (hw : 0 < w) (hv : v < 10 ^ w) (hb : 10 ^ w ≤ 4294967296) :
    parseUint32 (padW w v) = some (v : Int) := by
  have hne : (padW w v).isEmpty = false := by
    cases h : padW w v with
    | nil => have := padW_length w v; rw [h] at this; simp at this; omega
    | cons _ _ => rfl
  unfold parseUint32
  rw [hne, valOf_padW, Nat.mod_eq_of_lt hv]
  simp only [Bool.false_eq_true, if_false]
  rw [if_neg (by omega)]

theorem takeNumberAtMost_padW (w v : Nat) (tl : Str) (hw : 0 < w) (hv : v < 10 ^ w) (hb : 10 ^ w ≤ 4294967296) :
    takeNumberAtMost w (padW w v ++ tl) = some ((v : Int), tl) := by
  unfold takeNumberAtMost
  rw [takeDigits_append _ _ _ (padW_digits w v) (by rw [padW_length]; exact Nat.le_refl _) (Or.inl (padW_length w v).symm)]
  simp [parseUint32_padW w v hw hv hb]

theorem takeNumber_padW (w v : Nat) (tl : Str) (hw : 0 < w) (hv : v < 10 ^ w) (hb : 10 ^ w ≤ 4294967296)
    (hnd : headNonDigit tl) : takeNumber (padW w v ++ tl) = some ((v : Int), tl) := by
  unfold takeNumber takeAllDigits
  rw [takeDigits_append _ _ _ (padW_digits w v) (by simp) (Or.inr hnd)]
  simp [parseUint32_padW w v hw hv hb]

/-! ### the item grammar: compile, format, parse -/

def stepOf : Item → Step
  | .Y => { run := year4P, spec := some 89 }
  | .m => { run := month2P, spec := some 109 }
  | .d => { run := day2P, spec := some 100 }
  | .H => { run := numP takeNumber fun dt v => { dt with hours := some v }, spec := some 72 }
  | .i => { run := numP takeNumber fun dt v => { dt with minutes := some v }, spec := some 105 }
  | .s => { run := numP takeNumber fun dt v => { dt with seconds := some v }, spec := some 115 }
  | .f => { run := numP takeNumber fun dt v => { dt with micros := some v }, spec := some 102 }
  | .lit c => { run := literalP c .literal, spec := none }

theorem litOk_ne (c : UInt8) (h : litOk c = true) :
    (c == 37) = false ∧ isDigit c = false ∧ isSpace c = false ∧ isTrimSpace c = false ∧ (c != 32) = true := by
  simp only [litOk, isDigit, Bool.and_eq_true, decide_eq_true_eq, bne_iff_ne, ne_eq, Bool.not_eq_true',
    Bool.and_eq_false_iff, decide_eq_false_iff_not] at h
  have h37 : c ≠ 37 := by intro e; subst e; exact h.1.2 (by decide)
  have h32 : c ≠ 32 := by intro e; subst e; have := h.1.1.1; revert this; decide
  refine ⟨by simpa using h37, ?_, ?_, ?_, by simpa using h32⟩
  · simp only [isDigit, Bool.and_eq_false_iff, decide_eq_false_iff_not]; exact h.2
  · simp only [isSpace, beq_eq_false_iff_ne]; omega
  · simp only [isTrimSpace, Bool.or_eq_false_iff, beq_eq_false_iff_ne, Bool.and_eq_false_iff, decide_eq_false_iff_not]; omega

theorem dim_le_31 (y m : Int) : dim y m ≤ 31 := by
  unfold dim
  split
  · split <;> omega
  · split <;> omega

theorem compileFormat_lit (c : UInt8) (rest : Str) (h : (c == 37) = false) :
    compileFormat (c :: rest) = bindE (compileFormat rest) fun l => .ok ({ run := literalP c .literal, spec := none } :: l) := by
  rw [compileFormat.eq_def]; simp [h]

theorem compileFormat_spec (sp : UInt8) (rest : Str) (f : P) (h : formatSpecifier sp = .p f) :
    compileFormat (37 :: sp :: rest) = bindE (compileFormat rest) fun l => .ok ({ run := f, spec := some sp } :: l) := by
  rw [compileFormat]; simp [h]

theorem compile_items (items : List Item) (h : litsOk items = true) :
    compileFormat (renderItems items) = .ok (items.map stepOf) := by
  induction items with
  | nil => rfl
  | cons it l ih =>
    have hl : litsOk l = true := by simp only [litsOk, List.all_cons, Bool.and_eq_true] at h ⊢; exact h.2
    have ih := ih hl
    have e : renderItems (it :: l) = it.text ++ renderItems l := by simp [renderItems]
    rw [e]
    cases it with
    | lit c =>
      have hc : litOk c = true := by simp only [litsOk, List.all_cons, Bool.and_eq_true] at h; exact h.1
      show compileFormat (c :: renderItems l) = _
      rw [compileFormat_lit c _ (litOk_ne c hc).1, ih]; rfl
    | Y => show compileFormat (37 :: 89 :: renderItems l) = _; rw [compileFormat_spec 89 _ _ rfl, ih]; rfl
    | m => show compileFormat (37 :: 109 :: renderItems l) = _; rw [compileFormat_spec 109 _ _ rfl, ih]; rfl
    | d => show compileFormat (37 :: 100 :: renderItems l) = _; rw [compileFormat_spec 100 _ _ rfl, ih]; rfl
    | H => show compileFormat (37 :: 72 :: renderItems l) = _; rw [compileFormat_spec 72 _ _ rfl, ih]; rfl
    | i => show compileFormat (37 :: 105 :: renderItems l) = _; rw [compileFormat_spec 105 _ _ rfl, ih]; rfl
    | s => show compileFormat (37 :: 115 :: renderItems l) = _; rw [compileFormat_spec 115 _ _ rfl, ih]; rfl
    | f => show compileFormat (37 :: 102 :: renderItems l) = _; rw [compileFormat_spec 102 _ _ rfl, ih]; rfl

/-! ### formatting the items -/

def itemText (f : Fields) : Item → Str
  | .Y => padShow 4 f.y.toNat
  | .m => padShow 2 f.mo.toNat
  | .d => padShow 2 f.d.toNat
  | .H => padShow 2 f.h.toNat
  | .i => padShow 2 f.mi.toNat
  | .s => padShow 2 f.s.toNat
  | .f => padShow 6 (f.ns / 1000).toNat
  | .lit c => [c]

theorem formatAux_lit (t : Int) (c : UInt8) (rest : Str) (h : (c == 37) = false) :
    formatAux t 0 (c :: rest) = (match formatAux t 0 rest with
      | .ok r => .ok (c :: r)
      | .error e => .error e) := by
  rw [formatAux.eq_def]; simp [h]; cases formatAux t 0 rest <;> rfl

theorem formatAux_spec (t : Int) (sp : UInt8) (rest s : Str)
    (h1 : (sp == 45 || sp == 35) = false) (h2 : (sp == 97 || sp == 98) = false)
    (hs : formatSpec sp t = some s) :
    formatAux t 0 (37 :: sp :: rest) = (match formatAux t 0 rest with
      | .ok r => .ok (s ++ r)
      | .error e => .error e) := by
  rw [formatAux.eq_def]; simp [h1, h2, hs]; cases formatAux t 0 rest <;> rfl

theorem format_items (t : Int) (items : List Item) (h : litsOk items = true) :
    formatImpl t (renderItems items) = .ok (items.flatMap (itemText (fieldsOf t))) := by
  unfold formatImpl
  induction items with
  | nil => rfl
  | cons it l ih =>
    have hl : litsOk l = true := by simp only [litsOk, List.all_cons, Bool.and_eq_true] at h ⊢; exact h.2
    have ih := ih hl
    have e : renderItems (it :: l) = it.text ++ renderItems l := by simp [renderItems]
    rw [e, List.flatMap_cons]
    cases it with
    | lit c =>
      have hc : litOk c = true := by simp only [litsOk, List.all_cons, Bool.and_eq_true] at h; exact h.1
      show formatAux t 0 (c :: renderItems l) = _
      rw [formatAux_lit t c _ (litOk_ne c hc).1, ih]; rfl
    | Y => show formatAux t 0 (37 :: 89 :: renderItems l) = _
           rw [formatAux_spec t 89 _ _ (by decide) (by decide) rfl, ih]; rfl
    | m => show formatAux t 0 (37 :: 109 :: renderItems l) = _
           rw [formatAux_spec t 109 _ _ (by decide) (by decide) rfl, ih]; rfl
    | d => show formatAux t 0 (37 :: 100 :: renderItems l) = _
           rw [formatAux_spec t 100 _ _ (by decide) (by decide) rfl, ih]; rfl
    | H => show formatAux t 0 (37 :: 72 :: renderItems l) = _
           rw [formatAux_spec t 72 _ _ (by decide) (by decide) rfl, ih]; rfl
    | i => show formatAux t 0 (37 :: 105 :: renderItems l) = _
           rw [formatAux_spec t 105 _ _ (by decide) (by decide) rfl, ih]; rfl
    | s => show formatAux t 0 (37 :: 115 :: renderItems l) = _
           rw [formatAux_spec t 115 _ _ (by decide) (by decide) rfl, ih]; rfl
    | f => show formatAux t 0 (37 :: 102 :: renderItems l) = _
           rw [formatAux_spec t 102 _ _ (by decide) (by decide) rfl, ih]; rfl

/-! ### parsing the items back -/

def setItem (f : Fields) : Item → PDT → PDT
  | .Y, dt => { dt with year := some f.y }
  | .m, dt => { dt with month := some f.mo }
  | .d, dt => { dt with day := some f.d }
  | .H, dt => { dt with hours := some f.h }
  | .i, dt => { dt with minutes := some f.mi }
  | .s, dt => { dt with seconds := some f.s }
  | .f, dt => { dt with micros := some (f.ns / 1000) }
  | .lit _, dt => dt

theorem isDigit_not_space (b : UInt8) (h : isDigit b = true) : isSpace b = false ∧ isTrimSpace b = false := by
  simp only [isDigit, Bool.and_eq_true, decide_eq_true_eq] at h
  simp only [isSpace, isTrimSpace, beq_eq_false_iff_ne, Bool.or_eq_false_iff, Bool.and_eq_false_iff,
    decide_eq_false_iff_not]
  omega

theorem dropSpaces_head (b : UInt8) (s : Str) (h : isSpace b = false) : dropSpaces (b :: s) = b :: s := by
  simp [dropSpaces, h]

theorem padW_cons (w v : Nat) : ∃ b s, padW (w + 1) v = b :: s ∧ isDigit b = true := by
  have hl := padW_length (w + 1) v
  cases h : padW (w + 1) v with
  | nil => rw [h] at hl; simp at hl
  | cons b s => exact ⟨b, s, rfl, padW_digits (w + 1) v b (by rw [h]; simp)⟩

theorem dropSpaces_padW (w v : Nat) (tl : Str) : dropSpaces (padW (w + 1) v ++ tl) = padW (w + 1) v ++ tl := by
  obtain ⟨b, s, e, hb⟩ := padW_cons w v
  rw [e]; exact dropSpaces_head b _ (isDigit_not_space b hb).1

theorem numP_padW (w v : Nat) (set : PDT → Int → PDT) (dt : PDT) (tl : Str) (hv : v < 10 ^ (w + 1))
    (hb : 10 ^ (w + 1) ≤ 4294967296) (hnd : headNonDigit tl) :
    numP takeNumber set dt (padW (w + 1) v ++ tl) = .ok (set dt v, tl) := by
  unfold numP
  rw [takeNumber_padW (w + 1) v tl (Nat.succ_pos _) hv hb hnd]

theorem step_item (f : Fields) (hv : validFields f) (hy : 0 ≤ f.y ∧ f.y ≤ 9999) (it : Item)
    (hl : litsOk [it] = true) (dt : PDT) (tl : Str) (hg : it.greedy = true → headNonDigit tl) :
    (stepOf it).run dt (dropSpaces (itemText f it ++ tl)) = .ok (setItem f it dt, tl) := by
  obtain ⟨h1, h2, h3, h4, h5, h6, h7, h8, h9, h10, h11, h12⟩ := hv
  have hdim := (dim_le_31 f.y f.mo)
  cases it with
  | lit c =>
    have hc : litOk c = true := by simpa [litsOk] using hl
    obtain ⟨_, _, hsp, _, hne⟩ := litOk_ne c hc
    show literalP c .literal dt (dropSpaces (c :: tl)) = _
    rw [dropSpaces_head c tl hsp]
    have hc32 : c ≠ 32 := by simpa using hne
    simp [literalP, hne, hc32, dropSpaces_head c tl hsp, setItem]
  | Y =>
    have hlt : f.y.toNat < 10 ^ 4 := by omega
    show year4P dt (dropSpaces (padShow 4 f.y.toNat ++ tl)) = _
    rw [padShow, if_pos hlt, dropSpaces_padW 3]
    unfold year4P
    rw [if_neg (by simp [padW_length]), takeNumberAtMost_padW 4 _ tl (by decide) hlt (by decide)]
    simp only [setItem, Int.toNat_of_nonneg hy.1]
  | m =>
    have hlt : f.mo.toNat < 10 ^ 2 := by omega
    show month2P dt (dropSpaces (padShow 2 f.mo.toNat ++ tl)) = _
    rw [padShow, if_pos hlt, dropSpaces_padW 1]
    unfold month2P
    rw [takeNumberAtMost_padW 2 _ tl (by decide) hlt (by decide)]
    simp only [setItem, Int.toNat_of_nonneg (by omega : 0 ≤ f.mo)]
    rw [if_neg (by omega)]
  | d =>
    have hlt : f.d.toNat < 10 ^ 2 := by omega
    show day2P dt (dropSpaces (padShow 2 f.d.toNat ++ tl)) = _
    rw [padShow, if_pos hlt, dropSpaces_padW 1]
    unfold day2P
    rw [takeNumberAtMost_padW 2 _ tl (by decide) hlt (by decide)]
    simp only [setItem, Int.toNat_of_nonneg (by omega : 0 ≤ f.d)]
    rw [if_neg (by omega)]
  | H =>
    have hlt : f.h.toNat < 10 ^ 2 := by omega
    show numP takeNumber (fun dt v => { dt with hours := some v }) dt (dropSpaces (padShow 2 f.h.toNat ++ tl)) = _
    rw [padShow, if_pos hlt, dropSpaces_padW 1, numP_padW 1 _ _ dt tl hlt (by decide) (hg rfl)]
    simp only [setItem, Int.toNat_of_nonneg h5]
  | i =>
    have hlt : f.mi.toNat < 10 ^ 2 := by omega
    show numP takeNumber (fun dt v => { dt with minutes := some v }) dt (dropSpaces (padShow 2 f.mi.toNat ++ tl)) = _
    rw [padShow, if_pos hlt, dropSpaces_padW 1, numP_padW 1 _ _ dt tl hlt (by decide) (hg rfl)]
    simp only [setItem, Int.toNat_of_nonneg h7]
  | s =>
    have hlt : f.s.toNat < 10 ^ 2 := by omega
    show numP takeNumber (fun dt v => { dt with seconds := some v }) dt (dropSpaces (padShow 2 f.s.toNat ++ tl)) = _
    rw [padShow, if_pos hlt, dropSpaces_padW 1, numP_padW 1 _ _ dt tl hlt (by decide) (hg rfl)]
    simp only [setItem, Int.toNat_of_nonneg h9]
  | f =>
    have hnn : 0 ≤ f.ns / 1000 := by omega
    have hlt : (f.ns / 1000).toNat < 10 ^ 6 := by omega
    show numP takeNumber (fun dt v => { dt with micros := some v }) dt (dropSpaces (padShow 6 (f.ns / 1000).toNat ++ tl)) = _
    rw [padShow, if_pos hlt, dropSpaces_padW 5, numP_padW 5 _ _ dt tl hlt (by decide) (hg rfl)]
    simp only [setItem, Int.toNat_of_nonneg hnn]

theorem headNonDigit_items (f : Fields) (it : Item) (l : List Item) (tl : Str)
    (hl : litsOk (it :: l) = true) (hg : greedyOk (it :: l) = true) (hnd : headNonDigit tl) :
    it.greedy = true → headNonDigit (l.flatMap (itemText f) ++ tl) := by
  intro hgr
  cases l with
  | nil => simpa using hnd
  | cons b l' =>
    simp only [greedyOk, hgr, Bool.not_true, Bool.false_or, Bool.and_eq_true] at hg
    cases b with
    | lit c =>
      have hc : litOk c = true := by
        simp only [litsOk, List.all_cons, Bool.and_eq_true] at hl; exact hl.2.1
      simp only [List.flatMap_cons, itemText, List.cons_append, List.nil_append, headNonDigit]
      exact (litOk_ne c hc).2.1
    | _ => simp [Item.isLit] at hg

theorem run_items (f : Fields) (hv : validFields f) (hy : 0 ≤ f.y ∧ f.y ≤ 9999) (items : List Item)
    (hl : litsOk items = true) (hg : greedyOk items = true) (dt : PDT) (tl : Str) (hnd : headNonDigit tl) :
    runSteps (items.map stepOf) dt (items.flatMap (itemText f) ++ tl)
      = .ok (items.foldl (fun dt it => setItem f it dt) dt) := by
  induction items generalizing dt with
  | nil => rfl
  | cons it l ih =>
    have hl1 : litsOk [it] = true := by
      simp only [litsOk, List.all_cons, Bool.and_eq_true] at hl; simp [litsOk, hl.1]
    have hl2 : litsOk l = true := by simp only [litsOk, List.all_cons, Bool.and_eq_true] at hl ⊢; exact hl.2
    have hg2 : greedyOk l = true := by
      cases l with
      | nil => rfl
      | cons b l' => simp only [greedyOk, Bool.and_eq_true] at hg; exact hg.2
    have hstep := step_item f hv hy it hl1 dt (l.flatMap (itemText f) ++ tl)
      (headNonDigit_items f it l tl hl hg hnd)
    simp only [List.map_cons, List.flatMap_cons, List.append_assoc, runSteps, hstep, List.foldl_cons]
    exact ih hl2 hg2 _

theorem foldl_set (f : Fields) (items : List Item) (dt : PDT) :
    items.foldl (fun dt it => setItem f it dt) dt =
      { day := if items.contains .d then some f.d else dt.day,
        month := if items.contains .m then some f.mo else dt.month,
        year := if items.contains .Y then some f.y else dt.year,
        dayOfYear := dt.dayOfYear, weekday := dt.weekday, am := dt.am,
        hours := if items.contains .H then some f.h else dt.hours,
        minutes := if items.contains .i then some f.mi else dt.minutes,
        seconds := if items.contains .s then some f.s else dt.seconds,
        micros := if items.contains .f then some (f.ns / 1000) else dt.micros } := by
  induction items generalizing dt with
  | nil => simp
  | cons it l ih =>
    rw [List.foldl_cons, ih]
    cases it <;> simp [setItem] <;> (repeat' split) <;> simp_all

theorem trimLeft_id (s : Str) (h : ∀ b ∈ s, isTrimSpace b = false) : trimLeft s = s := by
  cases s with
  | nil => rfl
  | cons b s => simp [trimLeft, h b (by simp)]

theorem trimSpace_id (s : Str) (h : ∀ b ∈ s, isTrimSpace b = false) : trimSpace s = s := by
  unfold trimSpace
  rw [trimLeft_id s h, trimLeft_id s.reverse (by intro b hb; exact h b (by simpa using hb))]
  simp

theorem showNatAux_digits (fuel v : Nat) : ∀ b ∈ showNatAux fuel v, isDigit b = true := by
  induction fuel generalizing v with
  | zero => simp [showNatAux]
  | succ n ih =>
    intro b hb
    unfold showNatAux at hb
    split at hb
    · simp only [List.mem_singleton] at hb; rw [hb]; exact digit_isDigit v
    · simp only [List.mem_append, List.mem_singleton] at hb
      rcases hb with hb | rfl
      · exact ih _ b hb
      · exact digit_isDigit v

theorem padShow_digits (w v : Nat) : ∀ b ∈ padShow w v, isDigit b = true := by
  unfold padShow
  split
  · exact padW_digits w v
  · exact showNatAux_digits _ v

theorem itemText_bytes (f : Fields) (it : Item) (hl : litsOk [it] = true) :
    ∀ b ∈ itemText f it, isTrimSpace b = false := by
  intro b hb
  cases it with
  | lit c =>
    have hc : litOk c = true := by simpa [litsOk] using hl
    simp only [itemText, List.mem_singleton] at hb
    rw [hb]; exact (litOk_ne c hc).2.2.2.1
  | _ => exact (isDigit_not_space b (padShow_digits _ _ b hb)).2

theorem itemsText_bytes (f : Fields) (items : List Item) (hl : litsOk items = true) :
    ∀ b ∈ items.flatMap (itemText f), isTrimSpace b = false := by
  intro b hb
  simp only [List.mem_flatMap] at hb
  obtain ⟨it, hit, hb⟩ := hb
  have : litsOk [it] = true := by
    simp only [litsOk, List.all_eq_true] at hl ⊢
    intro x hx; simp only [List.mem_singleton] at hx; rw [hx]; exact hl it hit
  exact itemText_bytes f it this b hb

theorem stepOf_spec_ne (it : Item) : (stepOf it).spec ≠ some 112 := by
  cases it <;> simp [stepOf]

theorem specs_no_p (items : List Item) : ((items.map stepOf).filterMap (·.spec)).contains 112 = false := by
  induction items with
  | nil => rfl
  | cons it l ih =>
    rw [List.map_cons, List.filterMap_cons]
    have hne := stepOf_spec_ne it
    cases hs : (stepOf it).spec with
    | none => exact ih
    | some c =>
      have hc : (112 == c) = false := by
        rw [hs] at hne
        simp only [beq_eq_false_iff_ne, ne_eq]
        intro e; exact hne (by rw [e])
      simp only [List.contains_cons, hc, Bool.false_or]
      exact ih

theorem ampm24_items (items : List Item) : ampm24Check ((items.map stepOf).filterMap (·.spec)) = false := by
  unfold ampm24Check
  rw [specs_no_p]
  split <;> simp

theorem getD_ite (c : Prop) [Decidable c] (x : Int) :
    (if c then some x else none).getD 0 = if c then x else 0 := by
  split <;> rfl

theorem ite_mul (c : Prop) [Decidable c] (x : Int) :
    (if c then x else 0) * 1000 = if c then x * 1000 else 0 := by
  split <;> simp

/-- DATE_FORMAT then STR_TO_DATE over the item grammar (model level). -/
theorem roundtrip_items (items : List Item) (f : Fields) (hc : completeItems items = true)
    (hv : validFields f) (hy : 0 ≤ f.y ∧ f.y ≤ 9999) :
    formatImpl (goDate f) (renderItems items) = .ok (items.flatMap (itemText f)) ∧
    parseImpl (items.flatMap (itemText f)) (renderItems items) = .ok (some (goDate (maskFields items f))) := by
  simp only [completeItems, Bool.and_eq_true] at hc
  obtain ⟨⟨⟨⟨hY, hm⟩, hd⟩, hg⟩, hl⟩ := hc
  have hfmt := format_items (goDate f) items hl
  rw [fieldsOf_goDate f hv] at hfmt
  refine ⟨hfmt, ?_⟩
  have hrun := run_items f hv hy items hl hg {} [] trivial
  rw [List.append_nil, foldl_set] at hrun
  unfold parseImpl parseFields
  rw [compile_items items hl]
  simp only [ampm24_items, Bool.false_eq_true, if_false, trimSpace_id _ (itemsText_bytes f items hl), hrun]
  simp only [hY, hm, hd, if_true, PDT.isEmpty, Option.isNone_some, Bool.false_and, Bool.and_false,
    Bool.false_eq_true, if_false, assemble, getD, Option.getD_some, maskFields]
  simp only [getD_ite, ite_mul]

end Gms.Cal
