/-
Lemmas about the shared conversion model Gms/Model/NumConv.lean that both C26 (compare) and C27
(store) use: shapes of `convertInt`, agreement of the two 64-bit converters on non-negative values.
-/
import Gms.Model.NumConv
namespace Gms.Conv
open Gms.Num

theorem pow10_pos (n : Nat) : (0 : Int) < 10 ^ n := Int.pow_pos (by omega)

theorem convertInt_i64 (v : Val) (hn : v ≠ .null) :
    convertInt .i64 v = ⟨.int (convertToInt64 v).val, (convertToInt64 v).flag, (convertToInt64 v).err⟩ := by
  cases v <;> first | exact absurd rfl hn | rfl

theorem convertInt_u64 (v : Val) (hn : v ≠ .null) :
    convertInt .u64 v = ⟨.int (convertToUint64 v).val, (convertToUint64 v).flag, (convertToUint64 v).err⟩ := by
  cases v <;> first | exact absurd rfl hn | rfl

/-- narrow types: the shape of `NumberTypeImpl_.Convert` after `convertToInt64` -/
theorem convertInt_narrow (t : ITy) (ht : t ≠ .i64 ∧ t ≠ .u64) (v : Val) (hn : v ≠ .null) :
    convertInt t v =
      (let r := convertToInt64 v
       if r.err = .fatal then ⟨.int (convertInt.wrapTo t r.val), r.flag, .fatal⟩
       else if r.val > t.hi then ⟨.int t.hi, .overflow, .none⟩
       else if r.val < t.lo then
         ⟨.int (if t.unsigned then convertInt.wrapTo t (t.hi + r.val + 1) else t.lo), .underflow, .none⟩
       else ⟨.int r.val, .inRange, r.err⟩) := by
  cases v <;> first | exact absurd rfl hn | (cases t <;> first | exact absurd rfl ht.1 | exact absurd rfl ht.2 | rfl)

/-- in range, without error: the stored value is the `convertToInt64` value -/
theorem convertInt_narrow_inRange (t : ITy) (ht : t ≠ .i64 ∧ t ≠ .u64) (v : Val) (hn : v ≠ .null)
    (he : (convertInt t v).err = .none) (hf : (convertInt t v).flag = .inRange) :
    (convertInt t v).val = .int (convertToInt64 v).val ∧ (convertToInt64 v).err = .none ∧
      t.lo ≤ (convertToInt64 v).val ∧ (convertToInt64 v).val ≤ t.hi := by
  rw [convertInt_narrow t ht v hn] at he hf ⊢
  simp only at he hf ⊢
  by_cases h1 : (convertToInt64 v).err = .fatal
  · rw [if_pos h1] at he; cases he
  · rw [if_neg h1] at he hf ⊢
    by_cases h2 : (convertToInt64 v).val > t.hi
    · rw [if_pos h2] at hf; cases hf
    · rw [if_neg h2] at he hf ⊢
      by_cases h3 : (convertToInt64 v).val < t.lo
      · rw [if_pos h3] at hf; cases hf
      · rw [if_neg h3] at he hf ⊢
        exact ⟨rfl, he, by omega, by omega⟩


theorem toU64_eq_toI64 (v : Val) (hn : v ≠ .null) (hneg : v.negative = false)
    (he : (convertToInt64 v).err = .none) (h0 : 0 ≤ (convertToInt64 v).val) (h1 : (convertToInt64 v).val < maxI64) :
    (convertToUint64 v).val = (convertToInt64 v).val ∧ (convertToUint64 v).err = .none := by
  cases v with
  | null => exact absurd rfl hn
  | i x =>
    simp only [convertToInt64] at h0
    have : ¬ x < 0 := by omega
    simp [convertToUint64, convertToInt64, this]
  | u x =>
    simp only [convertToInt64] at h1 ⊢
    by_cases hx : x > maxI64
    · rw [if_pos hx] at h1; simp at h1
    · simp [convertToUint64, hx]
  | d c sc =>
    simp only [Val.negative, decide_eq_false_iff_not] at hneg
    simp only [convertToInt64] at h0 h1 he ⊢
    by_cases hg : decGt c sc maxI64 = true
    · rw [if_pos hg] at h1; simp at h1
    · rw [if_neg hg] at h0 h1 ⊢
      by_cases hl : decLt c sc minI64 = true
      · rw [if_pos hl] at h0; simp [minI64] at h0
      · rw [if_neg hl] at h0 h1 ⊢
        have hg' : ¬ decGt c sc maxU64 = true := by
          simp only [decGt, decide_eq_true_eq] at hg ⊢
          have hp := pow10_pos sc
          have : maxI64 * 10 ^ sc ≤ maxU64 * 10 ^ sc :=
            Int.mul_le_mul_of_nonneg_right (by simp [maxI64, maxU64]) (Int.le_of_lt hp)
          omega
        simp only [convertToUint64]
        rw [if_neg hg', if_neg hneg]
        exact ⟨rfl, rfl⟩
  | s bs =>
    simp only [Val.negative] at hneg
    simp only [convertToInt64, convertToUint64] at *
    generalize truncateStringToInt bs = tt at *
    obtain ⟨t, trunc⟩ := tt
    simp only at *
    by_cases hr : signedVal t < minI64 ∨ signedVal t > maxI64
    · rw [if_pos hr] at he; cases he
    · rw [if_neg hr] at he h0 h1 ⊢
      simp only at he h0 h1 ⊢
      have htr : trunc = false := by
        cases trunc
        · rfl
        · simp at he
      subst htr
      match t, hneg, h0, h1, hr with
      | [], _, _, _, _ => simp [signedVal, splitSign, digitsVal, maxU64]
      | c :: ds, hneg, h0, h1, hr =>
        have hc45 : c ≠ 45 := by
          intro h; subst h; simp at hneg
        by_cases hc43 : c = 43
        · subst hc43
          simp only [signedVal, splitSign] at h0 h1 hr ⊢
          have : ¬ ((digitsVal ds 0 : Nat) : Int) > maxU64 := by simp only [maxI64, maxU64] at *; omega
          simp [this]
        · have hsv : signedVal (c :: ds) = (digitsVal (c :: ds) 0 : Nat) := by
            unfold signedVal
            split
            · rename_i h; simp at h; exact absurd h.1 hc45
            · rename_i h; simp at h; exact absurd h.1 hc43
            · rfl
          rw [hsv] at h0 h1 hr ⊢
          have hm : splitSign (c :: ds) = (false, c :: ds) := by
            unfold splitSign
            split
            · rename_i h; simp at h; exact absurd h.1 hc43
            · rename_i h; simp at h; exact absurd h.1 hc45
            · rfl
          rw [hm]
          have : ¬ ((digitsVal (c :: ds) 0 : Nat) : Int) > maxU64 := by simp only [maxI64, maxU64] at *; omega
          simp [this]

end Gms.Conv
