/-
Helper lemmas for C30, memory model (model: Gms/Model/RangeMapMem.lean). Core Lean only.
-/
import Gms.Model.RangeMapMem

namespace Gms.RangeMap

theorem overwrite_length (h : Heap) (i : Nat) (bs : List Nat) :
    (h.overwrite i bs).length = h.length := by
  simp [Heap.overwrite]

theorem overwrite_getD_ne (h : Heap) (i j : Nat) (bs : List Nat) (hne : i ≠ j) :
    (h.overwrite i bs).getD j [] = h.getD j [] := by
  simp [Heap.overwrite, List.getD_eq_getElem?_getD, List.getElem?_set_ne hne]

theorem append_getD_lt (h : Heap) (b : List Nat) (i : Nat) (hi : i < h.length) :
    (h ++ [b]).getD i [] = h.getD i [] := by
  simp [List.getD_eq_getElem?_getD, List.getElem?_append_left hi]

theorem append_getD_len (h : Heap) (b : List Nat) : (h ++ [b]).getD h.length [] = b := by
  simp [List.getD_eq_getElem?_getD]

/-- A `fresh` call leaves the memo table alone and only adds a buffer. -/
theorem callM_fresh_heap (key : List Nat) (r : Res) (m : Mem) :
    (∃ bs, r = .ok bs ∧ (callM .fresh key r m).1.heap = m.heap ++ [bs] ∧
      (callM .fresh key r m).2 = .ok ⟨m.heap.length, bs.length⟩) ∨
    ((callM .fresh key r m).1 = m ∧ (callM .fresh key r m).2.read (callM .fresh key r m).1.heap = r ∧
      ∀ h, (callM .fresh key r m).2.read h = r) := by
  cases r with
  | ok bs => exact .inl ⟨bs, rfl, rfl, rfl⟩
  | fail => exact .inr ⟨rfl, rfl, fun _ => rfl⟩
  | crash => exact .inr ⟨rfl, rfl, fun _ => rfl⟩

/-- **Frame.** With per-call allocation a batch never touches a buffer that existed before it and
that the caller does not write to itself. -/
theorem runLate_fresh_frame : ∀ (st : List Step) (m : Mem) (n : Nat),
    n ≤ m.heap.length → editsBelow n st = true →
    m.heap.length ≤ (runLate .fresh st m).1.heap.length ∧
    ∀ i, n ≤ i → i < m.heap.length → (runLate .fresh st m).1.heap.getD i [] = m.heap.getD i []
  | [], m, n, _, _ => ⟨Nat.le_refl _, fun _ _ _ => rfl⟩
  | .call key r :: st, m, n, hn, he => by
    simp only [editsBelow] at he
    simp only [runLate]
    rcases callM_fresh_heap key r m with ⟨bs, _, hh, _⟩ | ⟨hm, _, _⟩
    · have ih := runLate_fresh_frame st (callM .fresh key r m).1 n (by rw [hh]; simp; omega) he
      rw [hh] at ih
      refine ⟨by have := ih.1; simp at this; omega, fun i h1 h2 => ?_⟩
      rw [ih.2 i h1 (by simp; omega)]
      exact append_getD_lt _ _ _ h2
    · rw [hm]
      exact runLate_fresh_frame st m n hn he
  | .edit i bs :: st, m, n, hn, he => by
    simp only [editsBelow, Bool.and_eq_true, decide_eq_true_eq] at he
    simp only [runLate]
    have ih := runLate_fresh_frame st { m with heap := m.heap.overwrite i bs } n
      (by simp [overwrite_length]; exact hn) he.2
    simp only [overwrite_length] at ih
    refine ⟨ih.1, fun j h1 h2 => ?_⟩
    rw [ih.2 j h1 h2]
    exact overwrite_getD_ne _ _ _ _ (by omega)

/-- **Late reads.** With per-call allocation, reading every result when the batch is over gives the
values of the pure functions — whatever the batch is, as long as the caller's own writes go to buffers
that existed before it (its inputs). -/
theorem observeLate_fresh : ∀ (st : List Step) (m : Mem) (n : Nat),
    n ≤ m.heap.length → editsBelow n st = true → observeLate .fresh st m = pureResults st
  | [], _, _, _, _ => rfl
  | .call key r :: st, m, n, hn, he => by
    simp only [editsBelow] at he
    simp only [observeLate, runLate, pureResults, List.map_cons]
    rcases callM_fresh_heap key r m with ⟨bs, hr, hh, hs⟩ | ⟨hm, _, hread⟩
    · have hn' : n ≤ (callM .fresh key r m).1.heap.length := by rw [hh]; simp; omega
      have ih := observeLate_fresh st (callM .fresh key r m).1 n hn' he
      have fr := (runLate_fresh_frame st (callM .fresh key r m).1 n hn' he).2 m.heap.length hn
        (by rw [hh]; simp)
      simp only [observeLate] at ih
      rw [ih, hs]
      simp only [SRes.read, Heap.read]
      rw [fr, hh, append_getD_len, hr]
      simp
    · have ih := observeLate_fresh st m n hn he
      simp only [observeLate] at ih
      rw [hm, ih, hread]
  | .edit i bs :: st, m, n, hn, he => by
    simp only [editsBelow, Bool.and_eq_true, decide_eq_true_eq] at he
    simp only [observeLate, runLate, pureResults]
    exact observeLate_fresh st { m with heap := m.heap.overwrite i bs } n
      (by simp [overwrite_length]; exact hn) he.2

/-- **Eager reads followed by caller writes into the results.** With per-call allocation every
result, read when its call returns, is the value of the pure function — even though the caller
scribbles over every result it has seen and writes wherever else it likes. -/
theorem observeEager_fresh (junk : Nat) : ∀ (st : List Step) (m : Mem),
    observeEager .fresh junk st m = pureResults st
  | [], _ => rfl
  | .call key r :: st, m => by
    simp only [observeEager, pureResults]
    rw [observeEager_fresh junk st]
    congr 1
    rcases callM_fresh_heap key r m with ⟨bs, hr, hh, hs⟩ | ⟨_, hread, _⟩
    · subst hr
      rw [hs]
      simp only [SRes.read, Heap.read]
      rw [hh, append_getD_len]
      simp
    · exact hread
  | .edit i bs :: st, m => by
    simp only [observeEager, pureResults]
    exact observeEager_fresh junk st _

theorem editsBelow_keepBatch (junk : Nat) : ∀ (cs : List (List Nat × Res)) (j n : Nat),
    j + cs.length ≤ n → editsBelow n (keepBatch junk j cs) = true
  | [], _, _, _ => rfl
  | (key, r) :: rest, j, n, h => by
    simp only [List.length_cons] at h
    simp only [keepBatch, editsBelow, Bool.and_eq_true, decide_eq_true_eq]
    exact ⟨by omega, editsBelow_keepBatch junk rest (j + 1) n (by omega)⟩

theorem pureResults_keepBatch (junk : Nat) : ∀ (cs : List (List Nat × Res)) (j : Nat),
    pureResults (keepBatch junk j cs) = cs.map (·.2)
  | [], _ => rfl
  | (key, r) :: rest, j => by
    simp only [keepBatch, pureResults, List.map_cons]
    rw [pureResults_keepBatch junk rest (j + 1)]

end Gms.RangeMap
