/-
C27: "exact, or reported and nearest" for the integer column types (`NumberTypeImpl_.Convert`).
-/
import Gms.Model.Store
import Gms.Lemmas.Round
import Gms.Lemmas.StoreNum
import Gms.Lemmas.StoreSpec
namespace Gms.Store
open Gms.Num Gms.Conv

theorem narrow_bounds (it : ITy) (h : it ≠ .i64 ∧ it ≠ .u64) :
    minI64 < it.lo ∧ it.lo ≤ 0 ∧ 0 ≤ it.hi ∧ it.hi < maxI64 ∧ (it.unsigned = true → it.lo = 0) := by
  cases it <;> simp [ITy.lo, ITy.hi, ITy.unsigned, ITy.bits, minI64, maxI64] at h ⊢

theorem mul_pow_le {a b : Int} (h : a ≤ b) (s : Nat) : a * 10 ^ s ≤ b * 10 ^ s :=
  Int.mul_le_mul_of_nonneg_right h (Int.le_of_lt (pow10_pos s))

/-- a negative rounded value comes from a negative value -/
theorem negative_of_num (v : Val) (hwf : v.WF) (c : Int) (s : Nat) (hx : numOf v = some (c, s)) (hc : c < 0) :
    v.negative = true := by
  cases v with
  | null => simp [numOf] at hx
  | s bs => simp [numOf] at hx
  | i x =>
    simp only [numOf, Option.some.injEq, Prod.mk.injEq] at hx
    obtain ⟨rfl, rfl⟩ := hx
    simp [Val.negative, hc]
  | u x =>
    simp only [numOf, Option.some.injEq, Prod.mk.injEq] at hx
    obtain ⟨rfl, rfl⟩ := hx
    simp only [Val.WF, inU64] at hwf; omega
  | d c' s' =>
    simp only [numOf, Option.some.injEq, Prod.mk.injEq] at hx
    obtain ⟨rfl, rfl⟩ := hx
    simp [Val.negative, hc]

theorem int_spec_unfold (it : ITy) (c : Int) (s : Nat) :
    target (.int it) (c, s) = roundHalfAway c s ∧
    (Ty.storable (.int it) (roundHalfAway c s) = true ↔ it.lo ≤ roundHalfAway c s ∧ roundHalfAway c s ≤ it.hi) ∧
    (exactInBounds (.int it) (c, s) = true ↔ it.lo * 10 ^ s ≤ c ∧ c ≤ it.hi * 10 ^ s) := by
  refine ⟨?_, ?_, ?_⟩
  · simp [target, Ty.scale, target_int]
  · simp only [Ty.storable, Ty.lo, Ty.hi, Bool.and_eq_true]
    exact ⟨fun h => ⟨of_decide_eq_true h.1, of_decide_eq_true h.2⟩, fun h => ⟨decide_eq_true h.1, decide_eq_true h.2⟩⟩
  · simp only [exactInBounds, Ty.lo, Ty.hi]
    exact ⟨of_decide_eq_true, decide_eq_true⟩

/-- **exact or reported, nearest** for the eight narrow integer types -/
theorem narrow_acceptable (it : ITy) (hn : it ≠ .i64 ∧ it ≠ .u64) (v : Val) (hwf : v.WF) (c : Int) (s : Nat)
    (hx : numOf v = some (c, s)) (hreg : ¬ unsigned_underflow_wraps (.int it) v) :
    Acceptable (.int it) (c, s) (convertInt it v) := by
  obtain ⟨hlo, hlo0, hhi0, hhi, hul⟩ := narrow_bounds it hn
  obtain ⟨he, hcase⟩ := convertToInt64_num v hwf c s hx
  obtain ⟨htg, hst, hex⟩ := int_spec_unfold it c s
  have hnf : ¬ (convertToInt64 v).err = .fatal := by rw [he]; simp
  rw [convertInt_narrow it hn v (numOf_ne_null hx)]
  simp only [hnf, if_false]
  unfold Acceptable
  rw [htg]
  have hneg : it.unsigned = true → ¬ (convertToInt64 v).val < 0 := by
    intro hu hlt
    apply hreg
    refine ⟨hu, negative_of_num v hwf c s hx ?_⟩
    rcases hcase with ⟨_, hv, _⟩ | ⟨_, hv, _⟩ | ⟨_, hv, _, hc⟩
    · by_cases hc0 : c < 0
      · exact hc0
      · have := rha_ge_of_ge c s 0 (by omega); omega
    · simp only [maxI64] at hv; omega
    · have := pow10_pos s
      have : minI64 * 10 ^ s ≤ 0 * 10 ^ s := mul_pow_le (by simp [minI64]) s
      omega
  have hmaxp : it.hi * 10 ^ s ≤ maxI64 * 10 ^ s := mul_pow_le (by omega) s
  have hminp : minI64 * 10 ^ s ≤ it.lo * 10 ^ s := mul_pow_le (by omega) s
  by_cases h1 : (convertToInt64 v).val > it.hi
  · -- clamped to the upper bound, Overflow
    simp only [h1, if_true]
    have hge : it.hi ≤ roundHalfAway c s ∧ (it.hi = roundHalfAway c s → ¬ c ≤ it.hi * 10 ^ s) := by
      rcases hcase with ⟨_, hv, _⟩ | ⟨_, hv, hr, hc⟩ | ⟨_, hv, _, _⟩
      · constructor <;> omega
      · constructor <;> omega
      · omega
    refine ⟨?_, ?_, ?_⟩
    · intro hs hb
      have := hst.1 hs; have := hex.1 hb
      omega
    · intro hs _
      right
      have := hst.1 hs
      have : it.hi = roundHalfAway c s := by omega
      simp [storedCoeff, this]
    · intro hs
      have hns : ¬ (it.lo ≤ roundHalfAway c s ∧ roundHalfAway c s ≤ it.hi) := by
        intro h; have := hst.2 h; simp [this] at hs
      refine ⟨by simp [conversionOk], Or.inr ?_⟩
      have h2 : ¬ roundHalfAway c s < it.lo := by omega
      have h3 : roundHalfAway c s > it.hi := by omega
      simp [storedCoeff, nearest, clamp, Ty.lo, Ty.hi, h2, h3]
  · simp only [h1, if_false]
    by_cases h2 : (convertToInt64 v).val < it.lo
    · simp only [h2, if_true]
      have hsg : it.unsigned = false := by
        cases hu : it.unsigned
        · rfl
        · exact absurd (by have := hul hu; omega) (hneg hu)
      simp only [hsg, Bool.false_eq_true, if_false]
      have hle : roundHalfAway c s ≤ it.lo ∧ (it.lo = roundHalfAway c s → ¬ it.lo * 10 ^ s ≤ c) := by
        rcases hcase with ⟨_, hv, _⟩ | ⟨_, hv, _, _⟩ | ⟨_, hv, hr, hc⟩
        · constructor <;> omega
        · omega
        · constructor <;> omega
      refine ⟨?_, ?_, ?_⟩
      · intro hs hb
        have := hst.1 hs; have := hex.1 hb
        omega
      · intro hs _
        right
        have := hst.1 hs
        have : it.lo = roundHalfAway c s := by omega
        simp [storedCoeff, this]
      · intro hs
        have hns : ¬ (it.lo ≤ roundHalfAway c s ∧ roundHalfAway c s ≤ it.hi) := by
          intro h; have := hst.2 h; simp [this] at hs
        refine ⟨by simp [conversionOk], Or.inr ?_⟩
        have h3 : roundHalfAway c s < it.lo := by omega
        simp [storedCoeff, nearest, clamp, Ty.lo, h3]
    · simp only [h2, if_false]
      -- in range: the 64-bit conversion was exact
      have hv : (convertToInt64 v).val = roundHalfAway c s := by
        rcases hcase with ⟨_, hv, _⟩ | ⟨_, hv, _, _⟩ | ⟨_, hv, _, _⟩
        · exact hv
        · omega
        · omega
      have hsto : Ty.storable (.int it) (roundHalfAway c s) = true := hst.2 (by omega)
      refine ⟨?_, ?_, ?_⟩
      · intro _ _
        exact ⟨he, trivial, by simp [storedCoeff, hv]⟩
      · intro _ _
        right; simp [storedCoeff, hv]
      · intro hs; rw [hsto] at hs; cases hs
theorem i64_acceptable (v : Val) (hwf : v.WF) (c : Int) (s : Nat) (hx : numOf v = some (c, s)) :
    Acceptable (.int .i64) (c, s) (convertInt .i64 v) := by
  obtain ⟨he, hcase⟩ := convertToInt64_num v hwf c s hx
  obtain ⟨htg, hst, hex⟩ := int_spec_unfold .i64 c s
  rw [convertInt_i64 v (numOf_ne_null hx)]
  unfold Acceptable
  rw [htg]
  have hlo : ITy.lo .i64 = minI64 := by simp [ITy.lo, ITy.unsigned, ITy.bits, minI64]
  have hhi : ITy.hi .i64 = maxI64 := by simp [ITy.hi, ITy.unsigned, ITy.bits, maxI64]
  rw [hlo, hhi] at hst hex
  rcases hcase with ⟨hf, hv, hr⟩ | ⟨hf, hv, hr, hc⟩ | ⟨hf, hv, hr, hc⟩
  · have hsto : Ty.storable (.int .i64) (roundHalfAway c s) = true := hst.2 hr
    refine ⟨fun _ _ => ⟨he, hf, by simp [storedCoeff, hv]⟩, fun _ _ => Or.inr (by simp [storedCoeff, hv]), ?_⟩
    intro hs; rw [hsto] at hs; cases hs
  · refine ⟨?_, ?_, ?_⟩
    · intro _ hb; have := hex.1 hb; omega
    · intro hs _
      have := hst.1 hs
      right; simp only [storedCoeff, hv]; congr 1; omega
    · intro hs
      have hns : ¬ (minI64 ≤ roundHalfAway c s ∧ roundHalfAway c s ≤ maxI64) := by
        intro h; have := hst.2 h; simp [this] at hs
      refine ⟨by simp [conversionOk, hf], Or.inr ?_⟩
      have h2 : ¬ roundHalfAway c s < minI64 := by simp only [minI64, maxI64] at *; omega
      have h3 : roundHalfAway c s > maxI64 := by omega
      simp [storedCoeff, nearest, clamp, Ty.lo, Ty.hi, hlo, hhi, h2, h3, hv]
  · refine ⟨?_, ?_, ?_⟩
    · intro _ hb; have := hex.1 hb; omega
    · intro hs _
      have := hst.1 hs
      right; simp only [storedCoeff, hv]; congr 1; omega
    · intro hs
      have hns : ¬ (minI64 ≤ roundHalfAway c s ∧ roundHalfAway c s ≤ maxI64) := by
        intro h; have := hst.2 h; simp [this] at hs
      refine ⟨by simp [conversionOk, hf], Or.inr ?_⟩
      have hmm : minI64 < maxI64 := by simp [minI64, maxI64]
      have h3 : roundHalfAway c s < minI64 := by omega
      simp [storedCoeff, nearest, clamp, Ty.lo, hlo, h3, hv]

theorem u64_acceptable (v : Val) (hwf : v.WF) (c : Int) (s : Nat) (hx : numOf v = some (c, s))
    (hreg : ¬ unsigned_underflow_wraps (.int .u64) v) :
    Acceptable (.int .u64) (c, s) (convertInt .u64 v) := by
  have hc : 0 ≤ c := by
    by_cases h : c < 0
    · exact absurd ⟨rfl, negative_of_num v hwf c s hx h⟩ hreg
    · omega
  obtain ⟨he, hcase⟩ := convertToUint64_num v hwf c s hx hc
  obtain ⟨htg, hst, hex⟩ := int_spec_unfold .u64 c s
  rw [convertInt_u64 v (numOf_ne_null hx)]
  unfold Acceptable
  rw [htg]
  have hlo : ITy.lo .u64 = 0 := by simp [ITy.lo, ITy.unsigned]
  have hhi : ITy.hi .u64 = maxU64 := by simp [ITy.hi, ITy.unsigned, ITy.bits, maxU64]
  rw [hlo, hhi] at hst hex
  rcases hcase with ⟨hf, hv, hr⟩ | ⟨hf, hv, hr, hc'⟩
  · have hsto : Ty.storable (.int .u64) (roundHalfAway c s) = true := hst.2 hr
    refine ⟨fun _ _ => ⟨he, hf, by simp [storedCoeff, hv]⟩, fun _ _ => Or.inr (by simp [storedCoeff, hv]), ?_⟩
    intro hs; rw [hsto] at hs; cases hs
  · refine ⟨?_, ?_, ?_⟩
    · intro _ hb; have := hex.1 hb; omega
    · intro hs _
      have := hst.1 hs
      right; simp only [storedCoeff, hv]; congr 1; omega
    · intro hs
      have hns : ¬ (0 ≤ roundHalfAway c s ∧ roundHalfAway c s ≤ maxU64) := by
        intro h; have := hst.2 h; simp [this] at hs
      refine ⟨by simp [conversionOk, hf], Or.inr ?_⟩
      have h2 : ¬ roundHalfAway c s < 0 := by simp only [maxU64] at *; omega
      have h3 : roundHalfAway c s > maxU64 := by omega
      simp [storedCoeff, nearest, clamp, Ty.lo, Ty.hi, hlo, hhi, h2, h3, hv]

/-- **exact, or reported and nearest**, all ten integer types, every Go integer / decimal value -/
theorem int_acceptable (it : ITy) (v : Val) (hwf : v.WF) (c : Int) (s : Nat) (hx : numOf v = some (c, s))
    (hreg : ¬ unsigned_underflow_wraps (.int it) v) : Acceptable (.int it) (c, s) (convert (.int it) v) := by
  simp only [convert]
  by_cases h1 : it = .i64
  · subst h1; exact i64_acceptable v hwf c s hx
  · by_cases h2 : it = .u64
    · subst h2; exact u64_acceptable v hwf c s hx hreg
    · exact narrow_acceptable it ⟨h1, h2⟩ v hwf c s hx hreg
end Gms.Store
