/-
C31 — DATEDIFF / TIMESTAMPDIFF lemmas.
-/
import Gms.Lemmas.Cal

namespace Gms.Cal

theorem roundDiv_mul (k : Int) : roundDiv (k * nsDay) nsDay = k := by
  unfold roundDiv nsDay
  split <;> omega

theorem dateDiff_partial (t1 t2 : Int) (h : datediff_saturates t1 t2 = false) :
    dateDiffImpl t1 t2 = dateDiffSpec t1 t2 := by
  simp only [datediff_saturates, decide_eq_false_iff_not] at h
  unfold dateDiffImpl dateDiffSpec
  simp only
  generalize t1 / nsDay = a at *
  generalize t2 / nsDay = b at *
  have hk : a * nsDay - b * nsDay = (a - b) * nsDay := by simp only [nsDay]; omega
  unfold goSub
  simp only [hk]
  by_cases hmax : (a - b) * nsDay > maxDur
  · have : a - b = 106752 := by simp only [nsDay, maxDur] at hmax; omega
    rw [if_pos hmax, this]; decide
  · rw [if_neg hmax]
    by_cases hmin : (a - b) * nsDay < minDur
    · have : a - b = -106752 := by simp only [nsDay, minDur] at hmin; omega
      rw [if_pos hmin, this]; decide
    · rw [if_neg hmin, roundDiv_mul]

theorem clock_eq (t : Int) :
    t % nsDay = (fieldsOf t).h * nsHour + (fieldsOf t).mi * nsMin + (fieldsOf t).s * nsSec + (fieldsOf t).ns ∧
    0 ≤ (fieldsOf t).h ∧ (fieldsOf t).h ≤ 23 ∧ 0 ≤ (fieldsOf t).mi ∧ (fieldsOf t).mi ≤ 59 ∧
    0 ≤ (fieldsOf t).s ∧ (fieldsOf t).s ≤ 59 ∧ 0 ≤ (fieldsOf t).ns ∧ (fieldsOf t).ns ≤ 999999999 := by
  simp only [fieldsOf, nsDay, nsHour, nsMin, nsSec]
  omega

/-- the comparison of the times of day, as `monthsDiff` computes it with a correct
seconds-per-minute constant -/
theorem tod_lt_iff (a b : Int) :
    a % nsDay < b % nsDay ↔
      (((fieldsOf a).h - (fieldsOf b).h) * 3600 + ((fieldsOf a).mi - (fieldsOf b).mi) * 60 + ((fieldsOf a).s - (fieldsOf b).s) < 0 ∨
       (((fieldsOf a).h - (fieldsOf b).h) * 3600 + ((fieldsOf a).mi - (fieldsOf b).mi) * 60 + ((fieldsOf a).s - (fieldsOf b).s) = 0 ∧
        (fieldsOf b).ns > (fieldsOf a).ns)) := by
  have ha := clock_eq a
  have hb := clock_eq b
  simp only [nsDay, nsHour, nsMin, nsSec] at *
  omega

theorem monthsDiffWith_core (spm : Int) (before after : Int)
    (hs : spm = 60 ∨ ((fieldsOf before).d = (fieldsOf after).d → (fieldsOf before).mi = (fieldsOf after).mi)) :
    (let b := fieldsOf before
     let a := fieldsOf after
     let secondDiff := (a.h - b.h) * 3600 + (a.mi - b.mi) * spm + (a.s - b.s)
     (if b.d > a.d then a.mo - b.mo - 1
      else if b.d = a.d then
        (if secondDiff < 0 then a.mo - b.mo - 1
         else if secondDiff = 0 ∧ b.ns > a.ns then a.mo - b.mo - 1 else a.mo - b.mo)
      else a.mo - b.mo))
    = (if (fieldsOf after).d < (fieldsOf before).d ∨
          ((fieldsOf after).d = (fieldsOf before).d ∧ after % nsDay < before % nsDay)
       then (fieldsOf after).mo - (fieldsOf before).mo - 1 else (fieldsOf after).mo - (fieldsOf before).mo) := by
  have ht := tod_lt_iff after before
  simp only
  by_cases h1 : (fieldsOf before).d > (fieldsOf after).d
  · rw [if_pos h1, if_pos (Or.inl h1)]
  · rw [if_neg h1]
    by_cases h2 : (fieldsOf before).d = (fieldsOf after).d
    · rw [if_pos h2]
      have e : ((fieldsOf after).mi - (fieldsOf before).mi) * spm = ((fieldsOf after).mi - (fieldsOf before).mi) * 60 := by
        rcases hs with rfl | hs
        · rfl
        · rw [hs h2]; simp
      rw [e]
      by_cases h3 : after % nsDay < before % nsDay
      · rw [if_pos (Or.inr ⟨h2.symm, h3⟩)]
        rcases ht.mp h3 with h4 | h4
        · rw [if_pos h4]
        · rw [if_neg (by omega), if_pos h4]
      · have h5 := fun h => h3 (ht.mpr h)
        rw [if_neg (fun h => h5 (Or.inl h)), if_neg (fun h => h5 (Or.inr h))]
        rw [if_neg (fun h => h.elim (fun h => h1 h) (fun h => h3 h.2))]
    · rw [if_neg h2, if_neg (fun h => h.elim (fun h => h1 h) (fun h => h2 h.1.symm))]

end Gms.Cal
