/-
C27: strings written into integer columns — integer text is converted like the integer it denotes
(`Type.Convert` and the insert path `ConvertRound`), malformed text is reported.
-/
import Gms.Lemmas.StrScan
import Gms.Lemmas.StoreIdem
namespace Gms.Store
open Gms.Num Gms.Conv

/-- what the 64-bit converter (truncate mode) does on a string, in terms of `truncateStringToInt` -/
theorem convertToInt64_str (bs : List UInt8) :
    convertToInt64 (.s bs) =
      (let v := signedVal (truncateStringToInt bs).1
       if v < minI64 ∨ v > maxI64 then ⟨0, .inRange, .fatal⟩
       else ⟨v, .inRange, if (truncateStringToInt bs).2 then .truncated else .none⟩) := by
  simp only [convertToInt64]

theorem convertToInt64R_str (bs : List UInt8) (h : inI64 (signedVal (truncateStringToInt bs).1)) :
    convertToInt64R bs =
      ⟨signedVal (truncateStringToInt bs).1, .inRange, if (truncateStringToInt bs).2 then .truncated else .none⟩ := by
  simp only [convertToInt64R]
  generalize truncateStringToInt bs = tt at h ⊢
  obtain ⟨t, trunc⟩ := tt
  simp only at h ⊢
  rw [if_pos h]

/-- **integer text is converted like the integer it denotes** (truncate mode = `Type.Convert`, and
round mode = the insert path), for every integer type except BIGINT UNSIGNED, within the int64 range -/
theorem string_intText_as_integer (it : ITy) (hu : it ≠ .u64) (bs : List UInt8) (n : Int)
    (hn : strNum bs = some n) (hr : inI64 n) :
    convertInt it (.s bs) = convertInt it (.i n) ∧ convertIntR it bs = convertInt it (.i n) := by
  have hb : isIntBody (trim isIntCut bs) = true ∧ signedVal (trim isIntCut bs) = n := by
    simp only [strNum] at hn
    by_cases h : isIntBody (trim isIntCut bs) = true
    · rw [if_pos h] at hn; exact ⟨h, by simpa using hn⟩
    · rw [if_neg h] at hn; cases hn
  have ht := truncate_intBody bs hb.1
  have hnr : ¬ (n < minI64 ∨ n > maxI64) := by simp only [inI64] at hr; omega
  have e1 : convertToInt64 (.s bs) = ⟨n, .inRange, .none⟩ := by
    rw [convertToInt64_str, ht]; simp only [hb.2, hnr, if_false]; rfl
  have e2 : convertToInt64R bs = ⟨n, .inRange, .none⟩ := by
    rw [convertToInt64R_str bs (by rw [ht]; simpa [hb.2] using hr), ht]; simp [hb.2]
  have e3 : convertToInt64 (.i n) = ⟨n, .inRange, .none⟩ := rfl
  by_cases h64 : it = .i64
  · subst h64
    refine ⟨?_, ?_⟩
    · rw [convertInt_i64 _ (by simp), convertInt_i64 _ (by simp), e1, e3]
    · simp only [convertIntR]; rw [e2, convertInt_i64 _ (by simp), e3]
  · refine ⟨?_, ?_⟩
    · rw [convertInt_narrow it ⟨h64, hu⟩ _ (by simp), convertInt_narrow it ⟨h64, hu⟩ _ (by simp), e1, e3]
    · rw [convertInt_narrow it ⟨h64, hu⟩ _ (by simp), e3]
      have : convertIntR it bs =
          (let r := convertToInt64R bs
           if r.err ≠ .none then ⟨.int (convertInt.wrapTo it r.val), r.flag, r.err⟩
           else if r.val > it.hi then ⟨.int it.hi, .overflow, .none⟩
           else if r.val < it.lo then
             ⟨.int (if it.unsigned then convertInt.wrapTo it (it.hi + r.val + 1) else it.lo), .underflow, .none⟩
           else ⟨.int r.val, .inRange, .none⟩) := by
        cases it <;> first | exact absurd rfl h64 | exact absurd rfl hu | rfl
      rw [this, e2]
      simp

/-- **malformed text is reported**, by `Type.Convert` and on the insert path alike, for all ten
integer types — unless it is nothing but an optional sign (`sign_only_or_empty_string_as_zero`) -/
theorem string_malformed_reported (it : ITy) (bs : List UInt8) (hm : strNum bs = none)
    (hreg : ¬ sign_only_or_empty_string_as_zero (.int it) (.s bs)) :
    conversionOk (convertInt it (.s bs)) = false ∧ conversionOk (convertIntR it bs) = false := by
  have h1 : isIntBody (trim isIntCut bs) = false := by
    simp only [strNum] at hm
    cases h : isIntBody (trim isIntCut bs)
    · rfl
    · rw [h] at hm; simp at hm
  have h2 : isSignOnly (trim isIntCut bs) = false := by
    cases h : isSignOnly (trim isIntCut bs)
    · rfl
    · exact absurd h hreg
  have htr := truncate_malformed bs h1 h2
  constructor
  · -- truncate mode
    by_cases h64 : it = .i64
    · subst h64
      rw [convertInt_i64 _ (by simp), convertToInt64_str]
      simp only [htr, if_true]
      split <;> simp [conversionOk]
    · by_cases hu64 : it = .u64
      · subst hu64
        rw [convertInt_u64 _ (by simp)]
        simp only [convertToUint64]
        generalize truncateStringToInt bs = tt at htr ⊢
        obtain ⟨t, trunc⟩ := tt
        simp only at htr ⊢
        subst htr
        generalize splitSign t = sp
        obtain ⟨neg, ds⟩ := sp
        simp only
        split
        · simp [conversionOk]
        · split <;> simp [conversionOk]
      · rw [convertInt_narrow it ⟨h64, hu64⟩ _ (by simp), convertToInt64_str]
        simp only [htr, if_true]
        split
        · simp [conversionOk]
        · simp only
          split
          · simp [conversionOk]
          · split
            · simp [conversionOk]
            · split <;> simp [conversionOk]
  · -- round mode
    have hR : (convertToInt64R bs).err = .truncated := by
      simp only [convertToInt64R]
      generalize truncateStringToInt bs = tt at htr ⊢
      obtain ⟨t, trunc⟩ := tt
      simp only at htr ⊢
      subst htr
      split
      · rfl
      · split <;> split <;> rfl
    by_cases h64 : it = .i64
    · subst h64; simp [convertIntR, conversionOk, hR]
    · by_cases hu64 : it = .u64
      · subst hu64
        simp only [convertIntR, convertToUint64R]
        generalize truncateStringToInt bs = tt at htr ⊢
        obtain ⟨t, trunc⟩ := tt
        simp only at htr ⊢
        subst htr
        generalize splitSign t = sp
        obtain ⟨neg, ds⟩ := sp
        simp only
        split
        · simp [conversionOk]
        · split
          · simp [conversionOk]
          · split <;> simp [conversionOk]
      · have : convertIntR it bs = ⟨.int (convertInt.wrapTo it (convertToInt64R bs).val), (convertToInt64R bs).flag, .truncated⟩ := by
          cases it <;> first | exact absurd rfl h64 | exact absurd rfl hu64 | simp [convertIntR, hR]
        rw [this]; simp [conversionOk]
end Gms.Store
