/-
C32 — lemmas about the JSON number model (Gms/Model/JsonNum.lean): the rounding `roundF64` is
idempotent and keeps values below 2^53, the shortest-digits printer parses back to the double, plain
digit strings are held exactly when they fit an integer type, and the guarded round trip
`reparse_val_partial`. Core-only proofs.
-/
import Gms.Model.JsonNum
namespace Gms.JsonNum


theorem roundF64_small {n : Nat} (h : n < 2 ^ 53) : roundF64 n = n := by
  unfold roundF64; rw [if_pos h]

theorem roundF64_big {n : Nat} (h : ¬ n < 2 ^ 53) :
    roundF64 n = (if n % 2 ^ (n.log2 - 52) > 2 ^ (n.log2 - 52 - 1) ∨
        (n % 2 ^ (n.log2 - 52) = 2 ^ (n.log2 - 52 - 1) ∧ n / 2 ^ (n.log2 - 52) % 2 = 1)
      then n / 2 ^ (n.log2 - 52) + 1 else n / 2 ^ (n.log2 - 52)) * 2 ^ (n.log2 - 52) := by
  unfold roundF64; rw [if_neg h]

/-- A multiple `q·2^s` whose quotient is what the rounding shift leaves is its own rounding. -/
theorem roundF64_exact {R q s : Nat} (hR : R = q * 2 ^ s) (hlog : R.log2 - 52 = s)
    (hbig : 2 ^ 53 ≤ R) : roundF64 R = R := by
  rw [roundF64_big (by omega), hlog]
  have hp : 0 < 2 ^ s := Nat.two_pow_pos s
  have hm : R % 2 ^ s = 0 := by rw [hR]; exact Nat.mul_mod_left _ _
  have hd : R / 2 ^ s = q := by rw [hR]; exact Nat.mul_div_cancel _ hp
  have hh : 0 < 2 ^ (s - 1) := Nat.two_pow_pos _
  rw [hm, hd, if_neg (by omega), ← hR]

theorem roundF64_mul_pow {q s : Nat} (hq1 : 2 ^ 52 ≤ q) (hq2 : q ≤ 2 ^ 53) (hs : 1 ≤ s) :
    roundF64 (q * 2 ^ s) = q * 2 ^ s := by
  have hp : 0 < 2 ^ s := Nat.two_pow_pos s
  have hbig : 2 ^ 53 ≤ q * 2 ^ s := by
    have h1 : 2 ^ 1 ≤ 2 ^ s := Nat.pow_le_pow_right (by decide) hs
    calc 2 ^ 53 = 2 ^ 52 * 2 ^ 1 := by decide
      _ ≤ q * 2 ^ s := Nat.mul_le_mul hq1 h1
  by_cases hq : q = 2 ^ 53
  · subst hq
    have e1 : 2 ^ 53 * 2 ^ s = 2 ^ (53 + s) := (Nat.pow_add 2 53 s).symm
    have e2 : 2 ^ (53 + s) = 2 ^ 52 * 2 ^ (s + 1) := by
      rw [← Nat.pow_add]; congr 1; omega
    refine roundF64_exact (q := 2 ^ 52) (s := s + 1) (by rw [e1, e2]) ?_ hbig
    rw [e1, Nat.log2_two_pow]; omega
  · have hlt : q < 2 ^ 53 := by omega
    refine roundF64_exact (q := q) (s := s) rfl ?_ hbig
    have h0 : q * 2 ^ s ≠ 0 := by omega
    have : (q * 2 ^ s).log2 = 52 + s := by
      rw [Nat.log2_eq_iff h0]
      constructor
      · rw [Nat.pow_add]; exact Nat.mul_le_mul_right _ hq1
      · have : 52 + s + 1 = 53 + s := by omega
        rw [this, Nat.pow_add]; exact (Nat.mul_lt_mul_right hp).mpr hlt
    omega

/-- The rounding of a value ≥ 2^53 is a 53-bit quotient times a power of two. -/
theorem roundF64_decomp {n : Nat} (h : 2 ^ 53 ≤ n) :
    ∃ q s, roundF64 n = q * 2 ^ s ∧ 2 ^ 52 ≤ q ∧ q ≤ 2 ^ 53 ∧ 1 ≤ s := by
  have hn0 : n ≠ 0 := by omega
  have hL : 53 ≤ n.log2 := (Nat.le_log2 hn0).mpr h
  have hp : 0 < 2 ^ (n.log2 - 52) := Nat.two_pow_pos _
  have e : 2 ^ 52 * 2 ^ (n.log2 - 52) = 2 ^ n.log2 := by
    rw [← Nat.pow_add]; congr 1; omega
  have e' : 2 ^ 53 * 2 ^ (n.log2 - 52) = 2 ^ (n.log2 + 1) := by
    rw [← Nat.pow_add]; congr 1; omega
  have hq1 : 2 ^ 52 ≤ n / 2 ^ (n.log2 - 52) := by
    rw [Nat.le_div_iff_mul_le hp, e]; exact Nat.log2_self_le hn0
  have hq2 : n / 2 ^ (n.log2 - 52) < 2 ^ 53 := by
    rw [Nat.div_lt_iff_lt_mul hp, e']; exact Nat.lt_log2_self
  rw [roundF64_big (by omega)]
  split
  · exact ⟨_, _, rfl, by omega, by omega, by omega⟩
  · exact ⟨_, _, rfl, hq1, by omega, by omega⟩

theorem roundF64_idem (n : Nat) : roundF64 (roundF64 n) = roundF64 n := by
  by_cases h : n < 2 ^ 53
  · rw [roundF64_small h, roundF64_small h]
  · obtain ⟨q, s, e, h1, h2, h3⟩ := roundF64_decomp (n := n) (by omega)
    rw [e]; exact roundF64_mul_pow h1 h2 h3

theorem roundF64_ge {n : Nat} (h : 2 ^ 53 ≤ n) : 2 ^ 53 ≤ roundF64 n := by
  obtain ⟨q, s, e, h1, _, h3⟩ := roundF64_decomp h
  rw [e]
  have h1' : 2 ^ 1 ≤ 2 ^ s := Nat.pow_le_pow_right (by decide) h3
  calc 2 ^ 53 = 2 ^ 52 * 2 ^ 1 := by decide
    _ ≤ q * 2 ^ s := Nat.mul_le_mul h1 h1'

theorem roundF64_lt_iff (n : Nat) : roundF64 n < 2 ^ 53 ↔ n < 2 ^ 53 := by
  constructor
  · intro h; apply Classical.byContradiction; intro hn
    have := roundF64_ge (n := n) (by omega); omega
  · intro h; rw [roundF64_small h]; exact h


theorem shortestAt_rt {mag d c : Nat} (h : shortestAt mag d = some c) : roundF64 c = mag := by
  unfold shortestAt at h
  dsimp only at h
  split at h
  · rename_i hb
    simp only [Bool.and_eq_true, beq_iff_eq] at hb
    injection h with h
    split at h
    · rw [← h]; exact hb.1
    · rw [← h]; exact hb.2
  · split at h
    · rename_i hb; simp only [beq_iff_eq] at hb; injection h with h; rw [← h]; exact hb
    · split at h
      · rename_i hb; simp only [beq_iff_eq] at hb; injection h with h; rw [← h]; exact hb
      · cases h

/-- The digits `FormatFloat(x, 'f', -1, 64)` writes for an integral double parse back to it. -/
theorem shortest_rt {mag : Nat} (h : roundF64 mag = mag) : roundF64 (shortest mag) = mag := by
  unfold shortest
  split
  · rename_i c hc
    obtain ⟨d, _, hd⟩ := List.exists_of_findSome?_eq_some hc
    exact shortestAt_rt hd
  · exact h

theorem lit_mag_plain (neg : Bool) (m : Nat) : (Lit.mk neg m 0 false).mag = m := by
  simp [Lit.mag]

/-- Plain digits that fit int64 / uint64 are held with exactly their value. -/
theorem convert_plain_exact (neg : Bool) (m : Nat)
    (h : fitsI64 (signed neg m) = true ∨ (neg = false ∧ m < 2 ^ 64)) :
    (convert ⟨neg, m, 0, false⟩).val = signed neg m := by
  unfold convert
  rw [lit_mag_plain]
  simp only [Bool.false_eq_true, if_false]
  by_cases h1 : roundF64 m < 2 ^ 53
  · rw [if_pos h1]
    have : m < 2 ^ 53 := (roundF64_lt_iff m).mp h1
    rw [roundF64_small this]; rfl
  · rw [if_neg h1]
    by_cases h2 : fitsI64 (signed neg m) = true
    · rw [if_pos h2]; rfl
    · rw [if_neg h2]
      have h3 : neg = false ∧ m < 2 ^ 64 := by
        rcases h with h | h
        · exact absurd h h2
        · exact h
      have : (!neg && decide (m < 2 ^ 64)) = true := by simp [h3.1, h3.2]
      rw [if_pos this]
      simp [Num.val, signed, h3.1]

/-- Plain digits beyond both integer types are held as the double they round to. -/
theorem convert_plain_float (neg : Bool) (c mag : Nat) (hc : roundF64 c = mag) (hm : 2 ^ 53 ≤ mag)
    (h1 : fitsI64 (signed neg c) = false) (h2 : ¬ (neg = false ∧ c < 2 ^ 64)) :
    convert ⟨neg, c, 0, false⟩ = .f64 neg mag := by
  unfold convert
  rw [lit_mag_plain, hc]
  simp only [Bool.false_eq_true, if_false]
  rw [if_neg (by omega), h1]
  simp only [Bool.false_eq_true, if_false]
  have : (!neg && decide (c < 2 ^ 64)) = false := by
    cases neg <;> simp_all
  rw [this]; simp

theorem signed_natAbs (v : Int) : signed (decide (v < 0)) v.natAbs = v := by
  unfold signed
  by_cases h : v < 0
  · simp [h]; omega
  · simp [h]; omega

theorem fitsI64_iff (v : Int) : fitsI64 v = true ↔ (-(2 ^ 63 : Int) ≤ v ∧ v < 2 ^ 63) := by
  simp [fitsI64]

/-- **Number round trip (guarded).** Away from the listed defect class, the printed text of a held
number is held, when parsed, as a number of exactly the same value. -/
theorem reparse_val_partial (n : Num) (hw : n.wf) (hr : bigFloatReparsedAsInteger n = false) :
    (reparse n).val = n.val := by
  cases n with
  | i64 v =>
    have hf : fitsI64 v = true := (fitsI64_iff v).mpr hw
    show (convert (reLit (decide (v < 0), v.natAbs))).val = v
    have := convert_plain_exact (decide (v < 0)) v.natAbs (by rw [signed_natAbs]; exact Or.inl hf)
    rw [signed_natAbs] at this; exact this
  | u64 v =>
    show (convert (reLit (false, v))).val = (v : Int)
    have := convert_plain_exact false v (Or.inr ⟨rfl, hw⟩)
    have e : signed false v = (v : Int) := rfl
    rw [e] at this; exact this
  | f64 neg mag =>
    have hw' : roundF64 mag = mag := hw
    show (convert (reLit (printNum (.f64 neg mag)))).val = signed neg mag
    unfold printNum
    dsimp only
    by_cases hv : signed neg mag = toInt64 (signed neg mag)
    · rw [if_pos hv, ← hv]
      have hf : fitsI64 (signed neg mag) = true := by
        unfold toInt64 at hv
        by_cases hf : fitsI64 (signed neg mag) = true
        · exact hf
        · rw [if_neg hf] at hv
          rw [hv]; decide
      have := convert_plain_exact (decide (signed neg mag < 0)) (signed neg mag).natAbs
        (by rw [signed_natAbs]; exact Or.inl hf)
      rw [signed_natAbs] at this; exact this
    · rw [if_neg hv]
      have hc := shortest_rt hw'
      have hnf : fitsI64 (signed neg mag) = false := by
        cases hf : fitsI64 (signed neg mag)
        · rfl
        · exfalso; apply hv; unfold toInt64; rw [if_pos hf]
      have hbig : 2 ^ 53 ≤ mag := by
        have hn : ¬ (-(2 ^ 63 : Int) ≤ signed neg mag ∧ signed neg mag < 2 ^ 63) := by
          intro h; have := (fitsI64_iff _).mpr h; rw [hnf] at this; cases this
        unfold signed at hn
        cases neg <;> simp at hn <;> omega
      by_cases hx : fitsI64 (signed neg (shortest mag)) = true ∨ (neg = false ∧ shortest mag < 2 ^ 64)
      · have hcm : shortest mag = mag := by
          apply Classical.byContradiction; intro hne
          have : bigFloatReparsedAsInteger (.f64 neg mag) = true := by
            unfold bigFloatReparsedAsInteger
            dsimp only
            rcases hx with hx | hx
            · simp [hv, hne, hx]
            · obtain ⟨hx1, hx2⟩ := hx
              subst hx1
              simp [hv, hne, hx2]
          rw [this] at hr; cases hr
        have := convert_plain_exact neg (shortest mag) hx
        show (convert ⟨neg, shortest mag, 0, false⟩).val = signed neg mag
        rw [this, hcm]
      · have h1 : fitsI64 (signed neg (shortest mag)) = false := by
          cases hf : fitsI64 (signed neg (shortest mag))
          · rfl
          · exact absurd (Or.inl hf) hx
        have h2 : ¬ (neg = false ∧ shortest mag < 2 ^ 64) := fun h => hx (Or.inr h)
        show (convert ⟨neg, shortest mag, 0, false⟩).val = signed neg mag
        rw [convert_plain_float neg (shortest mag) mag hc hbig h1 h2]; rfl

/-- Every literal is held as a well-formed number (a double is its own rounding; int64 / uint64 in range). -/
theorem convert_wf (l : Lit) : (convert l).wf := by
  unfold convert
  dsimp only
  split
  · exact roundF64_idem _
  · split
    · exact roundF64_idem _
    · split
      · rename_i h; exact (fitsI64_iff _).mp h
      · split
        · rename_i h; simp only [Bool.and_eq_true, decide_eq_true_eq] at h; exact h.2
        · exact roundF64_idem _

end Gms.JsonNum
