/-
C31 — adding then subtracting an interval; DATEDIFF / TIMESTAMPDIFF lemmas.
-/
import Gms.Lemmas.CalDelta

namespace Gms.Cal

theorem duration_neg (td : Delta) : td.duration (-1) = - td.duration 1 := by
  simp only [Delta.duration, nsHour, nsMin, nsSec]; omega

theorem specDelta_nocal (td : Delta) (sign t : Int) (hy : td.years = 0) (hm : td.months = 0) :
    specDelta td sign t = t + td.days * sign * nsDay + td.duration sign := by
  have hv := fieldsOf_valid t
  obtain ⟨h1, h2, h3, h4, _⟩ := hv
  unfold specDelta
  simp only [hy, hm, Int.mul_zero, Int.add_zero]
  have e1 : (12 * (fieldsOf t).y + ((fieldsOf t).mo - 1)) / 12 = (fieldsOf t).y := by omega
  have e2 : (12 * (fieldsOf t).y + ((fieldsOf t).mo - 1)) % 12 + 1 = (fieldsOf t).mo := by omega
  have e3 : ¬ ((fieldsOf t).d > dim (fieldsOf t).y (fieldsOf t).mo) := by omega
  simp only [e1, e2, e3, if_false]
  rw [show ({ fieldsOf t with y := (fieldsOf t).y, mo := (fieldsOf t).mo, d := (fieldsOf t).d } : Fields) = fieldsOf t from rfl,
    goDate_fieldsOf]

theorem specDelta_cal (td : Delta) (sign t : Int) (hd : td.days = 0) (hu : td.duration 1 = 0)
    (hs : sign = 1 ∨ sign = -1) :
    specDelta td sign t =
      goDate { fieldsOf t with
        y := (12 * (fieldsOf t).y + ((fieldsOf t).mo - 1) + sign * (12 * td.years + td.months)) / 12,
        mo := (12 * (fieldsOf t).y + ((fieldsOf t).mo - 1) + sign * (12 * td.years + td.months)) % 12 + 1,
        d := clampDay (fieldsOf t).d
          ((12 * (fieldsOf t).y + ((fieldsOf t).mo - 1) + sign * (12 * td.years + td.months)) / 12)
          ((12 * (fieldsOf t).y + ((fieldsOf t).mo - 1) + sign * (12 * td.years + td.months)) % 12 + 1) } := by
  have hdur : td.duration sign = 0 := by
    rcases hs with rfl | rfl
    · exact hu
    · rw [duration_neg, hu]; rfl
  unfold specDelta clampDay
  simp only [hd, hdur, Int.zero_mul, Int.add_zero]

/-- Spec level: adding then subtracting the same interval restores the instant when no
end-of-month clamp occurs (for every interval a single SQL unit can denote). -/
theorem spec_add_sub (td : Delta) (t : Int) (hc : clamps td 1 t = false) (hm : mixedDelta td = false) :
    specDelta td (-1) (specDelta td 1 t) = t := by
  simp only [mixedDelta, decide_eq_false_iff_not] at hm
  have hm' : (td.years = 0 ∧ td.months = 0) ∨ (td.days = 0 ∧ td.duration 1 = 0) := by
    by_cases a : td.years = 0
    · by_cases b : td.months = 0
      · exact Or.inl ⟨a, b⟩
      · by_cases c : td.days = 0
        · by_cases d : td.duration 1 = 0
          · exact Or.inr ⟨c, d⟩
          · exact absurd ⟨Or.inr b, Or.inr d⟩ hm
        · exact absurd ⟨Or.inr b, Or.inl c⟩ hm
    · by_cases c : td.days = 0
      · by_cases d : td.duration 1 = 0
        · exact Or.inr ⟨c, d⟩
        · exact absurd ⟨Or.inl a, Or.inr d⟩ hm
      · exact absurd ⟨Or.inl a, Or.inl c⟩ hm
  rcases hm' with ⟨hy, hmo⟩ | ⟨hd, hu⟩
  · rw [specDelta_nocal td 1 t hy hmo, specDelta_nocal td (-1) _ hy hmo, duration_neg]
    simp only [nsDay]; omega
  · have hv := fieldsOf_valid t
    rw [specDelta_cal td 1 t hd hu (Or.inl rfl)]
    simp only [clamps, decide_eq_false_iff_not] at hc
    generalize hY : (12 * (fieldsOf t).y + ((fieldsOf t).mo - 1) + 1 * (12 * td.years + td.months)) / 12 = Y at *
    generalize hM : (12 * (fieldsOf t).y + ((fieldsOf t).mo - 1) + 1 * (12 * td.years + td.months)) % 12 + 1 = M at *
    have hcd : clampDay (fieldsOf t).d Y M = (fieldsOf t).d := by
      unfold clampDay; rw [if_neg hc]
    rw [hcd]
    have hM1 : 1 ≤ M ∧ M ≤ 12 := by omega
    have hv1 : validFields { fieldsOf t with y := Y, mo := M, d := (fieldsOf t).d } := by
      obtain ⟨_, _, h3, _, rest⟩ := hv
      refine ⟨hM1.1, hM1.2, h3, ?_, rest⟩
      show (fieldsOf t).d ≤ dim Y M
      omega
    rw [specDelta_cal td (-1) _ hd hu (Or.inr rfl), fieldsOf_goDate _ hv1]
    simp only
    have hmo1 := hv.1
    have hmo2 := hv.2.1
    have e1 : (12 * Y + (M - 1) + -1 * (12 * td.years + td.months)) / 12 = (fieldsOf t).y := by omega
    have e2 : (12 * Y + (M - 1) + -1 * (12 * td.years + td.months)) % 12 + 1 = (fieldsOf t).mo := by omega
    rw [e1, e2]
    have hcd2 : clampDay (fieldsOf t).d (fieldsOf t).y (fieldsOf t).mo = (fieldsOf t).d := by
      unfold clampDay; rw [if_neg (by have := hv.2.2.2.1; omega)]
    rw [hcd2]
    exact goDate_fieldsOf t

theorem intermediateFeb29_single (td : Delta) (sign t : Int) (h : td.years = 0 ∨ td.months = 0) :
    intermediateFeb29 td sign t = false := by
  simp only [intermediateFeb29, decide_eq_false_iff_not]
  rcases h with h | h <;> simp [h]

end Gms.Cal
