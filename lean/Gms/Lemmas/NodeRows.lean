/-
Lemmas about the statement-level memory model `Gms/Model/NodeRows.lean` (one function node, one
`Eval` per row, results read after the last row). The property theorems built from them are in
`Gms/Props/C34.lean`.
-/
import Gms.Model.NodeRows
namespace Gms.NodeRows

/-! ## The node without state -/

theorem runFresh_heap {ρ : Type} (f : ρ → Bytes) (h : Heap) (rows : List ρ) :
    (runFresh f h rows).1 = h ++ rows.map f := by
  induction rows generalizing h with
  | nil => simp [runFresh]
  | cons x xs ih => simp [runFresh, stepFresh, ih]

theorem runFresh_length {ρ : Type} (f : ρ → Bytes) (h : Heap) (rows : List ρ) :
    (runFresh f h rows).2.length = rows.length := by
  induction rows generalizing h with
  | nil => simp [runFresh]
  | cons x xs ih => simp [runFresh, ih]

/-- the value just allocated reads as what was written. -/
theorem view_new (h t : Heap) (v : Bytes) : view (h ++ v :: t) ⟨h.length, v.length⟩ = v := by
  simp [view, arrOf, List.getD]

/-- frame: a value living in `h` reads the same in every extension of `h` (allocation never
touches what was handed out). -/
theorem view_append (h t : Heap) (r : Ref) (hr : r.arr < h.length) : view (h ++ t) r = view h r := by
  simp [view, arrOf, List.getD, List.getElem?_append_left hr]

/-- the results of a statement, read after its last row, are the single-call results, row by row. -/
theorem fresh_observe {ρ : Type} (f : ρ → Bytes) (h : Heap) (rows : List ρ) :
    observe (runFresh f h rows) = rows.map f := by
  induction rows generalizing h with
  | nil => simp [observe, runFresh]
  | cons x xs ih =>
    have ih' := ih (h ++ [f x])
    simp only [observe] at ih' ⊢
    simp only [runFresh, stepFresh, List.map_cons]
    rw [ih']
    congr 1
    rw [runFresh_heap]
    simpa using view_new h (xs.map f) (f x)

/-! ## The node with a scratch buffer -/

theorem take_overwrite_full (old new z : Bytes) (h : new.length ≤ old.length) :
    (overwrite (old ++ z) new).take old.length = new ++ old.drop new.length := by
  simp only [overwrite, List.take_append, List.take_of_length_le h, List.drop_append,
    List.take_drop, List.length_drop]
  have e : new.length + (old.length - new.length) = old.length := by omega
  simp [e]

/-- two rows, the second result fits into what the first needed: the node hands out the same array
twice; after the second row the FIRST value reads as the second result followed by what is left of
its own tail. -/
theorem scratch_fitting_row_overwrites {ρ : Type} (f : ρ → Bytes) (a b : ρ)
    (hlen : (f b).length ≤ (f a).length) :
    observeScratch (runScratch f ([], none) [a, b]) = [f b ++ (f a).drop (f b).length, f b] := by
  have h2 : (f b).length ≤ (f a).length + (f a).length := by omega
  have := take_overwrite_full (f a) (f b) (List.replicate (f a).length 0) hlen
  simp [observeScratch, runScratch, stepScratch, grow, arrOf, view, h2, this]
  simp [overwrite]

end Gms.NodeRows
