/-
Well-formedness of the table definition is preserved by every applicable schema change, so the
`ddl_*` theorems of Gms/Props/C14.lean compose over sequences of schema changes.
-/
import Gms.Lemmas.MemTableDdl
namespace Gms.MemTable

theorem length_insAt {α : Type} (p : Nat) (a : α) (l : List α) : (insAt p a l).length = l.length + 1 := by
  induction p generalizing l with
  | zero => simp [insAt]
  | succ p ih => cases l with
    | nil => simp [insAt]
    | cons x l => simp [insAt, ih]

theorem mem_insAt {α : Type} (p : Nat) (a x : α) (l : List α) : x ∈ insAt p a l ↔ x = a ∨ x ∈ l := by
  induction p generalizing l with
  | zero => simp [insAt]
  | succ p ih => cases l with
    | nil => simp [insAt]
    | cons y l =>
      simp only [insAt, List.mem_cons, ih]
      constructor
      · rintro (h | h | h)
        · exact Or.inr (Or.inl h)
        · exact Or.inl h
        · exact Or.inr (Or.inr h)
      · rintro (h | h | h)
        · exact Or.inr (Or.inl h)
        · exact Or.inl h
        · exact Or.inr (Or.inr h)

theorem nodup_insAt (p a : Nat) (l : List Nat) (h : l.Nodup) (ha : a ∉ l) : (insAt p a l).Nodup := by
  induction p generalizing l with
  | zero => simp [insAt, h, ha]
  | succ p ih => cases l with
    | nil => simp [insAt]
    | cons y l =>
      simp only [insAt, List.nodup_cons, mem_insAt]
      have hy := (List.nodup_cons.mp h)
      refine ⟨?_, ih l hy.2 (fun hx => ha (List.mem_cons_of_mem _ hx))⟩
      rintro (h1 | h1)
      · exact ha (by simp [h1])
      · exact hy.1 h1

theorem mem_eraseIdx_of_ne (l : List Nat) (c n : Nat) (hn : n ∈ l) (hne : l.getD c 0 ≠ n) : n ∈ l.eraseIdx c := by
  induction l generalizing c with
  | nil => cases hn
  | cons x l ih =>
    cases c with
    | zero =>
      have hx : x ≠ n := by simpa using hne
      rcases List.mem_cons.mp hn with h | h
      · exact absurd h.symm hx
      · simpa using h
    | succ c =>
      simp only [List.eraseIdx_cons_succ, List.mem_cons]
      rcases List.mem_cons.mp hn with h | h
      · exact Or.inl h
      · exact Or.inr (ih c h (by simpa using hne))

theorem nodup_set (l : List Nat) (c new : Nat) (h : l.Nodup) (hnew : new ∉ l) : (l.set c new).Nodup := by
  induction l generalizing c with
  | nil => simp
  | cons x l ih =>
    have hx := List.nodup_cons.mp h
    have hnl : new ∉ l := fun hh => hnew (List.mem_cons_of_mem _ hh)
    cases c with
    | zero => simp only [List.set_cons_zero, List.nodup_cons]; exact ⟨hnl, hx.2⟩
    | succ c =>
      simp only [List.set_cons_succ, List.nodup_cons]
      refine ⟨?_, ih c hx.2 hnl⟩
      intro hm
      rcases List.mem_or_eq_of_mem_set hm with h1 | h1
      · exact hx.1 h1
      · exact hnew (by simp [h1])

theorem mem_set_rename (l : List Nat) (c new n : Nat) (hc : c < l.length) (hn : n ∈ l) :
    (if n = l.getD c 0 then new else n) ∈ l.set c new := by
  induction l generalizing c with
  | nil => cases hn
  | cons x l ih =>
    cases c with
    | zero =>
      simp only [List.getD_cons_zero, List.set_cons_zero, List.mem_cons]
      split
      · exact Or.inl rfl
      · rename_i h
        rcases List.mem_cons.mp hn with h1 | h1
        · exact absurd h1 h
        · exact Or.inr h1
    | succ c =>
      simp only [List.getD_cons_succ, List.set_cons_succ, List.mem_cons]
      rcases List.mem_cons.mp hn with h1 | h1
      · by_cases h2 : n = l.getD c 0
        · right
          have := ih c (by simpa using hc) (by
            have hc' : c < l.length := by simpa using hc
            rw [h2]; simp [List.getD_eq_getElem?_getD, List.getElem?_eq_getElem hc'])
          simpa [h2] using this
        · left; rw [if_neg h2]; exact h1
      · exact Or.inr (ih c (by simpa using hc) h1)

theorem wf_pack (ns : NSchema) (h1 : ns.names.Nodup) (h2 : ns.cols.length = ns.names.length)
    (h3 : ∀ ix ∈ ns.idx, ∀ n ∈ ix.1, n ∈ ns.names) (h4 : ∀ o ∈ ns.pk, o < ns.names.length) : ns.wf = true := by
  simp only [NSchema.wf, Bool.and_eq_true, decide_eq_true_eq, List.all_eq_true, List.contains_iff_mem]
  exact ⟨⟨⟨h1, h2⟩, h3⟩, h4⟩

/-- **well-formedness is preserved by every applicable schema change.** -/
theorem ddl_wf (ns : NSchema) (d : Ddl) (hwf : ns.wf = true) (hok : ddlOk ns d = true) :
    (ddlSchema ns d).wf = true := by
  obtain ⟨hnd, hlen, hidx, hpk⟩ := wf_unpack ns hwf
  cases d with
  | addCol p name c =>
    simp only [ddlOk, Bool.and_eq_true, decide_eq_true_eq, Bool.not_eq_true', List.contains_eq_mem,
      decide_eq_false_iff_not] at hok
    apply wf_pack
    · exact nodup_insAt p name ns.names hnd hok.2
    · simp [ddlSchema, length_insAt, hlen]
    · intro ix hix n hn
      exact (mem_insAt p name n ns.names).mpr (Or.inr (hidx ix hix n hn))
    · intro o ho
      simp only [ddlSchema, List.mem_map] at ho
      obtain ⟨o', ho', rfl⟩ := ho
      have := hpk o' ho'
      simp only [ddlSchema, length_insAt, bump]
      split <;> omega
  | dropCol c =>
    simp only [ddlOk, Bool.and_eq_true, decide_eq_true_eq, Bool.not_eq_true', List.contains_eq_mem,
      decide_eq_false_iff_not, List.all_eq_true] at hok
    obtain ⟨⟨hc, hpkc⟩, hix⟩ := hok
    apply wf_pack
    · exact List.Nodup.sublist (List.eraseIdx_sublist _ _) hnd
    · simp [ddlSchema, List.length_eraseIdx, hlen, hc]
    · intro ix hix' n hn
      exact mem_eraseIdx_of_ne ns.names c n (hidx ix hix' n hn) (fun h => hix ix hix' (h ▸ hn))
    · intro o ho
      simp only [ddlSchema, List.mem_map] at ho
      obtain ⟨o', ho', rfl⟩ := ho
      have h1 := hpk o' ho'
      have h2 : o' ≠ c := fun h => hpkc (h ▸ ho')
      simp only [ddlSchema, List.length_eraseIdx, hc, if_true, unbump]
      split <;> omega
  | renCol c name =>
    simp only [ddlOk, Bool.and_eq_true, decide_eq_true_eq, Bool.not_eq_true', List.contains_eq_mem,
      decide_eq_false_iff_not] at hok
    apply wf_pack
    · exact nodup_set ns.names c name hnd hok.2
    · simp [ddlSchema, hlen]
    · intro ix hix n hn
      simp only [ddlSchema, List.mem_map] at hix
      obtain ⟨ix0, hix0, rfl⟩ := hix
      simp only [renameIn, List.mem_map] at hn
      obtain ⟨n0, hn0, rfl⟩ := hn
      exact mem_set_rename ns.names c name n0 hok.1 (hidx ix0 hix0 n0 hn0)
    · intro o ho
      simpa [ddlSchema] using hpk o ho
  | renTab => exact hwf

end Gms.MemTable
