/-
C27: characterisation of `TruncateStringToInt` (Gms/Model/NumConv.lean `scanInt`, `truncateStringToInt`):
well-formed integer text is taken whole and unreported, everything else is reported as truncated —
except the texts that consist of nothing but an optional sign, which silently read as 0.
-/
import Gms.Model.StoreStr
namespace Gms.Conv
open Gms.Num

theorem scanInt_digits (ds : List UInt8) (i : Nat) (seen : Bool) (h : ds.all isDigit = true) :
    scanInt ds i seen = (i + ds.length, seen || !ds.isEmpty) := by
  induction ds generalizing i seen with
  | nil => simp [scanInt]
  | cons c rest ih =>
    simp only [List.all_cons, Bool.and_eq_true] at h
    simp only [scanInt, h.1, if_true]
    rw [ih (i + 1) true h.2]
    simp; omega

/-- after the first character the scan stops at the first non-digit -/
theorem scanInt_full (ds : List UInt8) (i : Nat) (seen : Bool) (hi : 0 < i)
    (h : (scanInt ds i seen).1 = i + ds.length) : ds.all isDigit = true := by
  induction ds generalizing i seen with
  | nil => rfl
  | cons c rest ih =>
    by_cases hd : isDigit c = true
    · simp only [scanInt, hd, if_true] at h
      have := ih (i + 1) true (by omega) (by simp only [List.length_cons] at h; omega)
      simp [hd, this]
    · have hi0 : ¬ (i = 0 ∧ (c = 45 ∨ c = 43)) := by omega
      simp only [scanInt, hd, hi0, if_false, Bool.false_eq_true, List.length_cons] at h
      omega

theorem scanInt_le (ds : List UInt8) (i : Nat) (seen : Bool) : (scanInt ds i seen).1 ≤ i + ds.length := by
  induction ds generalizing i seen with
  | nil => simp [scanInt]
  | cons c rest ih =>
    simp only [scanInt]
    split
    · have := ih (i + 1) true; simp only [List.length_cons]; omega
    · split
      · have := ih (i + 1) seen; simp only [List.length_cons]; omega
      · simp

theorem isDigit_not_sign (c : UInt8) (h : isDigit c = true) : c ≠ 43 ∧ c ≠ 45 := by
  constructor <;> (intro e; subst e; simp [isDigit] at h)

/-- well-formed integer text is scanned completely -/
theorem scanInt_intBody (t : List UInt8) (h : isIntBody t = true) : scanInt t 0 false = (t.length, true) := by
  match t, h with
  | [], h => simp [isIntBody] at h
  | c :: ds, h =>
    by_cases h43 : c = 43
    · subst h43
      simp only [isIntBody, Bool.and_eq_true] at h
      have hd : isDigit 43 = false := by decide
      simp only [scanInt, hd, Bool.false_eq_true, if_false, true_and, or_true, if_true]
      rw [scanInt_digits ds 1 false h.2]
      simp [h.1]; omega
    · by_cases h45 : c = 45
      · subst h45
        simp only [isIntBody, Bool.and_eq_true] at h
        have hd : isDigit 45 = false := by decide
        simp only [scanInt, hd, Bool.false_eq_true, if_false, true_and, true_or, if_true]
        rw [scanInt_digits ds 1 false h.2]
        simp [h.1]; omega
      · have h' : (c :: ds).all isDigit = true := by
          unfold isIntBody at h
          split at h
          · rename_i heq; simp at heq; exact absurd heq.1 h43
          · rename_i heq; simp at heq; exact absurd heq.1 h45
          · simp only [Bool.and_eq_true] at h; exact h.2
        rw [scanInt_digits (c :: ds) 0 false h']
        simp

/-- a text that is scanned completely is well-formed integer text or nothing but a sign -/
theorem scanInt_complete (t : List UInt8) (h : (scanInt t 0 false).1 = t.length) :
    isIntBody t = true ∨ isSignOnly t = true := by
  cases t with
  | nil => right; rfl
  | cons c ds =>
    by_cases hd : isDigit c = true
    · left
      obtain ⟨n43, n45⟩ := isDigit_not_sign c hd
      simp only [scanInt, hd, if_true, List.length_cons, Nat.zero_add] at h
      have hall := scanInt_full ds 1 true (by omega) (by omega)
      unfold isIntBody
      split
      · rename_i heq; simp at heq; exact absurd heq.1 n43
      · rename_i heq; simp at heq; exact absurd heq.1 n45
      · simp [hd, hall]
    · by_cases hs : c = 45 ∨ c = 43
      · have hc : (0 = 0 ∧ (c = 45 ∨ c = 43)) := ⟨rfl, hs⟩
        simp only [scanInt, hd, Bool.false_eq_true, if_false, hc, and_self, if_true, List.length_cons, Nat.zero_add] at h
        have hall := scanInt_full ds 1 false (by omega) (by omega)
        cases ds with
        | nil => right; rcases hs with e | e <;> subst e <;> rfl
        | cons d ds' => left; rcases hs with e | e <;> subst e <;> simp [isIntBody, hall]
      · simp [scanInt, hd, hs] at h

/-- `TruncateStringToInt` on well-formed integer text: nothing is cut, no truncation is reported -/
theorem truncate_intBody (bs : List UInt8) (h : isIntBody (trim isIntCut bs) = true) :
    truncateStringToInt bs = (trim isIntCut bs, false) := by
  unfold truncateStringToInt
  simp only [scanInt_intBody _ h]
  simp

/-- `TruncateStringToInt` reports a truncation for everything that is neither well-formed integer
text nor just an optional sign -/
theorem truncate_malformed (bs : List UInt8) (h1 : isIntBody (trim isIntCut bs) = false)
    (h2 : isSignOnly (trim isIntCut bs) = false) : (truncateStringToInt bs).2 = true := by
  have hne : (scanInt (trim isIntCut bs) 0 false).1 ≠ (trim isIntCut bs).length := by
    intro h
    rcases scanInt_complete _ h with e | e
    · rw [e] at h1; cases h1
    · rw [e] at h2; cases h2
  unfold truncateStringToInt
  simp only
  generalize scanInt (trim isIntCut bs) 0 false = r at hne ⊢
  obtain ⟨i, seen⟩ := r
  simp only at hne ⊢
  cases seen <;> simp [hne]

/-- the silent case: nothing but an optional sign is taken as the number 0 without any report -/
theorem truncate_signOnly (bs : List UInt8) (h : isSignOnly (trim isIntCut bs) = true) :
    truncateStringToInt bs = ([48], false) := by
  unfold truncateStringToInt
  generalize trim isIntCut bs = t at h ⊢
  unfold isSignOnly at h
  split at h
  · rfl
  · rfl
  · rfl
  · cases h
end Gms.Conv
