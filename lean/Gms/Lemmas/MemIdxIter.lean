/-
Lemmas about the model of `memory.indexScanRowIter` (Gms/Model/MemIdxIter.lean), used by C05.
-/
import Gms.Model.MemIdxIter

namespace Gms.MemIdxIter

variable {α : Type}

/-! ## `Next` and the consumer's loop -/

theorem next_none (m : Key → Bool) (es : List (Entry α)) (h : next m es = none) :
    es.filter (fun x => m x.key) = [] := by
  induction es with
  | nil => rfl
  | cons e es ih =>
    by_cases hm : m e.key = true
    · simp [next, hm] at h
    · simp only [next, hm] at h
      simp [hm, ih h]

/-- One call of `Next` returns the first matching entry; nothing before it matches, and what is
left is strictly shorter. -/
theorem next_some (m : Key → Bool) (es : List (Entry α)) (e : Entry α) (rest : List (Entry α))
    (h : next m es = some (e, rest)) :
    es.filter (fun x => m x.key) = e :: rest.filter (fun x => m x.key) ∧ rest.length < es.length
      ∧ m e.key = true := by
  induction es with
  | nil => simp [next] at h
  | cons a es ih =>
    by_cases hm : m a.key = true
    · simp only [next, hm, if_true, Option.some.injEq, Prod.mk.injEq] at h
      obtain ⟨rfl, rfl⟩ := h
      simp [hm]
    · simp only [next, hm] at h
      obtain ⟨h1, h2, h3⟩ := ih h
      refine ⟨?_, ?_, h3⟩
      · simp [hm, h1]
      · simp only [List.length_cons]; omega

/-- `Next` splits the entries ahead at the first match. -/
theorem next_split (m : Key → Bool) (es : List (Entry α)) (e : Entry α) (rest : List (Entry α))
    (h : next m es = some (e, rest)) :
    ∃ pre, es = pre ++ e :: rest ∧ ∀ x ∈ pre, m x.key = false := by
  induction es with
  | nil => simp [next] at h
  | cons a es ih =>
    by_cases hm : m a.key = true
    · simp only [next, hm, if_true, Option.some.injEq, Prod.mk.injEq] at h
      obtain ⟨rfl, rfl⟩ := h
      exact ⟨[], rfl, by simp⟩
    · simp only [next, hm] at h
      obtain ⟨pre, h1, h2⟩ := ih h
      refine ⟨a :: pre, by simp [h1], ?_⟩
      intro x hx
      rcases List.mem_cons.mp hx with rfl | hx
      · simpa using hm
      · exact h2 x hx

/-- Draining the iterator yields exactly the matching entries, in visiting order. -/
theorem drain_eq_filter (m : Key → Bool) :
    ∀ (fuel : Nat) (es : List (Entry α)), es.length < fuel → drain m fuel es = es.filter (fun x => m x.key)
  | 0, _, h => by omega
  | fuel + 1, es, h => by
    simp only [drain]
    cases hn : next m es with
    | none => simp [next_none m es hn]
    | some p =>
      obtain ⟨e, rest⟩ := p
      obtain ⟨h1, h2, _⟩ := next_some m es e rest hn
      simp only [h1]
      rw [drain_eq_filter m fuel rest (by omega)]

theorem visit_length (rev : Bool) (es : List (Entry α)) : (visit rev es).length = es.length := by
  cases rev <;> simp [visit]

theorem scan_eq_filter (m : Key → Bool) (rev : Bool) (es : List (Entry α)) :
    scan m rev es = (visit rev es).filter (fun x => m x.key) := by
  unfold scan
  exact drain_eq_filter m _ _ (by rw [visit_length]; omega)

/-- Forward: the Spec itself. Reverse: the Spec read backwards. -/
theorem scan_forward (m : Key → Bool) (es : List (Entry α)) : scan m false es = Spec.scan m es := by
  simp [scan_eq_filter, visit, Spec.scan]

theorem scan_reverse (m : Key → Bool) (es : List (Entry α)) :
    scan m true es = (Spec.scan m es).reverse := by
  simp [scan_eq_filter, visit, Spec.scan, List.filter_reverse]

theorem scan_perm (m : Key → Bool) (rev : Bool) (es : List (Entry α)) :
    (scan m rev es).Perm (Spec.scan m es) := by
  cases rev
  · rw [scan_forward]
  · rw [scan_reverse]; exact List.reverse_perm _

theorem mem_scan (m : Key → Bool) (rev : Bool) (es : List (Entry α)) (e : Entry α) :
    e ∈ scan m rev es ↔ e ∈ es ∧ m e.key = true := by
  rw [(scan_perm m rev es).mem_iff]
  simp [Spec.scan, List.mem_filter]

/-! ## When stopping after the first run of matches is sound -/

theorem scanStopAfterRun_nil_of_none (m : Key → Bool) (es : List (Entry α))
    (h : ∀ e ∈ es, m e.key = false) : scanStopAfterRun m es = [] := by
  induction es with
  | nil => rfl
  | cons a es ih =>
    have ha : m a.key = false := h a (by simp)
    simp [scanStopAfterRun, ha, ih (fun e he => h e (List.mem_cons_of_mem _ he))]

theorem takeWhile_run (p : Entry α → Bool) (mid post : List (Entry α))
    (hm : ∀ e ∈ mid, p e = true) (hp : ∀ e ∈ post, p e = false) : (mid ++ post).takeWhile p = mid := by
  induction mid with
  | nil =>
    cases post with
    | nil => rfl
    | cons b post => simp [hp b (by simp)]
  | cons a mid ih =>
    simp [hm a (by simp), ih (fun e he => hm e (List.mem_cons_of_mem _ he))]

theorem filter_run (p : Entry α → Bool) (mid post : List (Entry α))
    (hm : ∀ e ∈ mid, p e = true) (hp : ∀ e ∈ post, p e = false) : (mid ++ post).filter p = mid := by
  rw [List.filter_append, List.filter_eq_self.mpr hm]
  have : post.filter p = [] := by
    rw [List.filter_eq_nil_iff]; intro a ha; simp [hp a ha]
  simp [this]

/-- If the matching entries are adjacent, the early exit loses nothing. -/
theorem scanStopAfterRun_of_contiguous (m : Key → Bool) (es : List (Entry α)) (h : Contiguous m es) :
    scanStopAfterRun m es = Spec.scan m es := by
  obtain ⟨pre, mid, post, rfl, hpre, hmid, hpost⟩ := h
  induction pre with
  | nil =>
    cases mid with
    | nil =>
      simp only [List.nil_append, Spec.scan]
      rw [scanStopAfterRun_nil_of_none m post hpost]
      symm; rw [List.filter_eq_nil_iff]; intro a ha; simp [hpost a ha]
    | cons a mid =>
      have ha : m a.key = true := hmid a (by simp)
      have hmid' : ∀ e ∈ mid, m e.key = true := fun e he => hmid e (List.mem_cons_of_mem _ he)
      simp only [List.nil_append, List.cons_append, scanStopAfterRun, ha, if_true, Spec.scan, List.filter_cons]
      rw [takeWhile_run (fun x => m x.key) mid post hmid' hpost,
        filter_run (fun x => m x.key) mid post hmid' hpost]
  | cons p pre ih =>
    have hp : m p.key = false := hpre p (by simp)
    have ih' := ih (fun e he => hpre e (List.mem_cons_of_mem _ he))
    simp only [List.cons_append, scanStopAfterRun, hp, Spec.scan, List.filter_cons] at ih' ⊢
    simpa [Spec.scan] using ih'

/-- On entries sorted by an order for which the range expression is convex (whatever lies between
two matches matches), the matches are adjacent, so the early exit loses nothing. -/
theorem takeWhile_eq_filter_of_sorted_convex (m : Key → Bool) (le : Key → Key → Prop)
    (hc : ∀ a b c, le a b → le b c → m a = true → m c = true → m b = true)
    (e : Entry α) (he : m e.key = true) :
    ∀ es : List (Entry α), (∀ x ∈ es, le e.key x.key) → es.Pairwise (fun a b => le a.key b.key) →
      es.takeWhile (fun x => m x.key) = es.filter (fun x => m x.key)
  | [], _, _ => rfl
  | b :: es, hle, hs => by
    have hs' := List.pairwise_cons.mp hs
    by_cases hb : m b.key = true
    · simp only [List.takeWhile_cons, List.filter_cons, hb, if_true]
      rw [takeWhile_eq_filter_of_sorted_convex m le hc b hb es hs'.1 hs'.2]
    · have hnone : es.filter (fun x => m x.key) = [] := by
        rw [List.filter_eq_nil_iff]
        intro c hcmem hmc
        exact hb (hc e.key b.key c.key (hle b (by simp)) (hs'.1 c hcmem) he hmc)
      simp [hb, hnone]

theorem scanStopAfterRun_of_sorted_convex (m : Key → Bool) (le : Key → Key → Prop)
    (hc : ∀ a b c, le a b → le b c → m a = true → m c = true → m b = true) :
    ∀ es : List (Entry α), es.Pairwise (fun a b => le a.key b.key) → scanStopAfterRun m es = Spec.scan m es
  | [], _ => rfl
  | e :: es, hs => by
    have hs' := List.pairwise_cons.mp hs
    by_cases he : m e.key = true
    · simp only [scanStopAfterRun, he, if_true, Spec.scan, List.filter_cons]
      rw [takeWhile_eq_filter_of_sorted_convex m le hc e he es hs'.1 hs'.2]
    · have ih := scanStopAfterRun_of_sorted_convex m le hc es hs'.2
      simp only [scanStopAfterRun, he, Spec.scan, List.filter_cons] at ih ⊢
      simpa using ih

/-! ## One-column ranges are convex -/

/-- Order of one-column keys: NULL first, then the integers. -/
def key1Le : Key → Key → Prop
  | [a], [b] => keyValLe a b = true
  | _, _ => False

theorem interval_convex (r : Interval) (a b c : KeyVal) (hab : keyValLe a b = true) (hbc : keyValLe b c = true)
    (ha : r.holds a = true) (hcc : r.holds c = true) : r.holds b = true := by
  cases r with
  | isNull =>
    cases a <;> cases b <;> cases c <;> simp_all [Interval.holds, keyValLe]
  | all => rfl
  | range lo hi =>
    cases a with
    | none => simp [Interval.holds] at ha
    | some a =>
      cases c with
      | none => simp [Interval.holds] at hcc
      | some c =>
        cases b with
        | none => simp [keyValLe] at hab
        | some b =>
          simp only [keyValLe, decide_eq_true_eq] at hab hbc
          simp only [Interval.holds, Bool.and_eq_true] at ha hcc ⊢
          constructor
          · have h := ha.1
            cases lo with
            | none => rfl
            | some p =>
              obtain ⟨l, incl⟩ := p
              cases incl <;> simp_all <;> omega
          · have h := hcc.2
            cases hi with
            | none => rfl
            | some p =>
              obtain ⟨u, incl⟩ := p
              cases incl <;> simp_all <;> omega

theorem box1_convex (r : Interval) (a b c : Key) (hab : key1Le a b) (hbc : key1Le b c)
    (ha : Box.holds [r] a = true) (hcc : Box.holds [r] c = true) : Box.holds [r] b = true := by
  match a, b, c, hab, hbc with
  | [a], [b], [c], hab, hbc =>
    simp only [Box.holds, Bool.and_true] at ha hcc ⊢
    exact interval_convex r a b c hab hbc ha hcc

end Gms.MemIdxIter
