/-
Lemmas about the slice memory model `Gms/Model/RowAlias.lean`: frame properties of `alloc`,
`append`, `SetField.Eval`, and the simulation of the value-level Spec by the memory-level Impl
model, row by row. The property theorems built from them are in `Gms/Props/C15.lean`.
-/
import Gms.Model.RowAlias
namespace Gms.RowAlias
open Gms.MemTable

/-! ## Arrays -/

theorem arrOf_append_left (m : Mem) (x : List Val) (a : Nat) (h : a < m.length) : arrOf (m ++ [x]) a = arrOf m a := by
  simp [arrOf, List.getElem?_append_left h]

theorem arrOf_append_new (m : Mem) (x : List Val) : arrOf (m ++ [x]) m.length = x := by
  simp [arrOf]

theorem arrOf_set_ne (m : Mem) (a b : Nat) (x : List Val) (h : a ≠ b) : arrOf (m.set a x) b = arrOf m b := by
  simp [arrOf, List.getElem?_set_ne h]

theorem arrOf_set_eq (m : Mem) (a : Nat) (x : List Val) (h : a < m.length) : arrOf (m.set a x) a = x := by
  simp [arrOf, h]

/-! ## Frame -/

theorem Frame.refl (n : Nat) (m : Mem) : Frame n m m := ⟨Nat.le_refl _, fun _ _ => ⟨rfl, rfl⟩⟩

theorem Frame.trans {n : Nat} {a b c : Mem} (h1 : Frame n a b) (h2 : Frame n b c) : Frame n a c :=
  ⟨Nat.le_trans h1.1 h2.1, fun x hx =>
    have hb := h2.2 x (Nat.lt_of_lt_of_le hx h1.1)
    have ha := h1.2 x hx
    ⟨hb.1.trans ha.1, hb.2.trans ha.2⟩⟩

theorem valid_of_frame {n : Nat} {m m' : Mem} (hf : Frame n m m') {s : Slice} (hv : Valid m s) : Valid m' s := by
  refine ⟨Nat.lt_of_lt_of_le hv.1 hf.1, ?_⟩
  have := (hf.2 s.arr hv.1).2
  simp only [capOf] at hv ⊢
  rw [this]; exact hv.2

/-- a valid row of at most `n` cells reads the same after any memory change that satisfies `Frame n`. -/
theorem view_of_frame {n : Nat} {m m' : Mem} (hf : Frame n m m') {s : Slice} (hv : Valid m s) (hl : s.len ≤ n) :
    view m' s = view m s := by
  have h := (hf.2 s.arr hv.1).1
  simp only [view]
  have e1 : (arrOf m' s.arr).take s.len = ((arrOf m' s.arr).take n).take s.len := by
    rw [List.take_take, Nat.min_eq_left hl]
  have e2 : (arrOf m s.arr).take s.len = ((arrOf m s.arr).take n).take s.len := by
    rw [List.take_take, Nat.min_eq_left hl]
  rw [e1, e2, h]

theorem wf_of_frame {n : Nat} {m m' : Mem} (hf : Frame n m m') {ss : List Slice} (hw : WF n m ss) : WF n m' ss :=
  fun s hs => ⟨(hw s hs).1, valid_of_frame hf (hw s hs).2⟩

theorem visibleOf_frame {n : Nat} {m m' : Mem} (hf : Frame n m m') {ss : List Slice} (hw : WF n m ss) :
    visibleOf m' ss = visibleOf m ss := by
  simp only [visibleOf]
  apply List.map_congr_left
  intro s hs
  exact view_of_frame hf (hw s hs).2 (Nat.le_of_eq (hw s hs).1)

/-! ## `alloc` -/

theorem frame_alloc (n : Nat) (m : Mem) (vs : Row) (k : Nat) : Frame n m (alloc m vs k).1 := by
  refine ⟨by simp [alloc], fun a ha => ?_⟩
  simp [alloc, arrOf_append_left _ _ _ ha]

theorem alloc_spec (m : Mem) (vs : Row) (k : Nat) :
    Valid (alloc m vs k).1 (alloc m vs k).2 ∧ (alloc m vs k).2.len = vs.length ∧
    (alloc m vs k).2.arr = m.length ∧ view (alloc m vs k).1 (alloc m vs k).2 = vs := by
  refine ⟨⟨by simp [alloc], ?_⟩, rfl, rfl, ?_⟩
  · simp [alloc, capOf, arrOf_append_new]
  · simp [alloc, view, arrOf_append_new]

/-! ## `append` -/

theorem frame_appendS (n : Nat) (m : Mem) (s : Slice) (vs : Row) (k : Nat) (hv : Valid m s) (hn : n ≤ s.len) :
    Frame n m (appendS m s vs k).1 := by
  simp only [appendS]
  split
  · rename_i hfit
    simp only [capOf] at hfit
    have hcap : s.len ≤ (arrOf m s.arr).length := hv.2
    refine ⟨by simp, fun a ha => ?_⟩
    by_cases hEq : a = s.arr
    · subst hEq
      rw [arrOf_set_eq _ _ _ ha]
      constructor
      · rw [List.append_assoc, List.take_append_of_le_length (by simp [List.length_take]; omega)]
        rw [List.take_take, Nat.min_eq_left hn]
      · simp [List.length_take, List.length_drop]
        omega
    · rw [arrOf_set_ne _ _ _ _ (fun h => hEq h.symm)]
      exact ⟨rfl, rfl⟩
  · exact frame_alloc n m _ k

theorem appendS_spec (m : Mem) (s : Slice) (vs : Row) (k : Nat) (hv : Valid m s) :
    Valid (appendS m s vs k).1 (appendS m s vs k).2 ∧ (appendS m s vs k).2.len = s.len + vs.length ∧
    view (appendS m s vs k).1 (appendS m s vs k).2 = view m s ++ vs := by
  have hcap : s.len ≤ (arrOf m s.arr).length := hv.2
  have hvl : (view m s).length = s.len := by simp [view, List.length_take]; omega
  simp only [appendS]
  split
  · rename_i hfit
    simp only [capOf] at hfit
    refine ⟨⟨by simpa using hv.1, ?_⟩, rfl, ?_⟩
    · simp only [capOf]
      rw [arrOf_set_eq _ _ _ hv.1]
      simp [List.length_take, List.length_drop]
      omega
    · simp only [view]
      rw [arrOf_set_eq _ _ _ hv.1]
      have hl : (List.take s.len (arrOf m s.arr) ++ vs).length = s.len + vs.length := by
        simp [List.length_take]; omega
      rw [List.take_append_of_le_length (by omega)]
      rw [List.take_of_length_le (by omega)]
  · have := alloc_spec m (view m s ++ vs) k
    refine ⟨this.1, ?_, this.2.2.2⟩
    rw [this.2.1]; simp [hvl]

/-! ## `SetField.Eval` -/

/-- `s[i] = v` on a valid slice: the slice reads as the old contents with cell `i` replaced,
the array keeps its length, no other array is touched. -/
theorem setS_spec (m : Mem) (s : Slice) (i : Nat) (v : Val) (hv : Valid m s) :
    (setS m s i v).length = m.length ∧ view (setS m s i v) s = (view m s).set i v ∧
    capOf (setS m s i v) s = capOf m s ∧ ∀ b, b ≠ s.arr → arrOf (setS m s i v) b = arrOf m b := by
  simp only [setS]
  split
  · refine ⟨by simp, ?_, ?_, fun b hb => arrOf_set_ne _ _ _ _ (fun h => hb h.symm)⟩
    · simp only [view]
      rw [arrOf_set_eq _ _ _ hv.1, List.take_set]
    · simp only [capOf]
      rw [arrOf_set_eq _ _ _ hv.1]
      simp
  · rename_i hge
    refine ⟨rfl, ?_, rfl, fun _ _ => rfl⟩
    rw [List.set_eq_of_length_le]
    simp only [view, List.length_take]
    omega

theorem setField_spec (N k n : Nat) (m : Mem) (acc : Slice) (a : Asg) (_hv : Valid m acc) :
    Frame N m (setField k n m acc a).1 ∧ Valid (setField k n m acc a).1 (setField k n m acc a).2 ∧
    (setField k n m acc a).2.len = (view m acc).length ∧
    view (setField k n m acc a).1 (setField k n m acc a).2 =
      (view m acc).set (asgEval n (view m acc) a).1 (asgEval n (view m acc) a).2 := by
  have hal := alloc_spec m (view m acc) k
  have hfa := frame_alloc N m (view m acc) k
  generalize hc : (asgEval n (view m acc) a).1 = c
  generalize hx : (asgEval n (view m acc) a).2 = x
  have hs : setField k n m acc a =
      (setS (alloc m (view m acc) k).1 (alloc m (view m acc) k).2 c x, (alloc m (view m acc) k).2) := by
    simp only [setField, hc, hx]
  rw [hs]
  generalize alloc m (view m acc) k = al at hal hfa
  have hss := setS_spec al.1 al.2 c x hal.1
  refine ⟨⟨?_, fun b hb => ?_⟩, ⟨?_, ?_⟩, hal.2.1, ?_⟩
  · rw [hss.1]; exact hfa.1
  · have hne : b ≠ al.2.arr := by rw [hal.2.2.1]; exact Nat.ne_of_lt hb
    simp only
    rw [hss.2.2.2 b hne]
    exact hfa.2 b hb
  · simp only; rw [hss.1]; exact hal.1.1
  · simp only; rw [hss.2.2.1]; exact hal.1.2
  · simp only; rw [hss.2.1, hal.2.2.2]

theorem applyUpdates_spec (N : Nat) (cfg : Cfg) (asg : List Asg) (m : Mem) (acc : Slice) (hv : Valid m acc) :
    Frame N m (applyUpdates setField cfg m acc asg).1 ∧
    Valid (applyUpdates setField cfg m acc asg).1 (applyUpdates setField cfg m acc asg).2 ∧
    (applyUpdates setField cfg m acc asg).2.len = acc.len ∧
    view (applyUpdates setField cfg m acc asg).1 (applyUpdates setField cfg m acc asg).2 =
      accAfter cfg.n (view m acc) asg := by
  induction asg generalizing m acc with
  | nil => exact ⟨Frame.refl _ _, hv, rfl, rfl⟩
  | cons a as ih =>
    have hvl : (view m acc).length = acc.len := by
      have : acc.len ≤ (arrOf m acc.arr).length := hv.2
      simp only [view, List.length_take]; omega
    have h1 := setField_spec N cfg.slack cfg.n m acc a hv
    have h2 := ih (setField cfg.slack cfg.n m acc a).1 (setField cfg.slack cfg.n m acc a).2 h1.2.1
    simp only [applyUpdates, List.foldl_cons] at h2 ⊢
    refine ⟨h1.1.trans h2.1, h2.2.1, ?_, ?_⟩
    · rw [h2.2.2.1, h1.2.2.1, hvl]
    · rw [h2.2.2.2, h1.2.2.2]
      simp [accAfter]

/-! ## One incoming row: the memory-level step simulates the value-level step -/

theorem getD_visibleOf (m : Mem) (ss : List Slice) (i : Nat) (h : i < ss.length) :
    (visibleOf m ss).getD i [] = view m (ss.getD i default) := by
  simp [visibleOf, List.getD_eq_getElem?_getD, List.getElem?_eq_getElem h]

theorem getD_mem (ss : List Slice) (i : Nat) (h : i < ss.length) : ss.getD i default ∈ ss := by
  simp [List.getD_eq_getElem?_getD, List.getElem?_eq_getElem h]

theorem stepRow_spec (cfg : Cfg) (asg : Option (List Asg)) (w : Work) (r : Row)
    (hw : WF cfg.n w.mem w.cur) (hr : r.length = cfg.n) :
    Frame cfg.n w.mem (stepRow setField cfg asg w r).1.mem ∧
    ((specRow cfg asg (visibleOf w.mem w.cur) r = none ∧ (stepRow setField cfg asg w r).2 = true) ∨
     (∃ t', specRow cfg asg (visibleOf w.mem w.cur) r = some t' ∧ (stepRow setField cfg asg w r).2 = false ∧
        WF cfg.n (stepRow setField cfg asg w r).1.mem (stepRow setField cfg asg w r).1.cur ∧
        visibleOf (stepRow setField cfg asg w r).1.mem (stepRow setField cfg asg w r).1.cur = t')) := by
  by_cases hb : badNew cfg r = true
  · have hstep : stepRow setField cfg asg w r = (w, true) := by simp only [stepRow, hb, if_true]
    have hspec : specRow cfg asg (visibleOf w.mem w.cur) r = none := by simp only [specRow, hb, if_true]
    rw [hstep, hspec]
    exact ⟨Frame.refl _ _, Or.inl ⟨rfl, rfl⟩⟩
  · have hb' : badNew cfg r = false := by simpa using hb
    cases hfi : (visibleOf w.mem w.cur).findIdx? (fun x => x.at 0 == r.at 0) with
    | none =>
      have hstep : stepRow setField cfg asg w r =
          ({ mem := (alloc w.mem r cfg.slack).1, cur := w.cur ++ [(alloc w.mem r cfg.slack).2] }, false) := by
        simp only [stepRow, hb', hfi]; rfl
      have hspec : specRow cfg asg (visibleOf w.mem w.cur) r = some (visibleOf w.mem w.cur ++ [r]) := by
        simp only [specRow, hb', hfi]; rfl
      have ha := alloc_spec w.mem r cfg.slack
      have hf := frame_alloc cfg.n w.mem r cfg.slack
      rw [hstep, hspec]
      refine ⟨hf, Or.inr ⟨_, rfl, rfl, ?_, ?_⟩⟩
      · intro s hs
        rcases List.mem_append.mp hs with h | h
        · exact wf_of_frame hf hw s h
        · have : s = (alloc w.mem r cfg.slack).2 := by simpa using h
          subst this
          exact ⟨ha.2.1.trans hr, ha.1⟩
      · simp only [visibleOf, List.map_append, List.map_cons, List.map_nil]
        have := visibleOf_frame hf hw
        simp only [visibleOf] at this
        rw [this, ha.2.2.2]
    | some i =>
      cases asg with
      | none =>
        have hstep : stepRow setField cfg none w r = (w, true) := by simp only [stepRow, hb', hfi]; rfl
        have hspec : specRow cfg none (visibleOf w.mem w.cur) r = none := by simp only [specRow, hb', hfi]; rfl
        rw [hstep, hspec]
        exact ⟨Frame.refl _ _, Or.inl ⟨rfl, rfl⟩⟩
      | some asg =>
        have hi : i < w.cur.length := by
          have := (List.findIdx?_eq_some_iff_getElem.mp hfi).1
          simpa [visibleOf] using this
        have hold := hw _ (getD_mem w.cur i hi)
        have hgv := getD_visibleOf w.mem w.cur i hi
        generalize hoe : w.cur.getD i default = old at hold hgv
        have ha := appendS_spec w.mem old r cfg.slack hold.2
        have hfa := frame_appendS cfg.n w.mem old r cfg.slack hold.2 (Nat.le_of_eq hold.1.symm)
        generalize hap : appendS w.mem old r cfg.slack = ap at ha hfa
        have hu := applyUpdates_spec cfg.n cfg asg ap.1 ap.2 ha.1
        generalize hup : applyUpdates setField cfg ap.1 ap.2 asg = up at hu
        have hfr : Frame cfg.n w.mem up.1 := hfa.trans hu.1
        have hlen2 : up.2.len = cfg.n + cfg.n := by rw [hu.2.2.1, ha.2.1, hold.1, hr]
        have hevValid : Valid up.1 ⟨up.2.arr, old.len⟩ := by
          refine ⟨hu.2.1.1, ?_⟩
          have := hu.2.1.2
          simp only [capOf] at this ⊢
          rw [hold.1]; omega
        have hevView : view up.1 ⟨up.2.arr, old.len⟩ = specAsg cfg.n (view w.mem old) r asg := by
          simp only [specAsg]
          rw [← ha.2.2, ← hu.2.2.2]
          simp only [view]
          rw [List.take_take, hold.1, hlen2, Nat.min_eq_left (Nat.le_add_right _ _)]
        by_cases hbu : badUpd cfg (specAsg cfg.n (view w.mem old) r asg) = true
        · have hstep : stepRow setField cfg (some asg) w r = ({ mem := up.1, cur := w.cur }, true) := by
            simp only [stepRow, hb', hfi, hoe, hap, hup, hevView, hbu]; rfl
          have hspec : specRow cfg (some asg) (visibleOf w.mem w.cur) r = none := by
            simp only [specRow, hb', hfi, hgv, hbu]; rfl
          rw [hstep, hspec]
          exact ⟨hfr, Or.inl ⟨rfl, rfl⟩⟩
        · have hbu' : badUpd cfg (specAsg cfg.n (view w.mem old) r asg) = false := by simpa using hbu
          have hstep : stepRow setField cfg (some asg) w r =
              ({ mem := up.1, cur := w.cur.set i ⟨up.2.arr, old.len⟩ }, false) := by
            simp only [stepRow, hb', hfi, hoe, hap, hup, hevView, hbu']; rfl
          have hspec : specRow cfg (some asg) (visibleOf w.mem w.cur) r =
              some ((visibleOf w.mem w.cur).set i (specAsg cfg.n (view w.mem old) r asg)) := by
            simp only [specRow, hb', hfi, hgv, hbu']; rfl
          rw [hstep, hspec]
          refine ⟨hfr, Or.inr ⟨_, rfl, rfl, ?_, ?_⟩⟩
          · intro s hs
            rcases List.mem_or_eq_of_mem_set hs with h | h
            · exact wf_of_frame hfr hw s h
            · subst h; exact ⟨hold.1, hevValid⟩
          · simp only [visibleOf, List.map_set]
            have := visibleOf_frame hfr hw
            simp only [visibleOf] at this
            rw [this, hevView]

theorem runRows_spec (cfg : Cfg) (asg : Option (List Asg)) (rs : List Row) (w : Work)
    (hw : WF cfg.n w.mem w.cur) (hr : ∀ r ∈ rs, r.length = cfg.n) :
    Frame cfg.n w.mem (runRows setField cfg asg w rs).1.mem ∧
    ((specRows cfg asg (visibleOf w.mem w.cur) rs = none ∧ (runRows setField cfg asg w rs).2 = true) ∨
     (∃ t', specRows cfg asg (visibleOf w.mem w.cur) rs = some t' ∧ (runRows setField cfg asg w rs).2 = false ∧
        WF cfg.n (runRows setField cfg asg w rs).1.mem (runRows setField cfg asg w rs).1.cur ∧
        visibleOf (runRows setField cfg asg w rs).1.mem (runRows setField cfg asg w rs).1.cur = t')) := by
  induction rs generalizing w with
  | nil => exact ⟨Frame.refl _ _, Or.inr ⟨_, rfl, rfl, hw, rfl⟩⟩
  | cons r rs ih =>
    have h1 := stepRow_spec cfg asg w r hw (hr r List.mem_cons_self)
    generalize hsr : stepRow setField cfg asg w r = sr at h1
    obtain ⟨w', f⟩ := sr
    obtain ⟨hf, h1⟩ := h1
    rcases h1 with ⟨hs, hfail⟩ | ⟨t', hs, hok, hw', hv'⟩
    · simp only at hfail
      subst hfail
      have hrun : runRows setField cfg asg w (r :: rs) = (w', true) := by simp only [runRows, hsr]
      have hspec : specRows cfg asg (visibleOf w.mem w.cur) (r :: rs) = none := by simp only [specRows, hs]
      rw [hrun, hspec]
      exact ⟨hf, Or.inl ⟨rfl, rfl⟩⟩
    · simp only at hok hw' hv' hf
      subst hok
      have hrun : runRows setField cfg asg w (r :: rs) = runRows setField cfg asg w' rs := by
        simp only [runRows, hsr]
      have hspec : specRows cfg asg (visibleOf w.mem w.cur) (r :: rs) = specRows cfg asg t' rs := by
        simp only [specRows, hs]
      have h2 := ih w' hw' (fun x hx => hr x (List.mem_cons_of_mem _ hx))
      rw [hv'] at h2
      rw [hrun, hspec]
      exact ⟨hf.trans h2.1, h2.2⟩

end Gms.RowAlias
