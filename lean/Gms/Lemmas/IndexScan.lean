/-
C03 — lemmas about range *collections* on the analyzer side of an index scan
(Gms/Model/IndexScan.lean): shape invariants of `RemoveOverlappingRanges` (never nil on a non-nil
input, column count and non-invertedness preserved), `MySQLRangeCollection.Intersect` denotes the
intersection **and never returns the nil collection**, and the loop of `rangeBuildAnd` with its nil
sentinel denotes the conjunction of its OR groups and its leaf conjunction.
-/
import Gms.Props.C46
import Gms.Lemmas.IndexBuilder
import Gms.Model.IndexScan

namespace Gms.IndexScan
open Gms.Range Gms.IndexBuilder

/-- A well-formed, non-nil range collection of an `n`-column index. -/
structure Good (n : Nat) (xs : List Range) : Prop where
  ne : xs ≠ []
  len : ∀ r ∈ xs, r.length = n
  ni : ∀ r ∈ xs, Range.NonInv r

/-! ### `RemoveOverlap`: column count, at least one piece -/

theorem removeOverlap_shape (n : Nat) : ∀ (fuel : Nat) (a b : Range) (rs : List Range) (ok : Bool),
    a.length = n → b.length = n → removeOverlap fuel a b = .res rs ok →
    rs ≠ [] ∧ ∀ r ∈ rs, r.length = n
  | 0, _, _, _, _, _, _, h => by simp [removeOverlap] at h
  | fuel + 1, a, b, rs, ok, ha, hb, h => by
    unfold removeOverlap at h
    cases hm : a.tryMerge b with
    | err => simp [hm] at h
    | yes m =>
      simp [hm] at h
      obtain ⟨e1, _⟩ := h
      subst e1
      refine ⟨by simp, ?_⟩
      intro r hr; simp at hr; subst hr
      rw [Range.tryMerge_length hm]; exact ha
    | no =>
      simp only [hm] at h
      by_cases hov : a.overlaps b = true
      · simp only [hov, Bool.not_true, Bool.false_eq_true, if_false] at h
        have hl : a.length = b.length := by omega
        cases hd : Range.diffIdx a b with
        | nil =>
          have := Range.diffIdx_nil a b hl hd
          subst this
          have : a.tryMerge a = .yes a := by
            unfold Range.tryMerge; simp [Range.isSubsetOf_self]
          rw [this] at hm; simp at hm
        | cons i rest =>
          simp only [hd] at h
          cases hs1 : (a[i]?.getD default).subtract ((a[i]?.getD default).overlaps (b[i]?.getD default)).1 with
          | none => simp [hs1] at h
          | some s1 =>
            cases hs2 : (b[i]?.getD default).subtract ((a[i]?.getD default).overlaps (b[i]?.getD default)).1 with
            | none => simp [hs1, hs2] at h
            | some s2 =>
              simp only [hs1, hs2] at h
              cases hrec : removeOverlap fuel (a.set i ((a[i]?.getD default).overlaps (b[i]?.getD default)).1)
                  (b.set i ((a[i]?.getD default).overlaps (b[i]?.getD default)).1) with
              | fuel => simp [hrec] at h
              | err => simp [hrec] at h
              | crash => simp [hrec] at h
              | res rs' ok' =>
                simp [hrec] at h
                obtain ⟨e1, _⟩ := h
                subst e1
                obtain ⟨ih1, ih2⟩ := removeOverlap_shape n fuel _ _ rs' ok'
                  (by simpa using ha) (by simpa using hb) hrec
                refine ⟨?_, ?_⟩
                · intro e
                  simp only [List.append_eq_nil_iff] at e
                  exact ih1 e.2.2
                · intro r hr
                  rcases List.mem_append.mp hr with hr | hr
                  · obtain ⟨p, _, e⟩ := List.mem_map.mp hr
                    rw [← e]; simpa using ha
                  · rcases List.mem_append.mp hr with hr | hr
                    · obtain ⟨p, _, e⟩ := List.mem_map.mp hr
                      rw [← e]; simpa using hb
                    · exact ih2 r hr
      · simp at hov
        simp [hov] at h
        obtain ⟨e1, _⟩ := h
        subst e1
        refine ⟨by simp, ?_⟩
        intro r hr; simp at hr; rcases hr with e | e <;> subst e <;> assumption

/-! ### The worklist of `RemoveOverlappingRanges` -/

theorem rorLoop_shape {T : Type} (ops : TreeOps T) (content : T → List Range)
    (hts : Gms.C46.TreeSet ops content) (n : Nat) :
    ∀ (fuel : Nat) (t : T) (pending : List Range) (t' : T),
      (∀ r ∈ content t, r.length = n) → (∀ r ∈ pending, r.length = n) →
      (content t ≠ [] ∨ pending ≠ []) →
      rorLoop ops fuel t pending = .ok t' →
      (∀ r ∈ content t', r.length = n) ∧ content t' ≠ [] := by
  intro fuel
  induction fuel with
  | zero =>
    intro t pending t' hc hp hne h
    cases pending with
    | nil => simp [rorLoop] at h; subst h; exact ⟨hc, by simpa using hne⟩
    | cons _ _ => simp [rorLoop] at h
  | succ fuel ih =>
    intro t pending t' hc hp hne h
    cases pending with
    | nil => simp [rorLoop] at h; subst h; exact ⟨hc, by simpa using hne⟩
    | cons rang rest =>
      have hrang : rang.length = n := hp rang (by simp)
      have hrest : ∀ r ∈ rest, r.length = n := fun r hr => hp r (by simp [hr])
      unfold rorLoop at h
      cases hf : ops.find t rang with
      | none => simp [hf] at h
      | some conns =>
        simp only [hf] at h
        cases hfo : firstOverlap rang conns with
        | crash => simp [hfo] at h
        | err => simp [hfo] at h
        | fuel => simp [hfo] at h
        | hit c newRanges =>
          simp only [hfo] at h
          obtain ⟨hcin, hro⟩ := firstOverlap_hit rang conns c newRanges hfo
          have hct : c ∈ content t := hts.find t rang conns hf c hcin
          obtain ⟨hn1, hn2⟩ := removeOverlap_shape n _ c rang newRanges true (hc c hct) hrang hro
          cases hr : ops.remove t c with
          | none => simp [hr] at h
          | some t1 =>
            simp only [hr] at h
            have hc1 := hts.remove t c t1 hr
            exact ih t1 (rest ++ newRanges) t'
              (fun r hr' => hc r ((hc1 r).mp hr').1)
              (fun r hr' => by
                rcases List.mem_append.mp hr' with h' | h'
                · exact hrest r h'
                · exact hn2 r h')
              (Or.inr (by
                intro e
                simp only [List.append_eq_nil_iff] at e
                exact hn1 e.2)) h
        | none =>
          simp only [hfo] at h
          cases hi : ops.insert t rang with
          | none => simp [hi] at h
          | some t1 =>
            simp only [hi] at h
            have hc1 := hts.insert t rang t1 hi
            exact ih t1 rest t'
              (fun r hr' => by
                rcases (hc1 r).mp hr' with e | h'
                · rw [e]; exact hrang
                · exact hc r h')
              hrest
              (Or.inl (by
                intro e
                have : rang ∈ content t1 := (hc1 rang).mpr (Or.inl rfl)
                rw [e] at this; simp at this)) h

/-! ### `GetRangeCollection` -/

/-- State of the merge loop after at least one stored range: the collection is well-formed and,
while it is still empty, the `emptyRange` slot holds a stored (empty) range. -/
def CollInv (n : Nat) (coll : List Range) (e : Range) : Prop :=
  (∀ r ∈ coll, r.length = n ∧ Range.NonInv r) ∧ (coll ≠ [] ∨ (e.length = n ∧ Range.NonInv e))

theorem collectStep_shape (n : Nat) (coll : List Range) (e rang : Range) (coll' : List Range) (e' : Range)
    (hq : ∀ r ∈ coll, r.length = n ∧ Range.NonInv r) (hl : rang.length = n) (hn : Range.NonInv rang)
    (h : collectStep (some (coll, e)) rang = some (coll', e')) : CollInv n coll' e' := by
  unfold collectStep at h
  simp only at h
  by_cases he : rang.isEmpty = true
  · simp [he] at h
    obtain ⟨e1, e2⟩ := h
    subst e1; subst e2
    exact ⟨hq, Or.inr ⟨hl, hn⟩⟩
  · simp at he
    simp only [he, Bool.not_false, if_true] at h
    cases hlast : coll.getLast? with
    | none =>
      simp [hlast] at h
      obtain ⟨e1, _⟩ := h
      subst e1
      exact ⟨fun r hr => by simp at hr; subst hr; exact ⟨hl, hn⟩, Or.inl (by simp)⟩
    | some last =>
      simp only [hlast] at h
      obtain ⟨ys, hys⟩ := List.getLast?_eq_some_iff.mp hlast
      have hlm : last ∈ coll := by rw [hys]; simp
      cases hm : last.tryMerge rang with
      | err => simp [hm] at h
      | no =>
        simp [hm] at h
        obtain ⟨e1, _⟩ := h
        subst e1
        refine ⟨?_, Or.inl (by simp)⟩
        intro r hr
        simp at hr
        rcases hr with hr | hr
        · exact hq r hr
        · subst hr; exact ⟨hl, hn⟩
      | yes m =>
        simp [hm] at h
        obtain ⟨e1, _⟩ := h
        subst e1
        refine ⟨?_, Or.inl (by simp)⟩
        intro r hr
        simp at hr
        rcases hr with hr | hr
        · exact hq r (List.dropLast_subset coll hr)
        · subst hr
          exact ⟨by rw [Range.tryMerge_length hm]; exact (hq last hlm).1,
            Range.tryMerge_nonInv (hq last hlm).2 hn hm⟩

theorem collect_fold_shape (n : Nat) : ∀ (stored : List Range) (coll : List Range) (e : Range) (coll' : List Range) (e' : Range),
    (∀ r ∈ stored, r.length = n ∧ Range.NonInv r) → CollInv n coll e →
    stored.foldl collectStep (some (coll, e)) = some (coll', e') → CollInv n coll' e'
  | [], coll, e, coll', e', _, hi, h => by
    simp at h
    obtain ⟨e1, e2⟩ := h
    subst e1; subst e2; exact hi
  | rang :: rest, coll, e, coll', e', hs, hi, h => by
    simp only [List.foldl_cons] at h
    cases hstep : collectStep (some (coll, e)) rang with
    | none =>
      rw [hstep] at h
      have : ∀ (l : List Range), l.foldl collectStep none = none := by
        intro l; induction l with
        | nil => rfl
        | cons x xs ih => simpa [collectStep] using ih
      rw [this] at h; simp at h
    | some p =>
      obtain ⟨c1, e1⟩ := p
      rw [hstep] at h
      have h1 := collectStep_shape n coll e rang c1 e1 hi.1 (hs rang (by simp)).1 (hs rang (by simp)).2 hstep
      exact collect_fold_shape n rest c1 e1 coll' e' (fun r hr => hs r (by simp [hr])) h1 h

/-- `GetRangeCollection` of a non-empty set of stored ranges is a well-formed, **non-nil**
collection (when every stored range is empty it is the single empty range kept in `emptyRange`). -/
theorem getRangeCollection_good (n : Nat) (stored coll : List Range) (hne : stored ≠ [])
    (hs : ∀ r ∈ stored, r.length = n ∧ Range.NonInv r)
    (h : getRangeCollection stored = some coll) : Good n coll := by
  unfold getRangeCollection at h
  cases stored with
  | nil => exact absurd rfl hne
  | cons r0 rest =>
    cases hf : (r0 :: rest).foldl collectStep (some ([], [])) with
    | none => simp [hf] at h
    | some p =>
      obtain ⟨c1, e1⟩ := p
      simp only [hf] at h
      simp only [List.foldl_cons] at hf
      cases hstep : collectStep (some ([], [])) r0 with
      | none =>
        rw [hstep] at hf
        have : ∀ (l : List Range), l.foldl collectStep none = none := by
          intro l; induction l with
          | nil => rfl
          | cons x xs ih => simpa [collectStep] using ih
        rw [this] at hf; simp at hf
      | some q =>
        obtain ⟨c0, e0⟩ := q
        rw [hstep] at hf
        have h0 := collectStep_shape n [] [] r0 c0 e0 (by simp) (hs r0 (by simp)).1 (hs r0 (by simp)).2 hstep
        have h1 := collect_fold_shape n rest c0 e0 c1 e1 (fun r hr => hs r (by simp [hr])) h0 hf
        by_cases hc : c1.isEmpty = true
        · simp [hc] at h
          subst h
          have hc1 : c1 = [] := by simpa using hc
          rcases h1.2 with h2 | h2
          · exact absurd hc1 h2
          · exact ⟨by simp, fun r hr => by simp at hr; subst hr; exact h2.1,
              fun r hr => by simp at hr; subst hr; exact h2.2⟩
        · simp [hc] at h
          subst h
          exact ⟨by simpa using hc, fun r hr => (h1.1 r hr).1, fun r hr => (h1.1 r hr).2⟩

/-! ### `RemoveOverlappingRanges` -/

/-- `RemoveOverlappingRanges` of a non-nil well-formed collection is a non-nil well-formed
collection (for every set-like tree). -/
theorem removeOverlapping_good {T : Type} (ops : TreeOps T) (content : T → List Range)
    (hts : Gms.C46.TreeSet ops content) (n : Nat) (fuel : Nat) (ranges coll : List Range)
    (hg : Good n ranges) (h : removeOverlappingRanges ops fuel ranges = .ok coll) : Good n coll := by
  unfold removeOverlappingRanges at h
  cases ranges with
  | nil => exact absurd rfl hg.ne
  | cons r0 rest =>
    simp only at h
    cases hl : rorLoop ops fuel (ops.new r0) rest with
    | crash => simp [hl] at h
    | fuel => simp [hl] at h
    | err m => simp [hl] at h
    | ok t =>
      simp only [hl] at h
      cases htl : ops.toList t with
      | none => simp [htl] at h
      | some stored =>
        simp only [htl] at h
        cases hgc : getRangeCollection stored with
        | none => simp [hgc] at h
        | some c =>
          simp only [hgc] at h
          by_cases hv : validate c = true
          · simp [hv] at h
            subst h
            have hnewmem : ∀ r, r ∈ content (ops.new r0) ↔ r = r0 := hts.new r0
            have hnewlen : ∀ r ∈ content (ops.new r0), r.length = n := fun r hr => by
              rw [(hnewmem r).mp hr]; exact hg.len r0 (by simp)
            have hnewni : ∀ r ∈ content (ops.new r0), Range.NonInv r := fun r hr => by
              rw [(hnewmem r).mp hr]; exact hg.ni r0 (by simp)
            have hnewne : content (ops.new r0) ≠ [] := by
              intro e
              have : r0 ∈ content (ops.new r0) := (hnewmem r0).mpr rfl
              rw [e] at this; simp at this
            obtain ⟨s1, s2⟩ := rorLoop_shape ops content hts n fuel (ops.new r0) rest t hnewlen
              (fun r hr => hg.len r (by simp [hr])) (Or.inl hnewne) hl
            obtain ⟨_, i2⟩ := Gms.C46.rorLoop_preserves ops content hts fuel (ops.new r0) rest t hnewni
              (fun r hr => hg.ni r (by simp [hr])) hl
            have hst : ∀ x, x ∈ stored ↔ x ∈ content t := hts.toList t stored htl
            have hsne : stored ≠ [] := by
              intro e
              cases hct : content t with
              | nil => exact s2 hct
              | cons x xs =>
                have : x ∈ stored := (hst x).mpr (by rw [hct]; simp)
                rw [e] at this; simp at this
            exact getRangeCollection_good n stored _ hsne
              (fun r hr => ⟨s1 r ((hst r).mp hr), i2 r ((hst r).mp hr)⟩) hgc
          · simp [hv] at h

/-! ### `MySQLRange.Intersect`, `MySQLRangeCollection.Intersect` -/

theorem nonInv_empty : ColRange.NonInv ColRange.empty := by decide

theorem intersectCols_nonInv : ∀ (a b r : Range), Range.intersectCols a b = some r → Range.NonInv r
  | [], _, r, h => by simp [Range.intersectCols] at h; subst h; intro c hc; simp at hc
  | _ :: _, [], r, h => by simp [Range.intersectCols] at h; subst h; intro c hc; simp at hc
  | x :: as, y :: bs, r, h => by
    simp only [Range.intersectCols] at h
    by_cases hf : (x.tryIntersect y).2 = true
    · simp [hf] at h
      obtain ⟨r', hr', e⟩ := h
      subst e
      have ih := intersectCols_nonInv as bs r' hr'
      intro c hc
      simp at hc
      rcases hc with hc | hc
      · subst hc
        obtain ⟨v, h1, h2⟩ := (ColRange.tryIntersect_flag x y).mp hf
        have hm : (x.tryIntersect y).1.mem v = true := by rw [ColRange.mem_tryIntersect, h1, h2]; rfl
        exact ColRange.nonInv_of_not_isEmpty ((ColRange.not_isEmpty_iff _).mpr ⟨v, hm⟩)
      · exact ih c hc
    · simp [hf] at h

theorem intersect_nonInv (a b : Range) : Range.NonInv (a.intersect b) := by
  unfold Range.intersect
  split
  · intro c hc; simp at hc
  · cases h : Range.intersectCols a b with
    | none =>
      intro c hc
      simp only [Range.asEmpty, List.mem_map] at hc
      obtain ⟨_, _, e⟩ := hc
      rw [← e]; exact nonInv_empty
    | some r => exact intersectCols_nonInv a b r h

/-- The pairwise intersections `MySQLRangeCollection.Intersect` hands to `RemoveOverlappingRanges`:
one per pair (disjoint pairs contribute the all-empty placeholder), so the list is not nil, and it
denotes the intersection. -/
theorem pairwise_good (n : Nat) (hn : 0 < n) (xs ys : List Range) (hx : Good n xs) (hy : Good n ys) :
    Good n (xs.flatMap (fun x => (ys.map (fun y => x.intersect y)).filter (fun r => r.length > 0)))
    ∧ ∀ v, memAny (xs.flatMap (fun x => (ys.map (fun y => x.intersect y)).filter (fun r => r.length > 0))) v
        = (memAny xs v && memAny ys v) := by
  have hlen : ∀ x ∈ xs, ∀ y ∈ ys, (x.intersect y).length = n := fun x hx' y hy' => by
    rw [Range.intersect_length (by rw [hx.len x hx', hy.len y hy'])]; exact hx.len x hx'
  have hmemr : ∀ r, r ∈ xs.flatMap (fun x => (ys.map (fun y => x.intersect y)).filter (fun r => r.length > 0))
      ↔ ∃ x ∈ xs, ∃ y ∈ ys, r = x.intersect y := by
    intro r
    simp only [List.mem_flatMap, List.mem_filter, List.mem_map, decide_eq_true_eq]
    constructor
    · rintro ⟨x, hx', ⟨y, hy', e⟩, _⟩
      exact ⟨x, hx', y, hy', e.symm⟩
    · rintro ⟨x, hx', y, hy', e⟩
      exact ⟨x, hx', ⟨y, hy', e.symm⟩, by rw [e, hlen x hx' y hy']; exact hn⟩
  refine ⟨⟨?_, ?_, ?_⟩, ?_⟩
  · obtain ⟨x, hx'⟩ := List.exists_mem_of_ne_nil xs hx.ne
    obtain ⟨y, hy'⟩ := List.exists_mem_of_ne_nil ys hy.ne
    intro e
    have : x.intersect y ∈ xs.flatMap (fun x => (ys.map (fun y => x.intersect y)).filter (fun r => r.length > 0)) :=
      (hmemr _).mpr ⟨x, hx', y, hy', rfl⟩
    rw [e] at this; simp at this
  · intro r hr
    obtain ⟨x, hx', y, hy', e⟩ := (hmemr r).mp hr
    rw [e]; exact hlen x hx' y hy'
  · intro r hr
    obtain ⟨x, _, y, _, e⟩ := (hmemr r).mp hr
    rw [e]; exact intersect_nonInv x y
  · intro v
    apply Bool.eq_iff_iff.mpr
    simp only [Bool.and_eq_true, memAny_iff]
    constructor
    · rintro ⟨r, hr, hm⟩
      obtain ⟨x, hx', y, hy', e⟩ := (hmemr r).mp hr
      have hxne : x ≠ [] := by intro e'; have := hx.len x hx'; rw [e'] at this; simp at this; omega
      rw [e, Range.mem_intersect (by rw [hx.len x hx', hy.len y hy']) hxne] at hm
      simp only [Bool.and_eq_true] at hm
      exact ⟨⟨x, hx', hm.1⟩, ⟨y, hy', hm.2⟩⟩
    · rintro ⟨⟨x, hx', hm1⟩, ⟨y, hy', hm2⟩⟩
      have hxne : x ≠ [] := by intro e'; have := hx.len x hx'; rw [e'] at this; simp at this; omega
      refine ⟨x.intersect y, (hmemr _).mpr ⟨x, hx', y, hy', rfl⟩, ?_⟩
      rw [Range.mem_intersect (by rw [hx.len x hx', hy.len y hy']) hxne, hm1, hm2]; rfl

/-- **`MySQLRangeCollection.Intersect`.** For every set-like tree and non-nil well-formed
collections of an `n ≥ 1`-column index: a non-error result is again non-nil and well-formed — in
particular it is **never the nil collection**, also when the two collections have nothing in common
(the result is then the single all-empty range) — and a key tuple lies in it iff it lies in both. -/
theorem collectionIntersect_sound {T : Type} (ops : TreeOps T) (content : T → List Range)
    (hts : Gms.C46.TreeSet ops content) (n : Nat) (hn : 0 < n) (fuel : Nat) (xs ys coll : List Range)
    (hx : Good n xs) (hy : Good n ys) (h : collectionIntersect ops fuel xs ys = .ok coll) :
    Good n coll ∧ ∀ v : Tuple, v ≠ [] → memAny coll v = (memAny xs v && memAny ys v) := by
  unfold collectionIntersect at h
  obtain ⟨g, m⟩ := pairwise_good n hn xs ys hx hy
  refine ⟨removeOverlapping_good ops content hts n fuel _ coll g h, fun v hv => ?_⟩
  rw [(Gms.C46.removeOverlapping_preserves ops content hts fuel _ coll g.ni h).1 v hv, m v]

/-! ### `rangeBuildAnd` -/

/-- Denotation of one entry of the `orChildren` loop: a nil collection (OR group not in the scan)
is skipped, i.e. counts as TRUE. -/
def den (x : List Range) (v : Tuple) : Bool := x.isEmpty || memAny x v

section
variable {T : Type} (ops : TreeOps T) (content : T → List Range) (hts : Gms.C46.TreeSet ops content)
variable (n : Nat) (hn : 0 < n) (fuel : Nat)

theorem foldl_andStep_notOk : ∀ (l : List (Res (List Range))) (e : Res (List Range)),
    (∀ x, e ≠ .ok x) → l.foldl (andStep ops fuel) e = e
  | [], _, _ => rfl
  | q :: l, e, he => by
    simp only [List.foldl_cons]
    have : andStep ops fuel e q = e := by
      unfold andStep
      cases e with
      | ok x => exact absurd rfl (he x)
      | err m => rfl
      | crash => rfl
      | fuel => rfl
    rw [this]
    exact foldl_andStep_notOk l e he

/-- If the loop ends without error, every OR group was built without error. -/
theorem foldl_andStep_ok : ∀ (l : List (Res (List Range))) (r : Res (List Range)) (z : List Range),
    l.foldl (andStep ops fuel) r = .ok z → ∀ q ∈ l, ∃ x, q = .ok x
  | [], _, _, _ => by intro q hq; simp at hq
  | q0 :: l, r, z, h => by
    simp only [List.foldl_cons] at h
    intro q hq
    simp at hq
    have hq0 : ∃ x, q0 = .ok x := by
      cases q0 with
      | ok x => exact ⟨x, rfl⟩
      | err m =>
        have : andStep ops fuel r (.err m) = (match r with | .ok _ => .err m | e => e) := by
          unfold andStep; cases r <;> rfl
        cases r with
        | ok y => rw [this, foldl_andStep_notOk ops fuel l _ (by intro x; simp)] at h; simp at h
        | err m' => rw [this, foldl_andStep_notOk ops fuel l _ (by intro x; simp)] at h; simp at h
        | crash => rw [this, foldl_andStep_notOk ops fuel l _ (by intro x; simp)] at h; simp at h
        | fuel => rw [this, foldl_andStep_notOk ops fuel l _ (by intro x; simp)] at h; simp at h
      | crash =>
        have : andStep ops fuel r .crash = (match r with | .ok _ => .crash | e => e) := by
          unfold andStep; cases r <;> rfl
        cases r with
        | ok y => rw [this, foldl_andStep_notOk ops fuel l _ (by intro x; simp)] at h; simp at h
        | err m' => rw [this, foldl_andStep_notOk ops fuel l _ (by intro x; simp)] at h; simp at h
        | crash => rw [this, foldl_andStep_notOk ops fuel l _ (by intro x; simp)] at h; simp at h
        | fuel => rw [this, foldl_andStep_notOk ops fuel l _ (by intro x; simp)] at h; simp at h
      | fuel =>
        have : andStep ops fuel r .fuel = (match r with | .ok _ => .fuel | e => e) := by
          unfold andStep; cases r <;> rfl
        cases r with
        | ok y => rw [this, foldl_andStep_notOk ops fuel l _ (by intro x; simp)] at h; simp at h
        | err m' => rw [this, foldl_andStep_notOk ops fuel l _ (by intro x; simp)] at h; simp at h
        | crash => rw [this, foldl_andStep_notOk ops fuel l _ (by intro x; simp)] at h; simp at h
        | fuel => rw [this, foldl_andStep_notOk ops fuel l _ (by intro x; simp)] at h; simp at h
    rcases hq with e | hq
    · rw [e]; exact hq0
    · exact foldl_andStep_ok l _ z h q hq

theorem all_ok_map : ∀ (l : List (Res (List Range))), (∀ q ∈ l, ∃ x, q = .ok x) →
    ∃ xs : List (List Range), l = xs.map Res.ok
  | [], _ => ⟨[], rfl⟩
  | q :: l, h => by
    obtain ⟨x, hx⟩ := h q (by simp)
    obtain ⟨xs, hxs⟩ := all_ok_map l (fun q' hq' => h q' (by simp [hq']))
    exact ⟨x :: xs, by rw [hx, hxs]; rfl⟩

include hts hn in
/-- The loop over the OR groups with the nil sentinel: as long as `Intersect` never returns nil
(`collectionIntersect_sound`), `ret == nil` means exactly "nothing applied yet". -/
theorem foldl_andStep_sound : ∀ (xs : List (List Range)) (ret ret' : List Range),
    (ret = [] ∨ Good n ret) → (∀ x ∈ xs, x = [] ∨ Good n x) →
    (xs.map Res.ok).foldl (andStep ops fuel) (.ok ret) = .ok ret' →
    (ret' = [] ∨ Good n ret') ∧ ∀ v : Tuple, v ≠ [] → den ret' v = (den ret v && xs.all (fun x => den x v))
  | [], ret, ret', hr, _, h => by
    simp at h; subst h
    exact ⟨hr, fun v _ => by simp⟩
  | x :: xs, ret, ret', hr, hxs, h => by
    simp only [List.map_cons, List.foldl_cons] at h
    have hx := hxs x (by simp)
    have hrest : ∀ y ∈ xs, y = [] ∨ Good n y := fun y hy => hxs y (by simp [hy])
    by_cases hxe : x = []
    · -- `if ranges == nil { continue }`
      subst hxe
      have : andStep ops fuel (.ok ret) (.ok []) = .ok ret := by simp [andStep]
      rw [this] at h
      obtain ⟨g, m⟩ := foldl_andStep_sound xs ret ret' hr hrest h
      exact ⟨g, fun v hv => by rw [m v hv]; simp [den]⟩
    · have hxg : Good n x := by rcases hx with e | g; exact absurd e hxe; exact g
      by_cases hre : ret = []
      · -- `if ret == nil { ret = ranges; continue }`
        subst hre
        have : andStep ops fuel (.ok []) (.ok x) = .ok x := by
          simp [andStep, hxe]
        rw [this] at h
        obtain ⟨g, m⟩ := foldl_andStep_sound xs x ret' (Or.inr hxg) hrest h
        exact ⟨g, fun v hv => by rw [m v hv]; simp [den]⟩
      · have hrg : Good n ret := by rcases hr with e | g; exact absurd e hre; exact g
        have : andStep ops fuel (.ok ret) (.ok x) = collectionIntersect ops fuel ret x := by
          simp [andStep, hxe, hre]
        rw [this] at h
        cases hci : collectionIntersect ops fuel ret x with
        | ok c =>
          rw [hci] at h
          obtain ⟨cg, cm⟩ := collectionIntersect_sound ops content hts n hn fuel ret x c hrg hxg hci
          obtain ⟨g, m⟩ := foldl_andStep_sound xs c ret' (Or.inr cg) hrest h
          refine ⟨g, fun v hv => ?_⟩
          rw [m v hv]
          have e1 : den c v = (den ret v && den x v) := by
            unfold den
            have h1 : c.isEmpty = false := by simpa using cg.ne
            have h2 : ret.isEmpty = false := by simpa using hre
            have h3 : x.isEmpty = false := by simpa using hxe
            rw [h1, h2, h3, cm v hv]; simp
          rw [e1]; simp [Bool.and_assoc]
        | err m => rw [hci, foldl_andStep_notOk ops fuel _ _ (by intro x; simp)] at h; simp at h
        | crash => rw [hci, foldl_andStep_notOk ops fuel _ _ (by intro x; simp)] at h; simp at h
        | fuel => rw [hci, foldl_andStep_notOk ops fuel _ _ (by intro x; simp)] at h; simp at h

include hts hn in
/-- **`rangeBuildAnd`.** Given the (non-error) ranges of the OR groups — each nil (not in the scan)
or well-formed — and the well-formed ranges of the leaf conjunction: a non-error result is
well-formed and non-nil, and a key tuple lies in it iff it lies in every OR group's ranges and in
the leaf conjunction's ranges. -/
theorem rangeBuildAnd_sound (xs : List (List Range)) (part coll : List Range)
    (hxs : ∀ x ∈ xs, x = [] ∨ Good n x) (hp : Good n part)
    (h : rangeBuildAnd ops fuel (xs.map Res.ok) part = .ok coll) :
    Good n coll ∧ ∀ v : Tuple, v ≠ [] → memAny coll v = (xs.all (fun x => den x v) && memAny part v) := by
  unfold rangeBuildAnd at h
  cases hf : (xs.map Res.ok).foldl (andStep ops fuel) (.ok []) with
  | ok ret =>
    simp only [hf] at h
    obtain ⟨g, m⟩ := foldl_andStep_sound ops content hts n hn fuel xs [] ret (Or.inl rfl) hxs hf
    by_cases hre : ret = []
    · subst hre
      simp at h
      subst h
      refine ⟨hp, fun v hv => ?_⟩
      have := m v hv
      simp only [den] at this ⊢
      simp only [List.isEmpty_nil, Bool.true_or, Bool.true_and] at this
      rw [← this]; simp
    · have hrg : Good n ret := by rcases g with e | g; exact absurd e hre; exact g
      have hie : ret.isEmpty = false := by simpa using hre
      simp only [hie] at h
      obtain ⟨cg, cm⟩ := collectionIntersect_sound ops content hts n hn fuel ret part coll hrg hp (by simpa using h)
      refine ⟨cg, fun v hv => ?_⟩
      rw [cm v hv]
      have := m v hv
      simp only [den, hie, Bool.false_or, List.isEmpty_nil, Bool.true_or, Bool.true_and] at this
      simp only [den]
      rw [this]
  | err m => simp [hf] at h
  | crash => simp [hf] at h
  | fuel => simp [hf] at h

end

/-! ### The builder's `Ranges()` is a well-formed non-nil collection -/

theorem product_length : ∀ (cols : List (List ColRange)) (r : Range), r ∈ product cols → r.length = cols.length
  | [], r, h => by simp [product] at h; subst h; rfl
  | c :: cs, r, h => by
    simp only [product, List.mem_flatMap, List.mem_map] at h
    obtain ⟨rest, hrest, x, _, e⟩ := h
    subst e
    simp [product_length cs rest hrest]

theorem not_isEmpty_nonInv (r : Range) (h : r.isEmpty = false) : Range.NonInv r := by
  intro c hc
  unfold Range.isEmpty at h
  simp only [Bool.or_eq_false_iff] at h
  have := h.2
  rw [List.any_eq_false] at this
  exact ColRange.nonInv_of_not_isEmpty (by simpa using this c hc)

theorem ranges_good (b : B) : Good b.cols.length (ranges b) := by
  have hemp : Good b.cols.length [b.cols.map (fun _ => ColRange.empty)] :=
    ⟨by simp, fun r hr => by simp at hr; subst hr; simp, fun r hr => by
      simp at hr; subst hr
      intro c hc
      simp only [List.mem_map] at hc
      obtain ⟨_, _, e⟩ := hc
      rw [← e]; exact nonInv_empty⟩
  unfold ranges
  split
  · exact hemp
  · simp only
    split
    · exact hemp
    · rename_i hne
      refine ⟨by simpa using hne, ?_, ?_⟩
      · intro r hr
        have hr' := (List.mem_filter.mp hr).1
        have : r ∈ product b.cols := by
          cases hp : product b.cols with
          | nil => rw [hp] at hr'; simp [rotate1] at hr'
          | cons x xs =>
            rw [hp] at hr'
            simp [rotate1] at hr'
            rcases hr' with h' | h'
            · simp [h']
            · simp [h']
        exact product_length b.cols r this
      · intro r hr
        have := (List.mem_filter.mp hr).2
        exact not_isEmpty_nonInv r (by simpa using this)

/-! ### Small facts used by the tree theorem -/

theorem rangeBuildAnd_ok_all_ok {T : Type} (ops : TreeOps T) (fuel : Nat) (ors : List (Res (List Range)))
    (part coll : List Range) (h : rangeBuildAnd ops fuel ors part = .ok coll) : ∀ q ∈ ors, ∃ x, q = .ok x := by
  unfold rangeBuildAnd at h
  cases hf : ors.foldl (andStep ops fuel) (.ok []) with
  | ok ret => exact foldl_andStep_ok ops fuel ors _ ret hf
  | err m => simp [hf] at h
  | crash => simp [hf] at h
  | fuel => simp [hf] at h

theorem orAppend_ok (a b : Res (List Range)) (x : List Range) (h : orAppend a b = .ok x) :
    ∃ xa xb, a = .ok xa ∧ b = .ok xb ∧ x = xa ++ xb := by
  unfold orAppend at h
  cases a with
  | ok xa =>
    cases b with
    | ok xb => simp at h; exact ⟨xa, xb, rfl, rfl, h.symm⟩
    | err m => simp at h
    | crash => simp at h
    | fuel => simp at h
  | err m => simp at h
  | crash => simp at h
  | fuel => simp at h

theorem good_append {n : Nat} {xs ys : List Range} (hx : Good n xs) (hy : Good n ys) : Good n (xs ++ ys) :=
  ⟨by simp [hx.ne], fun r hr => by
      rcases List.mem_append.mp hr with h | h
      · exact hx.len r h
      · exact hy.len r h,
    fun r hr => by
      rcases List.mem_append.mp hr with h | h
      · exact hx.ni r h
      · exact hy.ni r h⟩

theorem den_good {n : Nat} {x : List Range} (hx : Good n x) (v : Tuple) : den x v = memAny x v := by
  unfold den
  have : x.isEmpty = false := by simpa using hx.ne
  rw [this]; rfl

theorem build_cols_length (t : IntType) (n : Nat) (ops : List (Nat × Pred))
    (hops : ∀ op ∈ ops, op.1 < n ∧ op.2.WF) : (build t n ops).cols.length = n := by
  unfold build
  have hlen : (B.new n).cols.length = n := by simp [B.new]
  have := (build_fold_sat t [] (by intro x hx; simp at hx) ops (B.new n) (fun op ho => by rw [hlen]; exact hops op ho)).2
  rw [this, hlen]

theorem build_ranges_good (t : IntType) (n : Nat) (ops : List (Nat × Pred))
    (hops : ∀ op ∈ ops, op.1 < n ∧ op.2.WF) : Good n (ranges (build t n ops)) := by
  have := ranges_good (build t n ops)
  rwa [build_cols_length t n ops hops] at this

/-- The filters SQL can express on an `n`-column index. -/
def E.WF (n : Nat) : E → Prop
  | .leaf c p => c < n ∧ p.WF
  | .and a b => E.WF n a ∧ E.WF n b
  | .or a b => E.WF n a ∧ E.WF n b

theorem andLeaves_wf (n : Nat) : ∀ (e : E), E.WF n e → ∀ op ∈ andLeaves e, op.1 < n ∧ op.2.WF
  | .leaf c p, h, op, ho => by simp [andLeaves] at ho; subst ho; exact h
  | .and a b, h, op, ho => by
    simp only [andLeaves, List.mem_append] at ho
    rcases ho with ho | ho
    · exact andLeaves_wf n a h.1 op ho
    · exact andLeaves_wf n b h.2 op ho
  | .or _ _, _, op, ho => by simp [andLeaves] at ho

/-- Truth of the OR groups under the AND spine at an expression. -/
def orsHold : E → List (Option Int) → Bool
  | .leaf _ _, _ => true
  | .and a b, v => orsHold a v && orsHold b v
  | .or a b, v => a.holds v || b.holds v

/-- A conjunction is TRUE iff its OR groups and its leaves are. -/
theorem holds_split : ∀ (e : E) (v : List (Option Int)),
    e.holds v = (orsHold e v && (andLeaves e).all (fun op => op.2.holds (v[op.1]?.getD none)))
  | .leaf c p, v => by simp [E.holds, orsHold, andLeaves]
  | .or a b, v => by simp [E.holds, orsHold, andLeaves]
  | .and a b, v => by
    simp only [E.holds, orsHold, andLeaves, List.all_append]
    rw [holds_split a v, holds_split b v]
    cases orsHold a v <;> cases orsHold b v <;>
      cases (andLeaves a).all (fun op => op.2.holds (v[op.1]?.getD none)) <;>
      cases (andLeaves b).all (fun op => op.2.holds (v[op.1]?.getD none)) <;> rfl

end Gms.IndexScan
