/-
Helper lemmas for C24: code layout of `compile`, scope scans, and the forward simulation of the
structured semantics by the op machine on the jump-free fragment.
-/
import Gms.Model.ProcLang
set_option linter.unusedSimpArgs false
set_option linter.unusedVariables false

namespace Gms.ProcLang

/-! ## Reachability of the machine -/

inductive Reaches (ops : List Op) : MState → StepRes → Prop where
  | refl (m : MState) : Reaches ops m (.running m)
  | next {m m' : MState} {r : StepRes} : step ops m = .running m' → Reaches ops m' r → Reaches ops m r
  | halt {m : MState} {o : Outcome} {σ : Store} : step ops m = .done o σ → Reaches ops m (.done o σ)

theorem Reaches.trans {ops : List Op} {m m' : MState} {r : StepRes}
    (h1 : Reaches ops m (.running m')) (h2 : Reaches ops m' r) : Reaches ops m r := by
  generalize hr : StepRes.running m' = r1 at h1
  induction h1 with
  | refl m => cases hr; exact h2
  | next hs _ ih => exact Reaches.next hs (ih hr)
  | halt hs => cases hr

theorem Reaches.one {ops : List Op} {m m' : MState} (h : step ops m = .running m') :
    Reaches ops m (.running m') := Reaches.next h (Reaches.refl m')

/-- A halting reachability is realised by `run` with enough fuel. -/
theorem Reaches.run {ops : List Op} {m : MState} {o : Outcome} {σ : Store}
    (h : Reaches ops m (.done o σ)) : ∃ n, ∀ k, n ≤ k → run k ops m = (o, σ) := by
  generalize hr : StepRes.done o σ = r at h
  induction h with
  | refl m => cases hr
  | next hs _ ih =>
    obtain ⟨n, hn⟩ := ih hr
    refine ⟨n + 1, fun k hk => ?_⟩
    obtain ⟨k', rfl⟩ : ∃ k', k = k' + 1 := ⟨k - 1, by omega⟩
    simp only [Gms.ProcLang.run, hs]
    exact hn k' (by omega)
  | halt hs =>
    cases hr
    refine ⟨1, fun k hk => ?_⟩
    obtain ⟨k', rfl⟩ : ∃ k', k = k' + 1 := ⟨k - 1, by omega⟩
    simp only [Gms.ProcLang.run, hs]

/-! ## Code length -/

theorem resolve_length (l : Option Name) (a b : Int) (ops : List Op) : (resolve l a b ops).length = ops.length := by
  cases l <;> simp [resolve]

theorem compile_length (s : Stmt) : ∀ base lb, (compile base lb s).1.length = codeLen s := by
  induction s with
  | skip => intros; rfl
  | seq a b iha ihb => intro base lb; simp [compile, codeLen, iha, ihb]
  | block l b ih => intro base lb; simp [compile, codeLen, resolve_length, ih]
  | declare => intros; rfl
  | set => intros; rfl
  | emit => intros; rfl
  | ite c t e iht ihe => intro base lb; simp [compile, codeLen, iht, ihe]; omega
  | caseNotFound => intros; rfl
  | «while» l c b ih => intro base lb; simp [compile, codeLen, resolve_length, ih]
  | «repeat» l b c ih => intro base lb; simp [compile, codeLen, resolve_length, ih]; omega
  | loop l b ih => intro base lb; simp [compile, codeLen, resolve_length, ih]
  | leave => intros; rfl
  | iterate => intros; rfl
  | signal => intros; rfl


/-! ## The compiler on the jump-free fragment: no placeholder, `resolve` is the identity -/

/-- `compile` without label table and `resolve` (equal to it on jump-free statements). -/
def cjf (base : Nat) : Stmt → List Op
  | .skip => []
  | .seq a b => cjf base a ++ cjf (base + codeLen a) b
  | .block label body =>
    .scopeBegin label ((base + 1 : Nat) : Int) ::
      (cjf (base + 1) body ++ [.scopeEnd label ((base + 1 + codeLen body + 1 : Nat) : Int)])
  | .declare x d => [.declare x d]
  | .set x e => [.set x e]
  | .emit e => [.exec e]
  | .ite c t e =>
    .ifz c ((base + 1 + codeLen t + 1 : Nat) : Int) ::
      (cjf (base + 1) t ++ [.goto none ((base + 1 + codeLen t + 1 + codeLen e : Nat) : Int)] ++
        cjf (base + 1 + codeLen t + 1) e)
  | .caseNotFound => [.exception]
  | .while _ c b =>
    .ifz c ((base + 1 + codeLen b + 1 : Nat) : Int) :: (cjf (base + 1) b ++ [.goto none (base : Int)])
  | .repeat _ b c =>
    cjf base b ++ (.ifz (.not c) ((base + codeLen b + 1 + codeLen b + 1 : Nat) : Int) ::
      (cjf (base + codeLen b + 1) b ++ [.goto none ((base + codeLen b : Nat) : Int)]))
  | .loop l b => cjf base b ++ [.goto l (base : Int)]
  | .leave l => [.goto (some l) (-2)]
  | .iterate l => [.goto (some l) (-1)]
  | .signal => [.signal]

theorem cjf_length (s : Stmt) : ∀ base, (cjf base s).length = codeLen s := by
  induction s with
  | seq a b iha ihb => intro base; simp [cjf, codeLen, iha, ihb]
  | block l b ih => intro base; simp [cjf, codeLen, ih]
  | ite c t e iht ihe => intro base; simp [cjf, codeLen, iht, ihe]; omega
  | «while» l c b ih => intro base; simp [cjf, codeLen, ih]
  | «repeat» l b c ih => intro base; simp [cjf, codeLen, ih]; omega
  | loop l b ih => intro base; simp [cjf, codeLen, ih]
  | _ => intros; rfl

def gotoNonneg : Op → Prop
  | .goto _ idx => 0 ≤ idx
  | _ => True

theorem resolve_id (l : Option Name) (a b : Int) (ops : List Op) (h : ∀ op ∈ ops, gotoNonneg op) :
    resolve l a b ops = ops := by
  cases l with
  | none => rfl
  | some l =>
    simp only [resolve]
    conv => rhs; rw [← List.map_id ops]
    apply List.map_congr_left
    intro op hop
    have := h op hop
    cases op with
    | goto t idx =>
      cases t with
      | none => rfl
      | some t =>
        simp only [gotoNonneg] at this
        simp only [resolveOp, id]
        have h1 : ¬ idx = -1 := by omega
        have h2 : ¬ idx = -2 := by omega
        simp [h1, h2]
    | _ => rfl

theorem cjf_goto_nonneg (s : Stmt) : ∀ base, jumpFree s = true → ∀ op ∈ cjf base s, gotoNonneg op := by
  induction s with
  | seq a b iha ihb =>
    intro base hj op hop
    simp only [jumpFree, Bool.and_eq_true] at hj
    simp only [cjf, List.mem_append] at hop
    rcases hop with h | h
    · exact iha _ hj.1 op h
    · exact ihb _ hj.2 op h
  | block l b ih =>
    intro base hj op hop
    simp only [jumpFree] at hj
    simp only [cjf, List.mem_cons, List.mem_append, List.not_mem_nil, or_false] at hop
    rcases hop with rfl | h | rfl
    · trivial
    · exact ih _ hj op h
    · trivial
  | ite c t e iht ihe =>
    intro base hj op hop
    simp only [jumpFree, Bool.and_eq_true] at hj
    simp only [cjf, List.mem_cons, List.mem_append, List.not_mem_nil, or_false] at hop
    rcases hop with rfl | (h | rfl) | h
    · trivial
    · exact iht _ hj.1 op h
    · simp only [gotoNonneg]; omega
    · exact ihe _ hj.2 op h
  | «while» l c b ih =>
    intro base hj op hop
    simp only [jumpFree] at hj
    simp only [cjf, List.mem_cons, List.mem_append, List.not_mem_nil, or_false] at hop
    rcases hop with rfl | h | rfl
    · trivial
    · exact ih _ hj op h
    · simp only [gotoNonneg]; omega
  | «repeat» l b c ih =>
    intro base hj op hop
    simp only [jumpFree] at hj
    simp only [cjf, List.mem_cons, List.mem_append, List.not_mem_nil, or_false] at hop
    rcases hop with h | rfl | h | rfl
    · exact ih _ hj op h
    · trivial
    · exact ih _ hj op h
    · simp only [gotoNonneg]; omega
  | loop l b ih =>
    intro base hj op hop
    simp only [jumpFree] at hj
    simp only [cjf, List.mem_cons, List.mem_append, List.not_mem_nil, or_false] at hop
    rcases hop with h | rfl
    · exact ih _ hj op h
    · simp only [gotoNonneg]; omega
  | leave => intro base hj; simp [jumpFree] at hj
  | iterate => intro base hj; simp [jumpFree] at hj
  | skip => intro base hj op hop; simp [cjf] at hop
  | _ =>
    intro base hj op hop
    simp only [cjf, List.mem_cons, List.not_mem_nil, or_false] at hop
    subst hop
    trivial

theorem compile_eq_cjf (s : Stmt) : ∀ base lb, jumpFree s = true → (compile base lb s).1 = cjf base s := by
  induction s with
  | seq a b iha ihb =>
    intro base lb hj
    simp only [jumpFree, Bool.and_eq_true] at hj
    simp only [compile, cjf, cjf_length, iha _ _ hj.1, ihb _ _ hj.2]
  | block l b ih =>
    intro base lb hj
    have hj' : jumpFree b = true := by simpa [jumpFree] using hj
    simp only [compile, cjf, cjf_length, ih _ _ hj']
    rw [resolve_id]
    intro op hop
    simp only [List.mem_cons, List.mem_append, List.not_mem_nil, or_false] at hop
    rcases hop with h | rfl
    · exact cjf_goto_nonneg b _ hj' op h
    · trivial
  | ite c t e iht ihe =>
    intro base lb hj
    simp only [jumpFree, Bool.and_eq_true] at hj
    simp only [compile, cjf, cjf_length, iht _ _ hj.1, ihe _ _ hj.2]
  | «while» l c b ih =>
    intro base lb hj
    have hj' : jumpFree b = true := by simpa [jumpFree] using hj
    simp only [compile, cjf, cjf_length, ih _ _ hj']
    rw [resolve_id]
    intro op hop
    simp only [List.mem_cons, List.mem_append, List.not_mem_nil, or_false] at hop
    rcases hop with rfl | h | rfl
    · trivial
    · exact cjf_goto_nonneg b _ hj' op h
    · simp only [gotoNonneg]; omega
  | «repeat» l b c ih =>
    intro base lb hj
    have hj' : jumpFree b = true := by simpa [jumpFree] using hj
    simp only [compile, cjf, cjf_length, ih _ _ hj']
    rw [resolve_id]
    intro op hop
    simp only [List.mem_cons, List.mem_append, List.not_mem_nil, or_false] at hop
    rcases hop with h | rfl | h | rfl
    · exact cjf_goto_nonneg b _ hj' op h
    · trivial
    · exact cjf_goto_nonneg b _ hj' op h
    · simp only [gotoNonneg]; omega
  | loop l b ih =>
    intro base lb hj
    have hj' : jumpFree b = true := by simpa [jumpFree] using hj
    simp only [compile, cjf, cjf_length, ih _ _ hj']
    rw [resolve_id]
    intro op hop
    simp only [List.mem_cons, List.mem_append, List.not_mem_nil, or_false] at hop
    rcases hop with h | rfl
    · exact cjf_goto_nonneg b _ hj' op h
    · simp only [gotoNonneg]; omega
  | leave => intro base lb hj; simp [jumpFree] at hj
  | iterate => intro base lb hj; simp [jumpFree] at hj
  | _ => intros; rfl


/-! ## Scope scans over compiled code are stack-neutral -/

theorem scanList_append (fwd : Bool) (a b : List Op) (st : List Scope) :
    scanList fwd (a ++ b) st = (scanList fwd a st).bind (scanList fwd b) := by
  induction a generalizing st with
  | nil => rfl
  | cons op a ih =>
    simp only [List.cons_append, scanList]
    cases applyScope fwd op st with
    | none => rfl
    | some st' => exact ih st'

theorem scan_cjf (s : Stmt) : ∀ base st, scanList true (cjf base s) st = some st ∧
    scanList false (cjf base s).reverse st = some st := by
  induction s with
  | seq a b iha ihb =>
    intro base st
    simp only [cjf, List.reverse_append, scanList_append, (iha _ _).1, (iha _ _).2, (ihb _ _).1, (ihb _ _).2,
      Option.bind_some, and_self]
  | block l b ih =>
    intro base st
    simp only [cjf, List.reverse_cons, List.reverse_append, List.reverse_nil, List.nil_append,
      List.cons_append, scanList, applyScope, scanList_append, (ih _ _).1, (ih _ _).2, Option.bind_some, popStack,
      if_true, and_self, Bool.false_eq_true, if_false, List.append_assoc]
  | ite c t e iht ihe =>
    intro base st
    simp only [cjf, List.reverse_cons, List.reverse_append, List.reverse_nil, List.nil_append,
      List.cons_append, scanList, applyScope, scanList_append, (iht _ _).1, (iht _ _).2, (ihe _ _).1, (ihe _ _).2,
      Option.bind_some, and_self, List.append_assoc, List.singleton_append]
  | «while» l c b ih =>
    intro base st
    simp only [cjf, List.reverse_cons, List.reverse_append, List.reverse_nil, List.nil_append,
      List.cons_append, scanList, applyScope, scanList_append, (ih _ _).1, (ih _ _).2, Option.bind_some, and_self,
      List.append_assoc, List.singleton_append]
  | «repeat» l b c ih =>
    intro base st
    simp only [cjf, List.reverse_cons, List.reverse_append, List.reverse_nil, List.nil_append,
      List.cons_append, scanList, applyScope, scanList_append, (ih _ _).1, (ih _ _).2, Option.bind_some, and_self,
      List.append_assoc, List.singleton_append]
  | loop l b ih =>
    intro base st
    simp only [cjf, List.reverse_cons, List.reverse_append, List.reverse_nil, List.nil_append,
      List.cons_append, scanList, applyScope, scanList_append, (ih _ _).1, (ih _ _).2, Option.bind_some, and_self,
      List.append_assoc, List.singleton_append]
  | _ => intro base st; simp [cjf, scanList, applyScope]


/-! ## The structured semantics keeps the height of the scope stack -/

theorem setScope_some_length {x : Name} {v : Val} {s s' : Scope} (h : setScope x v s = some s') : True := trivial

theorem setStack_length {x : Name} {v : Val} : ∀ {st st' : List Scope}, setStack x v st = some st' → st'.length = st.length := by
  intro st
  induction st with
  | nil => intro st' h; simp [setStack] at h
  | cons s r ih =>
    intro st' h
    simp only [setStack] at h
    split at h
    · cases h; rfl
    · cases hr : setStack x v r with
      | none => simp [hr] at h
      | some r' =>
        simp only [hr, Option.map_some, Option.some.injEq] at h
        subst h
        simp [ih hr]

theorem set_stack_length {σ σ' : Store} {x : Name} {v : Val} (h : σ.set x v = some σ') :
    σ'.stack.length = σ.stack.length := by
  simp only [Store.set] at h
  split at h
  · rename_i st hst; cases h; exact setStack_length hst
  · split at h
    · cases h; rfl
    · cases h

theorem declare_stack_length {σ σ' : Store} {x : Name} {v : Val} (h : σ.declare x v = some σ') :
    σ'.stack.length = σ.stack.length := by
  simp only [Store.declare] at h
  split at h
  · cases h
  · rename_i s r hs; cases h; simp [hs]

theorem exec_stack_length (sem : Sem) : ∀ n s σ sig σ', exec sem n s σ = some (sig, σ') →
    σ'.stack.length = σ.stack.length := by
  intro n
  induction n with
  | zero => intro s σ sig σ' h; simp [exec] at h
  | succ n ih =>
    intro s σ sig σ' h
    cases s with
    | skip => simp only [exec, Option.some.injEq, Prod.mk.injEq] at h; rw [← h.2]
    | seq a b =>
      simp only [exec] at h
      split at h
      · cases h
      · rename_i σ1 h1
        rw [ih _ _ _ _ h, ih _ _ _ _ h1]
      · rename_i r hne h1
        cases h
        exact ih _ _ _ _ h1
    | block l b =>
      simp only [exec] at h
      split at h
      · cases h
      · rename_i sg σ1 h1
        simp only [Option.some.injEq, Prod.mk.injEq] at h
        rw [← h.2]
        have := ih _ _ _ _ h1
        simp only [Store.push, List.length_cons] at this
        simp only [Store.pop, List.length_tail, this]
        omega
    | declare x d =>
      simp only [exec] at h
      split at h
      · cases h; rfl
      · rename_i σ2 h2; cases h; exact declare_stack_length h2
    | set x e =>
      simp only [exec] at h
      split at h
      · cases h; rfl
      · split at h
        · cases h; rfl
        · rename_i σ2 h2; cases h; exact set_stack_length h2
    | emit e =>
      simp only [exec] at h
      split at h
      · cases h; rfl
      · cases h; rfl
    | ite c t e =>
      simp only [exec] at h
      split at h
      · cases h; rfl
      · split at h
        · exact ih _ _ _ _ h
        · exact ih _ _ _ _ h
    | caseNotFound => simp only [exec, Option.some.injEq, Prod.mk.injEq] at h; rw [← h.2]
    | «while» l c b =>
      simp only [exec] at h
      split at h
      · cases h; rfl
      · split at h
        · cases h; rfl
        · split at h
          · cases h
          · rename_i σ1 h1; rw [ih _ _ _ _ h, ih _ _ _ _ h1]
          · rename_i l' σ1 h1
            split at h
            · rw [ih _ _ _ _ h, ih _ _ _ _ h1]
            · cases h; exact ih _ _ _ _ h1
          · rename_i l' σ1 h1
            split at h <;> (cases h; exact ih _ _ _ _ h1)
          · rename_i e σ1 h1; cases h; exact ih _ _ _ _ h1
    | «repeat» l b c =>
      simp only [exec] at h
      split at h
      · cases h
      · rename_i sg σ1 h1
        have hb := ih _ _ _ _ h1
        have hcheck : ∀ r, repeatCheck sem (evalExpr σ1.look c) σ1 (exec sem n (.repeat l b c) σ1) = some r →
            r.2.stack.length = σ.stack.length := by
          unfold repeatCheck
          intro r hr
          split at hr
          · cases hr; exact hb
          · split at hr
            · cases hr; exact hb
            · obtain ⟨r1, r2⟩ := r; rw [ih _ _ _ _ hr, hb]
          · split at hr
            · obtain ⟨r1, r2⟩ := r; rw [ih _ _ _ _ hr, hb]
            · cases hr; exact hb
        split at h
        · exact hcheck _ h
        · split at h
          · split at h
            · exact hcheck _ h
            · rw [ih _ _ _ _ h, hb]
          · cases h; exact hb
        · split at h <;> (cases h; exact hb)
        · cases h; exact hb
    | loop l b =>
      simp only [exec] at h
      split at h
      · cases h
      · rename_i σ1 h1; rw [ih _ _ _ _ h, ih _ _ _ _ h1]
      · rename_i l' σ1 h1
        split at h
        · rw [ih _ _ _ _ h, ih _ _ _ _ h1]
        · cases h; exact ih _ _ _ _ h1
      · rename_i l' σ1 h1
        split at h <;> (cases h; exact ih _ _ _ _ h1)
      · rename_i e σ1 h1; cases h; exact ih _ _ _ _ h1
    | leave l => simp only [exec, Option.some.injEq, Prod.mk.injEq] at h; rw [← h.2]
    | iterate l => simp only [exec, Option.some.injEq, Prod.mk.injEq] at h; rw [← h.2]
    | signal => simp only [exec, Option.some.injEq, Prod.mk.injEq] at h; rw [← h.2]


/-! ## Single steps at a known position -/

theorem getElem?_mid (A B : List Op) (op : Op) : (A ++ op :: B)[A.length]? = some op := by simp

theorem step_at {ops : List Op} {k : Nat} {op : Op} (h : ops[k]? = some op) (σ : Store) :
    step ops ⟨(k : Int) - 1, σ⟩ = execOp ops k op σ := by
  have h1 : (k : Int) - 1 + 1 = (k : Int) := by omega
  have h2 : ¬ ((k : Int) < 0) := by omega
  simp [step, h1, h2, h]

def isScopeOp : Op → Bool
  | .scopeBegin _ _ => true
  | .scopeEnd _ _ => true
  | _ => false

theorem applyScope_nonscope {fwd : Bool} {op : Op} (h : isScopeOp op = false) (st : List Scope) :
    applyScope fwd op st = some st := by
  cases op <;> simp_all [isScopeOp, applyScope]

theorem getLast?_append_ne_nil {α : Type} {a b : List α} (h : b ≠ []) : (a ++ b).getLast? = b.getLast? := by
  rw [List.getLast?_append]
  cases hb : b.getLast? with
  | none => rw [List.getLast?_eq_none_iff] at hb; exact absurd hb h
  | some x => simp

/-- The last op of the code of a statement that does not end with a block is not a scope op. -/
theorem last_not_scope (s : Stmt) : ∀ base op, endsWithBlock s = false → (cjf base s).getLast? = some op →
    isScopeOp op = false := by
  induction s with
  | seq a b iha ihb =>
    intro base op he hl
    simp only [endsWithBlock] at he
    simp only [cjf] at hl
    by_cases hb : codeLen b = 0
    · simp only [hb, if_true] at he
      have : cjf (base + codeLen a) b = [] := by
        apply List.eq_nil_of_length_eq_zero; rw [cjf_length]; exact hb
      rw [this, List.append_nil] at hl
      exact iha _ _ he hl
    · simp only [hb, if_false] at he
      have hne : cjf (base + codeLen a) b ≠ [] := by
        intro h; apply hb; rw [← cjf_length b (base + codeLen a), h]; rfl
      rw [getLast?_append_ne_nil hne] at hl
      exact ihb _ _ he hl
  | block l b ih => intro base op he; simp [endsWithBlock] at he
  | ite c t e iht ihe =>
    intro base op he hl
    simp only [endsWithBlock, Bool.and_eq_false_iff, bne_eq_false_iff_eq, beq_iff_eq] at he
    simp only [cjf] at hl
    by_cases hb : codeLen e = 0
    · have : cjf (base + 1 + codeLen t + 1) e = [] := by
        apply List.eq_nil_of_length_eq_zero; rw [cjf_length]; exact hb
      rw [this, List.append_nil] at hl
      simp only [List.getLast?_cons_cons, List.getLast?_append, List.getLast?_singleton, Option.or_some,
        List.getLast?_cons, Option.some.injEq] at hl
      simp at hl
      subst hl; rfl
    · have he' : endsWithBlock e = false := by
        rcases he with h | h
        · exact absurd h hb
        · exact h
      have hne : cjf (base + 1 + codeLen t + 1) e ≠ [] := by
        intro h; apply hb; rw [← cjf_length e (base + 1 + codeLen t + 1), h]; rfl
      have : (Op.ifz c ↑(base + 1 + codeLen t + 1) :: (cjf (base + 1) t ++ [Op.goto none ↑(base + 1 + codeLen t + 1 + codeLen e)] ++
          cjf (base + 1 + codeLen t + 1) e)).getLast? = (cjf (base + 1 + codeLen t + 1) e).getLast? := by
        rw [← List.cons_append, getLast?_append_ne_nil hne]
      rw [this] at hl
      exact ihe _ _ he' hl
  | «while» l c b ih =>
    intro base op he hl
    simp only [cjf] at hl
    rw [← List.cons_append, getLast?_append_ne_nil (by simp)] at hl
    simp at hl; subst hl; rfl
  | «repeat» l b c ih =>
    intro base op he hl
    simp only [cjf] at hl
    rw [getLast?_append_ne_nil (by simp), ← List.cons_append, getLast?_append_ne_nil (by simp)] at hl
    simp at hl; subst hl; rfl
  | loop l b ih =>
    intro base op he hl
    simp only [cjf] at hl
    rw [getLast?_append_ne_nil (by simp)] at hl
    simp at hl; subst hl; rfl
  | skip => intro base op he hl; simp [cjf] at hl
  | _ => intro base op he hl; simp [cjf] at hl; subst hl; rfl

theorem scan_dropLast (s : Stmt) (base : Nat) (st : List Scope) (he : endsWithBlock s = false) :
    scanList true (cjf base s).dropLast st = some st := by
  rcases List.eq_nil_or_concat (cjf base s) with h | ⟨L, op, h⟩
  · rw [h]; rfl
  · rw [List.concat_eq_append] at h
    have hl : (cjf base s).getLast? = some op := by rw [h]; simp
    have hns := last_not_scope s base op he hl
    have hfull := (scan_cjf s base st).1
    rw [h] at hfull ⊢
    simp only [List.dropLast_concat]
    rw [scanList_append] at hfull
    cases hL : scanList true L st with
    | none => simp [hL] at hfull
    | some st' =>
      simp only [hL, Option.bind_some, scanList, applyScope_nonscope hns] at hfull
      exact hfull

theorem goto_fwd (A E P : List Op) (t : Option Name) (σ : Store)
    (h : scanList true E.dropLast σ.stack = some σ.stack) :
    gotoStep (A ++ Op.goto t ((A.length + 1 + E.length : Nat) : Int) :: (E ++ P)) A.length
        ((A.length + 1 + E.length : Nat) : Int) σ
      = .running ⟨((A.length + 1 + E.length : Nat) : Int) - 1, σ⟩ := by
  unfold gotoStep
  have h1 : (A.length : Int) ≤ ((A.length + 1 + E.length : Nat) : Int) := by omega
  simp only [h1, if_true]
  by_cases hE : E.length = 0
  · have : ¬ ((A.length : Int) < ((A.length + 1 + E.length : Nat) : Int) - 1) := by omega
    simp only [this, if_false]
    congr 2
    omega
  · have h2 : (A.length : Int) < ((A.length + 1 + E.length : Nat) : Int) - 1 := by omega
    have h3 : (((A.length + 1 + E.length : Nat) : Int) - 1).toNat = A.length + E.length := by omega
    simp only [h2, if_true, h3]
    have h4 : ¬ (A.length + E.length > (A ++ Op.goto t ((A.length + 1 + E.length : Nat) : Int) :: (E ++ P)).length) := by
      simp; omega
    simp only [h4, if_false]
    have h5 : ((A ++ Op.goto t ((A.length + 1 + E.length : Nat) : Int) :: (E ++ P)).drop A.length).take (A.length + E.length - A.length)
        = Op.goto t ((A.length + 1 + E.length : Nat) : Int) :: E.dropLast := by
      rw [List.drop_left]
      have : A.length + E.length - A.length = (E.length - 1) + 1 := by omega
      rw [this, List.take_succ_cons, List.take_append_of_le_length (by omega), List.dropLast_eq_take]
    rw [h5]
    simp only [scanList, applyScope, h]

theorem goto_bwd (A L P : List Op) (t : Option Name) (σ : Store) (hL : L ≠ [])
    (h : scanList false (L ++ [Op.goto t (A.length : Int)]).reverse σ.stack = some σ.stack) :
    gotoStep (A ++ L ++ Op.goto t (A.length : Int) :: P) (A.length + L.length) (A.length : Int) σ
      = .running ⟨(A.length : Int) - 1, σ⟩ := by
  unfold gotoStep
  have hpos : 0 < L.length := List.length_pos_iff.mpr hL
  have h1 : ¬ (((A.length + L.length : Nat) : Int) ≤ (A.length : Int)) := by omega
  have h2 : ¬ ((A.length : Int) < 0) := by omega
  simp only [h1, if_false, h2, Int.toNat_natCast]
  have h5 : ((A ++ L ++ Op.goto t (A.length : Int) :: P).drop A.length).take (A.length + L.length - A.length + 1)
      = L ++ [Op.goto t (A.length : Int)] := by
    rw [List.append_assoc, List.drop_left]
    have : A.length + L.length - A.length + 1 = (L ++ [Op.goto t (A.length : Int)]).length := by simp
    rw [this]
    have : L ++ Op.goto t (A.length : Int) :: P = (L ++ [Op.goto t (A.length : Int)]) ++ P := by simp
    rw [this, List.take_left]
  rw [h5, h]

end Gms.ProcLang
