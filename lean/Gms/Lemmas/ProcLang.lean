/-
Helper lemmas for C24: code layout of `compile`, scope scans, and the forward simulation of the
structured semantics by the op machine on the jump-free fragment.
-/
import Gms.Model.ProcLang
set_option linter.unusedSimpArgs false
set_option linter.unusedVariables false

namespace Gms.ProcLang

/-! ## Reachability of the machine -/

inductive Reaches (ops : List Op) : MState → StepRes → Prop where
  | refl (m : MState) : Reaches ops m (.running m)
  | next {m m' : MState} {r : StepRes} : step ops m = .running m' → Reaches ops m' r → Reaches ops m r
  | halt {m : MState} {o : Outcome} {σ : Store} : step ops m = .done o σ → Reaches ops m (.done o σ)

theorem Reaches.trans {ops : List Op} {m m' : MState} {r : StepRes}
    (h1 : Reaches ops m (.running m')) (h2 : Reaches ops m' r) : Reaches ops m r := by
  generalize hr : StepRes.running m' = r1 at h1
  induction h1 with
  | refl m => cases hr; exact h2
  | next hs _ ih => exact Reaches.next hs (ih hr)
  | halt hs => cases hr

theorem Reaches.one {ops : List Op} {m m' : MState} (h : step ops m = .running m') :
    Reaches ops m (.running m') := Reaches.next h (Reaches.refl m')

/-- A halting reachability is realised by `run` with enough fuel. -/
theorem Reaches.run {ops : List Op} {m : MState} {o : Outcome} {σ : Store}
    (h : Reaches ops m (.done o σ)) : ∃ n, ∀ k, n ≤ k → run k ops m = (o, σ) := by
  generalize hr : StepRes.done o σ = r at h
  induction h with
  | refl m => cases hr
  | next hs _ ih =>
    obtain ⟨n, hn⟩ := ih hr
    refine ⟨n + 1, fun k hk => ?_⟩
    obtain ⟨k', rfl⟩ : ∃ k', k = k' + 1 := ⟨k - 1, by omega⟩
    simp only [Gms.ProcLang.run, hs]
    exact hn k' (by omega)
  | halt hs =>
    cases hr
    refine ⟨1, fun k hk => ?_⟩
    obtain ⟨k', rfl⟩ : ∃ k', k = k' + 1 := ⟨k - 1, by omega⟩
    simp only [Gms.ProcLang.run, hs]

/-! ## Code length -/

theorem resolve_length (l : Option Name) (a b : Int) (ops : List Op) : (resolve l a b ops).length = ops.length := by
  cases l <;> simp [resolve]

theorem compile_length (s : Stmt) : ∀ base lb, (compile base lb s).1.length = codeLen s := by
  induction s with
  | skip => intros; rfl
  | seq a b iha ihb => intro base lb; simp [compile, codeLen, iha, ihb]
  | block l b ih => intro base lb; simp [compile, codeLen, resolve_length, ih]
  | declare => intros; rfl
  | set => intros; rfl
  | emit => intros; rfl
  | ite c t e iht ihe => intro base lb; simp [compile, codeLen, iht, ihe]; omega
  | caseNotFound => intros; rfl
  | «while» l c b ih => intro base lb; simp [compile, codeLen, resolve_length, ih]
  | «repeat» l b c ih => intro base lb; simp [compile, codeLen, resolve_length, ih]; omega
  | loop l b ih => intro base lb; simp [compile, codeLen, resolve_length, ih]
  | leave => intros; rfl
  | iterate => intros; rfl
  | signal => intros; rfl


/-! ## The compiler on the jump-free fragment: no placeholder, `resolve` is the identity -/

/-- `compile` without label table and `resolve` (equal to it on jump-free statements). -/
def cjf (base : Nat) : Stmt → List Op
  | .skip => []
  | .seq a b => cjf base a ++ cjf (base + codeLen a) b
  | .block label body =>
    .scopeBegin label ((base + 1 : Nat) : Int) ::
      (cjf (base + 1) body ++ [.scopeEnd label ((base + 1 + codeLen body + 1 : Nat) : Int)])
  | .declare x d => [.declare x d]
  | .set x e => [.set x e]
  | .emit e => [.exec e]
  | .ite c t e =>
    .ifz c ((base + 1 + codeLen t + 1 : Nat) : Int) ::
      (cjf (base + 1) t ++ [.goto none ((base + 1 + codeLen t + 1 + codeLen e : Nat) : Int)] ++
        cjf (base + 1 + codeLen t + 1) e)
  | .caseNotFound => [.exception]
  | .while _ c b =>
    .ifz c ((base + 1 + codeLen b + 1 : Nat) : Int) :: (cjf (base + 1) b ++ [.goto none (base : Int)])
  | .repeat _ b c =>
    cjf base b ++ (.ifz (.not c) ((base + codeLen b + 1 + codeLen b + 1 : Nat) : Int) ::
      (cjf (base + codeLen b + 1) b ++ [.goto none ((base + codeLen b : Nat) : Int)]))
  | .loop l b => cjf base b ++ [.goto l (base : Int)]
  | .leave l => [.goto (some l) (-2)]
  | .iterate l => [.goto (some l) (-1)]
  | .signal => [.signal]

theorem cjf_length (s : Stmt) : ∀ base, (cjf base s).length = codeLen s := by
  induction s with
  | seq a b iha ihb => intro base; simp [cjf, codeLen, iha, ihb]
  | block l b ih => intro base; simp [cjf, codeLen, ih]
  | ite c t e iht ihe => intro base; simp [cjf, codeLen, iht, ihe]; omega
  | «while» l c b ih => intro base; simp [cjf, codeLen, ih]
  | «repeat» l b c ih => intro base; simp [cjf, codeLen, ih]; omega
  | loop l b ih => intro base; simp [cjf, codeLen, ih]
  | _ => intros; rfl

def gotoNonneg : Op → Prop
  | .goto _ idx => 0 ≤ idx
  | _ => True

theorem resolve_id (l : Option Name) (a b : Int) (ops : List Op) (h : ∀ op ∈ ops, gotoNonneg op) :
    resolve l a b ops = ops := by
  cases l with
  | none => rfl
  | some l =>
    simp only [resolve]
    conv => rhs; rw [← List.map_id ops]
    apply List.map_congr_left
    intro op hop
    have := h op hop
    cases op with
    | goto t idx =>
      cases t with
      | none => rfl
      | some t =>
        simp only [gotoNonneg] at this
        simp only [resolveOp, id]
        have h1 : ¬ idx = -1 := by omega
        have h2 : ¬ idx = -2 := by omega
        simp [h1, h2]
    | _ => rfl

theorem cjf_goto_nonneg (s : Stmt) : ∀ base, jumpFree s = true → ∀ op ∈ cjf base s, gotoNonneg op := by
  induction s with
  | seq a b iha ihb =>
    intro base hj op hop
    simp only [jumpFree, Bool.and_eq_true] at hj
    simp only [cjf, List.mem_append] at hop
    rcases hop with h | h
    · exact iha _ hj.1 op h
    · exact ihb _ hj.2 op h
  | block l b ih =>
    intro base hj op hop
    simp only [jumpFree] at hj
    simp only [cjf, List.mem_cons, List.mem_append, List.not_mem_nil, or_false] at hop
    rcases hop with rfl | h | rfl
    · trivial
    · exact ih _ hj op h
    · trivial
  | ite c t e iht ihe =>
    intro base hj op hop
    simp only [jumpFree, Bool.and_eq_true] at hj
    simp only [cjf, List.mem_cons, List.mem_append, List.not_mem_nil, or_false] at hop
    rcases hop with rfl | (h | rfl) | h
    · trivial
    · exact iht _ hj.1 op h
    · simp only [gotoNonneg]; omega
    · exact ihe _ hj.2 op h
  | «while» l c b ih =>
    intro base hj op hop
    simp only [jumpFree] at hj
    simp only [cjf, List.mem_cons, List.mem_append, List.not_mem_nil, or_false] at hop
    rcases hop with rfl | h | rfl
    · trivial
    · exact ih _ hj op h
    · simp only [gotoNonneg]; omega
  | «repeat» l b c ih =>
    intro base hj op hop
    simp only [jumpFree] at hj
    simp only [cjf, List.mem_cons, List.mem_append, List.not_mem_nil, or_false] at hop
    rcases hop with h | rfl | h | rfl
    · exact ih _ hj op h
    · trivial
    · exact ih _ hj op h
    · simp only [gotoNonneg]; omega
  | loop l b ih =>
    intro base hj op hop
    simp only [jumpFree] at hj
    simp only [cjf, List.mem_cons, List.mem_append, List.not_mem_nil, or_false] at hop
    rcases hop with h | rfl
    · exact ih _ hj op h
    · simp only [gotoNonneg]; omega
  | leave => intro base hj; simp [jumpFree] at hj
  | iterate => intro base hj; simp [jumpFree] at hj
  | skip => intro base hj op hop; simp [cjf] at hop
  | _ =>
    intro base hj op hop
    simp only [cjf, List.mem_cons, List.not_mem_nil, or_false] at hop
    subst hop
    trivial

theorem compile_eq_cjf (s : Stmt) : ∀ base lb, jumpFree s = true → (compile base lb s).1 = cjf base s := by
  induction s with
  | seq a b iha ihb =>
    intro base lb hj
    simp only [jumpFree, Bool.and_eq_true] at hj
    simp only [compile, cjf, cjf_length, iha _ _ hj.1, ihb _ _ hj.2]
  | block l b ih =>
    intro base lb hj
    have hj' : jumpFree b = true := by simpa [jumpFree] using hj
    simp only [compile, cjf, cjf_length, ih _ _ hj']
    rw [resolve_id]
    intro op hop
    simp only [List.mem_cons, List.mem_append, List.not_mem_nil, or_false] at hop
    rcases hop with h | rfl
    · exact cjf_goto_nonneg b _ hj' op h
    · trivial
  | ite c t e iht ihe =>
    intro base lb hj
    simp only [jumpFree, Bool.and_eq_true] at hj
    simp only [compile, cjf, cjf_length, iht _ _ hj.1, ihe _ _ hj.2]
  | «while» l c b ih =>
    intro base lb hj
    have hj' : jumpFree b = true := by simpa [jumpFree] using hj
    simp only [compile, cjf, cjf_length, ih _ _ hj']
    rw [resolve_id]
    intro op hop
    simp only [List.mem_cons, List.mem_append, List.not_mem_nil, or_false] at hop
    rcases hop with rfl | h | rfl
    · trivial
    · exact cjf_goto_nonneg b _ hj' op h
    · simp only [gotoNonneg]; omega
  | «repeat» l b c ih =>
    intro base lb hj
    have hj' : jumpFree b = true := by simpa [jumpFree] using hj
    simp only [compile, cjf, cjf_length, ih _ _ hj']
    rw [resolve_id]
    intro op hop
    simp only [List.mem_cons, List.mem_append, List.not_mem_nil, or_false] at hop
    rcases hop with h | rfl | h | rfl
    · exact cjf_goto_nonneg b _ hj' op h
    · trivial
    · exact cjf_goto_nonneg b _ hj' op h
    · simp only [gotoNonneg]; omega
  | loop l b ih =>
    intro base lb hj
    have hj' : jumpFree b = true := by simpa [jumpFree] using hj
    simp only [compile, cjf, cjf_length, ih _ _ hj']
    rw [resolve_id]
    intro op hop
    simp only [List.mem_cons, List.mem_append, List.not_mem_nil, or_false] at hop
    rcases hop with h | rfl
    · exact cjf_goto_nonneg b _ hj' op h
    · simp only [gotoNonneg]; omega
  | leave => intro base lb hj; simp [jumpFree] at hj
  | iterate => intro base lb hj; simp [jumpFree] at hj
  | _ => intros; rfl


/-! ## Scope scans over compiled code are stack-neutral -/

theorem scanList_append (fwd : Bool) (a b : List Op) (st : List Scope) :
    scanList fwd (a ++ b) st = (scanList fwd a st).bind (scanList fwd b) := by
  induction a generalizing st with
  | nil => rfl
  | cons op a ih =>
    simp only [List.cons_append, scanList]
    cases applyScope fwd op st with
    | none => rfl
    | some st' => exact ih st'

theorem scan_cjf (s : Stmt) : ∀ base st, scanList true (cjf base s) st = some st ∧
    scanList false (cjf base s).reverse st = some st := by
  induction s with
  | seq a b iha ihb =>
    intro base st
    simp only [cjf, List.reverse_append, scanList_append, (iha _ _).1, (iha _ _).2, (ihb _ _).1, (ihb _ _).2,
      Option.bind_some, and_self]
  | block l b ih =>
    intro base st
    simp only [cjf, List.reverse_cons, List.reverse_append, List.reverse_nil, List.nil_append,
      List.cons_append, scanList, applyScope, scanList_append, (ih _ _).1, (ih _ _).2, Option.bind_some, popStack,
      if_true, and_self, Bool.false_eq_true, if_false, List.append_assoc]
  | ite c t e iht ihe =>
    intro base st
    simp only [cjf, List.reverse_cons, List.reverse_append, List.reverse_nil, List.nil_append,
      List.cons_append, scanList, applyScope, scanList_append, (iht _ _).1, (iht _ _).2, (ihe _ _).1, (ihe _ _).2,
      Option.bind_some, and_self, List.append_assoc, List.singleton_append]
  | «while» l c b ih =>
    intro base st
    simp only [cjf, List.reverse_cons, List.reverse_append, List.reverse_nil, List.nil_append,
      List.cons_append, scanList, applyScope, scanList_append, (ih _ _).1, (ih _ _).2, Option.bind_some, and_self,
      List.append_assoc, List.singleton_append]
  | «repeat» l b c ih =>
    intro base st
    simp only [cjf, List.reverse_cons, List.reverse_append, List.reverse_nil, List.nil_append,
      List.cons_append, scanList, applyScope, scanList_append, (ih _ _).1, (ih _ _).2, Option.bind_some, and_self,
      List.append_assoc, List.singleton_append]
  | loop l b ih =>
    intro base st
    simp only [cjf, List.reverse_cons, List.reverse_append, List.reverse_nil, List.nil_append,
      List.cons_append, scanList, applyScope, scanList_append, (ih _ _).1, (ih _ _).2, Option.bind_some, and_self,
      List.append_assoc, List.singleton_append]
  | _ => intro base st; simp [cjf, scanList, applyScope]


/-! ## The structured semantics keeps the height of the scope stack -/

theorem setScope_some_length {x : Name} {v : Val} {s s' : Scope} (h : setScope x v s = some s') : True := trivial

theorem setStack_length {x : Name} {v : Val} : ∀ {st st' : List Scope}, setStack x v st = some st' → st'.length = st.length := by
  intro st
  induction st with
  | nil => intro st' h; simp [setStack] at h
  | cons s r ih =>
    intro st' h
    simp only [setStack] at h
    split at h
    · cases h; rfl
    · cases hr : setStack x v r with
      | none => simp [hr] at h
      | some r' =>
        simp only [hr, Option.map_some, Option.some.injEq] at h
        subst h
        simp [ih hr]

theorem set_stack_length {σ σ' : Store} {x : Name} {v : Val} (h : σ.set x v = some σ') :
    σ'.stack.length = σ.stack.length := by
  simp only [Store.set] at h
  split at h
  · rename_i st hst; cases h; exact setStack_length hst
  · split at h
    · cases h; rfl
    · cases h

theorem declare_stack_length {σ σ' : Store} {x : Name} {v : Val} (h : σ.declare x v = some σ') :
    σ'.stack.length = σ.stack.length := by
  simp only [Store.declare] at h
  split at h
  · cases h
  · rename_i s r hs; cases h; simp [hs]

theorem exec_stack_length (sem : Sem) : ∀ n s σ sig σ', exec sem n s σ = some (sig, σ') →
    σ'.stack.length = σ.stack.length := by
  intro n
  induction n with
  | zero => intro s σ sig σ' h; simp [exec] at h
  | succ n ih =>
    intro s σ sig σ' h
    cases s with
    | skip => simp only [exec, Option.some.injEq, Prod.mk.injEq] at h; rw [← h.2]
    | seq a b =>
      simp only [exec] at h
      split at h
      · cases h
      · rename_i σ1 h1
        rw [ih _ _ _ _ h, ih _ _ _ _ h1]
      · rename_i r hne h1
        cases h
        exact ih _ _ _ _ h1
    | block l b =>
      simp only [exec] at h
      split at h
      · cases h
      · rename_i sg σ1 h1
        simp only [Option.some.injEq, Prod.mk.injEq] at h
        rw [← h.2]
        have := ih _ _ _ _ h1
        simp only [Store.push, List.length_cons] at this
        simp only [Store.pop, List.length_tail, this]
        omega
    | declare x d =>
      simp only [exec] at h
      split at h
      · cases h; rfl
      · rename_i σ2 h2; cases h; exact declare_stack_length h2
    | set x e =>
      simp only [exec] at h
      split at h
      · cases h; rfl
      · split at h
        · cases h; rfl
        · rename_i σ2 h2; cases h; exact set_stack_length h2
    | emit e =>
      simp only [exec] at h
      split at h
      · cases h; rfl
      · cases h; rfl
    | ite c t e =>
      simp only [exec] at h
      split at h
      · cases h; rfl
      · split at h
        · exact ih _ _ _ _ h
        · exact ih _ _ _ _ h
    | caseNotFound => simp only [exec, Option.some.injEq, Prod.mk.injEq] at h; rw [← h.2]
    | «while» l c b =>
      simp only [exec] at h
      split at h
      · cases h; rfl
      · split at h
        · cases h; rfl
        · split at h
          · cases h
          · rename_i σ1 h1; rw [ih _ _ _ _ h, ih _ _ _ _ h1]
          · rename_i l' σ1 h1
            split at h
            · rw [ih _ _ _ _ h, ih _ _ _ _ h1]
            · cases h; exact ih _ _ _ _ h1
          · rename_i l' σ1 h1
            split at h <;> (cases h; exact ih _ _ _ _ h1)
          · rename_i e σ1 h1; cases h; exact ih _ _ _ _ h1
    | «repeat» l b c =>
      simp only [exec] at h
      split at h
      · cases h
      · rename_i sg σ1 h1
        have hb := ih _ _ _ _ h1
        have hcheck : ∀ r, repeatCheck sem (evalExpr σ1.look c) σ1 (exec sem n (.repeat l b c) σ1) = some r →
            r.2.stack.length = σ.stack.length := by
          unfold repeatCheck
          intro r hr
          split at hr
          · cases hr; exact hb
          · split at hr
            · cases hr; exact hb
            · obtain ⟨r1, r2⟩ := r; rw [ih _ _ _ _ hr, hb]
          · split at hr
            · obtain ⟨r1, r2⟩ := r; rw [ih _ _ _ _ hr, hb]
            · cases hr; exact hb
        split at h
        · exact hcheck _ h
        · split at h
          · split at h
            · exact hcheck _ h
            · rw [ih _ _ _ _ h, hb]
          · cases h; exact hb
        · split at h <;> (cases h; exact hb)
        · cases h; exact hb
    | loop l b =>
      simp only [exec] at h
      split at h
      · cases h
      · rename_i σ1 h1; rw [ih _ _ _ _ h, ih _ _ _ _ h1]
      · rename_i l' σ1 h1
        split at h
        · rw [ih _ _ _ _ h, ih _ _ _ _ h1]
        · cases h; exact ih _ _ _ _ h1
      · rename_i l' σ1 h1
        split at h <;> (cases h; exact ih _ _ _ _ h1)
      · rename_i e σ1 h1; cases h; exact ih _ _ _ _ h1
    | leave l => simp only [exec, Option.some.injEq, Prod.mk.injEq] at h; rw [← h.2]
    | iterate l => simp only [exec, Option.some.injEq, Prod.mk.injEq] at h; rw [← h.2]
    | signal => simp only [exec, Option.some.injEq, Prod.mk.injEq] at h; rw [← h.2]


/-! ## Single steps at a known position -/

theorem getElem?_mid (A B : List Op) (op : Op) : (A ++ op :: B)[A.length]? = some op := by simp

theorem step_at {ops : List Op} {k : Nat} {op : Op} (h : ops[k]? = some op) (σ : Store) :
    step ops ⟨(k : Int) - 1, σ⟩ = execOp ops k op σ := by
  have h1 : (k : Int) - 1 + 1 = (k : Int) := by omega
  have h2 : ¬ ((k : Int) < 0) := by omega
  simp [step, h1, h2, h]

def isScopeOp : Op → Bool
  | .scopeBegin _ _ => true
  | .scopeEnd _ _ => true
  | _ => false

theorem applyScope_nonscope {fwd : Bool} {op : Op} (h : isScopeOp op = false) (st : List Scope) :
    applyScope fwd op st = some st := by
  cases op <;> simp_all [isScopeOp, applyScope]

theorem getLast?_append_ne_nil {α : Type} {a b : List α} (h : b ≠ []) : (a ++ b).getLast? = b.getLast? := by
  rw [List.getLast?_append]
  cases hb : b.getLast? with
  | none => rw [List.getLast?_eq_none_iff] at hb; exact absurd hb h
  | some x => simp

/-- The last op of the code of a statement that does not end with a block is not a scope op. -/
theorem last_not_scope (s : Stmt) : ∀ base op, endsWithBlock s = false → (cjf base s).getLast? = some op →
    isScopeOp op = false := by
  induction s with
  | seq a b iha ihb =>
    intro base op he hl
    simp only [endsWithBlock] at he
    simp only [cjf] at hl
    by_cases hb : codeLen b = 0
    · simp only [hb, if_true] at he
      have : cjf (base + codeLen a) b = [] := by
        apply List.eq_nil_of_length_eq_zero; rw [cjf_length]; exact hb
      rw [this, List.append_nil] at hl
      exact iha _ _ he hl
    · simp only [hb, if_false] at he
      have hne : cjf (base + codeLen a) b ≠ [] := by
        intro h; apply hb; rw [← cjf_length b (base + codeLen a), h]; rfl
      rw [getLast?_append_ne_nil hne] at hl
      exact ihb _ _ he hl
  | block l b ih => intro base op he; simp [endsWithBlock] at he
  | ite c t e iht ihe =>
    intro base op he hl
    simp only [endsWithBlock, Bool.and_eq_false_iff, bne_eq_false_iff_eq, beq_iff_eq] at he
    simp only [cjf] at hl
    by_cases hb : codeLen e = 0
    · have : cjf (base + 1 + codeLen t + 1) e = [] := by
        apply List.eq_nil_of_length_eq_zero; rw [cjf_length]; exact hb
      rw [this, List.append_nil] at hl
      simp only [List.getLast?_cons_cons, List.getLast?_append, List.getLast?_singleton, Option.or_some,
        List.getLast?_cons, Option.some.injEq] at hl
      simp at hl
      subst hl; rfl
    · have he' : endsWithBlock e = false := by
        rcases he with h | h
        · exact absurd h hb
        · exact h
      have hne : cjf (base + 1 + codeLen t + 1) e ≠ [] := by
        intro h; apply hb; rw [← cjf_length e (base + 1 + codeLen t + 1), h]; rfl
      have : (Op.ifz c ↑(base + 1 + codeLen t + 1) :: (cjf (base + 1) t ++ [Op.goto none ↑(base + 1 + codeLen t + 1 + codeLen e)] ++
          cjf (base + 1 + codeLen t + 1) e)).getLast? = (cjf (base + 1 + codeLen t + 1) e).getLast? := by
        rw [← List.cons_append, getLast?_append_ne_nil hne]
      rw [this] at hl
      exact ihe _ _ he' hl
  | «while» l c b ih =>
    intro base op he hl
    simp only [cjf] at hl
    rw [← List.cons_append, getLast?_append_ne_nil (by simp)] at hl
    simp at hl; subst hl; rfl
  | «repeat» l b c ih =>
    intro base op he hl
    simp only [cjf] at hl
    rw [getLast?_append_ne_nil (by simp), ← List.cons_append, getLast?_append_ne_nil (by simp)] at hl
    simp at hl; subst hl; rfl
  | loop l b ih =>
    intro base op he hl
    simp only [cjf] at hl
    rw [getLast?_append_ne_nil (by simp)] at hl
    simp at hl; subst hl; rfl
  | skip => intro base op he hl; simp [cjf] at hl
  | _ => intro base op he hl; simp [cjf] at hl; subst hl; rfl

theorem scan_dropLast (s : Stmt) (base : Nat) (st : List Scope) (he : endsWithBlock s = false) :
    scanList true (cjf base s).dropLast st = some st := by
  rcases List.eq_nil_or_concat (cjf base s) with h | ⟨L, op, h⟩
  · rw [h]; rfl
  · rw [List.concat_eq_append] at h
    have hl : (cjf base s).getLast? = some op := by rw [h]; simp
    have hns := last_not_scope s base op he hl
    have hfull := (scan_cjf s base st).1
    rw [h] at hfull ⊢
    simp only [List.dropLast_concat]
    rw [scanList_append] at hfull
    cases hL : scanList true L st with
    | none => simp [hL] at hfull
    | some st' =>
      simp only [hL, Option.bind_some, scanList, applyScope_nonscope hns] at hfull
      exact hfull

theorem goto_fwd (A E P : List Op) (t : Option Name) (σ : Store)
    (h : scanList true E.dropLast σ.stack = some σ.stack) :
    gotoStep (A ++ Op.goto t ((A.length + 1 + E.length : Nat) : Int) :: (E ++ P)) A.length
        ((A.length + 1 + E.length : Nat) : Int) σ
      = .running ⟨((A.length + 1 + E.length : Nat) : Int) - 1, σ⟩ := by
  unfold gotoStep
  have h1 : (A.length : Int) ≤ ((A.length + 1 + E.length : Nat) : Int) := by omega
  simp only [h1, if_true]
  by_cases hE : E.length = 0
  · have : ¬ ((A.length : Int) < ((A.length + 1 + E.length : Nat) : Int) - 1) := by omega
    simp only [this, if_false]
    congr 2
    omega
  · have h2 : (A.length : Int) < ((A.length + 1 + E.length : Nat) : Int) - 1 := by omega
    have h3 : (((A.length + 1 + E.length : Nat) : Int) - 1).toNat = A.length + E.length := by omega
    simp only [h2, if_true, h3]
    have h4 : ¬ (A.length + E.length > (A ++ Op.goto t ((A.length + 1 + E.length : Nat) : Int) :: (E ++ P)).length) := by
      simp; omega
    simp only [h4, if_false]
    have h5 : ((A ++ Op.goto t ((A.length + 1 + E.length : Nat) : Int) :: (E ++ P)).drop A.length).take (A.length + E.length - A.length)
        = Op.goto t ((A.length + 1 + E.length : Nat) : Int) :: E.dropLast := by
      rw [List.drop_left]
      have : A.length + E.length - A.length = (E.length - 1) + 1 := by omega
      rw [this, List.take_succ_cons, List.take_append_of_le_length (by omega), List.dropLast_eq_take]
    rw [h5]
    simp only [scanList, applyScope, h]

theorem goto_bwd (A L P : List Op) (t : Option Name) (σ : Store) (hL : L ≠ [])
    (h : scanList false (L ++ [Op.goto t (A.length : Int)]).reverse σ.stack = some σ.stack) :
    gotoStep (A ++ L ++ Op.goto t (A.length : Int) :: P) (A.length + L.length) (A.length : Int) σ
      = .running ⟨(A.length : Int) - 1, σ⟩ := by
  unfold gotoStep
  have hpos : 0 < L.length := List.length_pos_iff.mpr hL
  have h1 : ¬ (((A.length + L.length : Nat) : Int) ≤ (A.length : Int)) := by omega
  have h2 : ¬ ((A.length : Int) < 0) := by omega
  simp only [h1, if_false, h2, Int.toNat_natCast]
  have h5 : ((A ++ L ++ Op.goto t (A.length : Int) :: P).drop A.length).take (A.length + L.length - A.length + 1)
      = L ++ [Op.goto t (A.length : Int)] := by
    rw [List.append_assoc, List.drop_left]
    have : A.length + L.length - A.length + 1 = (L ++ [Op.goto t (A.length : Int)]).length := by simp
    rw [this]
    have : L ++ Op.goto t (A.length : Int) :: P = (L ++ [Op.goto t (A.length : Int)]) ++ P := by simp
    rw [this, List.take_left]
  rw [h5, h]

/-! ## Forward simulation on the jump-free fragment -/

def loopsNonempty : Stmt → Bool
  | .seq a b => loopsNonempty a && loopsNonempty b
  | .block _ b => loopsNonempty b
  | .ite _ t e => loopsNonempty t && loopsNonempty e
  | .while _ _ b => loopsNonempty b
  | .repeat _ b _ => loopsNonempty b
  | .loop _ b => codeLen b != 0 && loopsNonempty b
  | _ => true

/-- What the machine must do for a structured outcome: from "about to execute op `start`" reach
"about to execute op `stop`" with the same store, or halt with the same error, trace and parameters. -/
def SimGoal (ops : List Op) (start stop : Nat) (σ : Store) : Sig → Store → Prop
  | .normal, σ' => Reaches ops ⟨(start : Int) - 1, σ⟩ (.running ⟨(stop : Int) - 1, σ'⟩)
  | .error e, σ' => ∃ σm, Reaches ops ⟨(start : Int) - 1, σ⟩ (.done (.err e) σm) ∧ σm.sess = σ'.sess ∧ σm.log = σ'.log
  | .leave _, _ => False
  | .iterate _, _ => False

theorem SimGoal.trans {ops : List Op} {a b c : Nat} {σ σ1 σ' : Store} {sig : Sig}
    (h1 : SimGoal ops a b σ .normal σ1) (h2 : SimGoal ops b c σ1 sig σ') : SimGoal ops a c σ sig σ' := by
  cases sig with
  | normal => exact Reaches.trans h1 h2
  | error e => obtain ⟨σm, hr, hs, hl⟩ := h2; exact ⟨σm, Reaches.trans h1 hr, hs, hl⟩
  | leave => exact h2
  | iterate => exact h2

theorem SimGoal.error_mono {ops : List Op} {a b c : Nat} {σ σ1 σ' : Store} {e : Nat}
    (h1 : SimGoal ops a b σ (.error e) σ1) (hs : σ1.sess = σ'.sess) (hl : σ1.log = σ'.log) :
    SimGoal ops a c σ (.error e) σ' := by
  obtain ⟨σm, hr, hs', hl'⟩ := h1
  exact ⟨σm, hr, hs'.trans hs, hl'.trans hl⟩

theorem SimGoal.one {ops : List Op} {a b c : Nat} {σ σ1 σ' : Store} {sig : Sig}
    (h1 : step ops ⟨(a : Int) - 1, σ⟩ = .running ⟨(b : Int) - 1, σ1⟩) (h2 : SimGoal ops b c σ1 sig σ') :
    SimGoal ops a c σ sig σ' :=
  SimGoal.trans (sig := sig) (show SimGoal ops a b σ .normal σ1 from Reaches.one h1) h2

theorem SimGoal.stop {ops : List Op} {a c : Nat} {σ σ' : Store} {e : Nat}
    (h1 : step ops ⟨(a : Int) - 1, σ⟩ = .done (.err e) σ') : SimGoal ops a c σ (.error e) σ' :=
  ⟨σ', Reaches.halt h1, rfl, rfl⟩

theorem SimGoal.refl {ops : List Op} {a : Nat} {σ : Store} : SimGoal ops a a σ .normal σ := Reaches.refl _

theorem declValue_gms (d : Option Int) : declValue Sem.gms d = some (d.getD 0) := by
  cases d <;> rfl


def SimAt (n : Nat) : Prop :=
  ∀ s σ sig σ', exec Sem.gms n s σ = some (sig, σ') → jumpFree s = true → hasElseBlock s = false →
    loopsNonempty s = true → σ.stack ≠ [] →
    ∀ pre post base, pre.length = base →
      SimGoal (pre ++ cjf base s ++ post) base (base + codeLen s) σ sig σ'

theorem stack_ne_of_length {σ σ1 : Store} (h : σ1.stack.length = σ.stack.length) (hne : σ.stack ≠ []) :
    σ1.stack ≠ [] := by
  intro h0; rw [h0] at h; apply hne; exact List.eq_nil_of_length_eq_zero h.symm

theorem sim_atomic (k : Nat) (s : Stmt) (op : Op) (hc : ∀ base, cjf base s = [op]) (hl : codeLen s = 1)
    (σ : Store) (sig : Sig) (σ' : Store) (hne : σ.stack ≠ [])
    (hex : ∀ ops c, match sig with
      | .normal => execOp ops c op σ = .running ⟨c, σ'⟩
      | .error e => execOp ops c op σ = .done (.err e) σ'
      | _ => False)
    (pre post : List Op) (base : Nat) (hb : pre.length = base) :
    SimGoal (pre ++ cjf base s ++ post) base (base + codeLen s) σ sig σ' := by
  subst hb
  rw [hc, hl]
  have hget : (pre ++ [op] ++ post)[pre.length]? = some op := by
    rw [List.append_assoc]; exact getElem?_mid _ _ _
  have hs := step_at hget σ
  have hx := hex (pre ++ [op] ++ post) pre.length
  cases sig with
  | normal =>
    simp only at hx
    rw [hx] at hs
    have hs' : step (pre ++ [op] ++ post) ⟨(pre.length : Int) - 1, σ⟩ =
        .running ⟨((pre.length + 1 : Nat) : Int) - 1, σ'⟩ := by
      rw [hs]; congr 2; omega
    exact SimGoal.one hs' SimGoal.refl
  | error e =>
    simp only at hx
    rw [hx] at hs
    exact SimGoal.stop hs
  | leave => exact hx
  | iterate => exact hx


theorem step_run {ops : List Op} {k : Nat} {op : Op} {σ σ1 : Store} (h : ops[k]? = some op)
    (hx : execOp ops k op σ = .running ⟨(k : Int), σ1⟩) :
    step ops ⟨(k : Int) - 1, σ⟩ = .running ⟨((k + 1 : Nat) : Int) - 1, σ1⟩ := by
  rw [step_at h, hx]; congr 2; omega

theorem step_jump {ops : List Op} {k j : Nat} {op : Op} {σ σ1 : Store} (h : ops[k]? = some op)
    (hx : execOp ops k op σ = .running ⟨(j : Int) - 1, σ1⟩) :
    step ops ⟨(k : Int) - 1, σ⟩ = .running ⟨(j : Int) - 1, σ1⟩ := by
  rw [step_at h, hx]

theorem step_err {ops : List Op} {k : Nat} {op : Op} {σ σ1 : Store} {e : Nat} (h : ops[k]? = some op)
    (hx : execOp ops k op σ = .done (.err e) σ1) :
    step ops ⟨(k : Int) - 1, σ⟩ = .done (.err e) σ1 := by
  rw [step_at h, hx]

theorem sim : ∀ n, SimAt n := by
  intro n
  induction n using Nat.strongRecOn with
  | ind n ih =>
    intro s σ sig σ' h hj he hn hne pre post base hb
    cases n with
    | zero => simp [exec] at h
    | succ k =>
      have ihk : SimAt k := ih k (Nat.lt_succ_self k)
      cases s with
      | skip =>
        simp only [exec, Option.some.injEq, Prod.mk.injEq] at h
        obtain ⟨rfl, rfl⟩ := h
        simp only [cjf, codeLen, Nat.add_zero]
        exact SimGoal.refl
      | declare x d =>
        simp only [exec, declValue_gms] at h
        cases hd : σ.declare x (some (d.getD 0)) with
        | none =>
          simp only [Store.declare] at hd
          split at hd
          · rename_i hs; exact absurd hs hne
          · cases hd
        | some σ2 =>
          simp only [hd, Option.some.injEq, Prod.mk.injEq] at h
          obtain ⟨rfl, rfl⟩ := h
          exact sim_atomic k (.declare x d) (.declare x d) (fun _ => rfl) rfl σ .normal σ2 hne
            (fun ops c => by simp [execOp, hd]) pre post base hb
      | set x e =>
        simp only [exec] at h
        cases hv : evalExpr σ.look e with
        | none =>
          simp only [hv, Option.some.injEq, Prod.mk.injEq] at h
          obtain ⟨rfl, rfl⟩ := h
          exact sim_atomic k (.set x e) (.set x e) (fun _ => rfl) rfl σ (.error 1105) σ hne
            (fun ops c => by simp [execOp, hv]) pre post base hb
        | some v =>
          simp only [hv] at h
          cases hs : σ.set x v with
          | none =>
            simp only [hs, Option.some.injEq, Prod.mk.injEq] at h
            obtain ⟨rfl, rfl⟩ := h
            exact sim_atomic k (.set x e) (.set x e) (fun _ => rfl) rfl σ (.error 1105) σ hne
              (fun ops c => by simp [execOp, hv, hs]) pre post base hb
          | some σ2 =>
            simp only [hs, Option.some.injEq, Prod.mk.injEq] at h
            obtain ⟨rfl, rfl⟩ := h
            exact sim_atomic k (.set x e) (.set x e) (fun _ => rfl) rfl σ .normal σ2 hne
              (fun ops c => by simp [execOp, hv, hs]) pre post base hb
      | emit e =>
        simp only [exec] at h
        cases hv : evalExpr σ.look e with
        | none =>
          simp only [hv, Option.some.injEq, Prod.mk.injEq] at h
          obtain ⟨rfl, rfl⟩ := h
          exact sim_atomic k (.emit e) (.exec e) (fun _ => rfl) rfl σ (.error 1105) σ hne
            (fun ops c => by simp [execOp, hv]) pre post base hb
        | some v =>
          simp only [hv, Option.some.injEq, Prod.mk.injEq] at h
          obtain ⟨rfl, rfl⟩ := h
          exact sim_atomic k (.emit e) (.exec e) (fun _ => rfl) rfl σ .normal (σ.emit v) hne
            (fun ops c => by simp [execOp, hv]) pre post base hb
      | caseNotFound =>
        simp only [exec, Option.some.injEq, Prod.mk.injEq] at h
        obtain ⟨rfl, rfl⟩ := h
        exact sim_atomic k .caseNotFound .exception (fun _ => rfl) rfl σ (.error 1339) σ hne
          (fun ops c => by simp [execOp]) pre post base hb
      | signal =>
        simp only [exec, Option.some.injEq, Prod.mk.injEq] at h
        obtain ⟨rfl, rfl⟩ := h
        exact sim_atomic k .signal .signal (fun _ => rfl) rfl σ (.error 1644) σ hne
          (fun ops c => by simp [execOp]) pre post base hb
      | leave l => simp [jumpFree] at hj
      | iterate l => simp [jumpFree] at hj
      | seq a b =>
        simp only [jumpFree, Bool.and_eq_true] at hj
        simp only [hasElseBlock, Bool.or_eq_false_iff] at he
        simp only [loopsNonempty, Bool.and_eq_true] at hn
        simp only [exec] at h
        simp only [cjf, codeLen]
        have e1 : pre ++ (cjf base a ++ cjf (base + codeLen a) b) ++ post
            = pre ++ cjf base a ++ (cjf (base + codeLen a) b ++ post) := by simp
        have e2 : pre ++ (cjf base a ++ cjf (base + codeLen a) b) ++ post
            = (pre ++ cjf base a) ++ cjf (base + codeLen a) b ++ post := by simp
        have hlen : (pre ++ cjf base a).length = base + codeLen a := by simp [cjf_length, hb]
        split at h
        · cases h
        · rename_i σ1 h1
          have ga := ihk a σ .normal σ1 h1 hj.1 he.1 hn.1 hne pre (cjf (base + codeLen a) b ++ post) base hb
          have hne1 := stack_ne_of_length (exec_stack_length _ _ _ _ _ _ h1) hne
          have gb := ihk b σ1 sig σ' h hj.2 he.2 hn.2 hne1 (pre ++ cjf base a) post (base + codeLen a) hlen
          rw [← e1] at ga
          rw [← e2] at gb
          rw [← Nat.add_assoc]
          exact SimGoal.trans ga gb
        · rename_i r hnn h1
          cases h
          have ga := ihk a σ sig σ' h1 hj.1 he.1 hn.1 hne pre (cjf (base + codeLen a) b ++ post) base hb
          rw [← e1] at ga
          cases sig with
          | normal => exact absurd rfl (hnn σ')
          | error e => exact SimGoal.error_mono ga rfl rfl
          | leave => exact ga
          | iterate => exact ga
      | block l b =>
        have hj' : jumpFree b = true := by simpa [jumpFree] using hj
        have he' : hasElseBlock b = false := by simpa [hasElseBlock] using he
        have hn' : loopsNonempty b = true := by simpa [loopsNonempty] using hn
        subst hb
        simp only [exec] at h
        simp only [cjf, codeLen]
        have e1 : pre ++ (Op.scopeBegin l ((pre.length + 1 : Nat) : Int) :: (cjf (pre.length + 1) b ++
              [Op.scopeEnd l ((pre.length + 1 + codeLen b + 1 : Nat) : Int)])) ++ post
            = pre ++ Op.scopeBegin l ((pre.length + 1 : Nat) : Int) :: (cjf (pre.length + 1) b ++
              [Op.scopeEnd l ((pre.length + 1 + codeLen b + 1 : Nat) : Int)] ++ post) := by simp
        have e2 : pre ++ (Op.scopeBegin l ((pre.length + 1 : Nat) : Int) :: (cjf (pre.length + 1) b ++
              [Op.scopeEnd l ((pre.length + 1 + codeLen b + 1 : Nat) : Int)])) ++ post
            = (pre ++ [Op.scopeBegin l ((pre.length + 1 : Nat) : Int)]) ++ cjf (pre.length + 1) b ++
              ([Op.scopeEnd l ((pre.length + 1 + codeLen b + 1 : Nat) : Int)] ++ post) := by simp
        have e3 : pre ++ (Op.scopeBegin l ((pre.length + 1 : Nat) : Int) :: (cjf (pre.length + 1) b ++
              [Op.scopeEnd l ((pre.length + 1 + codeLen b + 1 : Nat) : Int)])) ++ post
            = (pre ++ Op.scopeBegin l ((pre.length + 1 : Nat) : Int) :: cjf (pre.length + 1) b) ++
              Op.scopeEnd l ((pre.length + 1 + codeLen b + 1 : Nat) : Int) :: post := by simp
        have hl3 : (pre ++ Op.scopeBegin l ((pre.length + 1 : Nat) : Int) :: cjf (pre.length + 1) b).length
            = pre.length + 1 + codeLen b := by simp [cjf_length]; omega
        generalize hops : pre ++ (Op.scopeBegin l ((pre.length + 1 : Nat) : Int) :: (cjf (pre.length + 1) b ++
              [Op.scopeEnd l ((pre.length + 1 + codeLen b + 1 : Nat) : Int)])) ++ post = ops at e1 e2 e3 ⊢
        have g1 : ops[pre.length]? = some (Op.scopeBegin l ((pre.length + 1 : Nat) : Int)) := by
          rw [e1]; exact getElem?_mid _ _ _
        have g3 : ops[pre.length + 1 + codeLen b]? = some (Op.scopeEnd l ((pre.length + 1 + codeLen b + 1 : Nat) : Int)) := by
          rw [e3, ← hl3]; exact getElem?_mid _ _ _
        have step1 := step_run (σ := σ) (σ1 := σ.push) g1 rfl
        split at h
        · cases h
        · rename_i sg σ1 h1
          have gb := ihk b σ.push sg σ1 h1 hj' he' hn' (by simp [Store.push])
            (pre ++ [Op.scopeBegin l ((pre.length + 1 : Nat) : Int)])
            ([Op.scopeEnd l ((pre.length + 1 + codeLen b + 1 : Nat) : Int)] ++ post) (pre.length + 1) (by simp)
          rw [← e2] at gb
          have hlen1 := exec_stack_length _ _ _ _ _ _ h1
          simp only [Store.push, List.length_cons] at hlen1
          cases sg with
          | normal =>
            simp only [Option.some.injEq, Prod.mk.injEq] at h
            obtain ⟨rfl, rfl⟩ := h
            obtain ⟨x, r, hxr⟩ : ∃ x r, σ1.stack = x :: r := by
              cases hs : σ1.stack with
              | nil => rw [hs] at hlen1; simp at hlen1
              | cons x r => exact ⟨x, r, rfl⟩
            have hx3 : execOp ops (pre.length + 1 + codeLen b) (Op.scopeEnd l ((pre.length + 1 + codeLen b + 1 : Nat) : Int)) σ1
                = .running ⟨((pre.length + 1 + codeLen b : Nat) : Int), σ1.pop⟩ := by
              simp [execOp, popStack, hxr, Store.pop]
            have step3 := step_run g3 hx3
            have : pre.length + (codeLen b + 2) = pre.length + 1 + codeLen b + 1 := by omega
            rw [this]
            exact SimGoal.one step1 (SimGoal.trans gb (SimGoal.one step3 SimGoal.refl))
          | error e =>
            simp only [Option.some.injEq, Prod.mk.injEq] at h
            obtain ⟨rfl, rfl⟩ := h
            exact SimGoal.one step1 (SimGoal.error_mono gb rfl rfl)
          | leave l' => exact gb.elim
          | iterate l' => exact gb.elim
      | ite c t e =>
        simp only [jumpFree, Bool.and_eq_true] at hj
        simp only [hasElseBlock, Bool.or_eq_false_iff] at he
        simp only [loopsNonempty, Bool.and_eq_true] at hn
        subst hb
        simp only [exec] at h
        simp only [cjf, codeLen]
        generalize hIFZ : Op.ifz c ((pre.length + 1 + codeLen t + 1 : Nat) : Int) = IFZ
        have e1 : pre ++ (IFZ :: (cjf (pre.length + 1) t ++ [Op.goto none ((pre.length + 1 + codeLen t + 1 + codeLen e : Nat) : Int)] ++
              cjf (pre.length + 1 + codeLen t + 1) e)) ++ post
            = pre ++ IFZ :: (cjf (pre.length + 1) t ++ [Op.goto none ((pre.length + 1 + codeLen t + 1 + codeLen e : Nat) : Int)] ++
              cjf (pre.length + 1 + codeLen t + 1) e ++ post) := by simp
        have e2 : pre ++ (IFZ :: (cjf (pre.length + 1) t ++ [Op.goto none ((pre.length + 1 + codeLen t + 1 + codeLen e : Nat) : Int)] ++
              cjf (pre.length + 1 + codeLen t + 1) e)) ++ post
            = (pre ++ [IFZ]) ++ cjf (pre.length + 1) t ++ ([Op.goto none ((pre.length + 1 + codeLen t + 1 + codeLen e : Nat) : Int)] ++
              cjf (pre.length + 1 + codeLen t + 1) e ++ post) := by simp
        have e3 : pre ++ (IFZ :: (cjf (pre.length + 1) t ++ [Op.goto none ((pre.length + 1 + codeLen t + 1 + codeLen e : Nat) : Int)] ++
              cjf (pre.length + 1 + codeLen t + 1) e)) ++ post
            = (pre ++ IFZ :: cjf (pre.length + 1) t) ++ Op.goto none ((pre.length + 1 + codeLen t + 1 + codeLen e : Nat) : Int) ::
              (cjf (pre.length + 1 + codeLen t + 1) e ++ post) := by simp
        have e4 : pre ++ (IFZ :: (cjf (pre.length + 1) t ++ [Op.goto none ((pre.length + 1 + codeLen t + 1 + codeLen e : Nat) : Int)] ++
              cjf (pre.length + 1 + codeLen t + 1) e)) ++ post
            = (pre ++ IFZ :: (cjf (pre.length + 1) t ++ [Op.goto none ((pre.length + 1 + codeLen t + 1 + codeLen e : Nat) : Int)])) ++
              cjf (pre.length + 1 + codeLen t + 1) e ++ post := by simp
        have hA : (pre ++ IFZ :: cjf (pre.length + 1) t).length = pre.length + 1 + codeLen t := by
          simp [cjf_length]; omega
        have hE : (cjf (pre.length + 1 + codeLen t + 1) e).length = codeLen e := cjf_length _ _
        have hl4 : (pre ++ IFZ :: (cjf (pre.length + 1) t ++ [Op.goto none ((pre.length + 1 + codeLen t + 1 + codeLen e : Nat) : Int)])).length
            = pre.length + 1 + codeLen t + 1 := by simp [cjf_length]; omega
        have hgoto : ∀ σx : Store, gotoStep ((pre ++ IFZ :: cjf (pre.length + 1) t) ++
              Op.goto none ((pre.length + 1 + codeLen t + 1 + codeLen e : Nat) : Int) :: (cjf (pre.length + 1 + codeLen t + 1) e ++ post))
              (pre.length + 1 + codeLen t) ((pre.length + 1 + codeLen t + 1 + codeLen e : Nat) : Int) σx
              = .running ⟨((pre.length + 1 + codeLen t + 1 + codeLen e : Nat) : Int) - 1, σx⟩ := by
          intro σx
          have hg := goto_fwd (pre ++ IFZ :: cjf (pre.length + 1) t) (cjf (pre.length + 1 + codeLen t + 1) e) post none σx
            (scan_dropLast e _ _ he.1.1)
          rw [hA, hE] at hg
          exact hg
        rw [← e3] at hgoto
        generalize hops : pre ++ (IFZ :: (cjf (pre.length + 1) t ++ [Op.goto none ((pre.length + 1 + codeLen t + 1 + codeLen e : Nat) : Int)] ++
              cjf (pre.length + 1 + codeLen t + 1) e)) ++ post = ops at e1 e2 e3 e4 hgoto ⊢
        have g1 : ops[pre.length]? = some IFZ := by rw [e1]; exact getElem?_mid _ _ _
        have g3 : ops[pre.length + 1 + codeLen t]? = some (Op.goto none ((pre.length + 1 + codeLen t + 1 + codeLen e : Nat) : Int)) := by
          rw [e3, ← hA]; exact getElem?_mid _ _ _
        have hstop : pre.length + (codeLen t + codeLen e + 2) = pre.length + 1 + codeLen t + 1 + codeLen e := by omega
        rw [hstop]
        subst hIFZ
        cases hv : evalExpr σ.look c with
        | none =>
          simp only [hv, Option.some.injEq, Prod.mk.injEq] at h
          obtain ⟨rfl, rfl⟩ := h
          exact SimGoal.stop (step_err g1 (by simp [execOp, hv]))
        | some v =>
          simp only [hv] at h
          by_cases hcf : condFalse v = true
          · simp only [hcf, if_true] at h
            have step1 : step ops ⟨(pre.length : Int) - 1, σ⟩ = .running ⟨((pre.length + 1 + codeLen t + 1 : Nat) : Int) - 1, σ⟩ :=
              step_jump g1 (by simp [execOp, hv, hcf])
            have ge := ihk e σ sig σ' h hj.2 he.2 hn.2 hne _ post (pre.length + 1 + codeLen t + 1) hl4
            rw [← e4] at ge
            exact SimGoal.one step1 ge
          · simp only [hcf, if_false] at h
            have step1 : step ops ⟨(pre.length : Int) - 1, σ⟩ = .running ⟨((pre.length + 1 : Nat) : Int) - 1, σ⟩ :=
              step_run g1 (by simp [execOp, hv, hcf])
            have gt := ihk t σ sig σ' h hj.1 he.1.2 hn.1 hne (pre ++ [Op.ifz c ((pre.length + 1 + codeLen t + 1 : Nat) : Int)])
              ([Op.goto none ((pre.length + 1 + codeLen t + 1 + codeLen e : Nat) : Int)] ++ cjf (pre.length + 1 + codeLen t + 1) e ++ post)
              (pre.length + 1) (by simp)
            rw [← e2] at gt
            cases sig with
            | normal =>
              have step3 : step ops ⟨((pre.length + 1 + codeLen t : Nat) : Int) - 1, σ'⟩
                  = .running ⟨((pre.length + 1 + codeLen t + 1 + codeLen e : Nat) : Int) - 1, σ'⟩ :=
                step_jump g3 (by simp only [execOp]; exact hgoto σ')
              exact SimGoal.one step1 (SimGoal.trans gt (SimGoal.one step3 SimGoal.refl))
            | error e' => exact SimGoal.one step1 (SimGoal.error_mono gt rfl rfl)
            | leave l' => exact gt.elim
            | iterate l' => exact gt.elim
      | «while» l c b =>
        have hj' : jumpFree b = true := by simpa [jumpFree] using hj
        have he' : hasElseBlock b = false := by simpa [hasElseBlock] using he
        have hn' : loopsNonempty b = true := by simpa [loopsNonempty] using hn
        subst hb
        simp only [exec] at h
        have gwhile := fun σ1 (h1 : exec Sem.gms k (.while l c b) σ1 = some (sig, σ')) (hne1 : σ1.stack ≠ []) =>
          ihk (.while l c b) σ1 sig σ' h1 hj he hn hne1 pre post pre.length rfl
        simp only [cjf, codeLen] at gwhile ⊢
        generalize hIFZ : Op.ifz c ((pre.length + 1 + codeLen b + 1 : Nat) : Int) = IFZ at gwhile ⊢
        have e1 : pre ++ (IFZ :: (cjf (pre.length + 1) b ++ [Op.goto none (pre.length : Int)])) ++ post
            = pre ++ IFZ :: (cjf (pre.length + 1) b ++ [Op.goto none (pre.length : Int)] ++ post) := by simp
        have e2 : pre ++ (IFZ :: (cjf (pre.length + 1) b ++ [Op.goto none (pre.length : Int)])) ++ post
            = (pre ++ [IFZ]) ++ cjf (pre.length + 1) b ++ ([Op.goto none (pre.length : Int)] ++ post) := by simp
        have e3 : pre ++ (IFZ :: (cjf (pre.length + 1) b ++ [Op.goto none (pre.length : Int)])) ++ post
            = pre ++ (IFZ :: cjf (pre.length + 1) b) ++ Op.goto none (pre.length : Int) :: post := by simp
        have hL : (IFZ :: cjf (pre.length + 1) b).length = 1 + codeLen b := by simp [cjf_length]; omega
        have hgoto : ∀ σx : Store, gotoStep (pre ++ (IFZ :: cjf (pre.length + 1) b) ++ Op.goto none (pre.length : Int) :: post)
              (pre.length + (1 + codeLen b)) (pre.length : Int) σx = .running ⟨(pre.length : Int) - 1, σx⟩ := by
          intro σx
          have hg := goto_bwd pre (IFZ :: cjf (pre.length + 1) b) post none σx (by simp)
            (by subst hIFZ
                simp [scanList_append, scanList, applyScope, (scan_cjf b _ _).2])
          rw [hL] at hg
          exact hg
        have g3 : (pre ++ (IFZ :: cjf (pre.length + 1) b) ++ Op.goto none (pre.length : Int) :: post)[pre.length + (1 + codeLen b)]?
            = some (Op.goto none (pre.length : Int)) := by
          have := getElem?_mid (pre ++ (IFZ :: cjf (pre.length + 1) b)) post (Op.goto none (pre.length : Int))
          rw [List.length_append, hL] at this
          exact this
        rw [← e3] at hgoto g3
        generalize hops : pre ++ (IFZ :: (cjf (pre.length + 1) b ++ [Op.goto none (pre.length : Int)])) ++ post = ops
          at e1 e2 e3 hgoto g3 gwhile ⊢
        have g1 : ops[pre.length]? = some IFZ := by rw [e1]; exact getElem?_mid _ _ _
        subst hIFZ
        cases hv : evalExpr σ.look c with
        | none =>
          simp only [hv, Option.some.injEq, Prod.mk.injEq] at h
          obtain ⟨rfl, rfl⟩ := h
          exact SimGoal.stop (step_err g1 (by simp [execOp, hv]))
        | some v =>
          simp only [hv] at h
          by_cases hcf : condFalse v = true
          · simp only [hcf, if_true, Option.some.injEq, Prod.mk.injEq] at h
            obtain ⟨rfl, rfl⟩ := h
            have step1 : step ops ⟨(pre.length : Int) - 1, σ⟩ = .running ⟨((pre.length + 1 + codeLen b + 1 : Nat) : Int) - 1, σ⟩ :=
              step_jump g1 (by simp [execOp, hv, hcf])
            have : pre.length + (codeLen b + 2) = pre.length + 1 + codeLen b + 1 := by omega
            rw [this]
            exact SimGoal.one step1 SimGoal.refl
          · have hcf' : condFalse v = false := by simpa using hcf
            simp only [hcf', Bool.false_eq_true, if_false] at h
            have step1 : step ops ⟨(pre.length : Int) - 1, σ⟩ = .running ⟨((pre.length + 1 : Nat) : Int) - 1, σ⟩ :=
              step_run g1 (by simp [execOp, hv, hcf])
            have gbody := fun sg σ1 (h1 : exec Sem.gms k b σ = some (sg, σ1)) =>
              ihk b σ sg σ1 h1 hj' he' hn' hne (pre ++ [Op.ifz c ((pre.length + 1 + codeLen b + 1 : Nat) : Int)])
                ([Op.goto none (pre.length : Int)] ++ post) (pre.length + 1) (by simp)
            rw [← e2] at gbody
            split at h
            · cases h
            · rename_i σ1 h1
              have gb := gbody _ _ h1
              have hne1 := stack_ne_of_length (exec_stack_length _ _ _ _ _ _ h1) hne
              have step3 : step ops ⟨((pre.length + 1 + codeLen b : Nat) : Int) - 1, σ1⟩ = .running ⟨(pre.length : Int) - 1, σ1⟩ := by
                have : pre.length + 1 + codeLen b = pre.length + (1 + codeLen b) := by omega
                rw [this]
                exact step_jump g3 (by simp only [execOp]; exact hgoto σ1)
              exact SimGoal.one step1 (SimGoal.trans gb (SimGoal.one step3 (gwhile σ1 h hne1)))
            · rename_i l' σ1 h1; exact (gbody _ _ h1).elim
            · rename_i l' σ1 h1; exact (gbody _ _ h1).elim
            · rename_i e' σ1 h1
              simp only [Option.some.injEq, Prod.mk.injEq] at h
              obtain ⟨rfl, rfl⟩ := h
              exact SimGoal.one step1 (SimGoal.error_mono (gbody _ _ h1) rfl rfl)
      | «repeat» l b c =>
        have hj' : jumpFree b = true := by simpa [jumpFree] using hj
        have he' : hasElseBlock b = false := by simpa [hasElseBlock] using he
        have hn' : loopsNonempty b = true := by simpa [loopsNonempty] using hn
        subst hb
        simp only [cjf, codeLen]
        generalize hIFZ : Op.ifz (Expr.not c) ((pre.length + codeLen b + 1 + codeLen b + 1 : Nat) : Int) = IFZ
        have hA : (pre ++ cjf pre.length b).length = pre.length + codeLen b := by simp [cjf_length]
        have hL : (IFZ :: cjf (pre.length + codeLen b + 1) b).length = 1 + codeLen b := by simp [cjf_length]; omega
        have hl2 : (pre ++ cjf pre.length b ++ [IFZ]).length = pre.length + codeLen b + 1 := by simp [cjf_length]; omega
        have eOnce : pre ++ (cjf pre.length b ++ (IFZ :: (cjf (pre.length + codeLen b + 1) b ++
              [Op.goto none ((pre.length + codeLen b : Nat) : Int)]))) ++ post
            = pre ++ cjf pre.length b ++ ((IFZ :: (cjf (pre.length + codeLen b + 1) b ++
              [Op.goto none ((pre.length + codeLen b : Nat) : Int)])) ++ post) := by simp
        have eIfz : pre ++ (cjf pre.length b ++ (IFZ :: (cjf (pre.length + codeLen b + 1) b ++
              [Op.goto none ((pre.length + codeLen b : Nat) : Int)]))) ++ post
            = (pre ++ cjf pre.length b) ++ IFZ :: (cjf (pre.length + codeLen b + 1) b ++
              [Op.goto none ((pre.length + codeLen b : Nat) : Int)] ++ post) := by simp
        have eB2 : pre ++ (cjf pre.length b ++ (IFZ :: (cjf (pre.length + codeLen b + 1) b ++
              [Op.goto none ((pre.length + codeLen b : Nat) : Int)]))) ++ post
            = (pre ++ cjf pre.length b ++ [IFZ]) ++ cjf (pre.length + codeLen b + 1) b ++
              ([Op.goto none ((pre.length + codeLen b : Nat) : Int)] ++ post) := by simp
        have eGoto : pre ++ (cjf pre.length b ++ (IFZ :: (cjf (pre.length + codeLen b + 1) b ++
              [Op.goto none ((pre.length + codeLen b : Nat) : Int)]))) ++ post
            = (pre ++ cjf pre.length b) ++ (IFZ :: cjf (pre.length + codeLen b + 1) b) ++
              Op.goto none ((pre.length + codeLen b : Nat) : Int) :: post := by simp
        have hgoto : ∀ σx : Store, gotoStep ((pre ++ cjf pre.length b) ++ (IFZ :: cjf (pre.length + codeLen b + 1) b) ++
              Op.goto none ((pre.length + codeLen b : Nat) : Int) :: post)
              (pre.length + codeLen b + (1 + codeLen b)) ((pre.length + codeLen b : Nat) : Int) σx
              = .running ⟨((pre.length + codeLen b : Nat) : Int) - 1, σx⟩ := by
          intro σx
          have hg := goto_bwd (pre ++ cjf pre.length b) (IFZ :: cjf (pre.length + codeLen b + 1) b) post none σx (by simp)
            (by subst hIFZ
                simp [scanList_append, scanList, applyScope, (scan_cjf b _ _).2])
          rw [hL, hA] at hg
          exact hg
        have g3 : ((pre ++ cjf pre.length b) ++ (IFZ :: cjf (pre.length + codeLen b + 1) b) ++
              Op.goto none ((pre.length + codeLen b : Nat) : Int) :: post)[pre.length + codeLen b + (1 + codeLen b)]?
            = some (Op.goto none ((pre.length + codeLen b : Nat) : Int)) := by
          have := getElem?_mid ((pre ++ cjf pre.length b) ++ (IFZ :: cjf (pre.length + codeLen b + 1) b)) post
            (Op.goto none ((pre.length + codeLen b : Nat) : Int))
          rw [List.length_append, hL, hA] at this
          exact this
        rw [← eGoto] at hgoto g3
        generalize hops : pre ++ (cjf pre.length b ++ (IFZ :: (cjf (pre.length + codeLen b + 1) b ++
              [Op.goto none ((pre.length + codeLen b : Nat) : Int)]))) ++ post = ops
          at eOnce eIfz eB2 eGoto hgoto g3 ⊢
        have g2 : ops[pre.length + codeLen b]? = some IFZ := by rw [eIfz, ← hA]; exact getElem?_mid _ _ _
        have hstop : pre.length + (codeLen b + codeLen b + 2) = pre.length + codeLen b + 1 + codeLen b + 1 := by omega
        rw [hstop]
        subst hIFZ
        -- the UNTIL test, from "about to execute the If at loopStart"
        have checkPart : ∀ (σ1 : Store) (sg : Sig) (σ2 : Store) (again : Option (Sig × Store)),
            repeatCheck Sem.gms (evalExpr σ1.look c) σ1 again = some (sg, σ2) →
            (again = some (sg, σ2) → SimGoal ops (pre.length + codeLen b + 1) (pre.length + codeLen b + 1 + codeLen b + 1) σ1 sg σ2) →
            SimGoal ops (pre.length + codeLen b) (pre.length + codeLen b + 1 + codeLen b + 1) σ1 sg σ2 := by
          intro σ1 sg σ2 again hc hag
          unfold repeatCheck at hc
          cases hv : evalExpr σ1.look c with
          | none =>
            simp only [hv, Option.some.injEq, Prod.mk.injEq] at hc
            obtain ⟨rfl, rfl⟩ := hc
            exact SimGoal.stop (step_err g2 (by simp [execOp, evalExpr, hv]))
          | some v =>
            cases v with
            | none =>
              simp only [hv, Sem.gms, if_true, Option.some.injEq, Prod.mk.injEq] at hc
              obtain ⟨rfl, rfl⟩ := hc
              exact SimGoal.one (step_jump g2 (by simp [execOp, evalExpr, hv, not3, condFalse])) SimGoal.refl
            | some x =>
              simp only [hv] at hc
              by_cases hx : x = 0
              · simp only [hx, if_true] at hc
                subst hx
                have step2 : step ops ⟨((pre.length + codeLen b : Nat) : Int) - 1, σ1⟩
                    = .running ⟨((pre.length + codeLen b + 1 : Nat) : Int) - 1, σ1⟩ :=
                  step_run g2 (by simp [execOp, evalExpr, hv, not3, b2v, condFalse, isZero])
                exact SimGoal.one step2 (hag hc)
              · simp only [hx, if_false, Option.some.injEq, Prod.mk.injEq] at hc
                obtain ⟨rfl, rfl⟩ := hc
                exact SimGoal.one (step_jump g2 (by simp [execOp, evalExpr, hv, not3, b2v, hx, condFalse, isZero])) SimGoal.refl
        -- the loop part: from "about to execute the second body copy"
        have loopPart : ∀ j, j ≤ k → ∀ (σ1 : Store) (sg : Sig) (σ2 : Store),
            exec Sem.gms j (.repeat l b c) σ1 = some (sg, σ2) → σ1.stack ≠ [] →
            SimGoal ops (pre.length + codeLen b + 1) (pre.length + codeLen b + 1 + codeLen b + 1) σ1 sg σ2 := by
          intro j
          induction j with
          | zero => intro _ σ1 sg σ2 hx; simp [exec] at hx
          | succ j ihj =>
            intro hjk σ1 sg σ2 hx hne1
            have ihb : SimAt j := ih j (by omega)
            simp only [exec] at hx
            split at hx
            · cases hx
            · rename_i sb σb hb1
              have gb2 := ihb b σ1 sb σb hb1 hj' he' hn' hne1 _ ([Op.goto none ((pre.length + codeLen b : Nat) : Int)] ++ post)
                (pre.length + codeLen b + 1) hl2
              rw [← eB2] at gb2
              have hneb := stack_ne_of_length (exec_stack_length _ _ _ _ _ _ hb1) hne1
              cases sb with
              | normal =>
                simp only at hx
                have step3 : step ops ⟨((pre.length + codeLen b + 1 + codeLen b : Nat) : Int) - 1, σb⟩
                    = .running ⟨((pre.length + codeLen b : Nat) : Int) - 1, σb⟩ := by
                  have : pre.length + codeLen b + 1 + codeLen b = pre.length + codeLen b + (1 + codeLen b) := by omega
                  rw [this]
                  exact step_jump g3 (by simp only [execOp]; exact hgoto σb)
                exact SimGoal.trans gb2 (SimGoal.one step3
                  (checkPart σb sg σ2 _ hx (fun hag => ihj (by omega) σb sg σ2 hag hneb)))
              | error e' =>
                simp only [Option.some.injEq, Prod.mk.injEq] at hx
                obtain ⟨rfl, rfl⟩ := hx
                exact SimGoal.error_mono gb2 rfl rfl
              | leave l' => exact gb2.elim
              | iterate l' => exact gb2.elim
        simp only [exec] at h
        split at h
        · cases h
        · rename_i sb σb hb1
          have gonce := ihk b σ sb σb hb1 hj' he' hn' hne pre
            ((Op.ifz (Expr.not c) ((pre.length + codeLen b + 1 + codeLen b + 1 : Nat) : Int) :: (cjf (pre.length + codeLen b + 1) b ++
              [Op.goto none ((pre.length + codeLen b : Nat) : Int)])) ++ post) pre.length rfl
          rw [← eOnce] at gonce
          have hneb := stack_ne_of_length (exec_stack_length _ _ _ _ _ _ hb1) hne
          cases sb with
          | normal =>
            simp only at h
            exact SimGoal.trans gonce (checkPart σb sig σ' _ h (fun hag => loopPart k (Nat.le_refl k) σb sig σ' hag hneb))
          | error e' =>
            simp only [Option.some.injEq, Prod.mk.injEq] at h
            obtain ⟨rfl, rfl⟩ := h
            exact SimGoal.error_mono gonce rfl rfl
          | leave l' => exact gonce.elim
          | iterate l' => exact gonce.elim
      | loop l b =>
        have hj' : jumpFree b = true := by simpa [jumpFree] using hj
        have he' : hasElseBlock b = false := by simpa [hasElseBlock] using he
        have hn' : codeLen b ≠ 0 ∧ loopsNonempty b = true := by simpa [loopsNonempty] using hn
        subst hb
        simp only [exec] at h
        have gloop := fun σ1 (h1 : exec Sem.gms k (.loop l b) σ1 = some (sig, σ')) (hne1 : σ1.stack ≠ []) =>
          ihk (.loop l b) σ1 sig σ' h1 hj he hn hne1 pre post pre.length rfl
        simp only [cjf, codeLen] at gloop ⊢
        have e2 : pre ++ (cjf pre.length b ++ [Op.goto l (pre.length : Int)]) ++ post
            = pre ++ cjf pre.length b ++ ([Op.goto l (pre.length : Int)] ++ post) := by simp
        have e3 : pre ++ (cjf pre.length b ++ [Op.goto l (pre.length : Int)]) ++ post
            = pre ++ cjf pre.length b ++ Op.goto l (pre.length : Int) :: post := by simp
        have hL : (cjf pre.length b).length = codeLen b := cjf_length _ _
        have hLne : cjf pre.length b ≠ [] := by
          intro h0; apply hn'.1; rw [← hL, h0]; rfl
        have hgoto : ∀ σx : Store, gotoStep (pre ++ cjf pre.length b ++ Op.goto l (pre.length : Int) :: post)
              (pre.length + codeLen b) (pre.length : Int) σx = .running ⟨(pre.length : Int) - 1, σx⟩ := by
          intro σx
          have hg := goto_bwd pre (cjf pre.length b) post l σx hLne
            (by simp [scanList_append, scanList, applyScope, (scan_cjf b _ _).2])
          rw [hL] at hg
          exact hg
        have g3 : (pre ++ cjf pre.length b ++ Op.goto l (pre.length : Int) :: post)[pre.length + codeLen b]?
            = some (Op.goto l (pre.length : Int)) := by
          have := getElem?_mid (pre ++ cjf pre.length b) post (Op.goto l (pre.length : Int))
          rw [List.length_append, hL] at this
          exact this
        rw [← e3] at hgoto g3
        generalize hops : pre ++ (cjf pre.length b ++ [Op.goto l (pre.length : Int)]) ++ post = ops
          at e2 e3 hgoto g3 gloop ⊢
        have gbody := fun sg σ1 (h1 : exec Sem.gms k b σ = some (sg, σ1)) =>
          ihk b σ sg σ1 h1 hj' he' hn'.2 hne pre ([Op.goto l (pre.length : Int)] ++ post) pre.length rfl
        rw [← e2] at gbody
        split at h
        · cases h
        · rename_i σ1 h1
          have gb := gbody _ _ h1
          have hne1 := stack_ne_of_length (exec_stack_length _ _ _ _ _ _ h1) hne
          have step3 : step ops ⟨((pre.length + codeLen b : Nat) : Int) - 1, σ1⟩ = .running ⟨(pre.length : Int) - 1, σ1⟩ :=
            step_jump g3 (by simp only [execOp]; exact hgoto σ1)
          exact SimGoal.trans gb (SimGoal.one step3 (gloop σ1 h hne1))
        · rename_i l' σ1 h1; exact (gbody _ _ h1).elim
        · rename_i l' σ1 h1; exact (gbody _ _ h1).elim
        · rename_i e' σ1 h1
          simp only [Option.some.injEq, Prod.mk.injEq] at h
          obtain ⟨rfl, rfl⟩ := h
          exact SimGoal.error_mono (gbody _ _ h1) rfl rfl

end Gms.ProcLang
