/-
Left outer merge join = left outer join of the SQL definition (same row sequence) on inputs sorted by
an integer key, NULL keys first: whatever the order of passing and failing rows of the residual
filters inside a block of equal keys, and whatever happened for the previous left row, a left row
gets its NULL-extended row iff no right row of its block passes.
-/
import Gms.Lemmas.Merge

namespace Gms.Phys
open Gms.Sql Gms.Rel List

/-- What one left row contributes to a left outer join. -/
def leftRow (m : Row → Row → Bool) (rw : Nat) (a : Row) (R : List Row) : List Row :=
  let ms := R.filter (m a)
  if ms.isEmpty then [a ++ nulls rw] else ms.map (a ++ ·)

theorem leftJoin_eq_flatMap (m : Row → Row → Bool) (rw : Nat) (L R : List Row) :
    leftJoin m rw L R = L.flatMap fun a => leftRow m rw a R := rfl

theorem leftJoin_cons (m : Row → Row → Bool) (rw : Nat) (a : Row) (L R : List Row) :
    leftJoin m rw (a :: L) R = leftRow m rw a R ++ leftJoin m rw L R := by
  simp [leftJoin_eq_flatMap]

theorem leftJoin_nil_left (m : Row → Row → Bool) (rw : Nat) (R : List Row) : leftJoin m rw [] R = [] := rfl

theorem leftRow_dead (m : Row → Row → Bool) (rw : Nat) (a : Row) (R : List Row)
    (h : ∀ b ∈ R, m a b = false) : leftRow m rw a R = [a ++ nulls rw] := by
  have : R.filter (m a) = [] := by
    rw [List.filter_eq_nil_iff]; intro b hb; simp [h b hb]
  simp [leftRow, this]

theorem leftJoin_nil_right (m : Row → Row → Bool) (rw : Nat) (L : List Row) :
    leftJoin m rw L [] = L.map (· ++ nulls rw) := by
  induction L with
  | nil => rfl
  | cons a L ih => rw [leftJoin_cons, ih, leftRow_dead m rw a [] (by simp)]; rfl

theorem leftRow_filter_congr (m : Row → Row → Bool) (rw : Nat) (a : Row) (R R' : List Row)
    (h : R.filter (m a) = R'.filter (m a)) : leftRow m rw a R = leftRow m rw a R' := by
  simp [leftRow, h]

theorem leftJoin_drop_left (m : Row → Row → Bool) (rw : Nat) (a : Row) (L R : List Row)
    (h : ∀ b ∈ R, m a b = false) : leftJoin m rw (a :: L) R = (a ++ nulls rw) :: leftJoin m rw L R := by
  rw [leftJoin_cons, leftRow_dead m rw a R h]; rfl

theorem leftJoin_drop_right (m : Row → Row → Bool) (rw : Nat) (b : Row) (L R : List Row)
    (h : ∀ a ∈ L, m a b = false) : leftJoin m rw L (b :: R) = leftJoin m rw L R := by
  rw [leftJoin_eq_flatMap, leftJoin_eq_flatMap]
  apply flatMap_congr'
  intro a ha
  apply leftRow_filter_congr
  simp [h a ha]

theorem leftJoin_append_left (m : Row → Row → Bool) (rw : Nat) (L1 L2 R : List Row) :
    leftJoin m rw (L1 ++ L2) R = leftJoin m rw L1 R ++ leftJoin m rw L2 R := by
  simp [leftJoin_eq_flatMap, List.flatMap_append]

theorem leftJoin_right_prefix_dead (m : Row → Row → Bool) (rw : Nat) (L B R : List Row)
    (h : ∀ a ∈ L, ∀ b ∈ B, m a b = false) : leftJoin m rw L (B ++ R) = leftJoin m rw L R := by
  rw [leftJoin_eq_flatMap, leftJoin_eq_flatMap]
  apply flatMap_congr'
  intro a ha
  apply leftRow_filter_congr
  have : B.filter (m a) = [] := by
    rw [List.filter_eq_nil_iff]; intro b hb; simp [h a ha b hb]
  simp [List.filter_append, this]

theorem leftJoin_right_suffix_dead (m : Row → Row → Bool) (rw : Nat) (L B R : List Row)
    (h : ∀ a ∈ L, ∀ b ∈ R, m a b = false) : leftJoin m rw L (B ++ R) = leftJoin m rw L B := by
  rw [leftJoin_eq_flatMap, leftJoin_eq_flatMap]
  apply flatMap_congr'
  intro a ha
  apply leftRow_filter_congr
  have : R.filter (m a) = [] := by
    rw [List.filter_eq_nil_iff]; intro b hb; simp [h a ha b hb]
  simp [List.filter_append, this]

/-- Inside a block of equal keys the join condition is the residual filter: the NULL-extended row is
due iff NO row of the block passes — `blockRow` looks at the whole block, not at the last row. -/
theorem leftJoin_block (m sel : Row → Row → Bool) (rw : Nat) (las blk : List Row)
    (h : ∀ a ∈ las, ∀ b ∈ blk, m a b = sel a b) :
    leftJoin m rw las blk = las.flatMap fun a => blockRow true sel rw a blk := by
  rw [leftJoin_eq_flatMap]
  apply flatMap_congr'
  intro a ha
  have hf : blk.filter (m a) = blk.filter (sel a) := List.filter_congr (fun b hb => h a ha b hb)
  simp [leftRow, blockRow, hf]

/-- **Left outer merge join = left outer join**, same row sequence, for every fuel that covers the
inputs. -/
theorem mergeGo_eq_leftJoin (kl kr : Row → Option Int) (sel : Row → Row → Bool) (rw : Nat) :
    ∀ (n : Nat) (L R : List Row), L.length + R.length < n → SortedBy kl L → SortedBy kr R →
      mergeGo true (mergeCmp kl kr) (fun a => (kl a).isNone) sel rw n L R
        = leftJoin (mergeCond kl kr sel) rw L R := by
  intro n
  induction n with
  | zero => intro L R h; omega
  | succ n ih =>
    intro L R hn hL hR
    cases L with
    | nil => simp [mergeGo, leftJoin_nil_left]
    | cons a L =>
      cases R with
      | nil => simp [mergeGo, leftJoin_nil_right]
      | cons b R =>
        have hL' := List.pairwise_cons.mp hL
        have hR' := List.pairwise_cons.mp hR
        simp only [mergeGo]
        cases hc : mergeCmp kl kr a b with
        | none =>
          simp only
          by_cases hnl : (kl a).isNone = true
          · have hka : kl a = none := by simpa using hnl
            simp only [hnl, if_true]
            rw [ih L (b :: R) (by simp at hn ⊢; omega) hL'.2 hR]
            symm
            rw [leftJoin_drop_left]
            · rfl
            · intro b' _
              simp [mergeCond, mergeCmp, hka, cmpK]
          · have hkb : kr b = none := by
              cases hka : kl a with
              | none => simp [hka] at hnl
              | some x =>
                cases hkb : kr b with
                | none => rfl
                | some y => simp [mergeCmp, hka, hkb, cmpK] at hc
            simp only [hnl, Bool.false_eq_true, if_false]
            rw [ih (a :: L) R (by simp at hn ⊢; omega) hL hR'.2]
            symm
            apply leftJoin_drop_right
            intro a' _
            cases hka' : kl a' <;> simp [mergeCond, mergeCmp, hkb, hka', cmpK]
        | some o =>
          obtain ⟨x, hkx⟩ : ∃ x, kl a = some x := by
            cases hka : kl a with
            | none => simp [mergeCmp, hka, cmpK] at hc
            | some x => exact ⟨x, rfl⟩
          obtain ⟨y, hky⟩ : ∃ y, kr b = some y := by
            cases hkb : kr b with
            | none => simp [mergeCmp, hkx, hkb, cmpK] at hc
            | some y => exact ⟨y, rfl⟩
          have hcmp : compare x y = o := by simpa [mergeCmp, hkx, hky, cmpK] using hc
          have hRge := sorted_tail_ge kr b R y hR hky
          have hLge := sorted_tail_ge kl a L x hL hkx
          cases o with
          | lt =>
            have hxy : x < y := Int.compare_eq_lt.mp hcmp
            simp only [if_true]
            rw [ih L (b :: R) (by simp at hn ⊢; omega) hL'.2 hR]
            symm
            rw [leftJoin_drop_left]
            · rfl
            · intro b' hb'
              have : ∃ y', kr b' = some y' ∧ y ≤ y' := by
                rcases List.mem_cons.mp hb' with rfl | h
                · exact ⟨y, hky, Int.le_refl y⟩
                · exact hRge b' h
              obtain ⟨y', hy', hle⟩ := this
              have hne : ¬ x = y' := by omega
              simp [mergeCond, mergeCmp, hkx, hy', cmpK, hne]
          | gt =>
            have hxy : y < x := Int.compare_eq_gt.mp hcmp
            simp only
            rw [ih (a :: L) R (by simp at hn ⊢; omega) hL hR'.2]
            symm
            apply leftJoin_drop_right
            intro a' ha'
            have : ∃ x', kl a' = some x' ∧ x ≤ x' := by
              rcases List.mem_cons.mp ha' with rfl | h
              · exact ⟨x, hkx, Int.le_refl x⟩
              · exact hLge a' h
            obtain ⟨x', hx', hle⟩ := this
            have hne : ¬ x' = y := by omega
            simp [mergeCond, mergeCmp, hky, hx', cmpK, hne]
          | eq =>
            have hxy : x = y := Int.compare_eq_eq.mp hcmp
            subst hxy
            simp only
            have pR : (fun b' => mergeCmp kl kr a b' == some Ordering.eq) = fun r => cmpK (some x) (kr r) == some .eq := by
              funext r; simp [mergeCmp, hkx]
            have pL : (fun a' => mergeCmp kl kr a' b == some Ordering.eq) = fun r => cmpK (kl r) (some x) == some .eq := by
              funext r; simp [mergeCmp, hky]
            rw [pR, pL]
            generalize hTR : R.takeWhile (fun r => cmpK (some x) (kr r) == some .eq) = tR
            generalize hDR : R.dropWhile (fun r => cmpK (some x) (kr r) == some .eq) = dR
            generalize hTL : L.takeWhile (fun r => cmpK (kl r) (some x) == some .eq) = tL
            generalize hDL : L.dropWhile (fun r => cmpK (kl r) (some x) == some .eq) = dL
            have hRsplit : R = tR ++ dR := by rw [← hTR, ← hDR]; exact (List.takeWhile_append_dropWhile).symm
            have hLsplit : L = tL ++ dL := by rw [← hTL, ← hDL]; exact (List.takeWhile_append_dropWhile).symm
            have htR : ∀ r ∈ tR, kr r = some x := by rw [← hTR]; exact takeWhile_key kr x R
            have htL : ∀ r ∈ tL, kl r = some x := by rw [← hTL]; exact takeWhile_key_left kl x L
            have hdR : ∀ r ∈ dR, ∃ y, kr r = some y ∧ x < y := by
              rw [← hDR]; exact dropWhile_gt kr x R hR'.2 hRge
            have hdL : ∀ r ∈ dL, ∃ y, kl r = some y ∧ x < y := by
              rw [← hDL]; exact dropWhile_gt_left kl x L hL'.2 hLge
            have hsdR : SortedBy kr dR := by
              rw [← hDR]; exact hR'.2.sublist (List.dropWhile_sublist _)
            have hsdL : SortedBy kl dL := by
              rw [← hDL]; exact hL'.2.sublist (List.dropWhile_sublist _)
            have hlen : dL.length + dR.length < n := by
              have h1 : dL.length ≤ L.length := by rw [← hDL]; exact (List.dropWhile_sublist _).length_le
              have h2 : dR.length ≤ R.length := by rw [← hDR]; exact (List.dropWhile_sublist _).length_le
              simp at hn; omega
            rw [ih dL dR hlen hsdL hsdR]
            have hkeyL : ∀ a' ∈ a :: tL, kl a' = some x := by
              intro a' h; rcases List.mem_cons.mp h with rfl | h
              · exact hkx
              · exact htL a' h
            have hkeyR : ∀ b' ∈ b :: tR, kr b' = some x := by
              intro b' h; rcases List.mem_cons.mp h with rfl | h
              · exact hky
              · exact htR b' h
            have hblock : ∀ a' ∈ a :: tL, ∀ b' ∈ b :: tR, mergeCond kl kr sel a' b' = sel a' b' := by
              intro a' ha' b' hb'
              simp [mergeCond, mergeCmp, hkeyL a' ha', hkeyR b' hb', cmpK]
            have hdeadR : ∀ a' ∈ a :: tL, ∀ b' ∈ dR, mergeCond kl kr sel a' b' = false := by
              intro a' ha' b' hb'
              obtain ⟨y, hy, hlt⟩ := hdR b' hb'
              have hne : ¬ x = y := by omega
              simp [mergeCond, mergeCmp, hkeyL a' ha', hy, cmpK, hne]
            have hdeadL : ∀ a' ∈ dL, ∀ b' ∈ b :: tR, mergeCond kl kr sel a' b' = false := by
              intro a' ha' b' hb'
              obtain ⟨y, hy, hlt⟩ := hdL a' ha'
              have hne : ¬ y = x := by omega
              simp [mergeCond, mergeCmp, hkeyR b' hb', hy, cmpK, hne]
            have e1 : a :: L = (a :: tL) ++ dL := by rw [hLsplit]; rfl
            have e2 : b :: R = (b :: tR) ++ dR := by rw [hRsplit]; rfl
            rw [e1, e2, leftJoin_append_left,
              leftJoin_right_suffix_dead _ rw (a :: tL) (b :: tR) dR hdeadR,
              leftJoin_right_prefix_dead _ rw dL (b :: tR) dR hdeadL,
              leftJoin_block _ sel rw (a :: tL) (b :: tR) hblock]

end Gms.Phys
