/-
Editor-level lemmas about the MemTable model (keyed tables): the duplicate checks of
`tableEditor.Insert/Update` against the table as it will be after `ApplyEdits`.
-/
import Gms.Lemmas.MemTable

namespace Gms.MemTable

/-- The keyed map the editor state denotes: the stored rows with the pending edits applied. -/
def LMap (sch : Schema) (e : Ed) : KMap := eff sch.pk e.adds e.dels (absT sch.pk e.rows)

theorem mem_sortRows (sch : Schema) (t : List Row) (r : Row) : r ∈ sortRows sch t ↔ r ∈ t :=
  (sortRows_perm sch t).mem_iff

theorem noDupPk_sortRows (sch : Schema) (t : List Row) (h : NoDupPk sch.pk t) : NoDupPk sch.pk (sortRows sch t) :=
  (absT_perm sch.pk _ _ (sortRows_perm sch t).symm h).2

theorem noDupPk_pkApply (sch : Schema) (hci : NoCi sch) (e : Ed) (hnd : NoDupPk sch.pk e.rows) :
    NoDupPk sch.pk (pkApply sch e) :=
  noDupPk_sortRows sch _ (pkApplyU_spec sch hci e hnd).2

/-- a row is in the table-after-ApplyEdits iff the denoted map holds it under its key. -/
theorem mem_pkApply_iff (sch : Schema) (hci : NoCi sch) (e : Ed) (hnd : NoDupPk sch.pk e.rows) (r : Row) :
    r ∈ pkApply sch e ↔ LMap sch e (proj sch.pk r) = some r := by
  obtain ⟨h1, h2⟩ := pkApplyU_spec sch hci e hnd
  unfold pkApply LMap
  rw [mem_sortRows, ← h1, absT_some_iff sch.pk _ h2]
  simp

theorem alGet_eq_find (pk : List Nat) (S : List Row) (hinj : KeyInjOn pk S) (l : List (Key × Row))
    (hk : Keyed pk S l) (row : Row) (hr : row ∈ S) :
    alGet l (getRowKey pk row) = (l.map (·.2)).find? (fun r => decide (proj pk r = proj pk row)) := by
  induction l with
  | nil => simp [alGet]
  | cons a l ih =>
    obtain ⟨k', r'⟩ := a
    have ha := hk (k', r') (by simp)
    simp only at ha
    simp only [alGet, List.map_cons, List.find?_cons]
    by_cases hkk : k' = getRowKey pk row
    · have hp : proj pk r' = proj pk row := hinj r' ha.2 row hr (by rw [← ha.1, hkk])
      simp [hkk, hp]
    · have hp : ¬ proj pk r' = proj pk row := fun e => hkk (by rw [ha.1]; exact key_of_proj e)
      simp only [hkk, if_false, hp, decide_false]
      exact ih hk.tail

theorem find_congr {α : Type} (p q : α → Bool) (l : List α) (h : ∀ a ∈ l, p a = q a) :
    l.find? p = l.find? q := by
  induction l with
  | nil => rfl
  | cons a as ih =>
    simp only [List.find?_cons, h a (by simp)]
    rw [ih (fun b hb => h b (by simp [hb]))]

/-- `pkTableEditAccumulator.Get` is exact: it reports "added" with row `r` iff the denoted map holds
`r` under the key of `row`. -/
theorem pkGet_spec (sch : Schema) (S : List Row) (hinj : KeyInjOn sch.pk S) (e : Ed)
    (hwf : AccWF sch.pk S e) (row : Row) (hr : row ∈ S) :
    LMap sch e (proj sch.pk row)
      = match pkGet sch e row with
        | some (r, true) => some r
        | _ => none := by
  unfold LMap
  rw [eff_apply sch.pk S _ _ hwf.addsKey hwf.addsNd]
  unfold pkGet
  simp only
  rw [alGet_eq_find sch.pk S hinj e.adds hwf.addsKey row hr,
    alGet_eq_find sch.pk S hinj e.dels hwf.delsKey row hr]
  cases ha : (e.adds.map (·.2)).find? (fun r => decide (proj sch.pk r = proj sch.pk row)) with
  | some r => rfl
  | none =>
    simp only
    cases hd : (e.dels.map (·.2)).find? (fun r => decide (proj sch.pk r = proj sch.pk row)) with
    | some r =>
      have : (e.dels.map (·.2)).any (fun d => decide (proj sch.pk d = proj sch.pk row)) = true := by
        rw [List.any_eq_true]
        exact ⟨r, List.mem_of_find?_eq_some hd, by simpa using List.find?_some hd⟩
      simp [this]
    | none =>
      have : (e.dels.map (·.2)).any (fun d => decide (proj sch.pk d = proj sch.pk row)) = false := by
        rw [List.any_eq_false]
        intro x hx
        have := List.find?_eq_none.mp hd x hx
        simpa using this
      simp only [this, Bool.false_eq_true, if_false]
      have hc : e.rows.find? (fun pr => columnsMatch sch.pk [] pr row)
          = e.rows.find? (fun r => decide (proj sch.pk r = proj sch.pk row)) := by
        apply find_congr
        intro a _
        by_cases h : proj sch.pk a = proj sch.pk row
        · simp [h, (columnsMatch_nil_iff sch.pk a row).mpr h]
        · have : ¬ columnsMatch sch.pk [] a row = true := fun e => h ((columnsMatch_nil_iff sch.pk a row).mp e)
          simp [h, Bool.eq_false_iff.mpr this]
      rw [hc]
      unfold absT
      cases e.rows.find? (fun r => decide (proj sch.pk r = proj sch.pk row)) <;> rfl

/-! ### the unique-index check -/

theorem checkUnique_none (sch : Schema) (hk : sch.keyless = false) (e : Ed) (row : Row)
    (us : List (List Nat × List Nat)) (h : checkUnique sch e row us = none) :
    ∀ u ∈ us, hasNullForAnyCols row u.1 = true ∨ pkGetByCols e row u.1 u.2 = none := by
  induction us with
  | nil => simp
  | cons u us ih =>
    obtain ⟨cols, pls⟩ := u
    simp only [checkUnique] at h
    intro v hv
    by_cases hn : hasNullForAnyCols row cols = true
    · simp only [hn, if_true] at h
      rcases List.mem_cons.mp hv with rfl | hv
      · exact Or.inl hn
      · exact ih h v hv
    · simp only [hn, Bool.false_eq_true, if_false, accGetByCols, hk] at h
      cases hg : pkGetByCols e row cols pls with
      | some ex => rw [hg] at h; simp at h
      | none =>
        rw [hg] at h
        rcases List.mem_cons.mp hv with rfl | hv
        · exact Or.inr hg
        · exact ih h v hv

theorem checkUnique_some (sch : Schema) (hk : sch.keyless = false) (e : Ed) (row : Row)
    (us : List (List Nat × List Nat)) (ex : Row) (h : checkUnique sch e row us = some ex) :
    ∃ u ∈ us, hasNullForAnyCols row u.1 = false ∧ pkGetByCols e row u.1 u.2 = some ex := by
  induction us with
  | nil => simp [checkUnique] at h
  | cons u us ih =>
    obtain ⟨cols, pls⟩ := u
    simp only [checkUnique] at h
    by_cases hn : hasNullForAnyCols row cols = true
    · simp only [hn, if_true] at h
      obtain ⟨v, hv, hh⟩ := ih h
      exact ⟨v, List.mem_cons_of_mem _ hv, hh⟩
    · simp only [hn, Bool.false_eq_true, if_false, accGetByCols, hk] at h
      cases hg : pkGetByCols e row cols pls with
      | some ex' =>
        rw [hg] at h
        simp only [Option.some.injEq] at h
        subst h
        exact ⟨(cols, pls), by simp, by simpa using hn, hg⟩
      | none =>
        rw [hg] at h
        obtain ⟨v, hv, hh⟩ := ih h
        exact ⟨v, List.mem_cons_of_mem _ hv, hh⟩

/-- a row with a NULL in every unique index is never rejected by the unique check. -/
theorem checkUnique_null (sch : Schema) (e : Ed) (row : Row) (us : List (List Nat × List Nat))
    (h : ∀ u ∈ us, hasNullForAnyCols row u.1 = true) : checkUnique sch e row us = none := by
  induction us with
  | nil => rfl
  | cons u us ih =>
    obtain ⟨cols, pls⟩ := u
    simp only [checkUnique, h (cols, pls) (by simp), if_true]
    exact ih (fun v hv => h v (by simp [hv]))

theorem pkGetByCols_some_match (e : Ed) (row : Row) (cols pls : List Nat) (ex : Row)
    (h : pkGetByCols e row cols pls = some ex) : columnsMatch cols pls ex row = true := by
  unfold pkGetByCols at h
  split at h
  · cases h
  · split at h
    · rename_i a ha
      simp only [Option.some.injEq] at h
      subst h
      simpa using List.find?_some ha
    · simpa using List.find?_some h

/-- what `inexactNow = false` says, index by index. -/
theorem exact_of_not_inexact (sch : Schema) (hk : sch.keyless = false) (e : Ed) (row : Row)
    (h : inexactNow sch e row = false) :
    ∀ u ∈ sch.uniques, hasNullForAnyCols row u.1 = false →
      (match pkGetByCols e row u.1 u.2 with
       | none => ∀ r ∈ pkApply sch e, columnsMatch u.1 u.2 r row = false
       | some ex => ex ∈ pkApply sch e) := by
  intro u hu hn
  unfold inexactNow at h
  simp only [hk, Bool.not_false, Bool.true_and] at h
  have := List.any_eq_false.mp h u hu
  simp only [hn, Bool.not_false, Bool.true_and] at this
  cases hg : pkGetByCols e row u.1 u.2 with
  | none =>
    rw [hg] at this
    simp only at this ⊢
    intro r hr
    have := List.any_eq_false.mp (by simpa using this) r hr
    simpa using this
  | some ex =>
    rw [hg] at this
    simp only at this ⊢
    simpa using this

/-! ### uniqueness invariant -/

/-- no two rows of `L` with different key values agree on a unique index (NULLs never agree). -/
def ListOK (sch : Schema) (L : List Row) : Prop :=
  ∀ r1 ∈ L, ∀ r2 ∈ L, proj sch.pk r1 ≠ proj sch.pk r2 →
    ∀ u ∈ sch.uniques, hasNullForAnyCols r2 u.1 = false → columnsMatch u.1 u.2 r1 r2 = false

theorem colMatch_symm (pl : Nat) (a b : Val) : colMatch pl a b = colMatch pl b a := by
  unfold colMatch
  split <;> (rw [Bool.eq_iff_iff, beq_iff_eq, beq_iff_eq]; exact eq_comm)

theorem columnsMatch_symm (cols pls : List Nat) (r1 r2 : Row) :
    columnsMatch cols pls r1 r2 = columnsMatch cols pls r2 r1 := by
  induction cols generalizing pls with
  | nil => rfl
  | cons c cs ih => simp only [columnsMatch]; rw [colMatch_symm, ih]

theorem goPrefix_null (n : Nat) (v : Val) : goPrefix n v = .null ↔ v = .null := by
  cases v <;> simp [goPrefix]

theorem colMatch_null_left (pl : Nat) (b : Val) (hb : b ≠ .null) : colMatch pl .null b = false := by
  unfold colMatch
  split
  · have : ¬ goPrefix pl Val.null = goPrefix pl b := by
      intro e
      have : goPrefix pl b = .null := by rw [← e]; rfl
      exact hb ((goPrefix_null pl b).mp this)
    simpa using this
  · have : ¬ Val.null = b := fun e => hb e.symm
    simpa using this

theorem columnsMatch_null_left (cols pls : List Nat) (r1 r2 : Row)
    (h1 : hasNullForAnyCols r1 cols = true) (h2 : hasNullForAnyCols r2 cols = false) :
    columnsMatch cols pls r1 r2 = false := by
  induction cols generalizing pls with
  | nil => simp [hasNullForAnyCols] at h1
  | cons c cs ih =>
    simp only [hasNullForAnyCols, List.any_cons, Bool.or_eq_true, Bool.or_eq_false_iff, beq_iff_eq] at h1 h2
    simp only [columnsMatch, Bool.and_eq_false_iff]
    have h2c : r2.at c ≠ .null := by
      intro e; have := h2.1; simp [e] at this
    rcases h1 with h1 | h1
    · left; rw [h1]; exact colMatch_null_left _ _ h2c
    · right
      exact ih pls.tail (by simpa [hasNullForAnyCols] using h1) (by simpa [hasNullForAnyCols] using h2.2)

/-- Adding `row` under a free key keeps `ListOK` when no row of the table agrees with it on a
unique index in which it has no NULL. -/
theorem listOK_put (sch : Schema) (L L' : List Row) (row : Row) (hok : ListOK sch L)
    (hmem : ∀ r, r ∈ L' ↔ r = row ∨ (proj sch.pk r ≠ proj sch.pk row ∧ r ∈ L))
    (hB : ∀ u ∈ sch.uniques, hasNullForAnyCols row u.1 = false →
      ∀ r ∈ L, proj sch.pk r ≠ proj sch.pk row → columnsMatch u.1 u.2 r row = false) :
    ListOK sch L' := by
  intro r1 h1 r2 h2 hne u hu hn
  rcases (hmem r1).mp h1 with rfl | ⟨hp1, hm1⟩ <;> rcases (hmem r2).mp h2 with rfl | ⟨hp2, hm2⟩
  · exact absurd rfl hne
  · -- r1 = row (new), r2 stored
    rw [columnsMatch_symm]
    by_cases hrn : hasNullForAnyCols r1 u.1 = true
    · rw [columnsMatch_symm]; exact columnsMatch_null_left _ _ _ _ hrn hn
    · exact hB u hu (by simpa using hrn) r2 hm2 hp2
  · exact hB u hu hn r1 hm1 hp1
  · exact hok r1 hm1 r2 hm2 hne u hu hn

theorem listOK_sub (sch : Schema) (L L' : List Row) (hok : ListOK sch L) (hsub : ∀ r ∈ L', r ∈ L) :
    ListOK sch L' :=
  fun r1 h1 r2 h2 hne u hu hn => hok r1 (hsub r1 h1) r2 (hsub r2 h2) hne u hu hn


/-! ### editor steps -/

structure EdInv (sch : Schema) (S : List Row) (e : Ed) : Prop where
  wf : AccWF sch.pk S e
  nd : NoDupPk sch.pk e.rows
  ok : ListOK sch (pkApply sch e)

theorem AccWF_mark {pk : List Nat} {S : List Row} {e : Ed} (b : Bool) (h : AccWF pk S e) : AccWF pk S (e.mark b) :=
  ⟨h.addsKey, h.delsKey, h.addsNd⟩

theorem pkApply_mark (sch : Schema) (e : Ed) (b : Bool) : pkApply sch (e.mark b) = pkApply sch e := rfl

theorem LMap_some (sch : Schema) (hci : NoCi sch) (e : Ed) (hnd : NoDupPk sch.pk e.rows) (k : List Val) (r : Row)
    (h : LMap sch e k = some r) : r ∈ pkApply sch e ∧ proj sch.pk r = k := by
  obtain ⟨h1, h2⟩ := pkApplyU_spec sch hci e hnd
  unfold LMap at h
  rw [← h1, absT_some_iff sch.pk _ h2] at h
  exact ⟨(mem_sortRows sch _ r).mpr h.1, h.2⟩

theorem pkApply_insert_mem (sch : Schema) (hci : NoCi sch) (S : List Row) (hinj : KeyInjOn sch.pk S) (e : Ed)
    (hwf : AccWF sch.pk S e) (hnd : NoDupPk sch.pk e.rows) (row : Row) (hr : row ∈ S) (r : Row) :
    r ∈ pkApply sch (pkInsert sch e row) ↔ r = row ∨ (proj sch.pk r ≠ proj sch.pk row ∧ r ∈ pkApply sch e) := by
  have hrows : (pkInsert sch e row).rows = e.rows := rfl
  rw [mem_pkApply_iff sch hci _ (by rw [hrows]; exact hnd), mem_pkApply_iff sch hci e hnd]
  unfold LMap
  rw [hrows, (eff_insert sch S hinj e hwf row hr _).1]
  simp only [kput]
  by_cases h : proj sch.pk r = proj sch.pk row
  · simp only [h, if_true, Option.some.injEq, ne_eq, not_true_eq_false, false_and, or_false]
    exact eq_comm
  · simp only [h, if_false, ne_eq, not_false_eq_true, true_and]
    constructor
    · intro x; exact Or.inr x
    · rintro (rfl | x)
      · exact absurd rfl h
      · exact x

theorem pkApply_delete_mem (sch : Schema) (hci : NoCi sch) (S : List Row) (hinj : KeyInjOn sch.pk S) (e : Ed)
    (hwf : AccWF sch.pk S e) (hnd : NoDupPk sch.pk e.rows) (d : Row) (hr : d ∈ S) (r : Row) :
    r ∈ pkApply sch (pkDelete sch e d) ↔ (proj sch.pk r ≠ proj sch.pk d ∧ r ∈ pkApply sch e) := by
  have hrows : (pkDelete sch e d).rows = e.rows := rfl
  rw [mem_pkApply_iff sch hci _ (by rw [hrows]; exact hnd), mem_pkApply_iff sch hci e hnd]
  unfold LMap
  rw [hrows, (eff_delete sch S hinj e hwf d hr _).1]
  simp only [kdel]
  by_cases h : proj sch.pk r = proj sch.pk d
  · simp [h]
  · simp [h]

theorem LMap_delete (sch : Schema) (S : List Row) (hinj : KeyInjOn sch.pk S) (e : Ed)
    (hwf : AccWF sch.pk S e) (d : Row) (hr : d ∈ S) :
    LMap sch (pkDelete sch e d) = kdel (LMap sch e) (proj sch.pk d) := by
  unfold LMap
  exact (eff_delete sch S hinj e hwf d hr _).1

theorem edInv_delete (sch : Schema) (hci : NoCi sch) (S : List Row) (hinj : KeyInjOn sch.pk S) (e : Ed)
    (inv : EdInv sch S e) (d : Row) (hr : d ∈ S) : EdInv sch S (pkDelete sch e d) :=
  ⟨(eff_delete sch S hinj e inv.wf d hr (absT sch.pk e.rows)).2, inv.nd,
    listOK_sub sch _ _ inv.ok (fun r h => ((pkApply_delete_mem sch hci S hinj e inv.wf inv.nd d hr r).mp h).2)⟩

/-- The common core of `Insert` and `Update`: the key of `row` is free in the denoted table, the
unique check passed and was exact ⇒ the invariant is kept and the denoted table gains exactly `row`. -/
theorem insert_core (sch : Schema) (hk : sch.keyless = false) (hci : NoCi sch) (S : List Row)
    (hinj : KeyInjOn sch.pk S) (e : Ed) (inv : EdInv sch S e) (row : Row) (hr : row ∈ S)
    (hfree : LMap sch e (proj sch.pk row) = none)
    (hchk : checkUnique sch e row sch.uniques = none) (hex : inexactNow sch e row = false) (g : Bool) :
    EdInv sch S ((pkInsert sch e row).mark g)
      ∧ (∀ r, r ∈ pkApply sch ((pkInsert sch e row).mark g) ↔ r = row ∨ r ∈ pkApply sch e) := by
  have hno : ∀ r ∈ pkApply sch e, proj sch.pk r ≠ proj sch.pk row := by
    intro r hrm hp
    have := (mem_pkApply_iff sch hci e inv.nd r).mp hrm
    rw [hp, hfree] at this; cases this
  have hmem : ∀ r, r ∈ pkApply sch (pkInsert sch e row) ↔ r = row ∨ (proj sch.pk r ≠ proj sch.pk row ∧ r ∈ pkApply sch e) :=
    pkApply_insert_mem sch hci S hinj e inv.wf inv.nd row hr
  have hB : ∀ u ∈ sch.uniques, hasNullForAnyCols row u.1 = false →
      ∀ r ∈ pkApply sch e, proj sch.pk r ≠ proj sch.pk row → columnsMatch u.1 u.2 r row = false := by
    intro u hu hn r hrm _
    have hx := exact_of_not_inexact sch hk e row hex u hu hn
    rcases checkUnique_none sch hk e row sch.uniques hchk u hu with h | h
    · rw [hn] at h; cases h
    · rw [h] at hx; exact hx r hrm
  refine ⟨⟨AccWF_mark g (eff_insert sch S hinj e inv.wf row hr (absT sch.pk e.rows)).2, inv.nd, ?_⟩, ?_⟩
  · rw [pkApply_mark]
    exact listOK_put sch _ _ row inv.ok hmem hB
  · intro r
    rw [pkApply_mark, hmem r]
    constructor
    · rintro (h | ⟨_, h⟩)
      · exact Or.inl h
      · exact Or.inr h
    · rintro (h | h)
      · exact Or.inl h
      · exact Or.inr ⟨hno r h, h⟩

theorem accGet_free (sch : Schema) (hk : sch.keyless = false) (S : List Row) (hinj : KeyInjOn sch.pk S)
    (e : Ed) (hwf : AccWF sch.pk S e) (row : Row) (hr : row ∈ S)
    (h : ∀ r, accGet sch e row ≠ some (r, true)) : LMap sch e (proj sch.pk row) = none := by
  rw [pkGet_spec sch S hinj e hwf row hr]
  simp only [accGet, hk, Bool.false_eq_true, if_false] at h
  cases hg : pkGet sch e row with
  | none => rfl
  | some p =>
    obtain ⟨r, b⟩ := p
    cases b with
    | false => rfl
    | true => exact absurd hg (h r)

/-- `tableEditor.Insert` succeeded ⇒ invariant kept, the denoted table gains exactly the row. -/
theorem edInsert_ok (sch : Schema) (hk : sch.keyless = false) (hci : NoCi sch) (S : List Row)
    (hinj : KeyInjOn sch.pk S) (e : Ed) (inv : EdInv sch S e) (row : Row) (hr : row ∈ S)
    (hex : inexactNow sch e row = false) (e' : Ed) (h : edInsert sch e row = .ok e') :
    EdInv sch S e' ∧ (∀ r, r ∈ pkApply sch e' ↔ r = row ∨ r ∈ pkApply sch e)
      ∧ LMap sch e (proj sch.pk row) = none := by
  unfold edInsert at h
  simp only at h
  have hfree : LMap sch e (proj sch.pk row) = none := by
    apply accGet_free sch hk S hinj e inv.wf row hr
    intro r hg
    rw [hg] at h
    cases h
  have hchk : checkUnique sch e row sch.uniques = none := by
    cases hc : checkUnique sch e row sch.uniques with
    | none => rfl
    | some ex =>
      rw [hc] at h
      split at h <;> cases h
  rw [hchk] at h
  have he' : e' = (pkInsert sch e row).mark (e.inexact || inexactNow sch e row) := by
    split at h
    · cases h
    · simp only [accInsert, hk, Bool.false_eq_true, if_false] at h
      injection h with h; exact h.symm
  subst he'
  obtain ⟨i1, i2⟩ := insert_core sch hk hci S hinj e inv row hr hfree hchk hex (e.inexact || inexactNow sch e row)
  exact ⟨i1, i2, hfree⟩

/-- **No false duplicate** at the editor level: `tableEditor.Insert` fails ⇒ the row it reports
is in the denoted table and really collides with the new row (same key values, or agreement on a
unique index in which the new row has no NULL). -/
theorem edInsert_err (sch : Schema) (hk : sch.keyless = false) (hci : NoCi sch) (S : List Row)
    (hinj : KeyInjOn sch.pk S) (e : Ed) (inv : EdInv sch S e) (row : Row) (hr : row ∈ S)
    (hex : inexactNow sch e row = false) (x : EdErr) (h : edInsert sch e row = .error x) :
    x.existing ∈ pkApply sch e ∧
      (proj sch.pk x.existing = proj sch.pk row ∨
        ∃ u ∈ sch.uniques, hasNullForAnyCols row u.1 = false ∧ columnsMatch u.1 u.2 x.existing row = true) := by
  unfold edInsert at h
  simp only at h
  cases hg : accGet sch e row with
  | some p =>
    obtain ⟨r, b⟩ := p
    cases b with
    | true =>
      rw [hg] at h
      simp only at h
      injection h with h
      subst h
      simp only [accGet, hk, Bool.false_eq_true, if_false] at hg
      have := pkGet_spec sch S hinj e inv.wf row hr
      rw [hg] at this
      simp only at this
      obtain ⟨m1, m2⟩ := LMap_some sch hci e inv.nd _ _ this
      exact ⟨m1, Or.inl m2⟩
    | false =>
      rw [hg] at h
      simp only at h
      cases hc : checkUnique sch e row sch.uniques with
      | none => rw [hc] at h; cases h
      | some ex =>
        rw [hc] at h
        injection h with h
        subst h
        obtain ⟨u, hu, hn, hgc⟩ := checkUnique_some sch hk e row sch.uniques ex hc
        have hx := exact_of_not_inexact sch hk e row hex u hu hn
        rw [hgc] at hx
        exact ⟨hx, Or.inr ⟨u, hu, hn, pkGetByCols_some_match e row u.1 u.2 ex hgc⟩⟩
  | none =>
    rw [hg] at h
    simp only at h
    cases hc : checkUnique sch e row sch.uniques with
    | none => rw [hc] at h; cases h
    | some ex =>
      rw [hc] at h
      injection h with h
      subst h
      obtain ⟨u, hu, hn, hgc⟩ := checkUnique_some sch hk e row sch.uniques ex hc
      have hx := exact_of_not_inexact sch hk e row hex u hu hn
      rw [hgc] at hx
      exact ⟨hx, Or.inr ⟨u, hu, hn, pkGetByCols_some_match e row u.1 u.2 ex hgc⟩⟩

/-- `tableEditor.Update` succeeded ⇒ invariant kept; the denoted table loses the rows with the old
key and gains exactly the new row. -/
theorem edUpdate_ok (sch : Schema) (hk : sch.keyless = false) (hci : NoCi sch) (S : List Row)
    (hinj : KeyInjOn sch.pk S) (e : Ed) (inv : EdInv sch S e) (old new : Row) (ho : old ∈ S) (hn : new ∈ S)
    (hex : inexactNow sch (pkDelete sch e old) new = false) (e' : Ed) (h : edUpdate sch e old new = .ok e') :
    EdInv sch S e' ∧
      (∀ r, r ∈ pkApply sch e' ↔ r = new ∨ (proj sch.pk r ≠ proj sch.pk old ∧ r ∈ pkApply sch e)) := by
  unfold edUpdate at h
  simp only [accDelete, hk, Bool.false_eq_true, if_false] at h
  have inv1 := edInv_delete sch hci S hinj e inv old ho
  have hfree : LMap sch (pkDelete sch e old) (proj sch.pk new) = none := by
    by_cases hd : columnsMatch sch.pk [] old new = true
    · have hp := (columnsMatch_nil_iff sch.pk old new).mp hd
      rw [LMap_delete sch S hinj e inv.wf old ho, ← hp]
      simp [kdel]
    · apply accGet_free sch hk S hinj _ inv1.wf new hn
      intro r hg
      simp only [hd, Bool.not_false, if_true] at h
      have hd' : columnsMatch sch.pk [] old new = false := by simpa using hd
      simp only [hg] at h
      cases h
  have hchk : checkUnique sch (pkDelete sch e old) new sch.uniques = none := by
    cases hc : checkUnique sch (pkDelete sch e old) new sch.uniques with
    | none => rfl
    | some ex =>
      rw [hc] at h
      split at h <;> cases h
  rw [hchk] at h
  have he' : e' = (pkInsert sch (pkDelete sch e old) new).mark (e.inexact || inexactNow sch (pkDelete sch e old) new) := by
    split at h
    · cases h
    · simp only [accInsert, hk, Bool.false_eq_true, if_false] at h
      injection h with h; exact h.symm
  subst he'
  obtain ⟨i1, i2⟩ := insert_core sch hk hci S hinj _ inv1 new hn hfree hchk hex (e.inexact || inexactNow sch (pkDelete sch e old) new)
  refine ⟨i1, ?_⟩
  intro r
  rw [i2 r, pkApply_delete_mem sch hci S hinj e inv.wf inv.nd old ho r]

end Gms.MemTable
